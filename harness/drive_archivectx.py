"""Driver for ArchiveContext (X02): materialise the abstract analysis inputs emitted by TLC
(real files, real tar / zip archives built with tarfile / zipfile) in a scratch world, run the
REAL extract / get_all_files / identify / create_context / initialize_broker / insights._run on
them and record one event per phase.  Contains no oracle: the records are judged by
specs/ArchiveContextTrace.tla.  The only comparisons made here are R4 self-checks of the
harness' own concretisation (name lengths, what is in the archives it built, where Python's
own tarfile / zipfile place the members).

usage: drive_archivectx.py <in.json> <out.json>
in : {"base": dir, "seed": n, "plug": "none"|"on", "light": bool, "reps": k,
      "cases": [{"id", "files", "pack", "wrap", "evil", "override", "where", "inject", "plug", "mode",
                 "space", "lens"}]}
out: {"traces": [{"id", "inp", "registry", "events"}], "idents": {id: [[cls, up, down, len], ..]},
      "stats": {..}, "tools": {..}}

Safety: every name that points outside an extraction directory resolves, even if honoured,
inside the case directory (below `base`); nothing is ever aimed outside the scratch world.
"""
import gzip
import io
import json
import logging
import os
import random
import shutil
import stat
import sys
import tarfile
import tempfile
import zipfile

import insights
from insights.core import archives, dr, hydration
from insights.core import context as ctxmod
from insights.core.context import ExecutionContext, ExecutionContextMeta
from insights.core.plugins import combiner, datasource
from insights.core.serde import Hydration, deserializer, serializer

IC, IA, SOS, JB, PM = "insights_commands", "insights_archive.txt", "sos_commands", "JBOSS_HOME", "plug_marker"
META, ARC, LNF, LND, TOP = "meta_data", "n.tar.gz", "lnf", "lnd", "top"
COMP_LEAVES = ("c1", "c2")
ARCHIVE_PACKS = ("tar", "tgz", "tbz", "txz", "zip")
TAR_MODE = {"tar": "w", "tgz": "w:gz", "tbz": "w:bz2", "txz": "w:xz"}
# the names an archive is given never decide anything (detection is by content): drawn from the seed
EXTS = ["", ".tar", ".tar.gz", ".zip", ".bin", ".tgz", ".xz", ".data"]


class HarnessError(Exception):
    pass


class Injected(Exception):
    """The caller's own failure inside the with block."""


# ---------------------------------------------------------------------------
# hydratable components and their persisted documents (made with the real dehydrate)
# ---------------------------------------------------------------------------

class Val(object):
    def __init__(self, v):
        self.v = v


@serializer(Val)
def _ser_val(obj, root=None):
    return {"v": obj.v}


@deserializer(Val)
def _de_val(_type, data, root=None, ctx=None, ds=None):
    return Val(data["v"])


def _mk_comp(name):
    def comp(broker):
        return Val("fresh-" + name)
    comp.__name__ = comp.__qualname__ = name
    return datasource(ctxmod.HostContext)(comp)


COMPS = dict((n, _mk_comp(n)) for n in COMP_LEAVES)
COMP_OF = dict((v, k) for k, v in COMPS.items())


@combiner(optional=[ctxmod.HostArchiveContext])
def x02_probe(hac):
    return "ran"


SENTINEL = _mk_comp("x02_sentinel")


def make_docs(base):
    """meta_data documents of c1 / c2 written by the real Hydration.dehydrate."""
    d = os.path.join(base, "_docs")
    shutil.rmtree(d, True)
    os.makedirs(d)
    h = Hydration(root=d)
    docs = {}
    for leaf, comp in COMPS.items():
        b = dr.Broker()
        b[comp] = Val("stored-" + leaf)
        b.exec_times[comp] = 0.01
        h.dehydrate(comp, b)
        fn = dr.get_name(comp) + "." + h.ser_name
        with open(os.path.join(h.meta_root, fn)) as f:
            docs[leaf] = (fn, f.read())
    shutil.rmtree(d, True)
    return docs


# ---------------------------------------------------------------------------
# observation without hooks in /repo: recording wrappers around public names
# ---------------------------------------------------------------------------

REC = {"tries": [], "mkdtemp": [], "shuffle": random.Random(0)}

_real_get_all_files = hydration.get_all_files


def _shuffled_listing(path):
    """The order in which a directory is listed is the file system's business: permute it (seeded)."""
    res = list(_real_get_all_files(path))
    REC["shuffle"].shuffle(res)
    return res


hydration.get_all_files = _shuffled_listing

_real_mkdtemp = tempfile.mkdtemp


def _rec_mkdtemp(*a, **kw):
    p = _real_mkdtemp(*a, **kw)
    REC["mkdtemp"].append(p)
    return p


tempfile.mkdtemp = _rec_mkdtemp


def wrap_handles():
    """Record every call of <class>.handles made by ExecutionContextMeta.identify (class, result)."""
    for cls in list(ExecutionContextMeta.registry):
        if "handles" in cls.__dict__ and getattr(cls.__dict__["handles"], "_x02", None):
            continue
        func = None                 # the function that defines handles for this class (never one of our wrappers)
        for k in cls.__mro__:
            h = k.__dict__.get("handles")
            if h is not None:
                func = getattr(h, "_x02", None) or h.__func__
                break
        if func is None:
            raise HarnessError("%s has no handles()" % cls.__name__)

        def rec(c, files, _func=func):
            res = _func(c, files)
            REC["tries"].append((c.__name__, res))
            return res
        cm = classmethod(rec)
        cm._x02 = func
        try:
            setattr(cls, "handles", cm)
        except Exception as ex:
            raise HarnessError("cannot wrap %s.handles: %s" % (cls.__name__, ex))


def register_plugins():
    """'contexts ... may be overridden by just loading a plugin': what a plugin module would define."""
    class PlugSosContext(ExecutionContext):
        marker = SOS

    class PlugOwnContext(ExecutionContext):
        marker = PM
    return PlugSosContext, PlugOwnContext


def registry_view():
    return [dict(n=c.__name__, m=c.marker if isinstance(c.marker, str) else "") for c in ExecutionContextMeta.registry]


# ---------------------------------------------------------------------------
# the scratch world of one case
# ---------------------------------------------------------------------------

def snapshot(top):
    """Every entry below top (not following links): relpath -> (kind, size, mode)."""
    out = {}
    for r, ds, fs in os.walk(top):
        for n in ds + fs:
            p = os.path.join(r, n)
            st = os.lstat(p)
            kind = "l" if stat.S_ISLNK(st.st_mode) else "d" if stat.S_ISDIR(st.st_mode) else "f"
            out[os.path.relpath(p, top)] = (kind, st.st_size if kind == "f" else 0, stat.S_IMODE(st.st_mode))
    return out


def diff_outside(before, after, top, tmpdirs):
    """Entries created / changed / removed outside the extraction directories."""
    tmprel = [os.path.relpath(t, top) for t in tmpdirs]
    res = []
    for k in sorted(set(before) | set(after)):
        if any(k == t or k.startswith(t + os.sep) for t in tmprel):
            continue
        if before.get(k) != after.get(k):
            res.append(("+" if k not in before else "-" if k not in after else "~") + k)
    return res


class World(object):
    def __init__(self, base, idx, case, rng, docs, stats, reuse=False):
        self.case = case
        self.rng = rng
        self.docs = docs
        self.stats = stats
        self.reuse = reuse        # light mode: one world for all cases, only the files are removed in between
        self.made = []
        self.top = os.path.join(base, "L" if reuse else "c%d" % idx)
        if not reuse:
            shutil.rmtree(self.top, True)
        os.makedirs(self.top, exist_ok=True)
        self.loc = os.path.join(self.top, SOS) if case["where"] == "under" else self.top
        self.is_archive = case["pack"] in ARCHIVE_PACKS or case["pack"] in ("text", "badgz")
        self.exd = os.path.join(self.loc, "ex d" if case["space"] != "none" else "exd")
        self.indir = os.path.join(self.loc, "ind", "in")
        self.real_of = {}
        self.abs_of = {}
        for leaf, (fn, _) in docs.items():
            self.real_of[leaf] = fn
            self.abs_of[fn] = leaf
        self.out_target = os.path.join(self.top, "out_target")
        self.names = [self.wrapped(p) for p in case["files"]]

    # -- concretisation ---------------------------------------------------
    def wrapped(self, p):
        return ([TOP] if self.case["wrap"] else []) + list(p)

    def real_segs(self, p):
        return [self.real_of.get(s, s) if (i == len(p) - 1 and len(p) >= 2 and p[-2] == META) else s
                for i, s in enumerate(p)]

    def abstract_segs(self, segs):
        return [self.abs_of.get(s, s) for s in segs]

    def content(self, p):
        if p[-1] in COMP_LEAVES and len(p) >= 2 and p[-2] == META:
            return self.docs[p[-1]][1].encode()
        if p[-1] == ARC:
            buf = io.BytesIO()
            with tarfile.open(fileobj=buf, mode="w:gz") as t:
                ti = tarfile.TarInfo("inner/f")
                ti.size = 5
                t.addfile(ti, io.BytesIO(b"inner"))
            return buf.getvalue()
        return ("content of " + "/".join(p) + "\n").encode()

    def make_link_targets(self):
        os.makedirs(os.path.join(self.out_target, "dir", JB))
        with open(os.path.join(self.out_target, "dir", JB, "x"), "w") as f:
            f.write("outside\n")
        with open(os.path.join(self.out_target, "file"), "w") as f:
            f.write("outside\n")

    def make_dir_input(self, root):
        os.makedirs(root, exist_ok=self.reuse)
        order = list(self.names)
        self.rng.shuffle(order)
        for p in order:
            rp = self.real_segs(p)
            full = os.path.join(root, *rp)
            if not os.path.isdir(os.path.dirname(full)):
                os.makedirs(os.path.dirname(full))
            if self.reuse:
                if os.path.isdir(full) and not os.path.islink(full):
                    shutil.rmtree(full)       # an (empty) directory left by an earlier case where a file goes now
                self.made.append(full)
            if p[-1] == LNF:
                os.symlink(os.path.join(self.out_target, "file"), full)
            elif p[-1] == LND:
                os.symlink(os.path.join(self.out_target, "dir"), full)
            else:
                with open(full, "wb") as f:
                    f.write(self.content(p))
        if any(p[-1] in (LNF, LND) for p in self.names):
            if not os.path.isdir(self.out_target):
                self.make_link_targets()

    def remove_files(self):
        for f in self.made:
            os.unlink(f)
        self.made = []

    # -- archives ---------------------------------------------------------
    def evil_members(self):
        """(name, kind, payload): kind 'f' file, 'l' symbolic link (payload = target)."""
        e = self.case["evil"]
        if e == "dotdot":
            return [("../sib/x", "f", b"evil\n")]
        if e == "abs":
            return [(os.path.join(self.top, "abs_target", "x"), "f", b"evil\n")]
        if e == "link":
            return [("ln", "l", "../sib2"), ("ln/x", "f", b"evil\n")]
        return []

    def members(self):
        mem = [("/".join(self.real_segs(p)), "f", self.content(p)) for p in self.names]
        if self.rng.random() < 0.5 or not mem:
            dirs = set()
            for p in self.names:
                rp = self.real_segs(p)
                for k in range(1, len(rp)):
                    dirs.add("/".join(rp[:k]))
            if not mem:
                dirs.add("d0")
            mem += [(d, "d", None) for d in sorted(dirs)]
        self.rng.shuffle(mem)                 # members in any order (a directory may follow its files)
        ev = self.evil_members()
        if ev:
            k = self.rng.randrange(len(mem) + 1)
            mem[k:k] = ev                     # the link member stays before the member that goes through it
        return mem

    def build_archive(self):
        pack = self.case["pack"]
        adir = os.path.join(self.top, "arc")
        os.makedirs(adir)
        path = os.path.join(adir, "input%d" % self.rng.randrange(1000) + self.rng.choice(EXTS))
        if pack == "text":
            with open(path, "w") as f:
                f.write("this is not an archive\n" * 20)
            return path, []
        if pack == "badgz":
            with gzip.open(path, "wb") as g:
                g.write(b"not a tar stream at all " * 200)
            return path, []
        mem = self.members()
        if pack == "zip":
            with zipfile.ZipFile(path, "w", zipfile.ZIP_DEFLATED if self.rng.random() < 0.5 else zipfile.ZIP_STORED) as z:
                for name, kind, payload in mem:
                    if kind == "d":
                        zi = zipfile.ZipInfo(name + "/")
                        zi.external_attr = (stat.S_IFDIR | 0o755) << 16
                        z.writestr(zi, b"")
                    elif kind == "l":
                        zi = zipfile.ZipInfo(name)
                        zi.create_system = 3
                        zi.external_attr = (stat.S_IFLNK | 0o777) << 16
                        z.writestr(zi, payload)
                    else:
                        zi = zipfile.ZipInfo(name)
                        zi.external_attr = (stat.S_IFREG | 0o644) << 16
                        z.writestr(zi, payload)
        else:
            with tarfile.open(path, TAR_MODE[pack]) as t:
                for name, kind, payload in mem:
                    ti = tarfile.TarInfo(name)
                    ti.mtime = 978307200
                    if kind == "d":
                        ti.type = tarfile.DIRTYPE
                        ti.mode = 0o755
                        t.addfile(ti)
                    elif kind == "l":
                        ti.type = tarfile.SYMTYPE
                        ti.linkname = payload
                        t.addfile(ti)
                    else:
                        ti.size = len(payload)
                        ti.mode = 0o644
                        t.addfile(ti, io.BytesIO(payload))
        return path, mem

    def r4_archive(self, path, mem):
        """R4: what is in the archive is what was meant; Python's own extractors place the members where
        the model says a tool that HONOURS the names would (tarfile, fully trusted) / where a tool that
        STRIPS the unsafe part would (zipfile).  All targets lie inside the case directory."""
        pack = self.case["pack"]
        want = sorted(n + ("/" if k == "d" and pack == "zip" else "") for n, k, _ in mem)
        if pack == "zip":
            with zipfile.ZipFile(path) as z:
                got = sorted(z.namelist())
        else:
            with tarfile.open(path) as t:
                got = sorted(t.getnames())
        if got != want:
            raise HarnessError("R4: archive members %r, meant %r" % (got, want))
        evil = self.case["evil"]
        if evil == "link" and pack == "zip":
            return
        r4 = os.path.join(self.top, "r4")
        tgt = os.path.join(r4, "t")
        os.makedirs(tgt)
        os.makedirs(os.path.join(r4, "sib2"))
        files = [n for n, k, _ in mem if k == "f"]
        safe = [n for n in files if not (n.startswith("/") or n.startswith("..") or n.startswith("ln/"))]
        predicted = set(os.path.join("r4", "t", n) for n in safe)
        if pack == "zip":
            with zipfile.ZipFile(path) as z:
                z.extractall(tgt)
            if evil == "dotdot":
                predicted.add(os.path.join("r4", "t", "sib", "x"))
            elif evil == "abs":
                predicted.add(os.path.join("r4", "t", os.path.join(self.top, "abs_target", "x").lstrip("/")))
        else:
            with tarfile.open(path) as t:
                t.extractall(tgt, filter="fully_trusted")
            if evil == "dotdot":
                predicted.add(os.path.join("r4", "sib", "x"))
            elif evil == "abs":
                predicted.add(os.path.join("abs_target", "x"))
            elif evil == "link":
                predicted.add(os.path.join("r4", "sib2", "x"))
        got = set()
        for top in (r4, os.path.join(self.top, "abs_target")):
            for r, _, fs in os.walk(top):
                for n in fs:
                    if not os.path.islink(os.path.join(r, n)):
                        got.add(os.path.relpath(os.path.join(r, n), self.top))
        shutil.rmtree(r4, True)
        shutil.rmtree(os.path.join(self.top, "abs_target"), True)
        if got != predicted:
            raise HarnessError("R4: python's %s placed %r, the model of member placement says %r"
                               % ("zipfile" if pack == "zip" else "tarfile", sorted(got), sorted(predicted)))
        self.stats["r4_archives"] = self.stats.get("r4_archives", 0) + 1

    # -- projection -------------------------------------------------------
    def rel(self, root, analysed):
        """root relative to the analysed directory: levels up, then abstract segments down."""
        if not isinstance(root, str) or not os.path.isabs(root):
            return 99, [str(root)]
        r = os.path.relpath(root, analysed)
        parts = [] if r == "." else r.split(os.sep)
        up = 0
        while parts and parts[0] == "..":
            up += 1
            parts.pop(0)
        return up, self.abstract_segs(parts)

    def relfiles(self, files, analysed):
        out = []
        for f in files:
            up, down = self.rel(f, analysed)
            if up:
                raise HarnessError("listing names %r outside %r" % (f, analysed))
            out.append(down)
        return sorted(out)


def kind_of(ex):
    return type(ex).__name__


def keys_view(broker, ctx):
    keys, kept, vals_ok = [], False, True
    for k in list(broker.keys()):
        if isinstance(k, type) and issubclass(k, ExecutionContext):
            keys.append(k.__name__)
        elif k in COMP_OF:
            keys.append(COMP_OF[k])
            v = broker[k]
            if not (isinstance(v, Val) and v.v == "stored-" + COMP_OF[k]):
                vals_ok = False
        elif k is SENTINEL:
            kept = isinstance(broker[k], Val) and broker[k].v == "sentinel"
        elif k is x02_probe:
            pass
        else:
            keys.append("other:" + dr.get_name(k))
    return sorted(keys), kept, vals_ok


OVERRIDES = {"none": None}
for _n in ("HostArchiveContext", "SosArchiveContext", "SerializedArchiveContext", "HostContext", "JDRContext"):
    OVERRIDES[_n] = getattr(ctxmod, _n)


def run_api(w, case, stats):
    """extract -> list -> identify -> create_context -> initialize_broker -> leave the block."""
    events = []
    override = OVERRIDES[case["override"]]
    REC["mkdtemp"] = []
    if w.is_archive:
        path, mem = w.build_archive()
        if mem:
            w.r4_archive(path, mem)
        os.makedirs(w.exd)
        if case["evil"] == "link":
            os.makedirs(os.path.join(w.exd, "sib2"))
        if case["space"] == "exdirx":
            # what the text before the blank names: must not be touched
            os.makedirs(os.path.join(w.loc, "ex"))
            with open(os.path.join(w.loc, "ex", "decoy"), "w") as f:
                f.write("decoy\n")
            os.chmod(os.path.join(w.loc, "ex", "decoy"), 0o600)
    else:
        w.make_dir_input(w.indir)
        path = w.indir
    # a temporary directory made anywhere but below extract_dir still stays inside the scratch world
    os.makedirs(os.path.join(w.top, "tmpdefault"))
    tempfile.tempdir = os.path.join(w.top, "tmpdefault")
    before = snapshot(w.top)
    left = "none"
    state = {"analysed": None}

    def body(analysed):
        state["analysed"] = analysed
        files = hydration.get_all_files(analysed)
        files = list(files)
        events.append(dict(ev="list", files=w.relfiles(files, analysed)))
        pending = None
        if files:
            REC["tries"] = []
            try:
                root, cls = hydration.identify(files)
                up, down = w.rel(root, analysed)
                ret = dict(ok=True, err="none", cls=cls.__name__, up=up, down=down)
            except Exception as ex:
                ret = dict(ok=False, err=kind_of(ex), cls="none", up=0, down=[])
            tries = []
            for n, res in REC["tries"]:
                hit = isinstance(res, tuple) and len(res) == 2 and res[1] is not None
                up, down = w.rel(res[0], analysed) if hit else (0, [])
                tries.append(dict(n=n, hit=bool(hit), up=up, down=down))
            events.append(dict(ev="identify", tries=tries, ret=ret))
        try:
            ctx = hydration.create_context(analysed, context=override)
            up, down = w.rel(ctx.root, analysed)
            af = sorted(ctx.all_files)
            top = sorted(f for f in files if os.path.dirname(f) == analysed and os.path.basename(f) == ARC)
            events.append(dict(ev="create", ok=True, err="none", cls=type(ctx).__name__, up=up, down=down,
                               af_listing=(af == sorted(files)), af_archives=(af == top),
                               len=len(ctx.root) - len(analysed) + 100))
        except Exception as ex:
            pending = ex
            events.append(dict(ev="create", ok=False, err=kind_of(ex), cls="none", up=0, down=[], af_listing=False,
                               af_archives=False, len=0))
        given = None
        if w.rng.random() < 0.5:
            given = dr.Broker()
            given[SENTINEL] = Val("sentinel")
        try:
            ctx2, broker = hydration.initialize_broker(analysed, context=override, broker=given)
            up, down = w.rel(ctx2.root, analysed)
            keys, kept, vals_ok = keys_view(broker, ctx2)
            events.append(dict(ev="seed", ok=True, err="none", cls=type(ctx2).__name__, up=up, down=down, keys=keys,
                               same_ctx=bool(type(ctx2) in broker and broker[type(ctx2)] is ctx2)
                               if type(ctx2).__name__ != "ClusterArchiveContext" else True,
                               same_broker=(given is None or broker is given), kept=(given is None or kept),
                               vals_ok=vals_ok))
        except Exception as ex:
            pending = pending or ex
            events.append(dict(ev="seed", ok=False, err=kind_of(ex), cls="none", up=0, down=[], keys=[],
                               same_ctx=True, same_broker=True, kept=True, vals_ok=True))
        if pending is not None:
            raise pending                     # the analysis error leaves the with block, as in insights._run
        if case["inject"] == "raise":
            raise Injected("caller's failure inside the with block")

    def outside_now(tmpdirs):
        return diff_outside(before, snapshot(w.top), w.top, tmpdirs)

    if w.is_archive:
        entered = False
        try:
            with archives.extract(path, extract_dir=w.exd) as ex:
                entered = True
                tmp = ex.tmp_dir
                under = os.path.dirname(tmp) == w.exd and os.path.isdir(tmp)
                events.append(dict(ev="extract", ok=True, err="none", made=bool(REC["mkdtemp"]), under=bool(under),
                                   outside=outside_now([tmp]), ctype=str(ex.content_type)))
                body(tmp)
        except Exception as ex:
            left = kind_of(ex)
            if not entered:
                events.append(dict(ev="extract", ok=False, err=left, made=bool(REC["mkdtemp"]), under=True,
                                   outside=outside_now(REC["mkdtemp"]), ctype="none"))
        tmpdirs = list(REC["mkdtemp"])
        events.append(dict(ev="cleanup", left=left, tmp_exists=any(os.path.lexists(t) for t in tmpdirs),
                           outside=outside_now(tmpdirs), made=len(tmpdirs)))
        stats["extractions"] = stats.get("extractions", 0) + 1
    else:
        try:
            body(path)
        except Exception as ex:
            left = kind_of(ex)
        events.append(dict(ev="cleanup", left=left, tmp_exists=False, outside=outside_now([]), made=len(REC["mkdtemp"])))
    tempfile.tempdir = None
    return events


def run_run(w, case, stats):
    """insights._run(broker, graph, root=<directory or archive>, context=...)."""
    events = []
    override = OVERRIDES[case["override"]]
    REC["mkdtemp"] = []
    if w.is_archive:
        path, mem = w.build_archive()
        if mem:
            w.r4_archive(path, mem)
        os.makedirs(w.exd)
    else:
        w.make_dir_input(w.indir)
        path = w.indir
    before = snapshot(w.top)
    tempfile.tempdir = w.exd if w.is_archive else os.path.join(w.top, "never_used")
    graph = dr.get_dependency_graph(x02_probe)
    given = dr.Broker()
    sent = w.rng.random() < 0.5
    if sent:
        given[SENTINEL] = Val("sentinel")
    left = "none"
    try:
        out = insights._run(given, graph, root=path, context=override)
        ctxs = [k for k in out.keys() if isinstance(k, type) and issubclass(k, ExecutionContext)]
        if len(ctxs) == 1:
            ctx = out[ctxs[0]]
            analysed = REC["mkdtemp"][0] if (w.is_archive and REC["mkdtemp"]) else path
            up, down = w.rel(ctx.root, analysed)
            keys, kept, vals_ok = keys_view(out, ctx)
            events.append(dict(ev="seed", ok=True, err="none", cls=type(ctx).__name__, up=up, down=down, keys=keys,
                               same_ctx=type(ctx) is ctxs[0], same_broker=out is given, kept=(kept or not sent),
                               vals_ok=vals_ok))
            if x02_probe not in out:
                raise HarnessError("vacuity: the probe component did not run through insights._run")
        else:
            events.append(dict(ev="seed", ok=True, err="none", cls="none", up=0, down=[],
                               keys=keys_view(out, None)[0], same_ctx=True, same_broker=out is given, kept=True,
                               vals_ok=True))
    except HarnessError:
        raise
    except Exception as ex:
        left = kind_of(ex)
        events.append(dict(ev="seed", ok=False, err=left, cls="none", up=0, down=[], keys=[], same_ctx=True,
                           same_broker=True, kept=True, vals_ok=True))
    finally:
        tempfile.tempdir = None
    tmpdirs = list(REC["mkdtemp"])
    events.append(dict(ev="cleanup", left=left, tmp_exists=any(os.path.lexists(t) for t in tmpdirs),
                       outside=diff_outside(before, snapshot(w.top), w.top, tmpdirs), made=len(tmpdirs)))
    stats["runs"] = stats.get("runs", 0) + 1
    return events


def run_light(w, case, reps):
    """create_context on the tree as a directory, `reps` listing orders: the (class, root) results."""
    w.make_dir_input(w.indir)
    override = OVERRIDES[case["override"]]
    res = []
    for _ in range(reps):
        try:
            ctx = hydration.create_context(w.indir, context=override)
            up, down = w.rel(ctx.root, w.indir)
            r = [type(ctx).__name__, up, down, len(ctx.root) - len(w.indir) + 100]
        except Exception as ex:
            r = ["error:" + kind_of(ex), 0, [], 0]
        if r not in res:
            res.append(r)
    w.remove_files()
    return res


def check_lens(case):
    lens = case.get("lens") or {}
    if isinstance(lens, dict):
        for n, k in lens.items():
            if n in COMP_LEAVES:
                continue
            if len(n) != k:
                raise HarnessError("R4: the model says len(%r) = %d" % (n, k))


def check_names():
    """R4: the model's markers, registry and archive-name class against the code's own tables."""
    want = {"HostArchiveContext": IC, "SerializedArchiveContext": IA, "SosArchiveContext": SOS, "JDRContext": JB}
    for n, m in want.items():
        if getattr(ctxmod, n).marker != m:
            raise HarnessError("R4: marker of %s is %r, the model says %r" % (n, getattr(ctxmod, n).marker, m))
    if not ARC.endswith(archives.COMPRESSION_TYPES):
        raise HarnessError("R4: %r is not an archive name for create_context" % ARC)
    for n in ("f", "g", IA, IC, LNF, LND, "c1", "c2") + tuple(make_names()):
        if n.endswith(archives.COMPRESSION_TYPES):
            raise HarnessError("R4: %r counts as an archive name" % n)


def make_names():
    return [m + "_not" for m in (IC, IA, SOS, JB)]


def main():
    with open(sys.argv[1]) as f:
        job = json.load(f)
    logging.disable(logging.CRITICAL)
    base = job["base"]
    os.makedirs(base, exist_ok=True)
    for seg in os.path.abspath(base).split(os.sep):
        if any(seg.startswith(m) for m in (IC, IA, SOS, JB, PM)) or " " in seg:
            raise HarnessError("the scratch prefix %r contains a marker-like or blank segment" % base)
    rng = random.Random(job["seed"])
    REC["shuffle"] = random.Random(job["seed"] * 7919 + 13)
    check_names()
    if job.get("plug") == "on":
        register_plugins()
    wrap_handles()
    docs = make_docs(base)
    stats = {}
    traces, idents = [], {}
    tools = dict((t, bool(shutil.which(t))) for t in ("tar", "unzip", "gzip", "bzip2", "xz"))
    for idx, case in enumerate(job["cases"]):
        if case["plug"] != job.get("plug", "none"):
            raise HarnessError("case %s wants plug=%s in a process with plug=%s" % (case["id"], case["plug"], job.get("plug")))
        check_lens(case)
        w = World(base, idx, case, rng, docs, stats, reuse=bool(job.get("light")))
        if job.get("light"):
            idents[case["id"]] = run_light(w, case, job.get("reps", 2))
            continue
        else:
            ev = run_run(w, case, stats) if case["mode"] == "run" else run_api(w, case, stats)
            inp = dict((k, case[k]) for k in ("files", "pack", "wrap", "evil", "override", "where", "inject", "plug",
                                              "mode", "space"))
            traces.append(dict(id=case["id"], inp=inp, registry=registry_view(), events=ev))
            for e in ev:
                stats["ev:" + e["ev"]] = stats.get("ev:" + e["ev"], 0) + 1
        shutil.rmtree(w.top, True)
    with open(sys.argv[2], "w") as f:
        f.write(json.dumps(dict(traces=traces, idents=idents, stats=stats, tools=tools, registry=registry_view()),
                           separators=(",", ":")))


if __name__ == "__main__":
    main()
