"""C20: configuration-tree queries.  Model: specs/Query.tla (+ QueryMC bounded
input spaces and laws), trace validation: specs/QueryTrace.tla, driver:
harness/drive_query.py."""
import concurrent.futures
import json
import os
import random
import time

import lib

PARTS = {
    "struct": ["InvDocumentOrder", "InvRootsDedup", "InvExact"],
    "attr": ["InvDocumentOrder", "InvExact"],
    "truth": ["InvAlgebra", "InvCaseless", "InvStrict"],
    "reuse": ["InvReuse"],
    "fold": ["InvAlgebra", "InvCaseless", "InvStrict", "InvFold", "InvDocumentOrder", "InvExact"],
}

TIERS = {
    # replay caps: cases of each part that are executed (the model runs are always exhaustive)
    "quick": dict(nmax=5, anodes=2, alevels=1, deep2=3, cap=dict(struct=9000, attr=7000, truth=100000, reuse=900, fold=100000),
                  every=dict(struct=7, attr=2, truth=1, reuse=1, fold=1),
                  random_jobs=4, forests=40, queries=25, terms=250),
    "thorough": dict(nmax=6, anodes=3, alevels=2, deep2=6, cap=dict(struct=250000, attr=250000, truth=100000, reuse=100000, fold=100000),
                     every=dict(struct=3, attr=4, truth=1, reuse=1, fold=1),
                     random_jobs=12, forests=200, queries=40, terms=3000),
}

SPECIAL = (223, 7838, 962, 64257)      # characters on which lower-casing and case folding differ (Query.tla FoldC)

ASSUMPTIONS = [
    "trees are Entry / Section / Directive objects under parentless document entries; several documents are "
    "queried through a Result holding them (that is what makes 'roots' more than a constant)",
    "names are strings; attribute values are strings and non-negative integers (no floats, None, bools); text is ASCII "
    "plus a small alphabet beyond it (E acute, sharp s and its capital, final sigma, the fi ligature) whose "
    "per-character lower-case and case-folding mappings are transcribed in Query.tla and compared with the "
    "interpreter's for every character used (alphabet events)",
    "'case-insensitive' on text where lower-casing and case folding differ: an observation is accepted if ONE of "
    "the two normalisations explains it (interpreted and compiled under the same one)",
    "predicate objects: a combination (a & b, a | b, ~a) built from existing objects is a new object; the operands "
    "keep the truth value of the term they were built as, whatever is built from them later",
    "inside a query a Boolean predicate is evaluated left to right with short-circuit and / or; if an evaluated "
    "atom raises, the predicate does not match that node / attribute (other alternatives are still tried); "
    "selections are always compared exactly, in document order",
    "stand-alone truth values (test / to_pyfunc): exact when no atom raises on the value; when some atom raises "
    "the statement is silent about the term's own truth value and either the interpreted value or False is accepted",
    "chained calls are made on receivers that are not nested in each other (a non-deep first step)",
    "exhaustive only inside the bounded spaces of QueryMC; beyond them seeded random forests, queries and terms",
]


def cfg_text(part, T):
    lines = ["SPECIFICATION Spec", "CONSTANTS", '  Part = "%s"' % part, "  NMax = %d" % T["nmax"],
             "  ANodes = %d" % T["anodes"], "  ALevels = %d" % T["alevels"], "  Deep2Atoms = %d" % T["deep2"],
             "  EmitEvery = %d" % T["every"][part], "  Salt = %d" % (lib.seed() % 1000)]
    lines += ["INVARIANT %s" % i for i in PARTS[part]]
    lines += ["CONSTRAINT Emit", "CHECK_DEADLOCK FALSE"]
    return "\n".join(lines) + "\n"


# ---- renderings for messages only ------------------------------------------
def rv(v):
    return repr("".join(chr(c) for c in v["s"])) if v["t"] == "s" else str(v["i"])


def rterm(toks):
    st = []
    for k in toks:
        if k["op"] == "atom":
            st.append("boom" if k["f"] == "boom" else "%s%s(%s)" % ("i" if k["ci"] else "", k["f"], rv(k["arg"])))
        elif k["op"] == "not":
            st.append("~" + st.pop())
        else:
            b, a = st.pop(), st.pop()
            st.append("(%s %s %s)" % (a, "&" if k["op"] == "and" else "|", b))
    return st[-1] if st else "?"


def rlevel(q):
    name = {"any": "None", "lit": repr("".join(chr(c) for c in q["nlit"])), "term": rterm(q["nterm"]),
            "fn": "fn:" + rterm(q["nterm"])}[q["nk"]]
    if q["am"] == "none":
        return name
    es = ", ".join(rv(e["lit"]) if e["k"] == "lit" else ("fn:" if e["k"] == "fn" else "") + rterm(e["term"])
                   for e in q["aq"])
    wrap = {"any": "%s", "all": "all_(%s)", "nany": "~any_(%s)", "nall": "~all_(%s)"}[q["am"]]
    return "(%s, %s)" % (name, wrap % es)


def rforest(fl):
    return " ".join("%d:%s%s%s" % (i + 1, "  " * 0 + "." * nd["d"], "".join(chr(c) for c in nd["n"]) or "<doc>",
                                   "(" + ",".join(rv(a) for a in nd["a"]) + ")" if nd["a"] else "")
                    for i, nd in enumerate(fl))


def store_terms(tr, upto):
    """The terms of the objects built by the first `upto` events of a trace (for messages only)."""
    z = {"f": "", "ci": False, "arg": {"t": "i", "s": [], "i": 0}}
    st = []
    for e in tr["events"][:upto]:
        if e["ev"] == "new":
            st.append(e["term"])
        elif e["ev"] == "combine":
            a, b = st[e["a"] - 1], st[e["b"] - 1]
            st.append(a + [dict(z, op="not")] if e["op"] == "not" else a + b + [dict(z, op=e["op"])])
    return st


def revent(tr, e):
    if e["ev"] in ("otruth", "oselect", "new", "combine"):
        k = next(i for i, x in enumerate(tr["events"]) if x is e)
        st = store_terms(tr, k)
        hist = "; ".join("o%d = %s" % (i + 1, rterm(x["term"])) if x["ev"] == "new" else
                         "o%d = %s" % (i + 1, "~o%d" % x["a"] if x["op"] == "not" else
                                       "o%d %s o%d" % (x["a"], "&" if x["op"] == "and" else "|", x["b"]))
                         for i, x in enumerate(y for y in tr["events"][:k] if y["ev"] in ("new", "combine")))
        if e["ev"] in ("new", "combine"):
            return "objects [%s]: building the next one (%s) gave %s" % (hist, e["ev"], e["out"])
        if e["ev"] == "otruth":
            return "objects [%s]: then o%d (built as %s) over values [%s]: test=%s to_pyfunc=%s (%s)" % (
                hist, e["obj"], rterm(st[e["obj"] - 1]), ", ".join(rv(v) for v in e["vals"]),
                "".join("TF"[not x] for x in e["test"]), "".join("TF"[not x] for x in e["pyf"]), e["out"])
        return "objects [%s]: then forest [%s] %s with o%d (built as %s) as the %s predicate on children of %s returned %s (%s)" % (
            hist, rforest(tr["forest"]), e["via"], e["obj"], rterm(st[e["obj"] - 1]), e["pos"], e["recv"], e["res"], e["out"])
    if e["ev"] == "alphabet":
        return "character %d: environment lower=%s casefold=%s" % (e["c"], e["lower"], e["fold"])
    if e["ev"] == "truth":
        return "term %s over values [%s]: test=%s to_pyfunc=%s" % (
            rterm(e["term"]), ", ".join(rv(v) for v in e["vals"]), "".join("TF"[not x] for x in e["test"]),
            "".join("TF"[not x] for x in e["pyf"]))
    return "forest [%s] %s(%s, deep=%s, roots=%s) on children of %s returned %s (%s)" % (
        rforest(tr["forest"]), e["via"], ", ".join(rlevel(q) for q in e["qs"]), e["deep"], e["roots"], e["recv"],
        e["res"], e["out"])


def binding_selftest(traces):
    """R5: corrupted copies of recorded calls must be rejected, with the right clause."""
    sel = tru = None
    for t in traces:
        for e in t["events"]:
            if (sel is None and e["ev"] == "select" and e["out"] == "ok" and len(e["res"]) >= 2 and not e["roots"]
                    and len(e["qs"]) == 1 and all(lv["nk"] in ("any", "lit") and lv["am"] == "none" for lv in e["qs"])):
                sel = (t, e)
            if (tru is None and e["ev"] == "truth" and e["test"] == e["pyf"] and any(e["test"])
                    and all(k["op"] != "atom" or (k["f"] == "eq" and not k["ci"]) for k in e["term"])):
                tru = (t, e)
    reu = None
    for t in traces:
        evs = t["events"]
        ot = [k for k, e in enumerate(evs) if e["ev"] == "otruth" and e["out"] == "ok"]
        cb = [k for k, e in enumerate(evs) if e["ev"] == "combine"]
        after = [k for k in ot if cb and k > cb[0]]
        if "reuse/" in t["id"] and len(cb) == 1 and len(after) >= 2 and evs[cb[0]]["op"] != "not":
            d, b = after[:2]
            if evs[d]["test"] != evs[b]["test"] and evs[d]["test"] == evs[d]["pyf"]:
                reu = dict(id="selftest/operand", forest=t["forest"],
                           events=evs[:b] + [dict(evs[b], test=evs[d]["test"], pyf=evs[d]["pyf"])])
                break
    if sel is None or tru is None or reu is None:
        raise lib.MachineryError("self-test: no suitable recorded call")
    t, e = sel
    r = e["res"]
    i = e["test"].index(True) if False else tru[1]["test"].index(True)
    tests = [
        (dict(id="selftest/swapped", forest=t["forest"], events=[dict(e, res=[r[1], r[0]] + r[2:])]), "DocumentOrder"),
        (dict(id="selftest/dropped", forest=t["forest"], events=[dict(e, res=r[1:])]), "Exact.missing"),
        (dict(id="selftest/foreign", forest=t["forest"], events=[dict(e, res=r + [0])]), "Exact.extra"),
        (dict(id="selftest/duplicate", forest=t["forest"], events=[dict(e, res=r + [r[-1]])]), "Exact.duplicate"),
        (dict(id="selftest/pyf", forest=tru[0]["forest"],
              events=[dict(tru[1], pyf=[not x if j == i else x for j, x in enumerate(tru[1]["pyf"])])]),
         "CompiledEqualsInterpreted"),
        (dict(id="selftest/test", forest=tru[0]["forest"],
              events=[dict(tru[1], test=[not x if j == i else x for j, x in enumerate(tru[1]["test"])])]),
         "Truth.interpreted"),
        (reu, "OperandUnchanged:evaluates-as-a-later-combination"),
        (dict(id="selftest/clean", forest=t["forest"], events=[e, tru[1]]), None)]
    val = lib.validate_traces("QueryTrace", "QueryTrace.cfg", [x for x, _ in tests], jobs=1)
    got = dict((rj["id"], rj["clause"]) for rj in val["rejected"])
    for x, want in tests:
        g = got.get(x["id"])
        if (want is None and g is not None) or (want is not None and not (g or "").startswith(want)):
            raise lib.MachineryError("self-test: corrupted trace %s gave %r, expected %r" % (x["id"], g, want))
    return "%d corrupted traces rejected, clean copy accepted" % (len(tests) - 1)


def run(prop, tier):
    T = TIERS[tier]
    rng = random.Random(lib.seed())
    t0 = time.time()
    gen = lib.subdir("gencfg")
    jobs = min(8, max(4, lib.NCPU // 2))

    # ---- (1) model runs: laws on every state, emission of every state ----
    def model(part):
        cfgp = os.path.join(gen, "QueryMC_%s.cfg" % part)
        with open(cfgp, "w") as f:
            f.write(cfg_text(part, T))
        r = lib.run_tlc("QueryMC", cfgp, workers=1 if part in ("reuse", "fold") else max(2, jobs // 2), tag="q-" + part, timeout=2400, raw_cases=True)
        return part, lib.require_ok(r, "QueryMC part " + part)

    models, cases, emitted = [], [], {}
    with concurrent.futures.ThreadPoolExecutor(max_workers=len(PARTS)) as ex:
        for part, r in ex.map(model, sorted(PARTS)):
            emitted[part] = len(r.cases)
            if not r.cases:
                raise lib.MachineryError("QueryMC part %s emitted nothing" % part)
            lines = sorted(set(r.cases))      # a state generated twice is emitted twice
            r.cases = []
            rng.shuffle(lines)
            for i, line in enumerate(lines[:T["cap"][part]]):
                c = lib.parse_case(line)
                c["id"] = i
                cases.append(c)
            models.append(r)
    print("timing: models %.1fs, emitted %s, replayed %d" % (time.time() - t0, emitted, len(cases)))

    # ---- (2) driver -------------------------------------------------------
    t1 = time.time()
    sel = sorted((c for c in cases if "forest" in c),
                 key=lambda c: json.dumps(c["forest"], sort_keys=True, separators=(",", ":")))
    tru = [c for c in cases if "term" in c]
    payloads = []
    for k, ch in enumerate(lib.chunks(sel, jobs)):
        if ch:
            payloads.append(dict(cases=ch, seed=lib.seed() * 100 + k, tag="s%d" % k))
    for k, ch in enumerate(lib.chunks(tru, 2)):
        if ch:
            payloads.append(dict(cases=ch, seed=lib.seed(), tag="t%d" % k))
    for j in range(T["random_jobs"]):
        payloads.append(dict(seed=lib.seed() * 1000 + j, tag="r%d" % j,
                             random=dict(seed=lib.seed() * 1000 + j, forests=T["forests"], queries=T["queries"],
                                         terms=T["terms"])))
    outs = lib.run_driver_parallel("drive_query.py", payloads, hashseeds=list(range(1, 33)), timeout=1500, jobs=jobs)
    traces, nsel, ntru, nobj = [], 0, 0, 0
    for k, o in enumerate(outs):
        for t in o["traces"]:
            t["id"] = "%d/%s" % (k, t["id"])
            traces.append(t)
        nsel += o["stats"]["selects"]
        ntru += o["stats"]["truths"]
        nobj += o["stats"].get("sessions", 0)
    print("timing: driver %.1fs, %d traces (%d select cases, %d truth tables, %d object sessions)"
          % (time.time() - t1, len(traces), nsel, ntru, nobj))

    # vacuity: every entry point / option / observation kind the check relies on was really exercised
    reach = {}
    for t in traces:
        ndocs = sum(1 for nd in t["forest"] if nd["d"] == 0)
        used = set()
        special = any(c in SPECIAL for nd in t["forest"] for c in nd["n"] + [x for a in nd["a"] for x in a["s"]])
        for e in t["events"]:
            if e["ev"] == "truth":
                reach["truth"] = reach.get("truth", 0) + 1
                if any(a != b for a, b in zip(e["test"], e["pyf"])):
                    reach["truth-differs"] = reach.get("truth-differs", 0) + 1
                if (any(k["op"] == "atom" and k["ci"] for k in e["term"])
                        and any(c in SPECIAL for x in [k["arg"] for k in e["term"]] + e["vals"] for c in x["s"])):
                    reach["caseless-special-casing-truth"] = reach.get("caseless-special-casing-truth", 0) + 1
                continue
            if e["ev"] in ("new", "combine", "otruth", "oselect", "alphabet"):
                reach["ev:" + e["ev"]] = reach.get("ev:" + e["ev"], 0) + 1
                if e["ev"] == "combine":
                    used.update([e["a"], e["b"]])
                elif e["ev"] in ("otruth", "oselect") and e["obj"] in used:
                    k = "operand-%s-after-combination" % ("evaluated" if e["ev"] == "otruth" else "queried")
                    reach[k] = reach.get(k, 0) + 1
                    if e["ev"] == "oselect" and e["res"]:
                        reach["operand-query-nonempty"] = reach.get("operand-query-nonempty", 0) + 1
                continue
            if special and e["res"] and any(k["op"] == "atom" and k["ci"] for lv in e["qs"]
                                            for k in lv["nterm"] + [x for a in lv["aq"] for x in a["term"]]):
                reach["caseless-special-casing-select"] = reach.get("caseless-special-casing-select", 0) + 1
            for k in ("via:" + e["via"], "deep" if e["deep"] else "children", "levels:%d" % len(e["qs"])):
                reach[k] = reach.get(k, 0) + 1
            if e["res"]:
                reach["nonempty"] = reach.get("nonempty", 0) + 1
            if e["roots"] and ndocs > 1 and len(e["res"]) > 1:
                reach["several-roots"] = reach.get("several-roots", 0) + 1
            if e["via"] == "chain" and e["recv"] and t["forest"][e["recv"][0] - 1]["d"] > 0:
                reach["result-requeried"] = reach.get("result-requeried", 0) + 1
            for lv in e["qs"]:
                reach["attr:" + lv["am"]] = reach.get("attr:" + lv["am"], 0) + 1
                reach["name:" + lv["nk"]] = reach.get("name:" + lv["nk"], 0) + 1
    need = ["truth", "via:select", "via:find", "via:getitem", "via:chain", "via:func", "deep", "children", "levels:1",
            "levels:2", "levels:3", "nonempty", "several-roots", "result-requeried", "attr:none", "attr:any",
            "attr:all", "attr:nany", "attr:nall", "name:any", "name:lit", "name:term", "name:fn"]
    need.append("via:reparent")
    need += ["ev:new", "ev:combine", "ev:otruth", "ev:oselect", "ev:alphabet", "operand-evaluated-after-combination",
             "operand-queried-after-combination", "operand-query-nonempty", "caseless-special-casing-truth",
             "caseless-special-casing-select"]
    unreached = [k for k in need if not reach.get(k)]

    # ---- (3) validation ---------------------------------------------------
    t1 = time.time()
    rng.shuffle(traces)        # balance the JVMs
    nev = sum(len(t["events"]) for t in traces)
    per = max(1, int(10000 * len(traces) / max(1, nev)))          # about 10k events per batch file / JVM
    val = lib.validate_traces("QueryTrace", "QueryTrace.cfg", traces, jobs=jobs,
                              chunk=max(1, min(per, (len(traces) + jobs - 1) // jobs)))
    print("timing: validation %.1fs (%d traces, %d events, %d JVMs)"
          % (time.time() - t1, val["traces"], val["events"], val["jvms"]))

    # a kind of call that never occurred is a vacuity failure of the machinery only when the specification
    # accepted everything (a rejected behaviour of the code may well be the reason)
    if unreached and not val["rejected"]:
        raise lib.MachineryError("vacuity: no recorded call of kind(s) %s" % ", ".join(unreached))
    selftest = binding_selftest(traces) if tier == "thorough" else None

    # ---- (4) verdict ------------------------------------------------------
    byid = dict((t["id"], t) for t in traces)
    verdict = lib.Verdict(prop, tier)
    for rj in val["rejected"]:
        if rj["clause"].startswith("machinery:"):
            raise lib.MachineryError("QueryTrace: %s in trace %s event %s" % (rj["clause"], rj["id"], rj["line"]))
        tr = byid[rj["id"]]
        e = tr["events"][rj["line"] - 1]
        verdict.reject(lib.sig(prop, rj["clause"]), "%s: %s" % (rj["clause"], revent(tr, e)),
                       dict(forest=tr["forest"], event=e, rejected=rj))

    nontrivial = set()
    nevents = 0
    for t in traces:
        for e in t["events"]:
            nevents += 1
            if e["ev"] in ("otruth", "oselect"):
                if any(e["test"] if e["ev"] == "otruth" else e["res"]):
                    nontrivial.add(json.dumps([t["id"], e], sort_keys=True))
            elif e["ev"] in ("new", "combine", "alphabet"):
                pass
            elif e["ev"] == "select" and e["res"]:
                nontrivial.add(json.dumps([t["forest"], e["qs"], e["deep"], e["roots"], e["recv"]], sort_keys=True))
            elif e["ev"] == "truth" and any(e["test"]) and not all(e["test"]):
                nontrivial.add(json.dumps(e["term"], sort_keys=True))
    samples = []
    for t in traces[:40]:
        for e in t["events"][:1]:
            if len(samples) < 4:
                samples.append(revent(t, e))
    ev = lib.evidence(
        prop, tier, models, val, evaluations=nevents, distinct_nontrivial=len(nontrivial),
        rule="cases = (forest, query, deep, roots) states and boolean terms enumerated by TLC in QueryMC (parts struct, "
             "attr, truth, fold, and reuse: predicate objects evaluated after serving as operands; a VERIF_SEED-determined sample of the emitted states is executed in the quick tier) plus "
             "seeded random forests / queries / terms; each is built from real Entry / Result / Boolean objects and "
             "run through select, find, __getitem__, chained Result.select and the free select function, and through "
             "test() and to_pyfunc(); evaluations = recorded calls; distinct_nontrivial = distinct select calls with a "
             "non-empty result plus distinct terms whose truth table is not constant",
        samples=samples, assumptions=ASSUMPTIONS,
        extra=dict(reached=reach, binding_selftest=selftest, states_emitted=emitted, cases_replayed=len(cases), select_cases=nsel, truth_tables=ntru, object_sessions=nobj,
                   laws_checked_on_model=sorted(set(sum(PARTS.values(), []))), exhaustive=False))
    return verdict.finish(ev)
