"""Driver for C19: build grammars from the real combinator classes of
insights.parsr, run them (and the shipped JSON / tag-expression grammars) on
given inputs and record what they returned.  Contains no oracle: the records
are judged by specs/PegTrace.tla, TagLangTrace.tla and JsonDocTrace.tla.

usage: drive_peg.py <in.json> <out.json>
in : {"jobs": [ {"id":.., "kind":"peg", "ws":[[c,..],..], "terms":[{"t":<term>, "how":"classes"|"operators"|"forward"},..]}
              | {"id":.., "kind":"tag", "sets":[[tag,..],..], "exprs":[{"toks":[..], "sp":[n,..]} | {"text":..},..],
                 "retab":[[body, tag],..]}
              | {"id":.., "kind":"json", "values":[{"v":<value>, "mode":"compact"|"default"|"indent"},..]} ]}
out: {"traces":[..], "stats":{..}}

Term nodes: {"k","s","e","n","d","ts"}, values as token lists - see specs/Peg.tla.
"""
import json
import re
import signal
import sys

from insights import parsr
from insights.core import taglang
from insights.parsr import (Backtrack, Char, Choice, Context, FollowedBy, Forward, InSet, KeepLeft, KeepRight, Lift,
                            Literal, Many, Map, NotFollowedBy, Opt, Sequence, String, Until, Wrapper)
from insights.parsr.examples import json_parser

STATS = {"parses": 0, "terms": 0, "tag_exprs": 0, "tag_evals": 0, "json_docs": 0, "ok": 0, "fail": 0}

AnyCharClass = type(parsr.AnyChar)
EOFClass = type(parsr.EOF)


# ---- values <-> tokens (projection / concretisation, see Peg.tla) ---------

def toks(v):
    if v is None:
        return ["N"]
    if v is True:
        return ["T"]
    if v is False:
        return ["F"]
    if isinstance(v, str):
        return ["$" + v]
    if isinstance(v, list):
        out = ["["]
        for x in v:
            out += toks(x)
        return out + ["]"]
    if isinstance(v, tuple):
        # TUPLES: the driver's own Map / Lift functions returned their collections as tuples (what the
        # model calls a list; the combinators themselves never make tuples)
        out = ["[" if TUPLES else "("]
        for x in v:
            out += toks(x)
        return out + ["]" if TUPLES else ")"]
    if isinstance(v, int):
        return ["#%d" % v]
    return ["?" + type(v).__name__]


def value_of(tk):
    """Python value for a default / replacement value given as tokens."""
    def rd(i):
        t = tk[i]
        if t == "N":
            return None, i + 1
        if t == "T":
            return True, i + 1
        if t == "F":
            return False, i + 1
        if t.startswith("$"):
            return t[1:], i + 1
        if t == "[":
            out, i = [], i + 1
            while tk[i] != "]":
                x, i = rd(i)
                out.append(x)
            return out, i + 1
        raise ValueError("driver: cannot concretise value token %r" % t)
    v, i = rd(0)
    if i != len(tk):
        raise ValueError("driver: trailing value tokens %r" % (tk,))
    return v


# ---- the functions of Map / Lift (Peg.tla: Fn) -----------------------------

def has_b(x):
    return x == "b" or (isinstance(x, (list, tuple)) and any(has_b(y) for y in x))


TUPLES = False      # this term is run in the "diagnostics on, tuple-valued functions" variant


def m_wrap(x):
    return [x]


def m_const(x):
    return "k"


def m_no_b(x):
    if has_b(x):
        raise Backtrack("b is not welcome")
    return x


def l_wrap(*a):
    return tuple(a) if TUPLES else list(a)


def l_const(*a):
    return "k"


def l_no_b(*a):
    if has_b(list(a)):
        raise Backtrack("b is not welcome")
    return tuple(a) if TUPLES else list(a)


def l_rev(*a):
    return tuple(reversed(a)) if TUPLES else list(reversed(a))


MAPFN = {1: m_wrap, 2: m_const, 3: m_no_b}
LIFTFN = {1: l_wrap, 2: l_const, 3: l_no_b, 4: l_rev}


# ---- concretisation of a term ---------------------------------------------

def build(t, how):
    """Parser objects for term t, fresh per term.  how = 'classes': constructors only; 'operators':
    through + | << >> & / * .map .until wherever an operator exists; 'forward': every composite node
    behind a Forward declaration; 'shared': constructors, and equal sub-terms are ONE object used at
    every occurrence (the way grammars are written: `a = Char("a"); a + b + a`); 'shared-ops': the
    operators, with equal leaves being one object (composites stay fresh: + and | extend in place)."""
    memo = {} if how in ("shared", "shared-ops") else None
    return _build(t, "operators" if how == "shared-ops" else "classes" if how == "shared" else how, memo,
                  how == "shared-ops")


def _build(t, how, memo, leaves_only):
    if memo is not None and (not leaves_only or not t["ts"]):
        mk = json.dumps(t, sort_keys=True)
        if mk not in memo:
            memo[mk] = _build1(t, how, memo, leaves_only)
        return memo[mk]
    return _build1(t, how, memo, leaves_only)


def _build1(t, how, memo, leaves_only):
    k = t["k"]
    kids = [_build(c, how, memo, leaves_only) for c in t["ts"]]
    ops = how == "operators"
    if k == "char":
        p = Char(t["s"][0])
    elif k == "inset":
        p = InSet("".join(t["s"])) if ops else InSet(set(t["s"]))
    elif k == "any":
        p = parsr.AnyChar if ops else AnyCharClass()
    elif k == "eof":
        p = parsr.EOF if ops else EOFClass()
    elif k == "str":
        p = String("".join(t["s"]), "".join(t["e"]) or None, t["n"]) if t["n"] != 1 or t["e"] or not ops \
            else String(set(t["s"]))
    elif k == "lit":
        kw = {}
        if t["d"]:
            kw["value"] = value_of(t["d"])
        if t["n"] == 1:
            kw["ignore_case"] = True
        p = Literal("".join(t["s"]), **kw)
    elif k == "seq":
        if ops and len(kids) >= 2:
            p = (Wrapper(kids[0]) if isinstance(kids[0], Sequence) else kids[0]) + kids[1]
            for c in kids[2:]:
                p = p + c
        else:
            p = Sequence(kids)
    elif k == "choice":
        if ops and len(kids) >= 2:
            p = (Wrapper(kids[0]) if isinstance(kids[0], Choice) else kids[0]) | kids[1]
            for c in kids[2:]:
                p = p | c
        else:
            p = Choice(kids)
    elif k == "many":
        p = Many(kids[0], lower=t["n"]) if t["n"] or not ops else Many(kids[0])
    elif k == "until":
        p = kids[0].until(kids[1]) if ops else Until(kids[0], kids[1])
    elif k == "opt":
        d = value_of(t["d"])
        p = Opt(kids[0]) if d is None and ops else Opt(kids[0], default=d)
    elif k == "kl":
        p = (kids[0] << kids[1]) if ops else KeepLeft(kids[0], kids[1])
    elif k == "kr":
        p = (kids[0] >> kids[1]) if ops else KeepRight(kids[0], kids[1])
    elif k == "fb":
        p = (kids[0] & kids[1]) if ops else FollowedBy(kids[0], kids[1])
    elif k == "nfb":
        p = (kids[0] / kids[1]) if ops else NotFollowedBy(kids[0], kids[1])
    elif k == "map":
        p = kids[0].map(MAPFN[t["n"]]) if ops else Map(kids[0], MAPFN[t["n"]])
    elif k == "lift":
        p = Lift(LIFTFN[t["n"]])
        if ops:
            for c in kids:
                p = p * c
        else:
            p.set_children(kids)
    else:
        raise ValueError("driver: unknown term kind %r" % k)
    if how == "forward" and t["ts"]:
        f = Forward()
        f <= p
        return f
    return p


FAIL = {"ok": False, "pos": 0, "v": []}


class Hang(BaseException):
    """Raised (repeatedly, the combinators have bare excepts) when one term runs for too long."""


def _alarm(signum, frame):
    raise Hang()


HANG_LIMIT = 25          # after that many hangs the rest of the peg terms of this process is not run


def run_term(p, w):
    signal.setitimer(signal.ITIMER_VIRTUAL, 2.0, 0.02)
    try:
        try:
            return _run_term(p, w)
        finally:
            signal.setitimer(signal.ITIMER_VIRTUAL, 0)
    except Hang:
        signal.setitimer(signal.ITIMER_VIRTUAL, 0)
        STATS["hangs"] = STATS.get("hangs", 0) + 1
        return {"ok": False, "pos": -1, "v": []}, {"ok": False, "v": []}


def _run_term(p, w):
    text = "".join(w)
    try:
        cres = {"ok": True, "v": toks(p(text))}
    except Exception:
        cres = {"ok": False, "v": []}
    data = list(text)
    data.append(None)
    ctx = Context(data)
    try:
        pos, v = p.process(0, data, ctx)
        res = {"ok": True, "pos": pos + 1, "v": toks(v)}
    except Exception:
        res = dict(FAIL)
    STATS["parses"] += 2
    STATS["ok" if res["ok"] else "fail"] += 1
    return res, cres


def debug_all(p, seen):
    """Parser.debug() on every parser object of a grammar: documented to switch diagnostic messages on
    and nothing else."""
    if id(p) in seen or not isinstance(p, parsr.Parser):
        return
    seen.add(id(p))
    p.debug()
    for c in list(getattr(p, "children", None) or []):
        debug_all(c, seen)


def peg(job):
    global TUPLES
    events = []
    for n, item in enumerate(job["terms"]):
        if STATS.get("hangs", 0) >= HANG_LIMIT:
            STATS["terms_not_run_after_hangs"] = STATS.get("terms_not_run_after_hangs", 0) + 1
            continue
        # every third term with diagnostics switched on for all its parsers and with the driver's Map / Lift
        # functions returning tuples (the (key, value) idiom) where they otherwise return lists
        dbg = bool(item.get("dbg", n % 3 == 2))
        TUPLES = dbg
        try:
            p = build(item["t"], item["how"])
            if dbg:
                debug_all(p, set())
                STATS["debugged_terms"] = STATS.get("debugged_terms", 0) + 1
            res, cres = [], []
            for w in job["ws"]:
                r, c = run_term(p, w)
                res.append(r)
                cres.append(c)
        finally:
            TUPLES = False
        STATS["terms"] += 1
        events.append({"ev": "parse", "t": item["t"], "how": item["how"], "dbg": dbg, "res": res, "cres": cres})
    return {"id": job["id"], "ws": job["ws"], "events": events}


# ---- tag expressions --------------------------------------------------------

QUOTE = {0: "", 1: "'", 2: '"'}
BLANKS = ["", " ", "  ", "\t", " \n "]


def tag_text(tk, sp):
    """Write tokens as text: 'sp' is a blank; sp (indices into BLANKS) chooses optional white space
    after a token, except after '!' and after a bare regex (which runs to the next blank: there the
    blank is the explicit token).  Whatever text results is what the reference reader is given."""
    out = []
    for i, t in enumerate(tk):
        if t["t"] == "sp":
            out.append(" ")
        elif t["t"] == "tag":
            out.append(QUOTE[t["q"]] + t["a"] + QUOTE[t["q"]])
        elif t["t"] == "re":
            out.append("/" + QUOTE[t["q"]] + t["a"] + QUOTE[t["q"]])
        else:
            out.append(t["t"])
        if sp and t["t"] != "!" and not (t["t"] == "re" and t["q"] == 0):
            out.append(BLANKS[sp[i % len(sp)] % len(BLANKS)])
    lead = BLANKS[sp[-1] % len(BLANKS)] if sp else ""
    return lead + "".join(out)


def tag(job):
    sets = job["sets"]
    events = []
    rows = [{"body": b, "tag": t, "m": bool(re.search(b, t))} for b, t in job.get("retab", [])]
    if rows:
        events.append({"ev": "retab", "rows": rows})
    for e in job["exprs"]:
        text = e["text"] if "text" in e else tag_text(e["toks"], e.get("sp", []))
        ev = {"ev": "tag", "toks": e.get("toks", []), "text": text, "chars": list(text), "ok": False, "vals": []}
        try:
            pred = taglang.parse(text)
            ev["ok"] = True
        except Exception:
            pred = None
        if pred is not None:
            vals = []
            for s in sets:
                # the documentation promises "a list or set of strings"
                arg = [list(s), set(s), list(reversed(s)), tuple(s)][(len(vals) + len(text)) % 4]
                try:
                    r = pred(arg)
                except Exception:
                    r = None
                if r is not True and r is not False:
                    ev["ok"], vals = False, []           # raised / not a truth value: recorded as a failure
                    break
                vals.append(r)
                STATS["tag_evals"] += 1
            ev["vals"] = vals
        STATS["tag_exprs"] += 1
        events.append(ev)
    return {"id": job["id"], "sets": sets, "events": events}


# ---- JSON ---------------------------------------------------------------------

def json_value(v):
    k = v["k"]
    if k == "int":
        return int(v["a"])
    if k == "dec":
        return float(v["a"])
    if k == "str":
        return v["a"]
    if k in ("true", "false", "null"):
        return {"true": True, "false": False, "null": None}[k]
    if k == "arr":
        return [json_value(x) for x in v["ts"]]
    if k == "obj":
        return dict((key, json_value(x)) for key, x in zip(v["ks"], v["ts"]))
    raise ValueError("driver: unknown JSON value kind %r" % k)


def jtoks(x):
    if x is None:
        return ["N"]
    if x is True:
        return ["T"]
    if x is False:
        return ["F"]
    if isinstance(x, int):
        return ["i:%d" % x]
    if isinstance(x, float):
        return ["d:%r" % x]
    if isinstance(x, str):
        return ["s:" + x]
    if isinstance(x, (list, tuple)):
        out = ["["]
        for y in x:
            out += jtoks(y)
        return out + ["]"]
    if isinstance(x, dict):
        out = ["{"]
        for key in sorted(x):
            out += ["k:%s" % (key,)] + jtoks(x[key])
        return out + ["}"]
    return ["?" + type(x).__name__]


DUMPS = {"compact": dict(separators=(",", ":")), "default": {}, "indent": dict(indent=2)}


def decode(f, text):
    try:
        return {"ok": True, "toks": jtoks(f(text))}
    except Exception:
        return {"ok": False, "toks": []}


def jsn(job):
    events = []
    for item in job["values"]:
        text = json.dumps(json_value(item["v"]), **DUMPS[item["mode"]])
        if "\\" in text.replace('\\"', ""):
            raise ValueError("driver: rendering leaves the documented subset: %r" % text)
        events.append({"ev": "json", "v": item["v"], "mode": item["mode"], "text": text,
                       "std": decode(json.loads, text), "got": decode(json_parser.loads, text)})
        STATS["json_docs"] += 1
    return {"id": job["id"], "events": events}


def notrace(job):
    """Failed alternatives and the indent stack (WithIndent / HangingString): run the grammar with a
    WithIndent(f) alternative in front of a HangingString, and the same grammar without it, on the
    same input; both observations are recorded, specs/PegTrace.tla compares them when f fails."""
    from insights.parsr import HangingString, WithIndent
    hchars = set("abcdefghijklmnopqrstuvwxyz !x")
    events = []
    for c in job["cases"]:
        P = lambda: Literal("".join(c["p"]))
        H = lambda: HangingString(hchars)
        f = WithIndent(build(c["f"], "classes"))
        if c["form"] == "choice":
            x = Choice([f, H()])
        elif c["form"] == "opt":
            x = KeepRight(Opt(f), H())
        else:
            x = KeepRight(Many(f), H())
        outer = WithIndent(KeepRight(P(), x))
        base = WithIndent(KeepRight(P(), H()))
        ro, _ = run_term(outer, c["w"])
        rb, _ = run_term(base, c["w"])
        STATS["notrace"] = STATS.get("notrace", 0) + 1
        if rb["ok"] and rb["v"] != ["$"]:
            STATS["notrace_base_reads_text"] = STATS.get("notrace_base_reads_text", 0) + 1
        events.append({"ev": "notrace", "form": c["form"], "p": c["p"], "f": c["f"], "w": c["w"], "outer": ro, "base": rb})
    return {"id": job["id"], "ws": [], "events": events}


def main():
    signal.signal(signal.SIGVTALRM, _alarm)
    with open(sys.argv[1]) as f:
        payload = json.load(f)
    traces = [{"peg": peg, "tag": tag, "json": jsn, "notrace": notrace}[job["kind"]](job) for job in payload["jobs"]]
    with open(sys.argv[2], "w") as f:
        json.dump({"traces": traces, "stats": STATS}, f, separators=(",", ":"))


if __name__ == "__main__":
    main()
