"""Driver for C18 (playbook verifier digest).  Concretises abstract plays (flat
node sequences, see specs/Playbook.tla) as real Python / ruamel objects, runs
the REAL verifier of /repo on them and records, per play and route, the outcome
and the digest that reached the GPG boundary.  Contains no oracle: the records
are judged by specs/PlaybookTrace.tla.

usage: drive_playbook.py <in.json> <out.json>
in : {"plays": [flat, ...]            plays emitted by TLC (PlaybookMC), and/or
      "random": {"seed": s, "bases": n, "edits": m},   seeded random plays + single edits
      "verify_every": k}              every k-th play also goes through verify() (revocation branch)
out: {"plays": [flat, ...], "origin": [..], "events": [{p, via, build, out, digest, revoked}, ...], "stats": {...}}

Routes (via):   exclude      exclude_dynamic_elements + serialize_play + hash_play called directly
                verify_play  verify_play(play); GPG replaced by a stub that says "valid" and records
                             the digest it is asked to check
                verify       verify(play) with a synthetic revocation list (pkgutil.get_data stubbed)
Builds:         plain (dict / list), commented (CommentedMap / CommentedSeq),
                yaml (rendered as YAML text and loaded by load_playbook_yaml)
"""
import binascii
import hashlib
import json
import logging
import os
import random
import sys
import tempfile

import insights.client.apps.ansible.playbook_verifier as pv
from insights.client.apps.ansible.playbook_verifier import PlaybookVerificationError
from insights.client.apps.ansible.playbook_verifier.serializer import PlaybookSerializer

CommentedMap, CommentedSeq = pv.CommentedMap, pv.CommentedSeq


# --------------------------------------------------------------------------
# abstract plays: nested form  ("map", [(key, node), ..]) | ("seq", [node, ..]) |
# ("str", s) | ("int", n) | ("bool", b) | ("null",)      keys: str | int
# --------------------------------------------------------------------------

def unflat(flat):
    def rec(i):
        nd = flat[i]
        t = nd["t"]
        if t == "str":
            return ("str", "".join(chr(c) for c in nd["v"])), i + 1
        if t == "int":
            return ("int", nd["n"]), i + 1
        if t == "bool":
            return ("bool", bool(nd["n"])), i + 1
        if t == "null":
            return ("null",), i + 1
        kids = []
        j = i + 1
        while j < len(flat) and flat[j]["d"] > nd["d"]:
            if flat[j]["d"] != nd["d"] + 1:
                raise ValueError("bad depth in flat play")
            sub, nj = rec(j)
            if t == "map":
                k = flat[j]
                key = "".join(chr(c) for c in k["k"]) if k["kt"] == "str" else k["kn"]
                kids.append((key, sub))
            else:
                kids.append(sub)
            j = nj
        return (t, kids), j
    node, end = rec(0)
    if end != len(flat):
        raise ValueError("trailing nodes in flat play")
    return node


def flat(node, d=0, key=None, out=None):
    out = [] if out is None else out
    rec = {"d": d, "t": node[0], "kt": "none", "k": [], "kn": 0, "v": [], "n": 0}
    if key is not None:
        if isinstance(key, int):
            rec["kt"], rec["kn"] = "int", key
        else:
            rec["kt"], rec["k"] = "str", [ord(c) for c in key]
    out.append(rec)
    t = node[0]
    if t == "str":
        rec["v"] = [ord(c) for c in node[1]]
    elif t == "int":
        rec["n"] = node[1]
    elif t == "bool":
        rec["n"] = int(node[1])
    elif t == "map":
        for k, v in node[1]:
            flat(v, d + 1, k, out)
    elif t == "seq":
        for v in node[1]:
            flat(v, d + 1, None, out)
    return out


def to_py(node, commented):
    t = node[0]
    if t == "map":
        m = CommentedMap() if commented else {}
        for k, v in node[1]:
            if k in m:
                raise ValueError("duplicate key in abstract play")
            m[k] = to_py(v, commented)
        return m
    if t == "seq":
        s = CommentedSeq() if commented else []
        for v in node[1]:
            s.append(to_py(v, commented))
        return s
    if t == "null":
        return None
    return node[1]


def to_yaml(node):
    """Flow-style rendering (JSON-like, which is YAML)."""
    t = node[0]
    if t == "map":
        return "{" + ", ".join("%s: %s" % (json.dumps(k) if isinstance(k, str) else str(k), to_yaml(v))
                               for k, v in node[1]) + "}"
    if t == "seq":
        return "[" + ", ".join(to_yaml(v) for v in node[1]) + "]"
    if t == "str":
        return json.dumps(node[1])
    if t == "int":
        return str(node[1])
    if t == "bool":
        return "true" if node[1] else "false"
    return "null"


def abstract(obj):
    """Projection of a loaded / built Python object back to the abstract form (R4 cross-check)."""
    if isinstance(obj, dict):
        return ("map", [(k if isinstance(k, int) and not isinstance(k, bool) else str_key(k), abstract(v))
                        for k, v in obj.items()])
    if isinstance(obj, list):
        return ("seq", [abstract(v) for v in obj])
    if isinstance(obj, bool):
        return ("bool", obj)
    if isinstance(obj, int):
        return ("int", int(obj))
    if isinstance(obj, str):
        return ("str", str(obj))
    if obj is None:
        return ("null",)
    raise ValueError("unexpected type %r" % type(obj))


def str_key(k):
    if not isinstance(k, str):
        raise ValueError("unexpected key type %r" % type(k))
    return str(k)


def yaml_safe(node):
    """Strings that the YAML route can carry (printable ASCII plus newline)."""
    t = node[0]
    if t == "map":
        return all((not isinstance(k, str) or text_ok(k)) and yaml_safe(v) for k, v in node[1])
    if t == "seq":
        return all(yaml_safe(v) for v in node[1])
    if t == "str":
        return text_ok(node[1])
    return True


def text_ok(s):
    return all(c == "\n" or " " <= c <= "~" for c in s)


# --------------------------------------------------------------------------
# stubs at the GPG / package-data boundary (the code under test is untouched)
# --------------------------------------------------------------------------

class _Import(object):
    count = 1


class _Valid(object):
    valid = True
    status = "signature valid"

    def __bool__(self):
        return True
    __nonzero__ = __bool__


class _Invalid(object):
    valid = False
    status = "signature bad"

    def __bool__(self):
        return False
    __nonzero__ = __bool__


class FakeGPG(object):
    seen = []
    answers = []        # answers of the next checks (True = valid); default valid

    def __init__(self, *a, **kw):
        pass

    def import_keys(self, data):
        return _Import()

    def verify_data(self, sig_file, data):
        FakeGPG.seen.append(bytes(data))
        ok = FakeGPG.answers.pop(0) if FakeGPG.answers else True
        return _Valid() if ok else _Invalid()


class _Gnupg(object):
    GPG = FakeGPG


class _Base64(object):
    """Signature decoding belongs to the (stubbed) signature check: total, never raises."""
    @staticmethod
    def b64decode(x):
        import base64
        try:
            return base64.b64decode(x)
        except Exception:
            return b""


class _Pkgutil(object):
    revocation = b""

    @staticmethod
    def get_data(pkg, name):
        import pkgutil
        if name == "revoked_playbooks.yaml":
            return _Pkgutil.revocation
        return pkgutil.get_data(pkg, name)


def install_stubs():
    pv.gnupg = _Gnupg
    pv.base64 = _Base64
    pv.pkgutil = _Pkgutil


def hex_form(h, rng):
    """One of the spellings of the same bytes that a revocation list may use (all accepted by
    bytearray.fromhex): lower, UPPER, MiXeD case, byte pairs separated by blanks."""
    form = rng.choice(["lower", "upper", "mixed", "spaced", "spaced-upper"])
    if form in ("upper", "spaced-upper"):
        h = h.upper()
    elif form == "mixed":
        h = "".join(c.upper() if rng.random() < 0.5 else c for c in h)
        if h == h.lower():
            h = h.upper()
    if form.startswith("spaced"):
        h = " ".join(h[i:i + 2] for i in range(0, len(h), 2))
    return h


LIST_FORMS = ["no-signature", "null-signature", "no-exclusion-list", "no-vars", "vars-not-a-mapping",
              "illegal-exclusion", "nonexistent-exclusion", "bad-signature", "unparsable"]


def revocation_doc(hexes, rng, form="ok"):
    """The revocation list as a document of its own: (abstract play or None, YAML bytes).  form = "ok" or one of
    LIST_FORMS: the same well-formedness dimensions as a play (signature, exclusion list, vars); "bad-signature"
    is a well-formed document for which the stubbed GPG answers invalid; "unparsable" is not YAML."""
    if form == "unparsable":
        return None, b"- {name: [revocation list\n  vars: {"
    # entry names: all different, all the same, or drawn from two names (entries may share a name)
    style = rng.choice(["distinct", "same", "same", "two"])
    entries = []
    for i, h in enumerate(hexes):
        name = {"distinct": "r%d" % i, "same": "revoked play", "two": "r%d" % rng.randint(0, 1)}[style]
        shown = hex_form(h, rng)
        if bytes(bytearray.fromhex(shown)) != binascii.unhexlify(h):
            raise RuntimeError("R4: rendered revocation entry does not denote the digest")
        entries.append(("map", [("name", ("str", name)), ("hash", ("str", shown))]))
    excl = {"illegal-exclusion": rng.choice(["/revoked_playbooks,/vars/insights_signature", "/name",
                                             "/vars/insights_signature,/timestamp", ""]),
            "nonexistent-exclusion": rng.choice(["/hosts,/vars/insights_signature", "/vars/zz"])
            }.get(form, "/vars/insights_signature")
    vs = [("insights_signature_exclude", ("str", excl)), ("insights_signature", ("str", "aaaa"))]
    if form == "no-signature":
        vs = vs[:1]
    elif form == "null-signature":
        vs[1] = ("insights_signature", ("null",))
    elif form == "no-exclusion-list":
        vs = vs[1:]
    ents = [("name", ("str", "revocation list")), ("timestamp", ("int", 1))]
    if form == "vars-not-a-mapping":
        ents.append(("vars", ("str", "insights_signature")))
    elif form != "no-vars":
        ents.append(("vars", ("map", vs)))
    ents.append(("revoked_playbooks", ("seq", entries)))
    node = ("map", ents)
    text = "- " + to_yaml(node) + "\n"
    loaded = pv.yaml.load(text)
    if not isinstance(loaded, list) or len(loaded) != 1 or abstract(loaded[0]) != node:
        raise RuntimeError("R4: the rendered revocation list does not load back as the intended document")
    return node, text.encode("ascii")


def hexd(b):
    return binascii.hexlify(b).decode("ascii")


# --------------------------------------------------------------------------
# running the real code
# --------------------------------------------------------------------------

def build(node, how):
    if how == "plain":
        return to_py(node, False)
    if how == "commented":
        return to_py(node, True)
    text = "- " + to_yaml(node) + "\n"
    loaded = pv.load_playbook_yaml(text)
    if not isinstance(loaded, list) or len(loaded) != 1:
        raise RuntimeError("YAML rendering did not give one play: %r" % text)
    if abstract(loaded[0]) != node:
        raise RuntimeError("R4: the YAML rendering does not load back as the intended play\n%s\n%r\n%r"
                           % (text, abstract(loaded[0]), node))
    return loaded[0]


def outcome(fn):
    try:
        return "ok", fn()
    except PlaybookVerificationError:
        return "err", None
    except Exception as ex:         # noqa: any other exception type is an observation, judged by the spec
        return "crash:" + type(ex).__name__, None


def observe(node, how, via, revoked=(), rng=None, lform="ok"):
    ev = {"ev": "obs", "via": via, "build": how, "revoked": list(revoked), "digest": "",
          "lparse": True, "lvalid": True, "ldoc": None}
    try:
        play = build(node, how)
    except Exception as ex:      # noqa
        if how != "yaml":
            raise
        # load_playbook_yaml is code under test: a play that does not load (back) is an observation
        ev["out"] = "crash:LoadedPlayDiffers"
        return ev
    if abstract(play) != node:
        raise RuntimeError("R4: built object does not project back to the abstract play")
    FakeGPG.seen = []
    FakeGPG.answers = []
    if via == "exclude":
        out, d = outcome(lambda: pv.hash_play(pv.serialize_play(pv.exclude_dynamic_elements(play))))
        if out == "ok":
            ev["digest"] = hexd(d)
    elif via == "verify_play":
        out, res = outcome(lambda: pv.verify_play(play))
        if out == "ok":
            # the digest that was checked against the signature: what reached the (stubbed) GPG; when the
            # verifier did not consult it, the digest it reports to have checked.  Whether that is acceptable
            # is for the specification to say (an observation, never a failure of the machinery).
            try:
                reported = bytes(res[1])
                accepted = bool(res[0])
            except Exception:
                reported, accepted = None, False
            if len(FakeGPG.seen) == 1:
                ev["digest"] = hexd(FakeGPG.seen[0])
                if not accepted or reported != FakeGPG.seen[0]:
                    out = "crash:ReturnedHashDiffers"
            elif len(FakeGPG.seen) == 0 and accepted and reported is not None:
                ev["digest"] = hexd(reported)
            else:
                out = "crash:UnexpectedSignatureChecks"
    else:
        ev["ldoc"], _Pkgutil.revocation = revocation_doc(revoked, rng, lform)
        ev["lparse"] = ev["ldoc"] is not None
        ev["lvalid"] = lform != "bad-signature"
        FakeGPG.answers = [ev["lvalid"]]      # the first check of verify() is the one of the list itself
        out, res = outcome(lambda: pv.verify(play))
        if len(FakeGPG.seen) == 2:      # [revocation list itself, the play]
            ev["digest"] = hexd(FakeGPG.seen[1])
        elif len(FakeGPG.seen) > 2:
            out = "crash:UnexpectedSignatureChecks"
        # fewer checks: no digest can be attributed to the play (digest stays ""); judged by the specification
        if out == "ok" and res is not play:
            out = "crash:ReturnedOtherPlay"
    ev["out"] = out
    return ev


# --------------------------------------------------------------------------
# seeded random plays beyond TLC's bounds, with single edits
# --------------------------------------------------------------------------

ALPHA = ["a", "b", "n", "t", "x", "0", "f", "1", "'", '"', "\\", ",", "(", ")", " ", "\n", "[", "]", ":", "/", "#", "\t", "{", "}"]
WORDS = ["\\x10", "True", "None", "ordereddict", "1", "", "a', 'b", "', ", "')", "('", "hosts", "vars"]


CONTROL = ["\x01", "\x10", "\x1f", "\x07", "\x7f", "\x00", "\x1b", "\r"]


def rstr(rng, maxlen=6):
    if rng.random() < 0.15:
        return rng.choice(WORDS)
    s = "".join(rng.choice(ALPHA) for _ in range(rng.randint(0, maxlen)))
    if rng.random() < 0.06:          # few strings carry a control character (they cannot take the YAML route)
        k = rng.randint(0, len(s))
        s = s[:k] + rng.choice(CONTROL) + rng.choice(["", "0", "f", "1"]) + s[k:]
    return s


def rkey(rng):
    r = rng.random()
    if r < 0.15:
        return rng.randint(0, 3)
    if r < 0.6:
        return rng.choice(["a", "b", "c", "k", "name", "when", "1", "0"])
    return rstr(rng, 4)


def rscalar(rng):
    r = rng.random()
    if r < 0.55:
        return ("str", rstr(rng))
    if r < 0.75:
        return ("int", rng.randint(0, 12))
    if r < 0.9:
        return ("bool", rng.random() < 0.5)
    return ("null",)


def rtree(rng, depth):
    r = rng.random()
    if depth <= 0 or r < 0.4:
        return rscalar(rng)
    n = rng.randint(0, 3)
    if r < 0.7:
        return ("seq", [rtree(rng, depth - 1) for _ in range(n)])
    ents, seen = [], set()
    for _ in range(n):
        k = rkey(rng)
        if k in seen:
            continue
        seen.add(k)
        ents.append((k, rtree(rng, depth - 1)))
    return ("map", ents)


def rbase(rng):
    """A signed play: name, optional hosts, vars (exclusion list, signature, children), tasks, extras."""
    ents = [("name", ("str", rstr(rng)))]
    hosts = rng.choice([None, ("str", "localhost"), ("map", [("a", rscalar(rng)), ("c", rscalar(rng))]),
                        ("seq", [rscalar(rng)])])
    if hosts is not None:
        ents.append(("hosts", hosts))
    children = []
    used = set()
    for _ in range(rng.randint(0, 3)):
        k = rng.choice(["c", "d", "e", "f x", "g'"])
        if k not in used:
            used.add(k)
            children.append((k, rtree(rng, 2)))
    reqs = []
    if hosts is not None and rng.random() < 0.7:
        reqs.append("/hosts")
    elif hosts is not None and hosts[0] == "map" and rng.random() < 0.5:
        reqs.append("/hosts/a")
    reqs.append("/vars/insights_signature")
    for k, _ in children:
        if rng.random() < 0.4 and "/" not in k and "," not in k:
            reqs.append("/vars/" + k)
    r = rng.random()
    if r < 0.10:
        reqs.append(rng.choice(["/tasks", "/name", "/vars/zz", "/hosts/zz", "/vars/c/d", "/become", "", "/become/a", "/a/c", "/vars_files", "/vars_prompt", "/hostsfile", "/vars_files/a", "/varsx", "/host",
                               "vars_files", "/varsx/a"]))
    rng.shuffle(reqs)
    vars_ents = [("insights_signature_exclude", ("str", ",".join(reqs)))]
    if rng.random() < 0.95:
        vars_ents.append(("insights_signature", ("str", "aaaa") if rng.random() < 0.9 else ("null",)))
    vars_ents += children
    rng.shuffle(vars_ents)
    if rng.random() < 0.04:
        vars_ents = [e for e in vars_ents if e[0] != "insights_signature_exclude"]
    if rng.random() < 0.97:
        ents.append(("vars", ("map", vars_ents)))
    ents.append(("tasks", ("seq", [rtree(rng, 3) for _ in range(rng.randint(1, 2))])))
    for _ in range(rng.randint(0, 2)):
        k = rng.choice(["become", "a", "x'", 7, "vars_files", "vars_prompt", "hostsfile", "host", "varsx"])
        if k not in [e[0] for e in ents]:
            ents.append((k, rtree(rng, 2)))
    return ("map", ents)


def paths(node, pre=()):
    yield pre, node
    if node[0] == "map":
        for i, (_, v) in enumerate(node[1]):
            for x in paths(v, pre + (i,)):
                yield x
    elif node[0] == "seq":
        for i, v in enumerate(node[1]):
            for x in paths(v, pre + (i,)):
                yield x


def replace(node, path, fn):
    """Copy of node with the sub-node at path replaced by fn(sub) (fn may return None: delete)."""
    if not path:
        return fn(node)
    i = path[0]
    kids = list(node[1])
    if node[0] == "map":
        k, v = kids[i]
        nv = replace(v, path[1:], fn)
        if nv is None:
            del kids[i]
        else:
            kids[i] = (k, nv)
    else:
        nv = replace(kids[i], path[1:], fn)
        if nv is None:
            del kids[i]
        else:
            kids[i] = nv
    return (node[0], kids)


def keys_ok(node):
    if node[0] == "map":
        ks = [k for k, _ in node[1]]
        if len(set(ks)) != len(ks):
            return False
        return all(keys_ok(v) for _, v in node[1])
    if node[0] == "seq":
        return all(keys_ok(v) for v in node[1])
    return True


def text_of(node):
    """The implementation's own rendering of a sub-structure: the raw material of a crafted edit."""
    return PlaybookSerializer.serialize(to_py(node, False))


def edits(rng, base, n):
    """Single edits: change, insert, delete, reorder, re-nest, re-type, crafted text."""
    out = []
    allp = [(p, nd) for p, nd in paths(base) if p]
    for _ in range(n * 4):
        if len(out) >= n or not allp:
            break
        p, nd = rng.choice(allp)
        kind = rng.choice(["change", "change", "key", "insert", "delete", "swap", "wrap", "unwrap", "retype",
                           "retype-key", "craft-key", "craft-val", "move-up"])
        e = None
        if kind == "change" and nd[0] not in ("map", "seq"):
            e = replace(base, p, lambda x: rscalar(rng))
        elif kind == "key" or kind == "retype-key" or kind == "craft-key":
            parent = get(base, p[:-1])
            if parent[0] == "map":
                k, v = parent[1][p[-1]]
                if kind == "key":
                    nk = rkey(rng)
                elif kind == "retype-key":
                    nk = str(k) if isinstance(k, int) else (int(k) if k.isdigit() and len(k) < 4 else None)
                else:
                    # fold this entry and the next one into one entry whose KEY re-creates both
                    if p[-1] + 1 < len(parent[1]) and isinstance(k, str):
                        k2, v2 = parent[1][p[-1] + 1]
                        two = text_of(("map", [(k, v), (k2, v2)]))
                        tail = "', " + text_of(v2) + ")])"
                        if two.endswith(tail):
                            nk = two[len("ordereddict([('"):-len(tail)]
                            kids = list(parent[1])
                            kids[p[-1]:p[-1] + 2] = [(nk, v2)]
                            e = replace(base, p[:-1], lambda x: ("map", kids))
                    nk = None
                if nk is not None and e is None:
                    kids = list(parent[1])
                    kids[p[-1]] = (nk, v)
                    e = replace(base, p[:-1], lambda x: ("map", kids))
        elif kind == "insert" and nd[0] in ("map", "seq"):
            kids = list(nd[1])
            pos = rng.randint(0, len(kids))
            kids.insert(pos, (rkey(rng), rscalar(rng)) if nd[0] == "map" else rscalar(rng))
            e = replace(base, p, lambda x: (nd[0], kids))
        elif kind == "delete":
            e = replace(base, p, lambda x: None)
        elif kind == "swap" and nd[0] in ("map", "seq") and len(nd[1]) >= 2:
            kids = list(nd[1])
            i = rng.randrange(len(kids) - 1)
            kids[i], kids[i + 1] = kids[i + 1], kids[i]
            e = replace(base, p, lambda x: (nd[0], kids))
        elif kind == "wrap":
            e = replace(base, p, lambda x: ("seq", [x]) if rng.random() < 0.6 else ("map", [("a", x)]))
        elif kind == "unwrap" and nd[0] in ("map", "seq") and len(nd[1]) == 1:
            e = replace(base, p, lambda x: x[1][0][1] if x[0] == "map" else x[1][0])
        elif kind == "move-up" and len(p) >= 2:
            parent = get(base, p[:-1])
            grand = get(base, p[:-2])
            if parent[0] == grand[0]:
                item = parent[1][p[-1]]
                np_ = (parent[0], [x for i, x in enumerate(parent[1]) if i != p[-1]])
                gk = list(grand[1])
                gk[p[-2]] = (gk[p[-2]][0], np_) if grand[0] == "map" else np_
                gk.insert(p[-2] + 1, item)
                e = replace(base, p[:-2], lambda x: (grand[0], gk))
        elif kind == "retype":
            if nd[0] in ("int", "bool", "null"):
                e = replace(base, p, lambda x: ("str", text_of(x)))
            elif nd[0] == "str" and nd[1].isdigit() and len(nd[1]) < 4 and str(int(nd[1])) == nd[1]:
                e = replace(base, p, lambda x: ("int", int(x[1])))
            elif nd[0] == "str" and nd[1] in ("True", "False", "None"):
                e = replace(base, p, lambda x: {"True": ("bool", True), "False": ("bool", False), "None": ("null",)}[x[1]])
            elif nd[0] == "seq":
                e = replace(base, p, lambda x: ("map", [(i, v) for i, v in enumerate(x[1])]))
            elif nd[0] == "map":
                e = replace(base, p, lambda x: ("seq", [v for _, v in x[1]]))
        elif kind == "craft-val":
            if nd[0] in ("map", "seq"):
                full = text_of(nd)
                if nd[0] == "seq" and len(nd[1]) >= 2 and full.startswith("['") and full.endswith("']"):
                    e = replace(base, p, lambda x: ("seq", [("str", full[2:-2])]))
                else:
                    e = replace(base, p, lambda x: ("str", full))
            elif nd[0] == "str":
                e = replace(base, p, lambda x: ("str", text_of(x)))
        if e is not None and e != base and e[0] == "map" and keys_ok(e) and e not in out:
            out.append(e)
    return out


def get(node, path):
    for i in path:
        node = node[1][i][1] if node[0] == "map" else node[1][i]
    return node


# --------------------------------------------------------------------------

def main():
    logging.disable(logging.CRITICAL)
    tempfile.tempdir = os.getcwd()
    with open(sys.argv[1]) as f:
        inp = json.load(f)
    install_stubs()
    nodes, origin = [], []
    for i, fl in enumerate(inp.get("plays", [])):
        nodes.append(unflat(fl))
        if flat(nodes[-1]) != fl:
            raise RuntimeError("flat codec does not round-trip")
        origin.append("tlc")
    rnd = inp.get("random")
    if rnd:
        rng = random.Random(rnd["seed"])
        for b in range(rnd["bases"]):
            base = rbase(rng)
            fam = [base] + edits(rng, base, rnd["edits"])
            for j, nd in enumerate(fam):
                nodes.append(nd)
                origin.append("random/%d/%d/%d" % (rnd["seed"], b, j))
    every = inp.get("verify_every", 0)
    frng = random.Random(inp.get("seed", 0))      # spelling of the revocation entries
    events = []
    digests = []          # digests seen so far (material for synthetic revocation lists)
    nyaml = 0
    for i, nd in enumerate(nodes):
        builds = ["plain", "commented"]
        if yaml_safe(nd):
            builds.append("yaml")
            nyaml += 1
        own = None
        for how in builds:
            # plain: the direct call sequence; commented / yaml: the public verify_play path
            ev = observe(nd, how, "exclude" if how == "plain" else "verify_play")
            ev["p"] = i + 1
            events.append(ev)
            if ev["digest"]:
                own = ev["digest"]
        if own:
            digests.append(own)
        if every and i % every == 0:
            other = [d for d in digests[-6:] if d != own][:2]
            while len(other) < 2:       # digests of nothing that is ever verified
                other.append(hashlib.sha256(b"unrelated %d %d" % (i, len(other))).hexdigest())
            lists = [other]
            if own:                     # the play's own digest alone, last, first and in the middle
                lists += [[own], other + [own], [own] + other, [other[0], own, other[1]]]
            todo = [(rev, "ok") for rev in lists]
            # the list document itself ill-formed / unverifiable, with and without the play's digest on it
            for form in frng.sample(LIST_FORMS, 2):
                todo.append((lists[frng.randrange(len(lists))], form))
            for j, (rev, form) in enumerate(todo):
                ev = observe(nd, builds[(i // every + j) % len(builds)], "verify", rev, frng, form)
                ev["p"] = i + 1
                events.append(ev)
    docs = []
    for ev in events:           # the list documents travel as plays of their own, referenced by index
        doc = ev.pop("ldoc")
        if doc is None:
            ev["ldoc"] = ev["p"]
        else:
            docs.append(doc)
            ev["ldoc"] = len(nodes) + len(docs)
    with open(sys.argv[2], "w") as f:
        json.dump({"plays": [flat(nd) for nd in nodes + docs], "origin": origin + ["listdoc"] * len(docs), "events": events,
                   "stats": {"plays": len(nodes), "events": len(events), "yaml_builds": nyaml}}, f,
                  separators=(",", ":"))


if __name__ == "__main__":
    main()
