"""Driver for ClientPhases (X08): runs abstract client runs emitted by TLC through the REAL phase
functions of insights/client/phase/v1.py (pre_update, update, post_update, collect_and_output),
one forked child process per phase, the phases composed the way the RPM wrapper composes them (the
next phase starts only if the previous one exited with status 0).  Contains no oracle: what is
recorded (exit statuses, requests that reached the scripted server, opaque steps, the projection of
the sandbox after every phase) is judged by specs/ClientPhasesTrace.tla.

The network is a scripted fake `requests` session given to the real InsightsConnection; the
collection itself (insights.collect.collect), the scheduler, the support dump, the advisor-report
download and show_results are recorded stand-ins (they touch /etc, /var or run host commands).
Every path of the client is pointed into a sandbox; an audit hook refuses (and reports as a harness
failure) every write outside the sandbox and every socket operation.

usage: drive_clientphases.py <in.json> <out.json>
in : {"cases":[{"id":..,"opt":{..},"srv":{..},"disk":{..}}], "seed": n}
out: {"traces":[{"id","opt","srv","init","events":[{phase,exits,did,calls,post,exc}]}], "stats":{..}}
"""
import json
import os
import random
import shutil
import sys
import tempfile
import traceback

BASE = tempfile.mkdtemp(prefix="x08-", dir=os.getcwd())
ETC = os.path.join(BASE, "etc")
os.environ["INSIGHTS_CONF_DIR"] = ETC          # read once, when insights.client.constants is imported
for _k in list(os.environ):
    if _k.upper().startswith("INSIGHTS_") and _k != "INSIGHTS_CONF_DIR":
        del os.environ[_k]
for _k in ("HTTP_PROXY", "HTTPS_PROXY", "NO_PROXY", "http_proxy", "https_proxy", "no_proxy", "NOTIFY_SOCKET", "EGG"):
    os.environ.pop(_k, None)

import requests                                                     # noqa: E402
import insights.collect as core_collect                             # noqa: E402
from insights.client import InsightsClient, client as client_mod    # noqa: E402
from insights.client import connection as connection_mod            # noqa: E402
from insights.client import archive as archive_mod                  # noqa: E402
from insights.client import utilities as utilities_mod              # noqa: E402
from insights.client import cert_auth                                # noqa: E402
from insights.client.constants import InsightsConstants as constants  # noqa: E402
from insights.client.phase import v1                                # noqa: E402

del os.environ["INSIGHTS_CONF_DIR"]

PHASES = ["pre_update", "update", "post_update", "collect_and_output"]
BOOL_FLAGS = {"version": "--version", "validate": "--validate", "enable_schedule": "--enable-schedule",
              "disable_schedule": "--disable-schedule", "test_connection": "--test-connection",
              "support": "--support", "diagnosis": "--diagnosis", "checkin": "--checkin", "status": "--status",
              "unregister": "--unregister", "register": "--register", "offline": "--offline",
              "no_upload": "--no-upload", "keep_archive": "--keep-archive", "list_specs": "--list-specs",
              "show_results": "--show-results", "check_results": "--check-results", "force": "--force",
              "compliance": "--compliance"}
MID = "dc194312-8cdd-4e75-8cf1-2094bf666f45"


class HarnessError(Exception):
    pass


# ---------------------------------------------------------------------------
# sandbox layout (one per driver process, emptied for every case)
# ---------------------------------------------------------------------------
P = dict(
    etc=ETC, legacy=os.path.join(BASE, "etc-legacy"), tmp=os.path.join(BASE, "var", "tmp"),
    keep=os.path.join(BASE, "var", "cache", "insights-client"), lib=os.path.join(BASE, "var", "lib", "insights"),
    log=os.path.join(BASE, "var", "log"), run=os.path.join(BASE, "run"), out=os.path.join(BASE, "out"),
    cwd=os.path.join(BASE, "cwd"), pay=os.path.join(BASE, "payload"))
CONF = os.path.join(ETC, "insights-client.conf")
OUTDIR = os.path.join(P["out"], "dir")
OUTFILE = os.path.join(P["out"], "arch.tar.gz")
PAYLOAD = os.path.join(P["pay"], "payload.tar.gz")
REG = os.path.join(ETC, ".registered")
UNREG = os.path.join(ETC, ".unregistered")
MIDF = os.path.join(ETC, "machine-id")
BRANCH = os.path.join(ETC, ".branch_info")
LASTUP = os.path.join(ETC, ".lastupload")


def patch_constants():
    c = constants
    if c.default_conf_dir != ETC or c.machine_id_file != MIDF or c.registered_files[0] != REG:
        raise HarnessError("INSIGHTS_CONF_DIR was not honoured by insights.client.constants")
    c.simple_find_replace_dir = P["legacy"]
    c.registered_files = [REG, os.path.join(P["legacy"], ".registered")]
    c.unregistered_files = [UNREG, os.path.join(P["legacy"], ".unregistered")]
    c.log_dir = P["log"]
    c.default_log_file = os.path.join(P["log"], "insights-client.log")
    c.default_payload_log = os.path.join(P["log"], "insights-client-payload.log")
    c.insights_core_lib_dir = P["lib"]
    c.insights_core_last_stable = os.path.join(P["lib"], "last_stable.egg")
    c.insights_core_last_stable_gpg_sig = os.path.join(P["lib"], "last_stable.egg.asc")
    c.insights_core_newest = os.path.join(P["lib"], "newest.egg")
    c.insights_core_gpg_sig_newest = os.path.join(P["lib"], "newest.egg.asc")
    c.pidfile = os.path.join(P["run"], "insights-client.pid")
    c.ppidfile = os.path.join(P["run"], "insights-client.ppid")
    c.insights_tmp_path = P["tmp"]
    c.cache_dir = P["keep"]
    c.egg_release_file = os.path.join(P["keep"], "insights-client-egg-release")
    c.rhsm_facts_dir = os.path.join(BASE, "etc-rhsm", "facts")
    c.rhsm_facts_file = os.path.join(c.rhsm_facts_dir, "insights-client.facts")
    c.sleep_time = 0
    cert_auth.RHSM_CONFIG = None


# ---------------------------------------------------------------------------
# audit hook: nothing outside the sandbox is written, no socket is used
# ---------------------------------------------------------------------------
class Guard(object):
    armed = False
    refused = []
    errors = []
    WRITES = {"os.mkdir": (0,), "os.rmdir": (0,), "os.remove": (0,), "os.rename": (0, 1), "os.symlink": (1,),
              "os.link": (1,), "os.chmod": (0,), "os.chown": (0,), "os.truncate": (0,), "os.utime": (0,),
              "shutil.copyfile": (1,), "shutil.copytree": (1,), "shutil.rmtree": (0,), "shutil.move": (0, 1),
              "tempfile.mkdtemp": (0,), "tempfile.mkstemp": (0,)}
    DIRFD = {"os.mkdir": 2, "os.rmdir": 1, "os.remove": 1, "os.chmod": 2, "os.utime": 3}
    TMPOK = (tempfile.gettempdir(),)


def _inside(path):
    if isinstance(path, bytes):
        path = os.fsdecode(path)
    if not isinstance(path, str):
        try:
            path = os.fspath(path)
        except TypeError:
            return True
    p = os.path.abspath(path)
    return p == BASE or p.startswith(BASE + os.sep) or p == "/dev/null"


def _hook(event, args):
    if not Guard.armed:
        return
    bad = None
    try:
        if event in Guard.WRITES:
            i = Guard.DIRFD.get(event)
            if i is not None and len(args) > i and args[i] is not None:
                return
            for j in Guard.WRITES[event]:
                if j < len(args) and args[j] is not None and not _inside(args[j]):
                    bad = "%s %s" % (event, args[j])
        elif event == "open":
            path, flags = args[0], args[2]
            if isinstance(flags, int) and flags & (os.O_WRONLY | os.O_RDWR | os.O_CREAT | os.O_TRUNC | os.O_APPEND):
                if not isinstance(path, int) and not _inside(path):
                    bad = "open-for-writing %s" % (path,)
        elif event.startswith("socket.") and event not in ("socket.gethostname", "socket.__new__"):
            bad = "%s %r" % (event, args[1:2])
        elif event == "subprocess.Popen":
            argv = args[1]
            exe = os.path.basename(str(argv[0] if argv else args[0]))
            if exe not in ("tar", "file", "gzip"):
                bad = "subprocess %s" % exe
    except Exception as ex:
        Guard.errors.append("%s: %r" % (event, ex))
        return
    if bad:
        Guard.refused.append(bad + " @ " + " < ".join("%s:%d" % (os.path.basename(f.filename), f.lineno)
                                                     for f in traceback.extract_stack()[-7:-1][::-1]))
        raise PermissionError("x08 sandbox guard refused: " + bad)


# ---------------------------------------------------------------------------
# the scripted server
# ---------------------------------------------------------------------------
class Response(object):
    def __init__(self, status, body=None, reason=None):
        self.status_code = status
        self.reason = reason or {200: "OK", 201: "Created", 202: "Accepted", 204: "No Content", 404: "Not Found",
                                 500: "Internal Server Error"}.get(status, "?")
        self.text = json.dumps(body) if body is not None else ""
        self.content = self.text.encode("utf-8")
        self.headers = {"Content-Type": "application/json", "etag": "x08"}
        self.elapsed = 0
        self.request = type("Rq", (), {"headers": {}})()

    def json(self):
        return json.loads(self.text)


class Log(object):
    calls = []       # request kinds that reached the scripted server, in order
    did = []         # opaque steps, in order
    exits = []       # every status given to sys.exit
    in_test = 0


def classify(method, url):
    if Log.in_test:
        return "testconn"
    if "/hosts/checkin" in url:
        return "checkin"
    if "host_exists" in url:
        return "hostexists"
    if "/remediations/v1/diagnosis" in url:
        return "diagnosis"
    if url.rstrip("/").endswith("/v1/systems") and method == "POST":
        return "register"
    if "/v1/systems/" in url:
        return {"GET": "regcheck", "DELETE": "unregister", "PUT": "displayname"}.get(method, "other")
    if ("/uploads" in url or "/ingress/v1/upload" in url) and method == "POST":
        return "upload"
    if "branch_info" in url:
        return "branchinfo"
    return "other"


class FakeSession(object):
    """what requests.Session is to InsightsConnection; the answers come from the case's script"""
    srv = None
    headers = {}

    def request(self, url=None, method=None, timeout=None, **kwargs):
        kind = classify(method, url)
        Log.calls.append(kind)
        s = FakeSession.srv
        for f in (kwargs.get("files") or {}).values():      # what a real session does with the attachments
            if isinstance(f, tuple) and hasattr(f[1], "read"):
                f[1].read()
        if s["net"] == "down":
            raise requests.ConnectionError("x08: scripted server is unreachable")
        if kind == "testconn":
            return Response(200, {})
        if kind == "regcheck":
            if s["reg"] == "yes":
                return Response(200, {"unregistered_at": None, "account_number": "1234", "display_name": "x"})
            return Response(404, {})
        if kind == "hostexists":
            if s["reg"] == "yes":
                return Response(200, {"id": "11111111-2222-3333-4444-555555555555"})
            return Response(404, {"detail": "not found"})
        if kind == "register":
            return Response(201, {"machine_id": MID, "account_number": "1234"})
        if kind == "unregister":
            return Response(204) if s["unreg"] == "ok" else Response(500, {"message": "scripted failure"})
        if kind == "upload":
            if s["up"] == "ok":
                return Response(201 if "/uploads" in url else 202, {"upload": {"account_number": "1234"}})
            return Response(500, {"message": "scripted failure"})
        if kind == "checkin":
            return Response(201, {}) if s["chk"] == "ok" else Response(404, {})
        if kind == "diagnosis":
            return Response(200, {"insights_id": MID, "details": {}})
        if kind == "branchinfo":
            return Response(200, {"remote_branch": -1, "remote_leaf": -1})
        return Response(200, {})


class FakeScheduler(object):
    def schedule(self):
        Log.did.append("schedule")
        return True

    def remove_scheduling(self):
        Log.did.append("unschedule")
        return True


class FakeSupport(object):
    def __init__(self, config):
        pass

    def collect_support_info(self):
        Log.did.append("support")


def fake_collect(tmp_path=None, archive_name=None, rm_conf=None, client_config=None, **kw):
    Log.did.append("collect")
    d = os.path.join(tmp_path, archive_name, "data")
    os.makedirs(d)
    with open(os.path.join(d, "hostname"), "w") as f:
        f.write("host.example.com\n")
    return os.path.join(tmp_path, archive_name)


def install_standins():
    """Done once in the driver process; every forked phase inherits them."""
    patch_constants()
    connection_mod.InsightsConnection._init_session = lambda self: FakeSession()
    real_test = connection_mod.InsightsConnection.test_connection

    def test_connection(self, rc=0):
        Log.in_test += 1
        try:
            return real_test(self, rc)
        finally:
            Log.in_test -= 1
    connection_mod.InsightsConnection.test_connection = test_connection

    def get_advisor_report(self):
        Log.calls.append("advisor")
        if FakeSession.srv["net"] == "down":
            raise requests.ConnectionError("x08: scripted server is unreachable")
        return {"reports": []} if FakeSession.srv["reg"] == "yes" else None
    connection_mod.InsightsConnection.get_advisor_report = get_advisor_report
    connection_mod.get_canonical_facts = lambda: {"insights_id": MID}
    v1.get_scheduler = lambda config, *a, **k: FakeScheduler()
    v1.InsightsSupport = FakeSupport
    core_collect.collect = fake_collect

    def show_results(self):
        Log.did.append("show_results")
    InsightsClient.show_results = show_results
    real_update = InsightsClient.update

    def update(self):
        Log.did.append("update")
        if FakeSession.srv.get("upd") == "raises":
            raise IOError("x08: scripted update failure")
        return real_update(self)
    InsightsClient.update = update
    real_rotate = InsightsClient.rotate_eggs

    def rotate_eggs(self):
        Log.did.append("rotate")
        return real_rotate(self)
    InsightsClient.rotate_eggs = rotate_eggs
    real_init = archive_mod.InsightsArchive.__init__

    def arch_init(self, config):
        real_init(self, config)
        self.keep_archive_dir = P["keep"]      # hard-coded '/var/cache/insights-client' in the constructor
    archive_mod.InsightsArchive.__init__ = arch_init
    def hostname(display_name=None):           # the real one asks the resolver
        return display_name or "host.example.com"
    for m in list(sys.modules.values()):
        if getattr(m, "__name__", "").startswith("insights") and hasattr(m, "determine_hostname"):
            m.determine_hostname = hostname
    real_exit = sys.exit

    def recording_exit(code=0):
        Log.exits.append(code if isinstance(code, int) else -1)
        real_exit(code)
    sys.exit = recording_exit


# ---------------------------------------------------------------------------
# one case
# ---------------------------------------------------------------------------
def write(path, data):
    d = os.path.dirname(path)
    if not os.path.isdir(d):
        os.makedirs(d)
    with open(path, "w") as f:
        f.write(data)


def build_world(case):
    for k, p in P.items():
        if os.path.lexists(p):
            shutil.rmtree(p)
    shutil.rmtree(os.path.join(BASE, "var"), True)
    for k in ("etc", "legacy", "tmp", "lib", "log", "run", "out", "cwd", "pay"):
        os.makedirs(P[k])
    opt = case["opt"]
    conf = ["[insights-client]", "auto_config=False", "auto_update=False", "retries=1", "username=u", "password=p",
            "logging_file=" + os.path.join(P["log"], "client.log"),
            "legacy_upload=" + ("True" if opt["legacy"] else "False")]
    write(CONF, "\n".join(conf) + "\n")
    d = case["disk"]
    if d["registered"]:
        write(REG, "2001-01-01T00:00:00.000000")
    if d["unregistered"]:
        write(UNREG, "2001-01-01T00:00:00.000000")
    if d["machineid"]:
        write(MIDF, MID)
    write(BRANCH, '{"remote_branch": -1, "remote_leaf": -1}')
    write(PAYLOAD, "not really a tar file\n")


def argv_of(opt):
    argv = ["insights-client", "--conf", CONF]
    for k, flag in sorted(BOOL_FLAGS.items()):
        if opt.get(k):
            argv.append(flag)
    if opt["output"] == "dir":
        argv += ["--output-dir", OUTDIR]
    elif opt["output"] == "file":
        argv += ["--output-file", OUTFILE]
    if opt["payload"]:
        argv += ["--payload", PAYLOAD, "--content-type", "gz"]
    return argv


def project():
    def tars(d):
        try:
            return [n for n in os.listdir(d) if ".tar" in n]
        except OSError:
            return []
    try:
        tmpdirs = [n for n in os.listdir(P["tmp"]) if n.startswith("insights-client")]
    except OSError:
        tmpdirs = []
    outdir = os.path.isdir(OUTDIR) and bool(os.listdir(OUTDIR))
    return {"registered": os.path.isfile(REG), "unregistered": os.path.isfile(UNREG), "machineid": os.path.isfile(MIDF),
            "branch": os.path.isfile(BRANCH), "lastupload": os.path.isfile(LASTUP), "tmp": bool(tmpdirs),
            "kept": bool(tars(P["keep"])), "outfile": os.path.isfile(OUTFILE), "outdir": outdir,
            "payload": os.path.isfile(PAYLOAD)}


def run_phase(name, argv, srv):
    """fork; in the child run the real phase function to its exit; report through a pipe"""
    r, w = os.pipe()
    pid = os.fork()
    if pid == 0:
        status = 70
        try:
            os.close(r)
            import atexit
            atexit._clear()
            devnull = os.open(os.devnull, os.O_RDWR)
            os.dup2(devnull, 0)
            os.dup2(devnull, 1)
            os.dup2(devnull, 2)
            os.chdir(P["cwd"])
            tempfile.tempdir = P["cwd"]            # the system's temporary directory, as far as Python is concerned
            sys.argv = argv
            os.environ["INSIGHTS_PHASE"] = name
            FakeSession.srv = srv
            Log.calls, Log.did, Log.exits = [], [], []
            out = {"exc": "", "code": -1}
            Guard.armed = True
            try:
                getattr(v1, name)()
                out["exc"] = "phase function returned"
            except SystemExit as ex:
                out["code"] = ex.code if isinstance(ex.code, int) else -1
            except BaseException as ex:
                out["exc"] = "%s: %s" % (type(ex).__name__, ex)
            try:
                atexit._run_exitfuncs()         # what the interpreter does on the way out (archive cleanup)
            except BaseException as ex:
                out["exc"] = out["exc"] or "atexit %s: %s" % (type(ex).__name__, ex)
            Guard.armed = False
            out.update(calls=Log.calls, did=Log.did, exits=Log.exits, refused=Guard.refused, hookerr=Guard.errors)
            os.write(w, json.dumps(out).encode("utf-8"))
            status = 0
        except BaseException:
            try:
                os.write(w, json.dumps({"harness": traceback.format_exc()}).encode("utf-8"))
            except BaseException:
                pass
        finally:
            os._exit(status)
    os.close(w)
    chunks = []
    while True:
        b = os.read(r, 65536)
        if not b:
            break
        chunks.append(b)
    os.close(r)
    _, st = os.waitpid(pid, 0)
    try:
        out = json.loads(b"".join(chunks).decode("utf-8"))
    except ValueError:
        raise HarnessError("phase child %s died (wait status %s) without a report" % (name, st))
    if "harness" in out:
        raise HarnessError("phase child %s: %s" % (name, out["harness"]))
    if out["hookerr"]:
        raise HarnessError("audit hook failed: %s" % out["hookerr"][:3])
    return out


def run_case(case, stats):
    build_world(case)
    init = project()
    want = case["disk"]
    for k in ("registered", "unregistered", "machineid"):
        if init[k] != want[k]:
            raise HarnessError("R4: initial world %r concretised to %r" % (want, init))
    argv = argv_of(case["opt"])
    events = []
    for name in PHASES:
        out = run_phase(name, argv, case["srv"])
        if out["refused"]:
            raise HarnessError("the code under test tried to leave the sandbox in %s of %s: %s"
                               % (name, case["id"], out["refused"][:3]))
        post = project()
        stats["phases"] = stats.get("phases", 0) + 1
        stats["requests"] = stats.get("requests", 0) + len(out["calls"])
        for k in out["did"]:
            stats["did:" + k] = stats.get("did:" + k, 0) + 1
        events.append({"phase": name, "code": out["code"], "exits": out["exits"], "did": out["did"],
                       "calls": out["calls"], "post": post, "exc": out["exc"][:300]})
        if out["code"] != 0:
            break                       # the wrapper goes on to the next phase only after exit status 0
    return {"id": case["id"], "opt": case["opt"], "srv": case["srv"], "init": init, "events": events}


def main():
    with open(sys.argv[1]) as f:
        inp = json.load(f)
    stats = {}
    traces = []
    try:
        install_standins()
        sys.addaudithook(_hook)
        for case in inp["cases"]:
            traces.append(run_case(case, stats))
    finally:
        Guard.armed = False
        shutil.rmtree(BASE, True)
    with open(sys.argv[2], "w") as f:
        f.write(json.dumps({"traces": traces, "stats": stats}, separators=(",", ":")))


if __name__ == "__main__":
    try:
        main()
    finally:
        shutil.rmtree(BASE, True)
