"""X03: command execution - how a command / a pipeline of commands is run and what the caller gets back
(insights.util.subproc, insights.util.streams, ExecutionContext.check_output / shell_out / stream / connect,
CommandOutputProvider.load / _stream behind simple_command).
Model: specs/CommandExec.tla (reference operators + a state machine over processes, pipes, a clock and the
parent that is either the specified behaviour or a transcription of the code; TLC checks mechanism |= reference
on every case of every family), emission wrapper specs/CommandExecMC.tla, trace validation
specs/CommandExecTrace.tla, driver harness/drive_commandexec.py."""
import collections
import concurrent.futures
import copy
import json
import os
import random
import re
import time

import lib

CONST_ORDER = ["MaxN", "Rd1", "RdK", "Outs", "Rcs", "Slows", "Errs", "MaxOdd", "Apis", "Keeps", "Tmos", "Sigs", "Splits",
               "Forms", "Metas", "Envs", "Bares", "Flts", "Mechs", "Admit"]
DEFAULTS = dict(MaxN=2, Rd1=["no"], RdK=["pass"], Outs=["p"], Rcs=["0"], Slows=[False], Errs=[False], MaxOdd=3,
                Apis=["call"], Keeps=[False], Tmos=["none"], Sigs=["KILL"], Splits=[True], Forms=["list"], Metas=[False],
                Envs=["none"], Bares=[False], Flts=["none"], Mechs=["code", "intended"], Admit=[])
INVARIANTS = ["TypeOK", "ResultIsLastStageOutput", "RcPolicy", "NotFoundIsAnError", "ExceptionCarriesOutput",
              "TimeoutTerminates", "Terminates", "NoneRunningAtReturn", "NothingStuck", "AllReapedButKnown",
              "NeverReadsCallerStdin", "NoShell", "EnvIsControlled", "StreamEqualsCall"]
# (the transcription of the code never waits for the earlier stages of a Pipeline: AllReaped is refuted separately)
ACTIONS = ["Spawn", "SpawnFail", "Return", "ReadStdin", "StageRead", "StageEmit", "StageWake", "StageEnd", "StageEpipe",
           "StageKill", "Tick"]
BOOL = [False, True]
PARAMS = dict(T=0.2, TL=6, S=1.2, WD=2.8, OVER=0.9, GRACE=0.4)
# round 2: cases whose first run broke the harness' timing assumption (a process needed longer than the timeout
# just to start: loaded machine) are run again, few at a time, with longer times
PARAMS2 = dict(T=1.0, TL=12, S=3.5, WD=8.0, OVER=2.6, GRACE=0.8)


def fam(**kw):
    d = dict(DEFAULTS)
    d.update(kw)
    return d


# Every case of a family is enumerated by TLC with both mechanisms (chosen in Init): the transcription of the code
# (the classes of known deviations excluded: the code's mechanism satisfies every statement on all other cases) and
# the specified mechanism (every case, every statement); the cases are emitted from the initial states of the
# specified mechanism, and EVERY emitted case is replayed.
FAMILIES = {
    "quick": collections.OrderedDict([
        # which exit status decides: every combination of statuses over 1..3 stages
        ("rc", fam(MaxN=3, Rcs=["0", "1", "2", "sig"], Apis=["call", "write", "shell"], Keeps=BOOL)),
        # what comes back: lines of every kind, stderr, readers that pass / drain / ignore, text and bytes, split
        ("out", fam(RdK=["no", "drain", "pass"], Outs=["", "p", "pb"], Errs=BOOL,
                    Apis=["call", "pipe", "shell", "connect"], Splits=BOOL)),
        # timeouts: slow stages anywhere, both signals, with and without keep_rc
        ("tmo", fam(Rcs=["0", "1"], Slows=BOOL, Apis=["call", "connect"], Keeps=BOOL, Tmos=["arg"], Sigs=["KILL", "TERM"])),
        # the control: without a timeout slow stages run to their end
        ("notmo", fam(Slows=BOOL, Apis=["call", "connect"])),
        # which timeout applies: argument / context default / both
        ("tmoctx", fam(Slows=BOOL, Apis=["shell", "prov"], Keeps=BOOL, Tmos=["none", "arg", "ctx", "both"],
                       Envs=["none", "safe"], Flts=["none", "hit"], Forms=["list", "str"])),
        # standard input of every stage
        ("stdin", fam(MaxN=3, Rd1=["no", "drain", "pass"], RdK=["no", "drain", "pass"], Apis=["call", "write", "connect"])),
        # lines that do not fit into a pipe, readers that do not read
        ("big", fam(RdK=["no", "drain", "pass"], Outs=["p", "L", "pL"], Apis=["call", "connect"], Tmos=["none", "arg"])),
        # commands that do not exist
        ("nf", fam(Rcs=["0", "nf"], Outs=["p", "L"], Apis=["call", "write", "shell", "connect"])),
        # argv, environment, command lookup
        ("argv", fam(Apis=["call", "pipe", "shell", "connect"], Forms=["list", "str"], Metas=BOOL, Envs=["none", "given"],
                     Bares=BOOL)),
        # a simple_command spec under a HostContext: SAFE_ENV, inherit / override, filters (the grep stage), keep_rc
        ("prov", fam(MaxN=1, Outs=["", "p", "pb", "bp"], Rcs=["0", "1", "127", "nf"], Apis=["prov", "provs"], Keeps=BOOL,
                     Splits=BOOL, Forms=["str"], Metas=[True], Envs=["safe", "safep"], Flts=["none", "hit", "miss"])),
        ("provin", fam(MaxN=1, Rd1=["no", "drain", "pass"], Errs=BOOL, Apis=["prov", "provs"], Forms=["str"],
                       Envs=["safe"], Flts=["none", "hit"])),
    ]),
}
FAMILIES["thorough"] = collections.OrderedDict(FAMILIES["quick"])
FAMILIES["thorough"].update([
    ("rc", fam(MaxN=3, Rcs=["0", "1", "2", "127", "sig"], Apis=["call", "pipe", "write", "shell", "connect"], Keeps=BOOL,
               Forms=["list", "str"])),
    ("out", fam(MaxN=3, MaxOdd=2, RdK=["no", "drain", "pass"], Outs=["", "p", "b", "pp", "pb", "bp"], Errs=BOOL,
                Apis=["call", "pipe", "write", "shell", "connect"], Splits=BOOL)),
    ("tmo", fam(MaxN=3, MaxOdd=2, Rcs=["0", "1"], Slows=BOOL, Apis=["call", "pipe", "write", "connect"], Keeps=BOOL,
                Tmos=["arg"], Sigs=["KILL", "TERM"])),
    ("notmo", fam(MaxN=3, Slows=BOOL, Apis=["call", "write", "connect"], Keeps=BOOL)),
    # one stage that deviates in every respect at once, anywhere in 1..3 stages
    ("mix", fam(MaxN=3, MaxOdd=1, Rd1=["no", "drain", "pass"], RdK=["no", "drain", "pass"], Outs=["p", "pb", "L"],
                Rcs=["0", "1", "sig"], Slows=BOOL, Errs=BOOL, Apis=["call", "shell", "connect"], Keeps=BOOL,
                Tmos=["none", "arg"])),
    ("tmoctx", fam(Slows=BOOL, Rcs=["0", "2"], Apis=["shell", "prov"], Keeps=BOOL, Tmos=["none", "arg", "ctx", "both"],
                   Sigs=["KILL", "TERM"], Envs=["none", "safe"], Flts=["none", "hit", "miss"], Forms=["list", "str"])),
    ("stdin", fam(MaxN=3, Rd1=["no", "drain", "pass"], RdK=["no", "drain", "pass"],
                  Apis=["call", "pipe", "write", "shell", "connect"], Outs=["p", "pb"], MaxOdd=3)),
    ("big", fam(MaxN=3, MaxOdd=2, RdK=["no", "drain", "pass"], Outs=["p", "L", "pL", "Lp"], Apis=["call", "shell", "connect"],
                Tmos=["none", "arg"])),
    ("nf", fam(MaxN=3, Rcs=["0", "nf"], Outs=["p", "L"], Apis=["call", "pipe", "write", "shell", "connect"])),
    ("argv", fam(MaxN=3, Apis=["call", "pipe", "write", "shell", "connect"], Forms=["list", "str"], Metas=BOOL,
                 Envs=["none", "given"], Bares=BOOL, Rcs=["0", "1"], MaxOdd=1)),
    ("prov", fam(MaxN=1, Rd1=["no", "drain"], Outs=["", "p", "b", "pb", "bp", "pp"], Rcs=["0", "1", "127", "nf"], Errs=BOOL,
                 Apis=["prov", "provs"], Keeps=BOOL, Splits=BOOL, Forms=["str"], Metas=BOOL, Envs=["safe", "safep"],
                 Flts=["none", "hit", "miss"])),
])

# the same universe in one piece with the SPECIFIED mechanism: every statement holds, every action is taken
DESIGN = fam(Mechs=["intended"], MaxN=2, Rd1=["no", "pass"], RdK=["no", "pass"], Outs=["p", "L"], Rcs=["0", "1", "nf"], Slows=BOOL,
             Apis=["call", "connect"], Tmos=["none", "arg"])
# the transcription of the code on the classes of cases it is known to mishandle: TLC must refute these
R = dict(MaxN=2, Rd1=["no", "drain"], RdK=["no", "pass"], Outs=["p", "L", "pb"], Rcs=["0", "1", "nf"], Slows=BOOL,
         Apis=["call", "connect"], Tmos=["none", "arg"], Envs=["given"], Bares=BOOL, Mechs=["code"])
# class -> (invariant of the single-class refutation cfg, statements the transcription must be seen to break on
# cases that belong to that class only)
REFUTE = collections.OrderedDict([
    ("earlyfail", ("F_RcPolicy", ["RcPolicy"])),
    ("lateslow", ("F_TimeoutTerminates", ["TimeoutTerminates"])),
    ("unread", ("F_NoneRunning", ["NoneRunningAtReturn", "NothingStuck", "Terminates"])),
    ("nflater", ("F_NotFoundLeft", ["NoneRunningAtReturn", "Terminates"])),
    ("streamstdin", ("F_Stdin", ["NeverReadsCallerStdin"])),
    ("streambin", ("F_StreamEqualsCall", ["StreamEqualsCall"])),
    ("streampath", ("F_Env", ["EnvIsControlled"])),
    ("unwaited", ("F_AllReaped", ["AllReaped"])),
])
ALLOWED_BROKEN = set(x for _, (_, invs) in REFUTE.items() for x in invs)


def refute_cfg_text():
    c = fam(Admit=list(REFUTE), **R)
    text = cfg_text(c, [], False).replace("CHECK_DEADLOCK FALSE\n", "")
    return text + "CONSTRAINT Witness\nPOSTCONDITION PostWitness\nCHECK_DEADLOCK FALSE\n"


ASSUMPTIONS = [
    "a pipeline has 1..3 stages; every stage is a generated sh script with one of the abstract behaviours (stdin: "
    "ignore / drain / copy; 0..2 own lines of kinds plain / not UTF-8 / 70000 characters; one stderr line; exit 0 1 2 "
    "127, death by SIGTERM, command absent; sleeping 1.6 s); real commands with other behaviours (closing stdout early, "
    "daemonising, leaving their process group) are outside the model",
    "time is three instants (before the timeout, timeout expired, slow stages wake): timeouts are 0.2 s, slow stages "
    "sleep 1.2 s, everything else is assumed to finish in between; the verdict on timeouts rests on marker files "
    "(a slow stage that reached its end) and on a coarse wall-clock class (>= 0.9 s)",
    "the tools the model abstracts (`timeout -s KILL/TERM`, sh exit statuses with and without the wrapper, SIGPIPE, "
    "the pipe buffer being smaller than a long line, grep -F on the line kinds) are measured in every driver process "
    "and compared with the model's table; a difference is a machinery failure, not a verdict",
    "keep_rc: 'an (exit code, output) tuple' is read as: the status of the last stage or of a stage that failed; a "
    "stage in front of one that never reads may die of SIGPIPE instead of failing (no verdict on it); after a "
    "timeout only a subsequence of the expected lines is demanded",
    "lines that are not UTF-8 may come back with the bytes dropped, replaced or escaped (the docstring names only the "
    "encoding), as bytes from the bytes-level entry points; never as an exception",
    "leftovers are observed through /proc (children of the driver process, open descriptors) right after the call and "
    "again after subprocess._cleanup(), which is what the next Popen() would do",
]


def tla_val(v):
    if isinstance(v, bool):
        return "TRUE" if v else "FALSE"
    if isinstance(v, int):
        return str(v)
    if isinstance(v, str):
        return '"%s"' % v
    return "{" + ", ".join(tla_val(x) for x in v) + "}"


def cfg_text(consts, invariants, emit):
    lines = ["SPECIFICATION Spec", "CONSTANTS"]
    for k in CONST_ORDER:
        lines.append("  %s = %s" % (k, tla_val(consts[k])))
    lines += ["INVARIANT %s" % i for i in invariants]
    if emit:
        lines.append("CONSTRAINT EmitCase")
    lines.append("CHECK_DEADLOCK FALSE")
    return "\n".join(lines) + "\n"


def write_cfgs():
    """Static copies of the quick-tier configurations in specs/ (documentation; the check generates its own)."""
    for name, c in FAMILIES["quick"].items():
        with open(os.path.join(lib.SPECS, "CommandExecMC_%s.cfg" % name), "w") as f:
            f.write(cfg_text(c, INVARIANTS, True))
    with open(os.path.join(lib.SPECS, "CommandExec_design.cfg"), "w") as f:
        f.write(cfg_text(DESIGN, INVARIANTS, False))
    for name, (inv, stated) in REFUTE.items():
        with open(os.path.join(lib.SPECS, "CommandExecMC_refute_%s.cfg" % name), "w") as f:
            f.write("\\* the transcription of the code with the class admitted: TLC is EXPECTED to refute %s\n" % stated[0]
                    + cfg_text(fam(Admit=[name], **R), [inv], False))
    with open(os.path.join(lib.SPECS, "CommandExecMC_refute_all.cfg"), "w") as f:
        f.write("\\* all refutations in one run (-workers 1): witnesses are printed by the POSTCONDITION\n" + refute_cfg_text())


_COV = re.compile(r"^<(\w+) line \d+, col \d+ to line \d+, col \d+ of module \w+(?: \([\d ]+\))?>: (\d+):(\d+)")


def action_coverage(r):
    """per-action counts; lib's pattern does not know the location suffix TLC prints for quantified actions"""
    cov = dict(r.coverage)
    for line in r.out.splitlines():
        m = _COV.match(line)
        if m and m.group(1) not in r.coverage:
            cov[m.group(1)] = cov.get(m.group(1), 0) + int(m.group(3))
    return cov


def model_runs(tier, fams):
    gen = lib.subdir("x03cfg")
    jobs = []

    def wr(name, text):
        p = os.path.join(gen, name)
        with open(p, "w") as f:
            f.write(text)
        return p

    jobs.append(("design", "CommandExecMC", wr("design.cfg", cfg_text(DESIGN, INVARIANTS, False)),
                 dict(workers=2, coverage=True), True))
    for name, c in fams.items():
        jobs.append((name, "CommandExecMC", wr("mc_%s.cfg" % name, cfg_text(c, INVARIANTS, True)),
                     dict(workers=2, raw_cases=True), True))
    jobs.append(("refute", "CommandExecMC", wr("refute_all.cfg", refute_cfg_text()), dict(workers=1), True))

    def one(job):
        name, module, cfgp, kw, must_hold = job
        r = lib.run_tlc(module, cfgp, tag="x03-" + name, timeout=1800, **kw)
        if must_hold:
            lib.require_ok(r, "%s %s" % (module, name))
        return name, r

    res = collections.OrderedDict()
    with concurrent.futures.ThreadPoolExecutor(max_workers=5) as ex:
        for name, r in ex.map(one, jobs):
            res[name] = r
    # the refutations: with every class admitted, each class must have a witness of its own for each statement
    wit = [p for k, p in res["refute"].printed if k == "ACC" and "witnesses" in p]
    if not wit:
        raise lib.MachineryError("the refutation run printed no witnesses")
    wit = wit[0]["witnesses"]
    refuted = {}
    for name, (_, stated) in REFUTE.items():
        for inv in stated:
            own = [w for w in wit if w["inv"] == inv and set(w["classes"]) == (set() if name == "unwaited" else {name})]
            if not own:
                raise lib.MachineryError("the transcription of the code was expected to violate %s on a case of class '%s' "
                                         "alone; witnesses: %s" % (inv, name, [w for w in wit if w["inv"] == inv][:5]))
            refuted["%s/%s" % (name, inv)] = dict(witnesses=len(own), apis=sorted(set(w["api"] for w in own)))
    stray = sorted(set(w["inv"] for w in wit) - ALLOWED_BROKEN)
    if stray:
        raise lib.MachineryError("the transcription of the code breaks statements no class accounts for: %s %s"
                                 % (stray, [w for w in wit if w["inv"] in stray][:5]))
    res["design"].coverage = action_coverage(res["design"])
    missing = [a for a in ACTIONS if not res["design"].coverage.get(a)]
    if missing:
        raise lib.MachineryError("vacuity: actions never taken in the design model: %s" % missing)
    tool_models = [p for k, p in res["design"].printed if k == "ACC" and "kill" in p]
    if not tool_models:
        raise lib.MachineryError("the model did not print its tool table")
    return res, refuted, tool_models[0]


def collect_cases(fams, res):
    cases, emitted, seen = [], {}, set()
    for name in fams:
        lines = sorted(set(res[name].cases))
        res[name].cases = []
        emitted[name] = len(lines)
        k = 0
        for line in lines:
            c = lib.parse_case(line)
            key = json.dumps(dict((f, c[f]) for f in c if f != "ref"), sort_keys=True)
            if key in seen:
                continue          # the default case is in every family
            seen.add(key)
            c["id"] = "%s#%d" % (name, k)
            c["fam"] = name
            k += 1
            cases.append(c)
    return cases, emitted


def cost(c):
    """expected wall time of a case (for spreading the slow ones over the driver processes; not a judgement)"""
    st = c["st"]
    stream = c["api"] in ("connect", "provs")
    slow = [i for i, b in enumerate(st) if b["slow"]]
    nf = any(b["rc"] == "nf" for b in st)
    big = any("L" in b["out"] for b in st)
    unread = any(b["rd"] == "no" for b in st[1:])
    t = 0.03
    if slow:
        if c["tmo"] == "none" or (not stream and any(i > 0 for i in slow)):
            t += PARAMS["S"]
        else:
            t += PARAMS["T"]
    if big and (unread or nf):
        t += (PARAMS["T"] if c["tmo"] != "none" else PARAMS["WD"]) if stream else PARAMS["GRACE"]
    return t


def execute(cases, tier, rnd=1):
    base = lib.subdir("x03w%d" % rnd)
    jobs = 12 if lib.NCPU >= 16 else 8 if lib.NCPU >= 8 else 4      # the driver processes mostly sleep
    if rnd > 1:
        jobs = 4
    nproc = jobs * 2
    rng = random.Random(lib.seed())
    order = sorted(cases, key=lambda c: -cost(c))
    bins = [[] for _ in range(nproc)]
    loads = [0.0] * nproc
    for c in order:              # longest first into the lightest bin
        i = loads.index(min(loads))
        bins[i].append(c)
        loads[i] += cost(c)
    payloads = []
    for n, b in enumerate(bins):
        if b:
            rng.shuffle(b)
            payloads.append(dict(base=os.path.join(base, "p%d" % n), seed=lib.seed() * 1000 + n, round=rnd,
                                 params=PARAMS if rnd == 1 else PARAMS2, cases=b))
    outs = lib.run_driver_parallel("drive_commandexec.py", payloads, timeout=1700, jobs=jobs)
    traces, stats, tools = [], collections.Counter(), []
    for o in outs:
        traces.extend(o["traces"])
        for k, v in o["stats"].items():
            stats[k] += v
        tools.append(o["tools"])
    return traces, dict(stats), tools


def check_tools(model, measured):
    """R4: the model's table of what `timeout`, sh, SIGPIPE, the pipe buffer and grep -F do, against this machine."""
    n = 0
    for t in measured:
        if t != model:
            diff = dict((k, (model.get(k), t.get(k))) for k in set(model) | set(t) if model.get(k) != t.get(k))
            raise lib.MachineryError("R4: the model's view of the tools differs from this machine (model, measured): %s" % diff)
        n += 1
    if not n:
        raise lib.MachineryError("R4: no driver process measured the tools")
    return n


# ---------------------------------------------------------------------------
# binding self-test (R5): recorded traces with ONE observation corrupted must be rejected
# ---------------------------------------------------------------------------

SELFTESTS = ["line-dropped", "lines-swapped", "line-from-caller", "decoded-wrongly", "shape", "keep-status-zero",
             "failure-swallowed", "raised-for-nothing", "returncode", "exception-output-none", "exception-cmd",
             "argv-changed", "caller-variable-visible", "given-variable-missing", "override-ignored", "path-of-caller",
             "wrong-lookup", "stdin-from-caller", "not-connected", "slow-stage-survived", "overran", "watchdog",
             "process-left", "descriptor-left", "zombie-left", "not-found-returns", "file-left", "stage-not-started"]


def ev_of(t, name):
    for i, e in enumerate(t["events"]):
        if e["ev"] == name:
            return i, e
    raise KeyError(name)


def selftests(traces):
    want, out = {}, []

    def add(tag, t, name, clause, mutate):
        if "selftest/" + tag in want:
            return
        assert tag in SELFTESTS, tag
        c = copy.deepcopy(t)
        c["id"] = "selftest/" + tag
        i, e = ev_of(c, name)
        mutate(e)
        want[c["id"]] = (i + 1, clause, t["id"])
        out.append(c)

    def swap(e):
        e["out"][0], e["out"][1] = e["out"][1], e["out"][0]

    for t in traces:
        c = t["case"]
        _, res = ev_of(t, "result")
        _, sp = ev_of(t, "spawn")
        _, tm = ev_of(t, "time")
        plain = not any(b["slow"] or b["rc"] == "nf" for b in c["st"]) and all(b["rd"] != "no" for b in c["st"][1:])
        pipeapi = c["api"] in ("call", "pipe", "write", "shell")
        if plain and pipeapi and res["kind"] == "ret":
            if len(res["out"]) >= 2 and res["out"][0] != res["out"][1]:
                add("line-dropped", t, "result", "ResultIsLastStageOutput:lines-missing", lambda e: e["out"].pop())
                add("lines-swapped", t, "result", "ResultIsLastStageOutput:order-or-origin", swap)
                add("line-from-caller", t, "result", "ResultIsLastStageOutput:lines-from-the-callers-stdin",
                    lambda e: e["out"].insert(0, dict(s=0, k="C", i=1, d="-")))
            if any(x["k"] == "b" and x["d"] == "ign" for x in res["out"]):
                add("decoded-wrongly", t, "result", "ResultIsLastStageOutput:decoding:raw",
                    lambda e: [x.update(d="raw") for x in e["out"] if x["k"] == "b"])
            if res["shape"] == "list":
                add("shape", t, "result", "Result:shape:str", lambda e: e.update(shape="str"))
            if c["keep"] and res["rc"] not in ("0", "none") and c["st"][-1]["rc"] != "0":
                add("keep-status-zero", t, "result", "RcPolicy:keep_rc:status-0:last-stage-failed", lambda e: e.update(rc="0"))
            if not c["keep"] and all(b["rc"] == "0" for b in c["st"]) and c["flt"] == "none":
                add("raised-for-nothing", t, "result", "RcPolicy:raised-without-failure",
                    lambda e: e.update(kind="cpe", xrc="1", xcmd="first", xout="data", xtoks=list(e["out"]), out=[], shape="none"))
        if plain and pipeapi and res["kind"] == "cpe" and c["st"][-1]["rc"] != "0" and c["api"] != "write":
            add("failure-swallowed", t, "result", "RcPolicy:failure-not-raised:last-stage-failed",
                lambda e: e.update(kind="ret", rc="none", shape="str" if c["api"] == "call" else e["shape"], out=list(e["xtoks"])))
            add("returncode", t, "result", "ExceptionCarriesOutput:returncode-x77", lambda e: e.update(xrc="x77"))
            add("exception-output-none", t, "result", "ExceptionCarriesOutput:output-none", lambda e: e.update(xout="none", xtoks=[]))
            add("exception-cmd", t, "result", "ExceptionCarriesOutput:cmd-none", lambda e: e.update(xcmd="none"))
        if plain and c["api"] == "write" and res["kind"] == "cpe":
            add("file-left", t, "result", "WriteTarget:file-left-after-exception", lambda e: e.update(file="present"))
        if all(s["started"] for s in sp["stages"]) and sp["stages"][0]["argv"] == "exact":
            if c["meta"]:
                add("argv-changed", t, "spawn", "NoShell:argv-changed", lambda e: e["stages"][0].update(argv="changed"))
            if c["env"] == "given" and not sp["stages"][0]["env"]["leak"] and sp["stages"][0]["env"]["mark"]:
                add("caller-variable-visible", t, "spawn", "EnvIsControlled:caller-variable-visible",
                    lambda e: e["stages"][0]["env"].update(leak=True))
                add("given-variable-missing", t, "spawn", "EnvIsControlled:given-variable-missing",
                    lambda e: e["stages"][0]["env"].update(mark=False))
            if c["env"] == "safep" and sp["stages"][0]["env"]["ovr"]:
                add("override-ignored", t, "spawn", "EnvIsControlled:override_env-ignored",
                    lambda e: e["stages"][0]["env"].update(ovr=False))
            if c["env"] == "safe" and sp["stages"][0]["env"]["path"] == "safe":
                add("path-of-caller", t, "spawn", "EnvIsControlled:PATH-is-os", lambda e: e["stages"][0]["env"].update(path="os"))
            if c["bare"] and c["env"] == "given" and sp["stages"][0]["which"] == "env":
                add("wrong-lookup", t, "spawn", "EnvIsControlled:command-looked-up-on-PATH-of:os",
                    lambda e: e["stages"][0].update(which="os"))
            if plain and pipeapi and len(c["st"]) >= 2:
                add("stage-not-started", t, "spawn", "Spawn:stage-not-started", lambda e: e["stages"][-1].update(started=False))
        _, sin = ev_of(t, "stdin")
        if plain and pipeapi and c["st"][0]["rd"] != "no" and sin["stages"][0]["read"] == "eof":
            add("stdin-from-caller", t, "stdin", "NeverReadsCallerStdin:first-stage",
                lambda e: e["stages"][0].update(read="caller", toks=[dict(s=0, k="C", i=1, d="-")]))
        if plain and pipeapi and len(c["st"]) >= 2 and c["st"][1]["rd"] != "no" and sin["stages"][1]["toks"]:
            add("not-connected", t, "stdin", "Connected:", lambda e: e["stages"][1].update(toks=[], read="eof"))
        if c["tmo"] != "none" and c["st"][0]["slow"] and not tm["ended"][0] and not tm["overran"] and not tm["watchdog"]:
            add("slow-stage-survived", t, "time", "TimeoutTerminates:first-stage-not-killed",
                lambda e: e["ended"].__setitem__(0, True))
            add("overran", t, "time", "TimeoutTerminates:call-outlives-timeout", lambda e: e.update(overran=True))
        if plain and not tm["watchdog"]:
            add("watchdog", t, "time", "Terminates:ended-by-the-watchdog", lambda e: e.update(watchdog=True))
        _, af = ev_of(t, "after")
        if plain and af["settled"] == dict(running=0, zombies=0, fds=0) and af["now"] == af["settled"] and res["kind"] == "ret":
            add("process-left", t, "after", "NoLeftovers:process-still-running", lambda e: e["settled"].update(running=1))
            add("descriptor-left", t, "after", "NoLeftovers:descriptor-left-open", lambda e: e["settled"].update(fds=1))
            add("zombie-left", t, "after", "NoLeftovers:child-never-waited-for", lambda e: e["settled"].update(zombies=1))
        if any(b["rc"] == "nf" for b in c["st"]) and res["kind"] in ("oserror", "content") and c["api"] in ("call", "shell"):
            add("not-found-returns", t, "result", "NotFoundIsAnError:ret", lambda e: e.update(kind="ret"))
    return out, want, sorted(set("selftest/" + s for s in SELFTESTS) - set(want))


def check_selftests(val, want):
    mine = [r for r in val["rejected"] if r["id"].startswith("selftest/")]
    val["rejected"] = [r for r in val["rejected"] if not r["id"].startswith("selftest/")]
    bad = dict((r["id"], r["line"]) for r in val["rejected"])
    done = 0
    for tid, (line, clause, basetrace) in sorted(want.items()):
        if basetrace in bad and bad[basetrace] <= line:
            continue          # the recorded trace itself is rejected at or before that event: not a usable base
        if not any(r["id"] == tid and r["line"] == line and r["clause"].startswith(clause) for r in mine):
            raise lib.MachineryError("self-test: corrupted trace %s was not rejected at event %d by %s (got %s)"
                                     % (tid, line, clause, [r for r in mine if r["id"] == tid]))
        done += 1
    return done


# ---------------------------------------------------------------------------

def describe(c):
    def stage(b):
        s = {"no": "", "drain": "drain-stdin ", "pass": "copy-stdin ", "filter": "grep "}[b["rd"]]
        s += "prints[%s]" % ",".join(b["out"])
        if b["err"]:
            s += "+stderr"
        if b["slow"]:
            s += " sleeps"
        s += " exit=%s" % b["rc"]
        return s
    s = " | ".join(stage(b) for b in c["st"])
    s += "  via %s" % c["api"]
    for k, dflt in (("keep", False), ("tmo", "none"), ("sig", "KILL"), ("split", True), ("form", "list"), ("meta", False),
                    ("env", "none"), ("bare", False), ("flt", "none")):
        if c[k] != dflt:
            s += ", %s=%s" % (k, c[k])
    return s


def features(t):
    """Which clause antecedents a replayed case exercises (vacuity accounting and the non-triviality rule only)."""
    c = t["case"]
    f = set()
    ev = dict((e["ev"], e) for e in t["events"])
    res, tm, sp, af = ev["result"], ev["time"], ev["spawn"], ev["after"]
    f.add("api:" + c["api"])
    f.add("result:" + res["kind"].split(":")[0])
    if res["kind"] == "cpe" and res["xrc"] in ("kill9", "t124"):
        f.add("timeout-raised:" + res["xrc"])
    if res["kind"] == "ret" and res["rc"] not in ("none", "0"):
        f.add("keep_rc-nonzero")
    if res["kind"] == "ret" and res["rc"] in ("kill9", "t124"):
        f.add("keep_rc-timeout")
    if len(c["st"]) >= 2 and any(b["rc"] not in ("0", "nf") for b in c["st"][:-1]):
        f.add("earlier-stage-fails")
    if c["st"][-1]["rc"] not in ("0", "nf"):
        f.add("last-stage-fails")
    if any(b["rc"] == "nf" for b in c["st"]):
        f.add("command-absent")
    if c["tmo"] != "none" and any(b["slow"] for b in c["st"]):
        f.add("timeout-strikes")
        f.add("tmo:" + c["tmo"])
        if not any(e for e, b in zip(tm["ended"], c["st"]) if b["slow"]):
            f.add("slow-stage-killed")
    if c["tmo"] == "none" and any(b["slow"] for b in c["st"]) and any(tm["ended"]):
        f.add("slow-stage-completes-without-timeout")
    if c["sig"] == "TERM":
        f.add("signum-TERM")
    if any(x["k"] == "b" for x in res["out"]):
        f.add("non-utf8-line-returned")
    if any(x["k"] == "L" for x in res["out"]):
        f.add("long-line-returned")
    if any(x["k"] == "e" for x in res["out"]):
        f.add("stderr-line-returned")
    if c["st"][0]["rd"] != "no":
        f.add("first-stage-reads-stdin")
    if any(b["rd"] == "no" for b in c["st"][1:]):
        f.add("later-stage-never-reads")
    if tm["watchdog"]:
        f.add("hang-observed")
    if af["settled"]["running"]:
        f.add("process-left-observed")
    if c["meta"]:
        f.add("metacharacters")
    if c["form"] == "str":
        f.add("command-string")
    if c["bare"]:
        f.add("bare-command:" + c["env"])
    f.add("env:" + c["env"])
    if c["flt"] != "none" and res.get("note") != "no-grep-stage":
        f.add("grep-stage:" + c["flt"])
    if not c["split"]:
        f.add("unsplit")
    if c["api"] == "write" and res["file"] == "present":
        f.add("file-written")
    if c["api"] == "write" and res["kind"] == "cpe" and res["file"] == "absent":
        f.add("file-removed")
    if len(c["st"]) == 3:
        f.add("three-stages")
    return f


REQUIRED = ["api:call", "api:pipe", "api:write", "api:shell", "api:connect", "api:prov", "api:provs", "result:ret",
            "result:cpe", "result:oserror", "result:content", "timeout-raised:kill9", "timeout-raised:t124",
            "keep_rc-nonzero", "keep_rc-timeout", "earlier-stage-fails", "last-stage-fails", "command-absent",
            "timeout-strikes", "tmo:arg", "tmo:ctx", "tmo:both", "slow-stage-killed", "slow-stage-completes-without-timeout",
            "signum-TERM", "non-utf8-line-returned", "long-line-returned", "stderr-line-returned", "first-stage-reads-stdin",
            "later-stage-never-reads", "metacharacters", "command-string", "bare-command:given", "bare-command:none",
            "env:none", "env:given", "env:safe", "env:safep", "grep-stage:hit", "grep-stage:miss", "unsplit", "file-written",
            "file-removed", "three-stages"]
NONTRIVIAL = {"earlier-stage-fails", "last-stage-fails", "command-absent", "timeout-strikes", "non-utf8-line-returned",
              "long-line-returned", "first-stage-reads-stdin", "later-stage-never-reads", "metacharacters", "grep-stage:hit",
              "grep-stage:miss", "bare-command:given", "keep_rc-nonzero", "stderr-line-returned"}


def judge(prop, verdict, val, traces, cases):
    bytrace = dict((t["id"], t) for t in traces)
    bycase = dict((c["id"], c) for c in cases)
    for rj in sorted(val["rejected"], key=lambda r: (r["id"], r["line"])):
        t = bytrace[rj["id"]]
        ev = t["events"][rj["line"] - 1]
        what = "%s: event %d (%s) violates %s; observed %s" % (
            describe(t["case"]), rj["line"], ev["ev"], rj["clause"],
            json.dumps(dict((k, v) for k, v in ev.items() if k not in ("ev",)), sort_keys=True)[:700])
        verdict.reject(lib.sig(prop, rj["clause"]), what, dict(case=bycase.get(rj["id"]), trace=t, rejected=rj))


def run(prop, tier):
    verdict = lib.Verdict(prop, tier)
    t0 = time.time()
    fams = FAMILIES[tier]
    res, refuted, tool_model = model_runs(tier, fams)
    cases, emitted = collect_cases(fams, res)
    models = list(res.values())
    print("timing: models %.1fs (%d states in %d runs, %d refutations), %d cases to replay %s"
          % (time.time() - t0, sum(m.distinct for m in models), len(models), len(refuted), len(cases), emitted))
    t1 = time.time()
    traces, stats, tools = execute(cases, tier)
    print("timing: driver %.1fs, %d traces, %s" % (time.time() - t1, len(traces), stats))
    if len(traces) != len(cases):
        raise lib.MachineryError("driver returned %d traces for %d cases" % (len(traces), len(cases)))
    r4 = check_tools(tool_model, tools)
    t1 = time.time()
    corrupted, want, lacking_self = selftests(traces)
    val = lib.validate_traces("CommandExecTrace", "CommandExecTrace.cfg", traces + corrupted, jobs=4 if lib.NCPU <= 8 else 8)
    print("timing: validation %.1fs (%d events, %d JVMs)" % (time.time() - t1, val["events"], val["jvms"]))
    nself = check_selftests(val, want)
    val["traces"] -= len(corrupted)
    # round 2: the cases whose run broke the harness' own timing assumption, again with longer times
    again = sorted(set(r["id"] for r in val["rejected"] if r["clause"].startswith("Assumption:")))
    if again:
        if len(again) > max(20, len(cases) // 10):
            raise lib.MachineryError("the timing assumption of the harness failed on %d of %d cases: the machine is too "
                                     "loaded for timeouts of %ss" % (len(again), len(cases), PARAMS["T"]))
        t1 = time.time()
        bycase = dict((c["id"], c) for c in cases)
        traces2, stats2, tools2 = execute([bycase[i] for i in again], tier, rnd=2)
        val2 = lib.validate_traces("CommandExecTrace", "CommandExecTrace.cfg", traces2, jobs=2)
        keep = set(again)
        traces = [t for t in traces if t["id"] not in keep] + traces2
        val["rejected"] = [r for r in val["rejected"] if r["id"] not in keep] + val2["rejected"]
        val["events"] += val2["events"]
        print("timing: %d cases run again with longer times (%.1fs)" % (len(again), time.time() - t1))
    judge(prop, verdict, val, traces, cases)
    if lacking_self and not verdict.violations:
        raise lib.MachineryError("self-test: no recorded trace to corrupt for %s" % lacking_self)
    counts = collections.Counter()
    nontrivial = set()
    classes = collections.Counter()
    for c in cases:
        for k in c["ref"]["classes"]:
            classes[k] += 1
    for t in traces:
        fs = features(t)
        for f in fs:
            counts[f] += 1
        if fs & NONTRIVIAL:
            nontrivial.add(json.dumps(t["case"], sort_keys=True))
    lacking = [k for k in REQUIRED if not counts.get(k)]
    if lacking and not verdict.violations:
        raise lib.MachineryError("vacuity: clause antecedents never exercised by a replayed case: %s" % lacking)
    samples = [describe(t["case"]) for t in traces[:3]] + ([traces[len(traces) // 2]] if traces else [])
    ev = lib.evidence(
        prop, tier, models, val, evaluations=len(traces), distinct_nontrivial=len(nontrivial),
        rule="model: every case of each family (pipeline of 1..MaxN stage behaviours x entry point x keep_rc x timeout "
             "source x signal x split x command form x metacharacter argument x environment x bare command names x "
             "filter), every interleaving of the stage processes, the clock and the parent; invariants = the reference "
             "statements, checked on the transcription of the code (classes of known deviations excluded, each class "
             "refuted separately) and on the specified mechanism; replay: EVERY emitted case is concretised (one sh "
             "script per stage) and run through the real entry point, each trace (spawn, stdin, time, result, after) is "
             "judged event by event by TLC (CommandExecTrace); evaluations = traces; distinct_nontrivial = distinct cases "
             "with a failing / absent / timed-out stage, a non-UTF-8 / long / stderr line, a stage reading stdin or never "
             "reading, metacharacters, a filter, or a bare command under a given environment",
        samples=samples, assumptions=ASSUMPTIONS,
        extra=dict(cases_emitted=emitted, driver_stats=stats, antecedents_exercised=dict(counts),
                   model_action_coverage=dict((a, res["design"].coverage.get(a, 0)) for a in ACTIONS),
                   code_transcription_refuted_on=refuted, selftest_corrupted_traces_rejected=nself,
                   r4_tool_tables_compared=r4, tool_model=tool_model, cases_in_known_deviation_classes=dict(classes),
                   processes_started=stats.get("procs", 0), params=PARAMS, cases_run_again_with_longer_times=len(again),
                   clauses=["ResultIsLastStageOutput", "RcPolicy", "TimeoutTerminates", "Terminates", "NeverReadsCallerStdin",
                            "NoShell", "EnvIsControlled", "StreamEqualsCall", "ExceptionCarriesOutput", "NoLeftovers",
                            "NotFoundIsAnError", "Connected", "WriteTarget"],
                   exhaustive=False))
    return verdict.finish(ev)


def replay(prop, path):
    with open(path) as f:
        rec = json.load(f)
    case = (rec.get("replay") or {}).get("case")
    if not case:
        print(json.dumps(rec, indent=1)[:20000])
        return 0
    traces, _, _ = execute([case], "quick")
    val = lib.validate_traces("CommandExecTrace", "CommandExecTrace.cfg", traces, jobs=1)
    print(json.dumps(dict(case=case, trace=traces[0], rejected=val["rejected"]), indent=1))
    known = set(k["signature"] for k in lib.load_known() if k.get("property") == prop and k.get("status") == "open")
    for r in val["rejected"]:
        tag = "KNOWN-FINDING" if lib.sig(prop, r["clause"]) in known else "VIOLATION"
        print("%s property=%s event %d clause %s" % (tag, prop, r["line"], r["clause"]))
    return 1 if any(lib.sig(prop, r["clause"]) not in known for r in val["rejected"]) else 0
