"""C16: client option resolution.
Model: specs/ClientConfig.tla (property predicates + design functions), case enumeration
specs/ClientConfigMC.tla, trace validation specs/ClientConfigTrace.tla, driver
harness/drive_clientconfig.py.  The option table is extracted from DEFAULT_OPTS of the tree
under test at check time and handed to TLC as a generated root module in the scratch dir."""
import collections
import concurrent.futures
import json
import os
import random
import shutil
import time

import lib

INVARIANTS = ["Inv_Precedence", "Inv_UnknownIgnored", "Inv_Offline", "Inv_Output", "Inv_Obfuscation",
              "Inv_Rejected", "Inv_ConflictsRefused"]

# (name, Mode, Vocab, MaxWeight, simulate behaviours or None, cap on replayed cases or None)
PLAN = {
    "quick": [("prec", "prec", "small", 0, None, None), ("unk", "unk", "small", 0, None, None),
              ("pair", "pair", "small", 0, None, None),
              ("conf", "conf", "small", 0, None, None), ("lit", "lit", "small", 0, None, None),
              ("table3", "table", "small", 3, None, None), ("ext2", "ext", "small", 2, None, None),
              ("rtable", "rtable", "small", 0, 1600, None), ("dense", "dense", "big", 0, 1200, None)],
    "thorough": [("prec", "prec", "big", 0, None, None), ("unk", "unk", "small", 0, None, None),
                 ("pair", "pair", "big", 0, None, None),
                 ("conf", "conf", "big", 0, None, None), ("lit", "lit", "small", 0, None, None),
                 ("table", "table", "small", 17, None, None), ("ext3", "ext", "small", 3, None, None),
                 ("dense", "dense", "big", 0, 16000, None)],
}

ASSUMPTIONS = [
    "one load per process state: sys.argv, os.environ (all INSIGHTS_* keys removed, then the keys of the case) and "
    "a generated file given with --conf; the values when loading finished are observed on entry of "
    "_imply_options during load_all() (the order of the loading steps is load_all's own)",
    "values are compared as tagged Python values (bool / int / float / str / None); consistency predicates use "
    "Python truthiness, as the code does",
    "spellings come from the finite vocabularies of ClientConfig.tla / ClientConfigMC.tla (configparser boolean "
    "words, 'true'/'false' in several cases, small numerals, short words, the empty text)",
    "`no_gpg` set to something true in a source counts as `gpg = False` in that source (the alias in _update_dict)",
    "the file uses the [insights-client] section; output paths are new names in an existing directory; "
    "the generated file is handed over with --conf / -c (reported as a command-line occurrence of the option "
    "`conf` in every trace); mode conf additionally gives `conf` in the file / the environment next to other "
    "switches, and loads without --conf read the (non-existing) built-in default path",
    "a text given for an option that is not typed by its default is the value as written, whatever characters "
    "it holds (LiteralWords of ClientConfig.tla: percent signs, %(name)s / ${name}, ';', '#', ':', '=')",
    "implication table: full product of default / non-default for the 17 options C16 names (thorough), all "
    "assignments with at most 3 non-default options plus random full-product cases (quick)",
]


def tla_str(s):
    return '"' + s.replace("\\", "\\\\").replace('"', '\\"') + '"'


def tla_val(v):
    return '[t |-> %s, b |-> %s, n |-> %d, s |-> %s]' % (tla_str(v["t"]), "TRUE" if v["b"] else "FALSE", v["n"],
                                                         tla_str(v["s"]))


def gen_seq(options):
    rows = ["  [name |-> %s, type |-> %s, def |-> %s, cli |-> %s]"
            % (tla_str(o["name"]), tla_str(o["type"]), tla_val(o["def"]), tla_str(o["cli"])) for o in options]
    return "GenOptSeq == <<\n" + ",\n".join(rows) + "\n>>\n"


def prepare(options):
    """Scratch directory with copies of the specs, the generated root modules and cfgs."""
    d = lib.subdir("c16")
    for f in ("ClientConfig.tla", "ClientConfigMC.tla", "ClientConfigTrace.tla"):
        shutil.copy(os.path.join(lib.SPECS, f), os.path.join(d, f))
    seq = gen_seq(options)
    bar = "-" * 20
    with open(os.path.join(d, "CCModel.tla"), "w") as f:
        f.write("%s MODULE CCModel %s\n(* generated from DEFAULT_OPTS of %s *)\nEXTENDS ClientConfigMC\n%s%s\n"
                % (bar, bar, lib.REPO, seq, "=" * 60))
    with open(os.path.join(d, "CCTrace.tla"), "w") as f:
        f.write("%s MODULE CCTrace %s\n(* generated from DEFAULT_OPTS of %s *)\nEXTENDS ClientConfigTrace\n%s%s\n"
                % (bar, bar, lib.REPO, seq, "=" * 60))
    with open(os.path.join(d, "CCTrace.cfg"), "w") as f:
        f.write("SPECIFICATION TraceSpec\nCONSTANTS\n  OptSeq <- GenOptSeq\nPOSTCONDITION PostCond\nCHECK_DEADLOCK FALSE\n")
    return d


def model_cfg(d, name, mode, vocab, weight):
    p = os.path.join(d, "CCModel_%s.cfg" % name)
    with open(p, "w") as f:
        f.write("SPECIFICATION MCSpec\nCONSTANTS\n  OptSeq <- GenOptSeq\n  Mode = \"%s\"\n  Vocab = \"%s\"\n"
                "  MaxWeight = %d\n%s\nCONSTRAINT Emit\nCHECK_DEADLOCK FALSE\n"
                % (mode, vocab, weight, "\n".join("INVARIANT " + i for i in INVARIANTS)))
    return p


def explore(d, tier, rng):
    jobs = []
    for name, mode, vocab, weight, sim, cap in PLAN[tier]:
        kw = dict(workers=4 if tier == "quick" else max(4, lib.NCPU // 2))
        if sim:
            # RandomElement / RandomSubset draw from one seeded stream: several workers would repeat the same cases
            kw = dict(workers=1, simulate=sim, depth=8, tlc_seed=lib.seed() + 31)
        jobs.append((name, model_cfg(d, name, mode, vocab, weight), kw, cap))

    def one(job):
        name, cfgp, kw, cap = job
        r = lib.run_tlc(os.path.join(d, "CCModel"), cfgp, tag="c16-" + name, timeout=2400, raw_cases=True, **kw)
        return name, cap, lib.require_ok(r, "ClientConfig model " + name)

    models, cases, emitted = [], [], {}
    with concurrent.futures.ThreadPoolExecutor(max_workers=2) as ex:
        for name, cap, r in ex.map(one, jobs):
            lines = sorted(set(r.cases))
            r.cases = []
            emitted[name] = len(lines)
            if cap and len(lines) > cap:
                lines = rng.sample(lines, cap)
            for i, line in enumerate(lines):
                c = lib.parse_case(line)
                c["id"] = "%s#%d" % (name, i)
                cases.append(c)
            models.append(r)
    return models, cases, emitted


NSELF = 8
LITERALS = ("100%safe", "a%%b", "%(username)s", "${username}", "p%40ss:x=y", "a;b#c")   # LiteralWords (accounting only)


def selftests(traces, options):
    """Binding self-test (R5): copies of recorded loads with ONE observation corrupted; the trace
    specification must reject each at that event with the named clause."""
    import copy
    table = dict((o["name"], o) for o in options)
    true = {"t": "bool", "b": True, "n": 0, "s": ""}
    want, out = {}, []

    def add(tag, t, i, clause, mutate):
        if "selftest/" + tag in want:
            return
        c = copy.deepcopy(t)
        c["id"] = "selftest/" + tag
        mutate(c["events"])
        want[c["id"]] = (i + 1, clause, t["id"])
        out.append(c)

    def setv(cfg, name, v):
        cfg[:] = [r for r in cfg if r["name"] != name] + ([{"name": name, "v": v}] if v is not None else [])

    for t in traces:
        evs = t["events"]
        if len(evs) != 3 or evs[-1]["ev"] != "final":
            continue
        loaded = set(r["name"] for r in evs[0]["cfg"])
        final = set(r["name"] for r in evs[2]["cfg"])
        flags = [r["name"] for r in t["lay"]["cli"] if r["name"] in table and table[r["name"]]["cli"] == "flag_true"]
        if flags and flags[0] in loaded:
            add("cli-value-lost", t, 0, "Precedence", lambda e: setv(e[0]["cfg"], flags[0], None))
        if "offline" in final and "status" not in final:
            add("offline-status", t, 2, "OfflineConsistent", lambda e: setv(e[2]["cfg"], "status", true))
        if "output_dir" in final and "keep_archive" not in final:
            add("output-keep", t, 2, "OutputConsistent", lambda e: setv(e[2]["cfg"], "keep_archive", true))
        if "obfuscate" not in final and "obfuscate_hostname" not in final:
            add("obfuscation", t, 2, "ObfuscationConsistent", lambda e: setv(e[2]["cfg"], "obfuscate_hostname", true))
        if "offline" not in loaded and "checkin" not in loaded:
            add("resolved", t, 2, "RejectedNotResolved",
                lambda e: (setv(e[0]["cfg"], "offline", true), setv(e[0]["cfg"], "checkin", true)))
        envconf = [r for r in t["lay"]["env"] if r["name"] == "conf" and r["text"].lower() not in ("true", "false")]
        if envconf and any(r["name"] == "conf" for r in t["lay"]["cli"]) and len(t["lay"]["cli"]) > 1:
            add("conf-from-env", t, 0, "Precedence",
                lambda e: setv(e[0]["cfg"], "conf", {"t": "str", "b": False, "n": 0, "s": envconf[0]["text"]}))
        lit = [r["name"] for r in t["lay"]["file"] if r["text"] in LITERALS and r["name"] in loaded
               and not any(x["name"] == r["name"] for x in t["lay"]["env"] + t["lay"]["cli"])]
        if lit:
            add("literal-lost", t, 0, "Precedence", lambda e: setv(e[0]["cfg"], lit[0], None))
        if evs[2].get("unknown"):
            add("unknown-set", t, 2, "UnknownIgnored", lambda e: e[2]["unknown"][0].update(state="injected"))
        if len(want) == NSELF:
            break
    return out, want, NSELF - len(want)


def check_selftests(val, want):
    mine = [r for r in val["rejected"] if r["id"].startswith("selftest/")]
    val["rejected"] = [r for r in val["rejected"] if not r["id"].startswith("selftest/")]
    real_bad = set(r["id"] for r in val["rejected"] if not r["clause"].startswith("NOTE:"))
    done = 0
    for tid, (line, clause, base) in sorted(want.items()):
        if base in real_bad:
            continue        # the recorded load itself is rejected (code under test broken): not a usable base
        if not any(r["id"] == tid and r["line"] == line and r["clause"].startswith(clause) for r in mine):
            raise lib.MachineryError("self-test: corrupted load %s was not rejected at step %d by %s (got %s)"
                                     % (tid, line, clause, [r for r in mine if r["id"] == tid]))
        done += 1
    return done


def execute(cases):
    payloads = [dict(task="run", cases=ch, seed=lib.seed()) for ch in lib.chunks(cases, min(lib.NCPU, 8))]
    outs = lib.run_driver_parallel("drive_clientconfig.py", payloads, timeout=1800, jobs=min(lib.NCPU, 8))
    traces, stats = [], collections.Counter()
    for o in outs:
        traces.extend(o["traces"])
        stats.update(o["stats"])
    return traces, dict(stats)


def describe(t, rj):
    ev = t["events"][rj["line"] - 1]
    lay = t["lay"]
    return ("load %s: event %d (%s) violates %s; file[%s]=%s env=%s cli=%s"
            % (t["id"], rj["line"], ev["ev"], rj["clause"], lay["fstate"],
               ["%s=%s" % (r["name"], r["text"]) for r in lay["file"]],
               ["%s=%s" % (r["name"], r["text"]) for r in lay["env"]],
               ["%s%s" % (r["name"], "=" + r["arg"] if r["has"] else "") for r in lay["cli"] if r["name"] != "conf"]))


def judge(prop, verdict, val, traces, cases):
    bytrace = dict((t["id"], t) for t in traces)
    bycase = dict((c["id"], c) for c in cases)
    notes = collections.Counter()
    for rj in sorted(val["rejected"], key=lambda r: (r["id"], r["line"])):
        if rj["clause"].startswith("NOTE:"):
            notes[rj["clause"]] += 1
            continue
        t = bytrace[rj["id"]]
        verdict.reject(lib.sig(prop, rj["clause"]), describe(t, rj),
                       dict(case=bycase.get(rj["id"]), trace=t, rejected=rj))
    for cl, n in sorted(notes.items()):
        print("note: %d load(s) where the code differs from the design functions of ClientConfig.tla without "
              "breaking C16 (%s)" % (n, cl))
    return dict(notes)


def account(traces):
    """Vacuity accounting: which antecedents the replayed loads exercised (no judgement)."""
    c = collections.Counter()
    distinct = set()
    for t in traces:
        lay = t["lay"]
        per = collections.defaultdict(set)
        for layer in ("file", "env", "cli"):
            for r in lay[layer]:
                if r["name"] != "conf":
                    per[r["name"]].add(layer)
        last = t["events"][-1]
        c["outcome:" + last["ev"] + (":" + last.get("stage", "") if last["ev"] == "error" else "")] += 1
        for name, srcs in per.items():
            c["sources:" + "+".join(sorted(srcs))] += 1
        conf_in = [layer for layer in ("file", "env", "cli") if any(r["name"] == "conf" for r in lay[layer])]
        if len(conf_in) > 1 and "cli" in conf_in:
            c["conf-below-command-line:%s" % ("with-other-switches" if len(lay["cli"]) > 1 else "alone")] += 1
        if conf_in == ["env"]:
            c["conf-in-environment-only"] += 1
        for layer in ("file", "env", "cli"):
            if any(r.get("text", r.get("arg")) in LITERALS for r in lay[layer]):
                c["literal-text:" + layer] += 1
        if any(len(s) > 1 for s in per.values()):
            c["option-in-several-sources"] += 1
        if last.get("unknown"):
            c["unknown-name-given"] += 1
        loaded = [e for e in t["events"] if e["ev"] == "loaded"]
        if loaded:
            on = set(r["name"] for r in loaded[0]["cfg"])
            if "offline" in on:
                c["offline-loaded:" + last["ev"]] += 1
            if on & set(("output_dir", "output_file")):
                c["output-loaded:" + last["ev"]] += 1
            if "obfuscate_hostname" in on:
                c["obfuscate_hostname-loaded:" + last["ev"]] += 1
        if per:
            distinct.add(json.dumps([lay["fstate"], sorted((r["name"], r["text"]) for r in lay["file"]),
                                     sorted((r["name"], r["text"]) for r in lay["env"]),
                                     sorted((r["name"], r["has"], r["arg"]) for r in lay["cli"] if r["name"] != "conf")]))
    return dict(c), len(distinct)


REQUIRED = ["sources:file", "sources:env", "sources:cli", "sources:env+file", "sources:cli+env+file",
            "option-in-several-sources", "unknown-name-given", "offline-loaded:final", "offline-loaded:error",
            "output-loaded:final", "obfuscate_hostname-loaded:final", "obfuscate_hostname-loaded:error",
            "outcome:final", "outcome:error:validate",
            "conf-below-command-line:with-other-switches", "conf-below-command-line:alone", "conf-in-environment-only",
            "literal-text:file", "literal-text:env", "literal-text:cli"]


def run(prop, tier):
    verdict = lib.Verdict(prop, tier)       # starts the wall clock of the evidence record
    rng = random.Random(lib.seed())
    t0 = time.time()
    options = lib.run_driver("drive_clientconfig.py", dict(task="table"))["options"]
    if len(options) < 20:
        raise lib.MachineryError("option table extraction returned only %d options" % len(options))
    d = prepare(options)
    models, cases, emitted = explore(d, tier, rng)
    print("timing: table + models %.1fs (%d options from DEFAULT_OPTS), cases %s" % (time.time() - t0, len(options), emitted))
    t1 = time.time()
    traces, stats = execute(cases)
    print("timing: driver %.1fs, %d loads, outcomes %s" % (time.time() - t1, len(traces), stats))
    if len(traces) != len(cases):
        raise lib.MachineryError("driver returned %d traces for %d cases" % (len(traces), len(cases)))
    t1 = time.time()
    corrupted, want, lacking_self = selftests(traces, options)
    val = lib.validate_traces(os.path.join(d, "CCTrace"), os.path.join(d, "CCTrace.cfg"), traces + corrupted,
                              jobs=min(lib.NCPU, 8))
    print("timing: validation %.1fs (%d events, %d JVMs)" % (time.time() - t1, val["events"], val["jvms"]))
    if val["events"] != sum(len(t["events"]) for t in traces + corrupted):
        raise lib.MachineryError("trace validation judged %d of %d events"
                                 % (val["events"], sum(len(t["events"]) for t in traces + corrupted)))
    nself = check_selftests(val, want)
    val["traces"] -= len(corrupted)
    val["events"] -= sum(len(t["events"]) for t in corrupted)
    notes = judge(prop, verdict, val, traces, cases)
    if lacking_self and not verdict.violations:
        raise lib.MachineryError("self-test: no recorded load to corrupt for %d of %d mutations" % (lacking_self, NSELF))
    counts, nontrivial = account(traces)
    lacking = [k for k in REQUIRED if not counts.get(k)]
    if lacking:
        raise lib.MachineryError("vacuity: never exercised by a replayed load: %s" % lacking)
    samples = [dict(id=t["id"], lay=t["lay"], outcome=t["events"][-1]["ev"],
                    loaded=[e["cfg"] for e in t["events"] if e["ev"] == "loaded"][:1])
               for t in (traces[0], traces[len(traces) // 2], traces[-1])]
    ev = lib.evidence(
        prop, tier, models, val, evaluations=len(traces), distinct_nontrivial=nontrivial,
        rule="cases are enumerated by TLC from ClientConfigMC: prec = every option of DEFAULT_OPTS x every subset "
             "of {file, environment, command line} x the spellings of the vocabulary; conf = the option `conf` in the file / "
             "environment x --conf next to 0-2 other switches (every switch once); lit = every untyped option x "
             "the literal texts x the sources; unk = unknown names and "
             "ill-typed siblings; table/ext = assignments of default / non-default to the options of the "
             "implication table (weight bound per tier; thorough: full product of the 17 options C16 names); "
             "rtable/dense = TLC -simulate random cases.  Each case is one real load_all(); each observation is "
             "judged by TLC (ClientConfigTrace).  distinct_nontrivial = distinct (file state, file texts, "
             "environment texts, switches) tuples that assign at least one option",
        samples=samples, assumptions=ASSUMPTIONS,
        extra=dict(options_in_table=len(options), cases_emitted=emitted, load_outcomes=stats,
                   antecedents_exercised=counts, design_notes=notes, selftest_corrupted_traces_rejected=nself,
                   design_outcomes=dict(collections.Counter("%s:%s" % (c["mode"], c["design"]["outcome"]) for c in cases)),
                   invariants_checked_on_model=INVARIANTS, exhaustive=False))
    return verdict.finish(ev)


def replay(prop, path):
    with open(path) as f:
        rec = json.load(f)
    case = (rec.get("replay") or {}).get("case")
    if not case:
        print(json.dumps(rec, indent=1)[:20000])
        return 0
    options = lib.run_driver("drive_clientconfig.py", dict(task="table"))["options"]
    d = prepare(options)
    traces, _ = execute([case])
    val = lib.validate_traces(os.path.join(d, "CCTrace"), os.path.join(d, "CCTrace.cfg"), traces, jobs=1)
    print(json.dumps(dict(case=case, trace=traces[0], rejected=val["rejected"]), indent=1))
    bad = [r for r in val["rejected"] if not r["clause"].startswith("NOTE:")]
    known = set(k["signature"] for k in lib.load_known() if k.get("property") == prop and k.get("status") == "open")
    for r in bad:
        print("%s property=%s event %d clause %s" % ("KNOWN-FINDING" if lib.sig(prop, r["clause"]) in known
                                                     else "VIOLATION", prop, r["line"], r["clause"]))
    return 1 if any(lib.sig(prop, r["clause"]) not in known for r in bad) else 0
