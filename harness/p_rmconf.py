"""X07 (extra check, not one of the listed properties): how the client's redaction configuration
(file-redaction.yaml, file-content-redaction.yaml, legacy remove.conf) becomes deny lists and cleaning switches.
Model: specs/RmConf.tla (reference RefSet / EffOf + the loading pipeline, one action per step, with the intended
and a code-transcribed item extraction), emission wrapper specs/RmConfMC.tla, trace validation
specs/RmConfTrace.tla, driver harness/drive_rmconf.py."""
import collections
import concurrent.futures
import copy
import json
import os
import random
import re
import time

import lib

INVARIANTS = ["TypeOK", "I_Function", "I_Loud", "I_Precedence", "I_EmptyIsNone", "I_DenyExact", "I_CleanExact",
              "I_Switches", "I_ReportTotal"]
ACTIONS = ["Locate", "CheckPerm", "Parse", "Validate", "Decide", "Merge", "ApplyBlacklist", "BuildCleaner", "Report"]
CLAUSES = ["Loud", "Spurious", "Conf", "Validate", "PermWarn", "Stable", "HandOver", "DenyExact", "CleanExact",
           "Switches", "Report"]
# the complete pipeline model over a product of all three files (Init of RmConf.tla)
FULL = {"quick": ('YV = {"none", "one"}', 'PV = {"none", "rx1"}', 'LV = {"none", "one"}'),
        "thorough": ('YV = {"none", "null", "two"}', 'PV = {"none", "one", "rx2", "rxextra"}',
                     'LV = {"none", "two", "trail"}')}
# families of worlds emitted by RmConfMC: (name, cap on replayed worlds)
FAMILIES = {"quick": [("prec", 1000), ("red", 700), ("con", 1100), ("leg", 1100)],
            "thorough": [("prec", 10 ** 7), ("red", 10 ** 7), ("con", 10 ** 7), ("leg", 10 ** 7)]}
SIM = {"quick": (300, 300), "thorough": (20000, 20000)}          # (behaviours, cap)
# the code-transcribed extraction: TLC must refute these invariants (family, invariant)
REFUTE = [("leg", "I_CleanExact"), ("con", "I_CleanExact"), ("leg", "I_Function"), ("con", "I_ReportTotal"),
          ("leg", "I_Switches"), ("con", "I_EmptyIsNone")]

ASSUMPTIONS = [
    "every case runs in a fresh directory with real files (real permissions) and a real InsightsConfig pointing at "
    "them; one driver process serves many cases, the process-wide deny lists (insights.core.blacklist) are emptied "
    "before each collection as in a fresh client process",
    "the result is followed through the real CoreCollector.run_collection -> insights.collect.collect -> "
    "apply_blacklist -> Cleaner; inside the driver process InsightsArchive is a stand-in (X06 covers it), dr.run_all "
    "is replaced by a recorder that receives the broker collect() built, determine_hostname and systemd notification "
    "are stubs, the RHSM facts file and the cleaner's report directory point into the scratch directory; the manifest "
    "loads insights.specs.default with every component enabled and an empty manifest blacklist",
    "deny lists and cleaner tables are observed by their effect on probes: two paths, two commands, four components, "
    "eleven lines (one per pattern / keyword item and mode, a line with the word 'regex', a neutral line); the "
    "semantics of allow_file / allow_command prefixes and of the obfuscators themselves is C06 / C08-C10's subject",
    "value classes, not values: items are drawn per case from small vocabularies (VERIF_SEED); values with commas, "
    "backslashes, quotes or '%' in remove.conf, duplicate keys, BOM / non-UTF-8 files, symlinked or unreadable "
    "files, a directory in place of a file, and files changing between two calls are not explored",
    "readings (R2, notes/X07.md): loud = any exception out of get_rm_conf / validate; permissions other than 0600 "
    "are an error only under --validate (documented), a warning otherwise; YAML files that are present but list "
    "nothing may or may not fall back to remove.conf; the reports may or may not count an empty list element",
]


def cfg_text(module_spec, consts, invariants, emit):
    lines = ["SPECIFICATION " + module_spec, "CONSTANTS"] + ["  " + c for c in consts]
    lines += ["INVARIANT " + i for i in invariants]
    if emit:
        lines.append("CONSTRAINT Emit")
    lines.append("CHECK_DEADLOCK FALSE")
    return "\n".join(lines) + "\n"


_WHY = re.compile(r'\\"why\\":\\"([^"\\]*)\\"')
NOV = ['YV = {"none"}', 'PV = {"none"}', 'LV = {"none"}']


def mc_cfg(fam, mech="intent", invariants=INVARIANTS, emit=True):
    return cfg_text("MCSpec", ['MECH = "%s"' % mech] + NOV + ['Fam = "%s"' % fam], invariants, emit)


def write_cfgs():
    """static copies of the configurations next to the specs (the check generates its own)"""
    for fam, _ in FAMILIES["quick"]:
        with open(os.path.join(lib.SPECS, "RmConfMC_%s.cfg" % fam), "w") as f:
            f.write(mc_cfg(fam))
    with open(os.path.join(lib.SPECS, "RmConfMC_sim.cfg"), "w") as f:
        f.write(mc_cfg("sim"))
    with open(os.path.join(lib.SPECS, "RmConf_full.cfg"), "w") as f:
        f.write(cfg_text("Spec", ['MECH = "intent"'] + list(FULL["quick"]), INVARIANTS, False))
    for fam, inv in REFUTE:
        with open(os.path.join(lib.SPECS, "RmConfMC_refute_%s_%s.cfg" % (fam, inv[2:].lower())), "w") as f:
            f.write("\\* the transcription of the code: TLC is EXPECTED to refute %s\n" % inv
                    + mc_cfg(fam, "code", [inv], False))


def model_runs(tier, rng):
    gen = lib.subdir("x07cfg")
    jobs = []

    def wr(name, text):
        p = os.path.join(gen, name)
        with open(p, "w") as f:
            f.write(text)
        return p

    jobs.append(("full", "RmConf", wr("RmConf_full.cfg", cfg_text("Spec", ['MECH = "intent"'] + list(FULL[tier]),
                                                                  INVARIANTS, False)), dict(workers=2 if tier == "quick" else 4), None))
    for fam, cap in FAMILIES[tier]:
        jobs.append((fam, "RmConfMC", wr("RmConfMC_%s.cfg" % fam, mc_cfg(fam)), dict(workers=2, raw_cases=True), cap))
    num, cap = SIM[tier]
    jobs.append(("sim", "RmConfMC", wr("RmConfMC_sim.cfg", mc_cfg("sim")),
                 dict(workers=2, simulate=max(1, num // 2), depth=20, tlc_seed=lib.seed() + 707, raw_cases=True), cap))
    jobs.append(("coverage", "RmConfMC", wr("RmConfMC_cov.cfg", mc_cfg("prec", emit=False)),
                 dict(workers=1, coverage=True), None))
    for fam, inv in REFUTE:
        jobs.append(("refute:%s:%s" % (fam, inv), "RmConfMC",
                     wr("RmConfMC_refute_%s_%s.cfg" % (fam, inv), mc_cfg(fam, "code", [inv], False)),
                     dict(workers=1), None))

    def one(job):
        name, module, cfgp, kw, cap = job
        return job, lib.run_tlc(module, cfgp, tag="x07-" + name.replace(":", "-"), timeout=1800, **kw)

    models, cases, emitted, refuted, cov = [], [], {}, {}, {}
    with concurrent.futures.ThreadPoolExecutor(max_workers=4) as ex:
        for (name, module, cfgp, kw, cap), r in ex.map(one, jobs):
            if name.startswith("refute:"):
                _, fam, inv = name.split(":")
                if r.violation != inv:
                    raise lib.MachineryError("the code transcription (MECH=code, family %s) was NOT refuted on %s "
                                             "(violation=%s error=%s)" % (fam, inv, r.violation, r.error))
                refuted["%s/%s" % (fam, inv)] = True
                continue
            lib.require_ok(r, "RmConf model " + name)
            models.append(r)
            if name == "coverage":
                for line in r.out.splitlines():
                    for a in ACTIONS:
                        if line.startswith("<%s line" % a) and "module RmConf>" in line:
                            try:
                                cov[a] = cov.get(a, 0) + int(line.rsplit(":", 1)[1])
                            except ValueError:
                                pass
                missing = [a for a in ACTIONS if not cov.get(a)]
                if missing:
                    raise lib.MachineryError("vacuity: pipeline actions never taken in the model: %s (%s)" % (missing, cov))
                continue
            if cap is None:
                continue
            lines = sorted(set(r.cases))
            r.cases = []
            emitted[name] = len(lines)
            if len(lines) > cap:             # a VERIF_SEED sample, completed by one world per reason of rejection
                keep = rng.sample(lines, cap)
                have = set(_WHY.findall("".join(keep)))
                for line in rng.sample(lines, len(lines)):
                    y = _WHY.search(line).group(1)
                    if y not in have:
                        have.add(y)
                        keep.append(line)
                lines = keep
            for i, line in enumerate(lines):
                c = lib.parse_case(line)
                c["id"] = "%s#%d" % (name, i)
                cases.append(c)
    return models, cases, emitted, refuted, cov


def execute(cases, jobs=4):
    payloads = [dict(cases=ch, seed=lib.seed()) for ch in lib.chunks(cases, jobs * 2)]
    outs = lib.run_driver_parallel("drive_rmconf.py", payloads, timeout=3000, jobs=jobs)
    traces, stats = [], {}
    for o in outs:
        traces.extend(o["traces"])
        for k, v in o["stats"].items():
            stats[k] = stats.get(k, 0) + v
    return traces, stats


# ---------------------------------------------------------------------------
# vacuity accounting and self-test
# ---------------------------------------------------------------------------
def features(case, trace, counts):
    w, e = case["w"], trace["events"][0]
    hit = False
    counts["expected:" + case["k"]] += 1
    if case["k"] == "error":
        counts["error:" + case["why"]] += 1
        hit = True
    counts["validate:%s" % w["validate"]] += 1
    for f in ("red", "con", "leg"):
        x = w[f]
        if x["kind"] == "file" and x["path"] == "set":
            counts["%s:form=%s" % (f, x["form"])] += 1
            if x["perm"] != "600":
                counts["%s:perm-not-600:validate=%s" % (f, w["validate"])] += 1
            for k, v in x["s"].items():
                if v != "none":
                    counts["%s:%s=%s" % (f, k, v)] += 1
    if case["lists"]:
        hit = True
    if e["eff"]["ran"]:
        counts["collected"] += 1
        for p, o in e["eff"]["lines"].items():
            counts["line:%s" % o] += 1
        for k in ("denyF", "denyC", "disabled"):
            if e["eff"][k]:
                counts["effect:" + k] += 1
        counts["obf:" + w["obf"]] += 1
    if e["vk"] != "-":
        counts["validate-answer:" + e["vk"]] += 1
    if any(e["warned"].values()):
        counts["warned-permissions"] += 1
    if e["conf"]["fmt"] == "old" and (w["red"]["kind"] == "file" or w["con"]["kind"] == "file"):
        counts["fallback-to-remove.conf-with-yaml-present"] += 1
    return hit


REQUIRED = (["expected:ok", "expected:error", "validate:True", "validate:False", "collected", "effect:denyF",
             "effect:denyC", "effect:disabled", "line:removed", "line:changed", "line:kept", "line:error",
             "validate-answer:true", "validate-answer:none", "validate-answer:raise", "warned-permissions",
             "fallback-to-remove.conf-with-yaml-present", "obf:off", "obf:all", "obf:host", "obf:ip"]
            + ["error:%s:%s" % (f, y) for f in ("red", "con") for y in ("permissions", "unparsable", "not-a-mapping",
                                                                         "unknown-section")]
            + ["error:leg:%s" % y for y in ("permissions", "unparsable", "invalid-section", "unknown-key")]
            + ["con:patterns=%s" % v for v in ("one", "two", "oneblank", "rx1", "rx2", "rxnull", "rxempty", "rxbad",
                                               "rxposix", "rxstr", "rxlint", "rxextra", "rxmissing", "str", "lint")]
            + ["leg:%s=%s" % (k, v) for k in ("patterns", "keywords") for v in ("empty", "one", "two", "trail", "nonascii")]
            + ["red:%s=%s" % (k, v) for k in ("files", "commands", "components") for v in ("null", "elist", "one", "two")])

NSELF = 9


def selftests(traces, whys):
    """Binding self-test (R5): copies of recorded runs with ONE observation corrupted; the trace specification
    must reject each with the named clause."""
    want, out = {}, []

    def add(tag, t, clause, mutate):
        if "selftest/" + tag in want:
            return
        c = copy.deepcopy(t)
        c["id"] = "selftest/" + tag
        mutate(c["events"][0])
        want[c["id"]] = (clause, t["id"])
        out.append(c)

    for t in traces:
        e, w = t["events"][0], t["w"]
        if e["k"] == "error" and whys.get(t["id"], "").startswith(("red:", "con:")):
            add("error-swallowed", t, "Loud", lambda ev: ev.update(k="ok", vk="none" if w["validate"] else "-"))
        if e["k"] == "ok" and e["eff"]["ran"]:
            if e["eff"]["lines"]["p1"] == "removed" and e["eff"]["lines"]["neutral"] == "kept":
                add("pattern-dropped", t, "CleanExact", lambda ev: ev["eff"]["lines"].update(p1="kept"))
                add("neutral-removed", t, "CleanExact", lambda ev: ev["eff"]["lines"].update(neutral="removed"))
            if e["eff"]["lines"]["k1"] == "changed":
                add("keyword-kept", t, "CleanExact", lambda ev: ev["eff"]["lines"].update(k1="kept"))
            if e["eff"]["denyF"] == ["1"]:
                add("file-not-denied", t, "DenyExact", lambda ev: ev["eff"].update(denyF=[]))
                add("other-file-denied", t, "DenyExact", lambda ev: ev["eff"].update(denyF=["1", "other"]))
            if "comp1" in e["eff"]["disabled"]:
                add("component-left-on", t, "DenyExact",
                    lambda ev: ev["eff"].update(disabled=[d for d in ev["eff"]["disabled"] if d != "comp1"]))
            if "mac" in e["eff"]["sw"]:
                add("switch-lost", t, "Switches", lambda ev: ev["eff"].update(sw=[s for s in ev["eff"]["sw"] if s != "mac"]))
            if e["conf"]["fmt"] == "old" and e["conf"]["files"] and e["again"] == "same":
                add("second-call-differs", t, "Stable", lambda ev: ev.update(again="differs"))
        if len(want) == NSELF:
            break
    return out, want, NSELF - len(want)


def check_selftests(val, want):
    mine = [r for r in val["rejected"] if r["id"].startswith("selftest/")]
    val["rejected"] = [r for r in val["rejected"] if not r["id"].startswith("selftest/")]
    real_bad = set(r["id"] for r in val["rejected"])
    done = 0
    for tid, (clause, base) in sorted(want.items()):
        if not any(r["id"] == tid and r["clause"].startswith(clause + ":") for r in mine):
            if base in real_bad:
                continue
            raise lib.MachineryError("self-test: corrupted run %s was not rejected by %s (got %s)"
                                     % (tid, clause, [r["clause"] for r in mine if r["id"] == tid]))
        done += 1
    return done


def describe(w):
    def f(x):
        if x["path"] != "set":
            return "option unset"
        if x["kind"] != "file":
            return "absent"
        secs = ", ".join("%s=%s" % (k, v) for k, v in sorted(x["s"].items()) if v != "none")
        return "%s perm %s {%s}" % (x["form"], x["perm"], secs)
    return ("file-redaction.yaml: %s; file-content-redaction.yaml: %s; remove.conf: %s; validate=%s obf=%s"
            % (f(w["red"]), f(w["con"]), f(w["leg"]), w["validate"], w["obf"]))


def judge(prop, verdict, val, traces, cases):
    bytrace = dict((t["id"], t) for t in traces)
    bycase = dict((c["id"], c) for c in cases)
    for rj in sorted(val["rejected"], key=lambda r: (r["id"], r["clause"])):
        if rj["clause"].startswith("ENV:"):
            raise lib.MachineryError("trace %s not understood by the trace specification (%s)" % (rj["id"], rj["clause"]))
        t = bytrace[rj["id"]]
        e = t["events"][0]
        what = ("world %s [%s] violates %s; observed: answer=%s%s conf=%s lines=%s deny=%s/%s/%s create_report=%s "
                "blacklist_report=%s"
                % (rj["id"], describe(t["w"]), rj["clause"], e["k"], "(%s)" % e["exc"] if e["exc"] != "-" else "",
                   json.dumps(e["conf"], sort_keys=True), json.dumps(e["eff"]["lines"], sort_keys=True),
                   e["eff"]["denyF"], e["eff"]["denyC"], e["eff"]["disabled"], e["crk"], e["brk"]))
        verdict.reject(lib.sig(prop, rj["clause"]), what, dict(case=bycase.get(rj["id"]), trace=t, rejected=rj))


def run(prop, tier):
    verdict = lib.Verdict(prop, tier)
    rng = random.Random(lib.seed())
    t0 = time.time()
    models, cases, emitted, refuted, cov = model_runs(tier, rng)
    print("timing: models %.1fs (%d distinct states in %d runs, %d refutations of the code transcription), "
          "%d worlds to replay %s" % (time.time() - t0, sum(m.distinct for m in models), len(models), len(refuted),
                                      len(cases), emitted))
    t1 = time.time()
    traces, stats = execute(cases)
    print("timing: driver %.1fs, %d traces, %s" % (time.time() - t1, len(traces), stats))
    if len(traces) != len(cases):
        raise lib.MachineryError("driver returned %d traces for %d cases" % (len(traces), len(cases)))
    if not stats.get("collect") or not stats.get("lines") or not stats.get("validate"):
        raise lib.MachineryError("vacuity: the real collect() / cleaner / --validate path never ran (%s)" % stats)
    t1 = time.time()
    corrupted, want, lacking_self = selftests(traces, dict((c["id"], c["why"]) for c in cases))
    val = lib.validate_traces("RmConfTrace", "RmConfTrace.cfg", traces + corrupted, jobs=4)
    print("timing: validation %.1fs (%d events, %d JVMs)" % (time.time() - t1, val["events"], val["jvms"]))
    if val["events"] != len(traces) + len(corrupted):
        raise lib.MachineryError("trace validation judged %d of %d events" % (val["events"], len(traces) + len(corrupted)))
    nself = check_selftests(val, want)
    val["traces"] -= len(corrupted)
    val["events"] -= len(corrupted)
    judge(prop, verdict, val, traces, cases)
    if lacking_self and not verdict.violations:
        raise lib.MachineryError("self-test: no recorded run to corrupt for %d of %d mutations (have %s)"
                                 % (lacking_self, NSELF, sorted(want)))

    counts = collections.defaultdict(int)
    nontrivial = set()
    for t, c in zip(traces, cases):
        if features(c, t, counts):
            nontrivial.add(json.dumps(c["w"], sort_keys=True))
    counts = dict(counts)
    lacking = [k for k in REQUIRED if not counts.get(k)]
    if lacking and not verdict.violations:
        raise lib.MachineryError("vacuity: features never exercised by a replayed world: %s" % lacking)

    samples = [dict(world=describe(c["w"]), expected=c["k"], why=c["why"]) for c in cases[:3]]
    if traces:
        samples.append(dict(trace_id=traces[-1]["id"], event=traces[-1]["events"][0]))
    ev = lib.evidence(
        prop, tier, models, val, evaluations=len(traces), distinct_nontrivial=len(nontrivial),
        rule="model: the loading pipeline (9 actions) over every world of the full product %s and of the families %s "
             "(every world of a family enumerated by TLC%s) plus TLC -simulate worlds over all documents, permissions "
             "and options; 9 invariants against the denotational reference; the code-transcribed extraction refuted on "
             "%s; replay: each world becomes real files + a real InsightsConfig, the real InsightsUploadConf / "
             "validate_remove_file / CoreCollector.run_collection / collect / apply_blacklist / Cleaner run, and TLC "
             "(RmConfTrace) judges the observation clause by clause; distinct_nontrivial = distinct worlds that list "
             "something or must be rejected"
             % (list(FULL[tier]), [f[0] for f in FAMILIES[tier]],
                ", a VERIF_SEED sample replayed" if tier == "quick" else "", sorted(refuted)),
        samples=samples, assumptions=ASSUMPTIONS,
        extra=dict(worlds_emitted=emitted, driver=stats, features_exercised=counts, model_action_coverage=cov,
                   code_transcription_refuted_on=sorted(refuted), selftest_corrupted_traces_rejected=nself,
                   clauses=CLAUSES, invariants=INVARIANTS, exhaustive=False))
    return verdict.finish(ev)


def replay(prop, path):
    with open(path) as f:
        rec = json.load(f)
    case = (rec.get("replay") or {}).get("case")
    if not case:
        print(json.dumps(rec, indent=1)[:20000])
        return 0
    traces, _ = execute([case], jobs=1)
    val = lib.validate_traces("RmConfTrace", "RmConfTrace.cfg", traces, jobs=1)
    print(json.dumps(dict(case=case, trace=traces[0], rejected=val["rejected"]), indent=1))
    known = set(k["signature"] for k in lib.load_known() if k.get("property") == prop and k.get("status") == "open")
    bad = [r for r in val["rejected"] if lib.sig(prop, r["clause"]) not in known]
    for r in val["rejected"]:
        print("%s property=%s clause %s" % ("VIOLATION" if r in bad else "KNOWN-FINDING", prop, r["clause"]))
    return 1 if bad else 0
