"""X04 (extra check, not one of the listed properties): the shared directory-listing parser.
Model: specs/LsListing.tla (+ LsListingMC emission), trace validation: specs/LsListingTrace.tla,
driver: harness/drive_lslisting.py."""
import collections
import concurrent.futures
import copy
import hashlib
import json
import os
import random
import time

import lib

INVARIANTS = ["Admitted", "IntendedMeetsReference", "CodeDeviatesExactlyOnClasses", "NormalIdempotent",
              "AccessorsConsistent", "RoughTokensWellFormed"]
ACTIONS = ["ReadHeader", "ReadTotal", "ReadEntry", "SkipLine", "Finish"]
CLASSES = ["total0", "rootkey", "arrow", "comma", "mlscat", "shortctx", "rootdir"]

# name -> (Fam, N)
FAMILIES = {
    "quick": collections.OrderedDict([("entry", ("entry", 1)), ("pair", ("pair", 1)), ("dirs", ("dirs", 2)),
                                      ("root", ("root", 1))]),
    "thorough": collections.OrderedDict([("entry", ("entry", 2)), ("pair", ("pair", 2)), ("dirs", ("dirs", 3)),
                                         ("dirsz", ("dirsz", 2)), ("root", ("root", 1))]),
}
# the transcription of the code on one known-defect class each: TLC must refute F_CodeMeetsReference
REFUTE = collections.OrderedDict([("total0", ("dirs", 2)), ("rootkey", ("root", 1)), ("arrow", ("entry", 1)),
                                  ("comma", ("entry", 1)), ("mlscat", ("entry", 1)), ("shortctx", ("entry", 1)),
                                  ("rootdir", ("dirs", 1))])
CAP = {"quick": {"entry": 2600, "pair": 1500, "dirs": 1800, "root": 600},
       "thorough": {"entry": 10 ** 6, "pair": 10 ** 6, "dirs": 10 ** 6, "dirsz": 10 ** 6, "root": 10 ** 6}}
NVAR = {"quick": 1, "thorough": 2}
NRAND = {"quick": 1200, "thorough": 24000}
NREAL = {"quick": 160, "thorough": 2400}
NSELF = {"quick": 80, "thorough": 400}

# what a run must have exercised (vacuity): stats keys of the driver
NEEDED = (["type:" + t for t in "-dlcbps"] + ["fmt:plain", "fmt:newZ", "fmt:oldZ"]
          + ["acc:dir_entry", "acc:files_of/dirs_of/specials_of/listing_of/in", "acc:path_entry", "acc:permissions_of",
             "acc:raw_entry_of", "acc:total_of"]
          + ["date:time", "date:year", "device-numbers", "mark:.", "mark:+", "name:blank", "name:arrow", "name:dash",
             "name:total-like", "name:header-like", "target:arrow", "owner:numeric", "head-less", "several-directories",
             "no-total-line", "acc:total_of-listed-alone", "reader:FileListing", "reader:LsBoot", "reader:LsDev", "reader:LsSysFirmware",
             "reader:parse"])
NEEDED_R4 = ["r4:ls-la", "r4:ls-lan", "r4:ls-laR"] + ["r4:type:" + t for t in "-dlps"]

ASSUMPTIONS = [
    "listings are rendered by the driver (harness/drive_lslisting.py): the words behind the model's letters, numbers, "
    "dates, owners, permission strings, contexts, column alignment (as ls pads / single blanks / extra blanks), "
    "indentation, trailing blanks and the number of blank lines between directories are sampled from VERIF_SEED, not "
    "enumerated; the renderer is compared token by token with the real `ls -la / -lan / -laR / -laZ` (GNU coreutils of "
    "this machine, LC_ALL=C, TZ=UTC) on scratch directories and ls's own text goes through the parser too",
    "Admits (specs/LsListing.tla) delimits the quantifier: absolute directory names without trailing slash, entry "
    "names non-empty, without leading / trailing blanks and without '/', no ' -> ' in the NAME of a symlink, owner and "
    "group without blanks (oldZ: owner not starting with a digit), dates in the two twelve-character forms of the C "
    "locale, major device numbers below 1000, a context that is '?' or contains ':', no text ': No such file or "
    "directory' inside names, entry names distinct per directory, directory names distinct",
    "inode / block-count prefixes (ls -i, -s), --time-style, -h sizes, quoted names and listings of plain files given "
    "as arguments are outside the model (the docstrings exclude them or are silent)",
    "where the docstrings are silent nothing is demanded: the total of a directory without total line, the SELinux "
    "fields of a context with fewer than four parts beyond its first, se_* keys of a plain listing, extra keys",
    "bounds: exhaustive over tiny alphabets for the stated sizes only; larger listings are seeded random; device files "
    "are renderer-only (cannot be created in the scratch directory)",
]


def cfg_text(fam, n, admit, invariants, emit):
    lines = ["SPECIFICATION Spec", "CONSTANTS", '  Fam = "%s"' % fam, "  N = %d" % n,
             "  Admit = {%s}" % ", ".join('"%s"' % a for a in admit)]
    lines += ["INVARIANT %s" % i for i in invariants]
    if emit:
        lines.append("CONSTRAINT Emit")
    lines.append("CHECK_DEADLOCK FALSE")
    return "\n".join(lines) + "\n"


def write_cfgs():
    """static copies of the quick-tier configurations next to the specs (the check generates its own)"""
    for name, (fam, n) in FAMILIES["quick"].items():
        with open(os.path.join(lib.SPECS, "LsListingMC_%s.cfg" % name), "w") as f:
            f.write(cfg_text(fam, n, CLASSES, INVARIANTS, True))
    for name, (fam, n) in FAMILIES["thorough"].items():
        with open(os.path.join(lib.SPECS, "LsListingMC_%s_thorough.cfg" % name), "w") as f:
            f.write(cfg_text(fam, n, CLASSES, INVARIANTS, True))
    for cls, (fam, n) in REFUTE.items():
        with open(os.path.join(lib.SPECS, "LsListingMC_refute_%s.cfg" % cls), "w") as f:
            f.write("\\* the transcription of the code on the '%s' inputs: TLC is EXPECTED to refute F_CodeMeetsReference\n"
                    % cls + cfg_text(fam, n, [cls], ["F_CodeMeetsReference"], False))


DEBUG_FIELDS = ("text",)


def slim(trace):
    """the rendered text is kept for the replay file only; TLC gets the abstract events"""
    return dict(id=trace["id"], events=[dict((k, v) for k, v in e.items() if k not in DEBUG_FIELDS)
                                        for e in trace["events"]])


def model_runs(tier):
    gen = lib.subdir("gencfg-x04")
    jobs = []
    for name, (fam, n) in FAMILIES[tier].items():
        p = os.path.join(gen, "mc_%s.cfg" % name)
        with open(p, "w") as f:
            f.write(cfg_text(fam, n, CLASSES, INVARIANTS, True))
        jobs.append((name, p, dict(workers=2 if lib.NCPU >= 4 else 1, raw_cases=True, coverage=True), True))
    # quick tier: CodeDeviatesExactlyOnClasses on the main runs already says that the transcription of the code fails
    # on every member of every class; the separate refutations (one TLC counterexample per class) are thorough-only
    for cls, (fam, n) in (REFUTE.items() if tier == "thorough" else []):
        p = os.path.join(gen, "refute_%s.cfg" % cls)
        with open(p, "w") as f:
            f.write(cfg_text(fam, n, [cls], ["F_CodeMeetsReference"], False))
        jobs.append(("refute-" + cls, p, dict(workers=1, light=True), False))
    # long runs first
    order = {"dirs": 0, "dirsz": 0, "pair": 1, "entry": 2}
    jobs.sort(key=lambda j: order.get(j[0], 3))

    def one(job):
        name, cfgp, kw, must_hold = job
        r = lib.run_tlc("LsListingMC", cfgp, tag="x04-" + name, timeout=3000, **kw)
        if must_hold:
            lib.require_ok(r, "LsListing model " + name)
        return name, r

    res = collections.OrderedDict()
    with concurrent.futures.ThreadPoolExecutor(max_workers=max(2, min(6, lib.NCPU // 2))) as ex:
        for name, r in ex.map(one, jobs):
            res[name] = r
    refuted = {}
    for cls in (REFUTE if tier == "thorough" else []):
        r = res["refute-" + cls]
        if r.violation != "F_CodeMeetsReference":
            raise lib.MachineryError("the transcription of the code on '%s' inputs was expected to violate "
                                     "F_CodeMeetsReference; TLC says violation=%s error=%s\n%s"
                                     % (cls, r.violation, r.error, "\n".join(r.out.splitlines()[-30:])))
        refuted[cls] = dict(refuted=True, states=r.generated)
    cov = {}
    for name in FAMILIES[tier]:
        for a, n in res[name].coverage.items():
            cov[a] = cov.get(a, 0) + n
    missing = [a for a in ACTIONS if not cov.get(a)]
    if missing:
        raise lib.MachineryError("vacuity: actions never taken in the model runs: %s (coverage %s)" % (missing, cov))
    return res, refuted, cov


# ---------------------------------------------------------------------------
# binding self-test: corrupt one observed field of an accepted trace
# ---------------------------------------------------------------------------
def corrupt(trace, rng):
    t = copy.deepcopy(trace)
    evs = t["events"]
    kinds = [e["ev"] for e in evs]
    choice = rng.choice(sorted(set(kinds)))
    cand = [e for e in evs if e["ev"] == choice]
    e = rng.choice(cand)
    how = ""
    if choice == "parse":
        if rng.random() < 0.5 and e["keys"]:
            e["keys"] = e["keys"][:-1]
            how = "parse:drop-key"
        else:
            e["keys"] = e["keys"] + [list("/extra")]
            how = "parse:extra-key"
    elif choice == "total":
        e["total"] = e["total"] + 1 if e["total"] >= 0 else 0
        d = t["events"][0]["doc"]["dirs"][e["d"] - 1]
        if d["total"] < 0:
            e["total"] = -2 if e["solo"] == -3 else e["solo"] + 1
        how = "total:value"
    elif choice == "dir":
        r = rng.random()
        if r < 0.3:
            e["isin"] = False
            how = "dir:not-in"
        elif r < 0.6 and e["lkeys"]:
            src = rng.choice([k for k in ("files", "dirs", "specials") if e[k]])
            dst = rng.choice([k for k in ("files", "dirs", "specials") if k != src])
            e[dst] = e[dst] + [e[src].pop()]
            how = "dir:reclassify"
        elif r < 0.8 and len(e["files"]) + len(e["dirs"]) >= 1:
            k = "files" if e["files"] else "dirs"
            e[k] = e[k][:-1]
            how = "dir:drop-name"
        else:
            e["acontains"] = True
            how = "dir:absent-contained"
    else:
        if not e["inlist"] or e["exc"]:
            e["contains"] = not e["contains"]
            how = "ent:contains"
        else:
            r = rng.random()
            if r < 0.45:
                f = rng.choice(["perms", "owner", "group", "name", "dir", "links", "type", "haslink"])
                if f == "links":
                    for rec in (e["de"], e["le"], e["pe"]):
                        rec["links"] = rec["links"] + 1 if rec["links"] >= 0 else 5
                elif f == "type":
                    for rec in (e["de"], e["le"], e["pe"]):
                        rec["type"] = "d" if rec["type"] != "d" else "-"
                elif f == "haslink":
                    for rec in (e["de"], e["le"], e["pe"]):
                        rec["haslink"] = not rec["haslink"]
                else:
                    for rec in (e["de"], e["le"], e["pe"]):
                        rec[f] = rec[f] + ["!"]
                how = "ent:field:" + f
            elif r < 0.6:
                e["le"]["owner"] = e["le"]["owner"] + ["!"]
                how = "ent:listing_of-differs"
            elif r < 0.75 and e["pep"]:
                e["pe"] = dict(e["pe"], some=False)
                how = "ent:path_entry-none"
            elif r < 0.9 and e["rawkind"] == "str":
                e["raw"] = e["raw"][:-1] if rng.random() < 0.5 else e["raw"][:1] + ["9"] + e["raw"][1:]
                how = "ent:raw-tokens"
            else:
                e["contains"] = False
                how = "ent:not-contained"
    t["events"] = [evs[0]] + ([e] if e is not evs[0] else [])
    t["id"] = "selftest/%s/%s" % (how, t["id"])
    return t


def compact(o):
    """arrays of one-character strings back to strings, for messages"""
    if isinstance(o, list):
        if o and all(isinstance(x, str) and len(x) == 1 for x in o):
            return "".join(o)
        return [compact(x) for x in o]
    if isinstance(o, dict):
        return dict((k, compact(v)) for k, v in o.items())
    return o


def run(prop, tier):
    rng = random.Random(lib.seed())
    quick = tier == "quick"
    t0 = time.time()
    res, refuted, cov = model_runs(tier)
    models = [res[n] for n in FAMILIES[tier]]
    cases, emitted, classes_emitted = [], {}, {}
    for name in FAMILIES[tier]:
        raw = sorted(set(res[name].cases))
        res[name].cases = []
        emitted[name] = len(raw)
        idx = list(range(len(raw)))
        if len(idx) > CAP[tier][name]:
            # the model run stays exhaustive; the replay takes a VERIF_SEED-determined sample
            rng.shuffle(idx)
            idx = sorted(idx[:CAP[tier][name]])
        for i in idx:
            c = lib.parse_case(raw[i])
            cid = "%s#%s" % (name, hashlib.sha1(raw[i].encode()).hexdigest()[:10])
            cases.append(dict(id=cid, fam=name, inp=c["inp"], classes=c["classes"]))
            for k in c["classes"]:
                classes_emitted[k] = classes_emitted.get(k, 0) + 1
    lacking = [k for k in CLASSES if not classes_emitted.get(k)]
    if lacking:
        raise lib.MachineryError("no replayed listing in the known-defect classes %s" % lacking)
    print("timing: models %.1fs (%d states, %d runs [%s] + %d refutations), %d abstract listings emitted, %d replayed"
          % (time.time() - t0, sum(m.distinct for m in models), len(models),
             " ".join("%s %.0fs" % (n, res[n].wall) for n in FAMILIES[tier]), len(refuted), sum(emitted.values()),
             len(cases)))

    t1 = time.time()
    njobs = max(1, min(lib.NCPU, 8))
    payloads = []
    rng.shuffle(cases)
    for ch in lib.chunks([dict(id=c["id"], inp=c["inp"]) for c in cases], njobs):
        if ch:
            payloads.append(dict(cases=ch, seed=lib.seed(), nvar=NVAR[tier]))
    for i in range(njobs):
        payloads.append(dict(cases=[], seed=lib.seed(), chunk=i, random=NRAND[tier] // njobs,
                             real=NREAL[tier] // njobs, scratch=lib.subdir("x04-real")))
    outs = lib.run_driver_parallel("drive_lslisting.py", payloads, timeout=3000, jobs=njobs)
    traces, stats = [], {}
    for o in outs:
        traces.extend(o["traces"])
        for k, v in o["stats"].items():
            stats[k] = stats.get(k, 0) + v
    print("timing: drivers %.1fs, %d traces, %d events" % (time.time() - t1, len(traces), sum(len(t["events"]) for t in traces)))
    missing = [k for k in NEEDED if not stats.get(k)]
    if not stats.get("r4:no-ls"):
        missing += [k for k in NEEDED_R4 if not stats.get(k)]
    if missing:
        raise lib.MachineryError("vacuity: the driver never exercised %s" % missing)

    t1 = time.time()
    vjobs = 4 if lib.NCPU <= 8 else 8
    val = lib.validate_traces("LsListingTrace", "LsListingTrace.cfg", [slim(t) for t in traces], jobs=vjobs)
    print("timing: validation %.1fs (%d events, %d JVMs)" % (time.time() - t1, val["events"], val["jvms"]))
    rejected = {}
    for r in val["rejected"]:
        rejected.setdefault(r["id"], []).append(r)

    # listings outside what the formats admit are not in the quantifier: enumerated and real ones are admitted by
    # construction, random ones are filtered by TLC
    skipped = 0
    for tid, rjs in list(rejected.items()):
        if any(r["clause"] in ("not-admitted", "malformed-event") for r in rjs):
            if not tid.startswith("rand-") or any(r["clause"] == "malformed-event" for r in rjs):
                raise lib.MachineryError("a listing was rendered outside the admitted set / malformed: %s %s" % (tid, rjs))
            skipped += 1
            del rejected[tid]
    nrand = sum(1 for t in traces if t["kind"] == "rand")
    if nrand and skipped > 0.5 * nrand:
        raise lib.MachineryError("more than half of the random listings are not admitted (%d of %d)" % (skipped, nrand))

    # binding self-test: accepted traces with one corrupted observation must be rejected
    t1 = time.time()
    pool = [t for t in traces if t["id"] not in rejected and len(t["events"]) > 1 and t["kind"] != "rand"]
    selftest = [corrupt(t, rng) for t in rng.sample(pool, min(len(pool), NSELF[tier]))]
    sval = lib.validate_traces("LsListingTrace", "LsListingTrace.cfg", [slim(t) for t in selftest], jobs=1)
    caught = set(r["id"] for r in sval["rejected"])
    missed = [t["id"] for t in selftest if t["id"] not in caught]
    if missed or not selftest:
        raise lib.MachineryError("binding self-test: %d corrupted traces were accepted, e.g. %s" % (len(missed), missed[:3]))
    kinds = sorted(set(t["id"].split("/")[1] for t in selftest))
    print("timing: self-test %.1fs (%d corrupted traces rejected, kinds %s)" % (time.time() - t1, len(selftest), kinds))

    bycase = dict((c["id"], c) for c in cases)
    verdict = lib.Verdict(prop, tier)
    rejected_events = 0
    for t in traces:
        for rj in sorted(rejected.get(t["id"], []), key=lambda r: r["line"]):
            rejected_events += 1
            ev = t["events"][rj["line"] - 1]
            shown = dict((k, ev[k]) for k in ("exc", "keys", "files", "dirs", "specials", "lkeys", "total", "de", "pe",
                                              "rawkind", "raw", "permkind", "perm", "contains", "inlist") if k in ev)
            what = "%s: %s event %d of %s on text %s; observed %s" % (
                rj["clause"], ev["ev"], rj["line"], t["id"], json.dumps(t["events"][0].get("text"))[:600],
                json.dumps(compact(shown))[:500])
            verdict.reject(lib.sig(prop, rj["clause"]), what,
                           dict(case=bycase.get(t["id"].rsplit("/", 1)[0]), trace=t, rejected=rj, seed=lib.seed()))

    seen, nontriv = set(), 0
    for t in traces:
        doc = t["events"][0]["doc"]
        kk = hashlib.sha1(json.dumps([doc, t["events"][0].get("text")], sort_keys=True).encode()).hexdigest()
        if kk not in seen:
            seen.add(kk)
            if any(d["ents"] for d in doc["dirs"]):
                nontriv += 1
    samples = []
    for kind in ("enum", "rand", "real"):
        for t in traces:
            if t["kind"] == kind and len(t["events"]) > 3 and t["id"] not in rejected:
                e = t["events"][-1]
                samples.append(dict(trace_id=t["id"], text=t["events"][0].get("text", [])[:8],
                                    observed_last_entry=compact(e.get("de", {}))))
                break
    ev = lib.evidence(
        prop, tier, models, val, evaluations=len(traces), distinct_nontrivial=nontriv,
        rule="abstract listings = every listing TLC enumerated within the bounds (families entry / pair / dirs / root; "
             "sampled by VERIF_SEED where a family exceeds the replay cap, the model run itself is exhaustive) plus "
             "seeded random larger ones plus outputs of the real ls on scratch directories; each is rendered to text, "
             "read by the real FileListing / LsBoot / LsDev / LsSysFirmware / ls_parser.parse, and every accessor's "
             "result, abstracted to the model's records, is validated by TLC against Exp / Normal and the "
             "cross-accessor laws; distinct_nontrivial = distinct rendered listings with at least one entry",
        samples=samples, assumptions=ASSUMPTIONS,
        extra=dict(bounds=dict((n, dict(Fam=f, N=k)) for n, (f, k) in FAMILIES[tier].items()),
                   abstract_listings_emitted=emitted, abstract_listings_replayed=len(cases),
                   replayed_in_known_defect_classes=classes_emitted,
                   random_listings=nrand, random_listings_not_admitted=skipped,
                   real_ls_outputs=sum(1 for t in traces if t["kind"] == "real"),
                   driver_stats=stats, model_action_coverage=cov, code_transcription_refuted_on=refuted,
                   rejected_events=rejected_events, selftest_corrupted_traces_rejected=len(selftest),
                   selftest_kinds=kinds, invariants_checked_on_model=INVARIANTS, exhaustive=False))
    return verdict.finish(ev)
