\* all refutations in one run (-workers 1): witnesses are printed by the POSTCONDITION
SPECIFICATION Spec
CONSTANTS
  MaxN = 2
  Rd1 = {"no", "drain"}
  RdK = {"no", "pass"}
  Outs = {"p", "L", "pb"}
  Rcs = {"0", "1", "nf"}
  Slows = {FALSE, TRUE}
  Errs = {FALSE}
  MaxOdd = 3
  Apis = {"call", "connect"}
  Keeps = {FALSE}
  Tmos = {"none", "arg"}
  Sigs = {"KILL"}
  Splits = {TRUE}
  Forms = {"list"}
  Metas = {FALSE}
  Envs = {"given"}
  Bares = {FALSE, TRUE}
  Flts = {"none"}
  Mechs = {"code"}
  Admit = {"earlyfail", "lateslow", "unread", "nflater", "streamstdin", "streambin", "streampath", "unwaited"}
CONSTRAINT Witness
POSTCONDITION PostWitness
CHECK_DEADLOCK FALSE
