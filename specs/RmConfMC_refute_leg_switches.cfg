\* the transcription of the code: TLC is EXPECTED to refute I_Switches
SPECIFICATION MCSpec
CONSTANTS
  MECH = "code"
  YV = {"none"}
  PV = {"none"}
  LV = {"none"}
  Fam = "leg"
INVARIANT I_Switches
CHECK_DEADLOCK FALSE
