SPECIFICATION Spec
CONSTANTS
  Fam = "prog"
  MinN = 6
  N = 6
  KindSet = {"comp"}
  TypSet = {"base"}
  GrpSet = {1}
  LabelSet = {"g1", "none", "req"}
  PrioSet = {1}
  MaxAdds = 0
  AskSet = {"specs"}
  KeyMode = "any"
  WalkMech = "bfs"
  Prefix <- CondPrefix
INVARIANT TypeOK
INVARIANT RegistryInverse
INVARIANT RegistryIsDeclared
INVARIANT ClosureLaws
INVARIANT PointLaws
INVARIANT GrowLaws
INVARIANT PeelLaws
INVARIANT BfsLaws
INVARIANT HelperLaws
INVARIANT SpecLaws
INVARIANT CodeFormDeviatesOnlyInClasses
CONSTRAINT Emit
CHECK_DEADLOCK FALSE
