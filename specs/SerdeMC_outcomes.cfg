SPECIFICATION Spec
CONSTANTS
  N = 2
  Kinds = {"text"}
  Atoms = {"p"}
  MinLines = 1
  MaxLines = 1
  MaxElems = 0
  SaveAsSet = {"none"}
  Modes = {"deleted", "nonjson"}
  MayFail = TRUE
  OutcomeSet = {"content", "cmd", "timeout", "crash", "skip"}
  BackedSet = {FALSE, TRUE}
  FilterSet = {FALSE}
  Budget = 2
  BudgetMode = "per-load"
  RecordMode = "component"
  PoolSet = {FALSE}
  AssembleMode = "index"
  LateSet = {FALSE}
  LookupMode = "live"
  MaxFaults = 1
INVARIANT RoundTrip
INVARIANT ErrorsPersisted
INVARIANT FaultIsolation
CONSTRAINT Emit
CHECK_DEADLOCK FALSE
