\* a transcription of the code: TLC is EXPECTED to refute F_CodeRight_Absorbed
SPECIFICATION Spec
CONSTANTS
  Fam = "prog"
  MinN = 6
  N = 6
  KindSet = {"comp"}
  TypSet = {"base"}
  GrpSet = {1}
  LabelSet = {"g1", "none", "req"}
  PrioSet = {1}
  MaxAdds = 0
  AskSet = {"specs"}
  KeyMode = "any"
  WalkMech = "bfs"
  Prefix <- CondPrefix
INVARIANT F_CodeRight_Absorbed
CHECK_DEADLOCK FALSE
