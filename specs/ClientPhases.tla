----------------------------- MODULE ClientPhases -----------------------------
(***************************************************************************)
(* X08 - one run of the Insights client as a sequence of phases            *)
(* (insights/client/phase/v1.py: the `phase` decorator, pre_update,        *)
(* update, post_update, collect_and_output; what they call in              *)
(* insights/client/__init__.py, client.py, support.registration_check,     *)
(* connection.py and, at process exit, archive.cleanup_tmp).               *)
(*                                                                         *)
(* A phase is a process.  Processes share nothing but files, so the run is *)
(* the composition of the four phases in order, each started only if the   *)
(* previous one exited with status 0 (the RPM wrapper, which is not part   *)
(* of /repo: 0 = go on, 100 = stop, run succeeded, 101 = stop, run failed, *)
(* 1 = the phase crashed).                                                 *)
(*                                                                         *)
(* State                                                                   *)
(*   opt    the option flags of the command line / configuration file      *)
(*   srv    the scripted server: net up/down, does the inventory know the  *)
(*          host (reg), answers to upload / check-in / legacy DELETE,      *)
(*          whether the opaque egg update raises                           *)
(*   disk   registration markers (.registered, .unregistered), machine-id, *)
(*          cached .branch_info, .lastupload, the temporary archive        *)
(*          directory, the kept archive, --output-file / --output-dir      *)
(*   phase, pc   which phase runs, at which decision point                 *)
(*   did, calls  opaque steps performed / request kinds that reached the   *)
(*          server in the current phase                                    *)
(*   code   exit status of the current phase (Running until it exits)      *)
(*   at     the decision point that ended the phase                        *)
(*   hist   the finished phases of the run                                 *)
(*                                                                         *)
(* Actions: one per decision point of the phases, in code order (PreVersion*)
(* ... CollRotate, AtExit), plus StartPhase.  Every decision point is a    *)
(* deterministic function StepAt(pc, ...), so that ClientPhasesTrace can   *)
(* evaluate a whole phase (Outcome) on an OBSERVED starting state.         *)
(*                                                                         *)
(* Mech = "intent" is the specified behaviour; Mech = "code" transcribes   *)
(* the places where the code deviates (see notes/X08.md); TLC must refute  *)
(* I_NoCrash / I_TerminatingExit / I_UnregisterAgreed for "code".          *)
(***************************************************************************)
EXTENDS Naturals, Sequences, FiniteSets, TLC

CONSTANTS Mech,        \* "intent" | "code"
          Focus,       \* initial states: the flags that may be on (a subset of BoolFlags)
          MaxOn,       \* initial states: at most this many flags are on (0..3)
          SrvSel       \* "small": the all-good server and single deviations; "all": every script

Running == 999
Codes   == {0, 1, 100, 101}
Phases  == <<"pre_update", "update", "post_update", "collect_and_output">>
PhaseSet == {Phases[i] : i \in 1..4}

BoolFlags == {"version", "validate", "enable_schedule", "disable_schedule", "test_connection", "support",
              "diagnosis", "checkin", "status", "unregister", "register", "offline", "no_upload", "keep_archive",
              "list_specs", "show_results", "check_results", "force", "compliance", "legacy", "payload"}
Outputs   == {"none", "dir", "file"}

OptOf(S, out) ==
    [version |-> "version" \in S, validate |-> "validate" \in S, enable_schedule |-> "enable_schedule" \in S,
     disable_schedule |-> "disable_schedule" \in S, test_connection |-> "test_connection" \in S,
     support |-> "support" \in S, diagnosis |-> "diagnosis" \in S, checkin |-> "checkin" \in S,
     status |-> "status" \in S, unregister |-> "unregister" \in S, register |-> "register" \in S,
     offline |-> "offline" \in S, no_upload |-> "no_upload" \in S, keep_archive |-> "keep_archive" \in S,
     list_specs |-> "list_specs" \in S, show_results |-> "show_results" \in S,
     check_results |-> "check_results" \in S, force |-> "force" \in S, compliance |-> "compliance" \in S,
     legacy |-> "legacy" \in S, payload |-> "payload" \in S, output |-> out]

Srvs == [net : {"up", "down"}, reg : {"yes", "no"}, up : {"ok", "fail"}, chk : {"ok", "fail"},
         unreg : {"ok", "fail"}, upd : {"ok", "raises"}]
Good == [net |-> "up", reg |-> "yes", up |-> "ok", chk |-> "ok", unreg |-> "ok", upd |-> "ok"]
SrvsSmall == {Good, [Good EXCEPT !.net = "down"], [Good EXCEPT !.reg = "no"], [Good EXCEPT !.up = "fail"],
              [Good EXCEPT !.chk = "fail"], [Good EXCEPT !.unreg = "fail"], [Good EXCEPT !.upd = "raises"],
              [Good EXCEPT !.net = "down", !.reg = "no"]}
SrvSet == IF SrvSel = "all" THEN Srvs ELSE SrvsSmall

FlagSets == CASE MaxOn = 0 -> {{}}
              [] MaxOn = 1 -> {{}} \cup {{f} : f \in Focus}
              [] MaxOn = 2 -> {{}} \cup {{f, g} : f \in Focus, g \in Focus}
              [] OTHER -> {{}} \cup {{f, g, h} : f \in Focus, g \in Focus, h \in Focus}
ASSUME Focus \subseteq BoolFlags

DiskOf(r, u, m) ==
    [registered |-> r, unregistered |-> u, machineid |-> m, branch |-> TRUE, lastupload |-> FALSE, tmp |-> FALSE,
     kept |-> FALSE, outfile |-> FALSE, outdir |-> FALSE]
InitDisks == {DiskOf(TRUE, FALSE, TRUE),      \* a registered host
              DiskOf(FALSE, FALSE, FALSE),    \* a fresh host
              DiskOf(FALSE, TRUE, FALSE),     \* an unregistered host
              DiskOf(FALSE, FALSE, TRUE),     \* a machine-id but no marker
              DiskOf(TRUE, FALSE, FALSE)}     \* a marker but no machine-id

(* ---- the effective configuration (InsightsConfig._imply_options) -------- *)
ENoUpload(o) == o.no_upload \/ o.offline \/ o.output # "none"
ERegister(o) == o.register /\ ~o.offline
EKeep(o)     == (o.keep_archive \/ o.no_upload \/ o.offline) /\ o.output = "none"
ELegacy(o)   == o.legacy /\ ~(o.payload \/ o.diagnosis \/ o.check_results \/ o.checkin \/ o.compliance)
(* _validate_options raises ValueError: the phase decorator exits 101        *)
Invalid(o)   == \/ o.enable_schedule /\ o.disable_schedule
                \/ o.offline /\ (o.status \/ o.test_connection \/ o.checkin \/ o.unregister \/ o.check_results
                                 \/ o.diagnosis)

(* options after which the run never reaches collection                     *)
Terminating(o) ==
    \/ o.version \/ o.validate \/ o.enable_schedule \/ o.test_connection \/ o.support \/ o.diagnosis \/ o.checkin
    \/ o.disable_schedule /\ ~ERegister(o)
    \/ o.list_specs \/ o.show_results \/ o.check_results \/ o.status \/ o.unregister

(* ---- results of one decision point --------------------------------------- *)
R(n, c, dd, cc, d) == [next |-> n, code |-> c, did |-> dd, calls |-> cc, disk |-> d]
Go(n, d)           == R(n, Running, {}, {}, d)
GoW(n, d, dd, cc)  == R(n, Running, dd, cc, d)
Ex(c, d)           == R("atexit", c, {}, {}, d)
ExW(c, d, dd, cc)  == R("atexit", c, dd, cc, d)

Regd(d)    == [d EXCEPT !.registered = TRUE, !.unregistered = FALSE]
Unregd(d)  == [d EXCEPT !.registered = FALSE, !.unregistered = TRUE, !.machineid = FALSE]
WithId(d)  == [d EXCEPT !.machineid = TRUE]

(* connection._fetch_system_by_machine_id                                    *)
HostExists(s, d) ==
    IF ~d.machineid THEN [calls |-> {}, found |-> FALSE]
    ELSE [calls |-> {"hostexists"}, found |-> s.net = "up" /\ s.reg = "yes"]

(* support.registration_check over the legacy API, with its side effects     *)
LegacyRegCheck(s, d) ==
    IF ~d.machineid THEN [calls |-> {}, status |-> FALSE, unreachable |-> FALSE, disk |-> Unregd(d)]
    ELSE IF s.net = "down" THEN [calls |-> {"regcheck"}, status |-> FALSE, unreachable |-> TRUE, disk |-> d]
    ELSE IF s.reg = "yes" THEN [calls |-> {"regcheck"}, status |-> TRUE, unreachable |-> FALSE, disk |-> Regd(d)]
    ELSE [calls |-> {"regcheck"}, status |-> FALSE, unreachable |-> FALSE, disk |-> Unregd(d)]

First(ph) == CASE ph = "pre_update" -> "p_version" [] ph = "update" -> "u_update"
               [] ph = "post_update" -> "q_list" [] OTHER -> "c_source"

(* ---- the decision points -------------------------------------------------- *)
StepAt(pc, ph, o, s, d) ==
  CASE pc = "start" -> IF Invalid(o) THEN Ex(101, d) ELSE Go(First(ph), d)
  (* ---------------- pre_update ---------------- *)
    [] pc = "p_version" ->
         IF o.version THEN Ex(IF Mech = "code" THEN 1 ELSE 100, d)   \* code: constants.version does not exist
         ELSE Go("p_validate", d)
    [] pc = "p_validate" -> IF o.validate THEN Ex(100, d) ELSE Go("p_enable", d)
    [] pc = "p_enable" -> IF o.enable_schedule THEN ExW(100, d, {"schedule"}, {}) ELSE Go("p_disable", d)
    [] pc = "p_disable" ->
         IF o.disable_schedule
           THEN IF ~ERegister(o) THEN ExW(100, d, {"unschedule"}, {}) ELSE GoW("p_testconn", d, {"unschedule"}, {})
           ELSE Go("p_testconn", d)
    [] pc = "p_testconn" ->
         IF o.test_connection THEN ExW(IF s.net = "up" THEN 100 ELSE 101, d, {}, {"testconn"})
         ELSE Go("p_support", d)
    [] pc = "p_support" -> IF o.support THEN ExW(100, d, {"support"}, {}) ELSE Go("p_diagnosis", d)
    [] pc = "p_diagnosis" ->
         IF o.diagnosis
           THEN LET h == HostExists(s, d) IN
                IF h.found THEN ExW(100, d, {}, h.calls \cup {"diagnosis"}) ELSE ExW(101, d, {}, h.calls)
           ELSE Go("p_checkin", d)
    [] pc = "p_checkin" ->
         IF o.checkin
           THEN LET h == HostExists(s, d) IN
                IF h.found THEN ExW(IF s.chk = "ok" THEN 100 ELSE 101, d, {}, h.calls \cup {"checkin"})
                ELSE ExW(101, d, {}, h.calls)
           ELSE Go("p_end", d)
    [] pc = "p_end" -> Ex(0, d)
  (* ---------------- update ---------------- *)
    [] pc = "u_update" -> ExW(IF s.upd = "raises" THEN 101 ELSE 0, d, {"update"}, {})
  (* ---------------- post_update ---------------- *)
    [] pc = "q_list" -> IF o.list_specs THEN Ex(100, d) ELSE Go("q_show", d)
    [] pc = "q_show" -> IF o.show_results THEN ExW(100, d, {"show_results"}, {}) ELSE Go("q_check", d)
    [] pc = "q_check" ->
         IF o.check_results THEN ExW(IF s.net = "up" /\ s.reg = "yes" THEN 100 ELSE 101, d, {}, {"advisor"})
         ELSE Go("q_legacy", d)
    (* platform branch: the code tests the offline / no_upload / payload bypass BEFORE --status and
       --unregister (the legacy branch after them), so that `--unregister --no-upload` collects *)
    [] pc = "q_legacy" -> IF ELegacy(o) THEN Go("ql_status", d)
                          ELSE Go(IF Mech = "code" THEN "q_bypass" ELSE "q_status", d)
    (* -- legacy branch -- *)
    [] pc = "ql_status" ->
         IF o.status
           THEN LET c == LegacyRegCheck(s, d) IN ExW(IF c.status THEN 100 ELSE 101, c.disk, {}, c.calls)
           ELSE Go("ql_unreg", d)
    [] pc = "ql_unreg" ->
         IF o.unregister
           THEN LET c == LegacyRegCheck(s, d) IN
                IF c.unreachable
                  THEN IF o.force THEN ExW(100, Unregd(c.disk), {"unschedule"}, c.calls)
                       ELSE ExW(101, c.disk, {}, c.calls)
                ELSE IF c.status
                  THEN (* DELETE /v1/systems/<id>; the code takes every answer for success *)
                       IF s.unreg = "ok" \/ Mech = "code"
                         THEN ExW(100, Unregd(c.disk), {"unschedule"}, c.calls \cup {"unregister"})
                         ELSE ExW(101, c.disk, {}, c.calls \cup {"unregister"})
                ELSE ExW(100, Unregd(c.disk), {"unschedule"}, c.calls)
           ELSE Go("ql_bypass", d)
    [] pc = "ql_bypass" -> IF ENoUpload(o) THEN Ex(0, WithId(d)) ELSE Go("ql_register", d)
    [] pc = "ql_register" ->
         LET c == LegacyRegCheck(s, d)
             sched == IF ERegister(o) /\ ~o.disable_schedule THEN {"schedule"} ELSE {} IN
         IF c.unreachable THEN ExW(101, c.disk, {}, c.calls)
         ELSE IF c.status THEN ExW(0, WithId(c.disk), sched, c.calls)
         ELSE IF ERegister(o)
           THEN (* POST /v1/systems; an unreachable server is documented as "None -> 101" *)
                IF s.net = "up" THEN ExW(0, Regd(WithId(c.disk)), sched, c.calls \cup {"register"})
                ELSE ExW(IF Mech = "code" THEN 1 ELSE 101, WithId(c.disk), {}, c.calls \cup {"register"})
         ELSE ExW(101, WithId(c.disk), {}, c.calls)     \* c.disk carries the .unregistered marker already
    (* -- platform branch -- *)
    [] pc = "q_bypass" -> IF ENoUpload(o) \/ o.payload THEN Ex(0, WithId(d))
                          ELSE Go(IF Mech = "code" THEN "q_status" ELSE "q_halt", d)
    [] pc = "q_status" -> IF o.status THEN Ex(IF d.registered THEN 100 ELSE 101, d) ELSE Go("q_unreg", d)
    [] pc = "q_unreg" ->
         IF o.unregister
           THEN IF d.machineid \/ d.registered THEN ExW(100, Unregd(d), {"unschedule"}, {})
                ELSE Ex(101, IF o.force THEN Unregd(d) ELSE d)
           ELSE Go(IF Mech = "code" THEN "q_halt" ELSE "q_bypass", d)
    [] pc = "q_halt" -> IF ~d.registered /\ ~ERegister(o) THEN Ex(101, d) ELSE Go("q_register", d)
    [] pc = "q_register" ->
         IF ERegister(o) /\ ~o.disable_schedule THEN GoW("q_end", d, {"schedule"}, {}) ELSE Go("q_end", d)
    [] pc = "q_end" -> Ex(0, WithId(d))
  (* ---------------- collect_and_output ---------------- *)
    [] pc = "c_source" ->
         IF o.payload THEN Go("c_output", d) ELSE GoW("c_output", [d EXCEPT !.tmp = TRUE], {"collect"}, {})
    [] pc = "c_output" ->
         IF ENoUpload(o)
           THEN Go("c_branch", [d EXCEPT !.outdir = @ \/ (o.output = "dir" /\ ~o.payload),
                                         !.outfile = @ \/ o.output = "file"])
           ELSE Go("c_upload", d)
    [] pc = "c_upload" ->
         IF s.net = "up" /\ s.up = "ok"
           THEN IF ELegacy(o)
                  THEN GoW("c_branch", [WithId(d) EXCEPT !.lastupload = TRUE], {}, {"upload", "hostexists"})
                  ELSE GoW("c_branch", [Regd(d) EXCEPT !.lastupload = TRUE], {}, {"upload"})
           ELSE ExW(101, IF ELegacy(o) THEN WithId(d) ELSE d, {}, {"upload"})
    [] pc = "c_branch" -> Go("c_rotate", [d EXCEPT !.branch = FALSE])
    [] pc = "c_rotate" -> ExW(0, d, {"rotate"}, {})
  (* ---------------- process exit: InsightsArchive.cleanup_tmp ---------------- *)
    [] pc = "atexit" ->
         R("exited", Running, {}, {},
           IF d.tmp THEN [d EXCEPT !.tmp = FALSE, !.kept = @ \/ (EKeep(o) /\ o.output # "dir")] ELSE d)
    [] OTHER -> R("exited", Running, {}, {}, d)

Points == {"start", "p_version", "p_validate", "p_enable", "p_disable", "p_testconn", "p_support", "p_diagnosis",
           "p_checkin", "p_end", "u_update", "q_list", "q_show", "q_check", "q_legacy", "ql_status", "ql_unreg",
           "ql_bypass", "ql_register", "q_bypass", "q_status", "q_unreg", "q_halt", "q_register", "q_end",
           "c_source", "c_output", "c_upload", "c_branch", "c_rotate", "atexit"}

(* ---- a whole phase as a function (used by the trace specification) ------- *)
RECURSIVE RunFrom(_, _, _, _, _)
RunFrom(pc, ph, o, s, acc) ==
    IF pc = "exited" THEN acc
    ELSE LET r == StepAt(pc, ph, o, s, acc.disk) IN
         RunFrom(r.next, ph, o, s,
                 [code |-> IF r.code # Running THEN r.code ELSE acc.code,
                  at   |-> IF r.code # Running THEN pc ELSE acc.at,
                  did  |-> acc.did \cup r.did, calls |-> acc.calls \cup r.calls, disk |-> r.disk])
Outcome(ph, o, s, d) == RunFrom("start", ph, o, s, [code |-> Running, at |-> "-", did |-> {}, calls |-> {}, disk |-> d])

(* ---- the state machine ------------------------------------------------------ *)
VARIABLES opt, srv, disk0, disk, phase, pc, did, calls, code, at, hist
vars == <<opt, srv, disk0, disk, phase, pc, did, calls, code, at, hist>>

Take(p) ==
    /\ phase \in PhaseSet /\ pc = p
    /\ LET r == StepAt(p, phase, opt, srv, disk) IN
       /\ pc' = r.next
       /\ code' = IF r.code # Running THEN r.code ELSE code
       /\ at' = IF r.code # Running THEN p ELSE at
       /\ did' = did \cup r.did /\ calls' = calls \cup r.calls /\ disk' = r.disk
    /\ UNCHANGED <<opt, srv, disk0, phase, hist>>

StartPhase   == Take("start")
PreVersion   == Take("p_version")
PreValidate  == Take("p_validate")
PreEnable    == Take("p_enable")
PreDisable   == Take("p_disable")
PreTestConn  == Take("p_testconn")
PreSupport   == Take("p_support")
PreDiagnosis == Take("p_diagnosis")
PreCheckin   == Take("p_checkin")
PreEnd       == Take("p_end")
UpdUpdate    == Take("u_update")
PostList     == Take("q_list")
PostShow     == Take("q_show")
PostCheck    == Take("q_check")
PostLegacy   == Take("q_legacy")
PostLStatus  == Take("ql_status")
PostLUnreg   == Take("ql_unreg")
PostLBypass  == Take("ql_bypass")
PostLRegister == Take("ql_register")
PostBypass   == Take("q_bypass")
PostStatus   == Take("q_status")
PostUnreg    == Take("q_unreg")
PostHalt     == Take("q_halt")
PostRegister == Take("q_register")
PostEnd      == Take("q_end")
CollSource   == Take("c_source")
CollOutput   == Take("c_output")
CollUpload   == Take("c_upload")
CollBranch   == Take("c_branch")
CollRotate   == Take("c_rotate")
AtExit       == Take("atexit")

Index(ph) == CHOOSE i \in 1..4 : Phases[i] = ph

(* the wrapper: the next phase only after exit status 0                     *)
NextPhase ==
    /\ phase \in PhaseSet /\ pc = "exited"
    /\ hist' = Append(hist, [phase |-> phase, code |-> code, at |-> at, did |-> did, calls |-> calls,
                             pre |-> IF Len(hist) = 0 THEN disk0 ELSE hist[Len(hist)].post, post |-> disk])
    /\ phase' = IF code = 0 /\ Index(phase) < 4 THEN Phases[Index(phase) + 1] ELSE "end"
    /\ pc' = "start" /\ code' = Running /\ at' = "-" /\ did' = {} /\ calls' = {}
    /\ UNCHANGED <<opt, srv, disk0, disk>>

Init == /\ opt \in {OptOf(S, out) : S \in FlagSets, out \in Outputs}
        /\ srv \in SrvSet
        /\ disk0 \in InitDisks /\ disk = disk0
        /\ phase = "pre_update" /\ pc = "start" /\ code = Running /\ at = "-" /\ did = {} /\ calls = {}
        /\ hist = <<>>

Next == \/ StartPhase \/ PreVersion \/ PreValidate \/ PreEnable \/ PreDisable \/ PreTestConn \/ PreSupport
        \/ PreDiagnosis \/ PreCheckin \/ PreEnd \/ UpdUpdate \/ PostList \/ PostShow \/ PostCheck \/ PostLegacy
        \/ PostLStatus \/ PostLUnreg \/ PostLBypass \/ PostLRegister \/ PostBypass \/ PostStatus \/ PostUnreg
        \/ PostHalt \/ PostRegister \/ PostEnd \/ CollSource \/ CollOutput \/ CollUpload \/ CollBranch
        \/ CollRotate \/ AtExit \/ NextPhase
Spec == Init /\ [][Next]_vars

(* ---- invariants --------------------------------------------------------------- *)
DiskOK(d) == d \in [registered : BOOLEAN, unregistered : BOOLEAN, machineid : BOOLEAN, branch : BOOLEAN,
                    lastupload : BOOLEAN, tmp : BOOLEAN, kept : BOOLEAN, outfile : BOOLEAN, outdir : BOOLEAN]
TypeOK == /\ DiskOK(disk) /\ DiskOK(disk0) /\ srv \in Srvs
          /\ phase \in PhaseSet \cup {"end"} /\ pc \in Points \cup {"exited"}
          /\ code \in Codes \cup {Running} /\ Len(hist) <= 4

H       == {hist[i] : i \in 1..Len(hist)}
Valid   == ~Invalid(opt)
AllDid   == UNION {h.did : h \in H} \cup did
AllCalls == UNION {h.calls : h \in H} \cup calls

(* every finished phase has exactly one of the four exit statuses          *)
I_OneExit == \A h \in H : h.code \in Codes
(* the phases run in order, each after a predecessor that exited with 0     *)
I_Compose == \A i \in 1..Len(hist) : hist[i].phase = Phases[i] /\ (i > 1 => hist[i - 1].code = 0)
(* no phase of a run crashes (status 1 is for "Fatal error")                *)
I_NoCrash == \A h \in H : h.code # 1
(* a configuration that does not validate stops in the first phase with 101 *)
I_InvalidStops == (~Valid /\ Len(hist) > 0) => (hist[1].code = 101 /\ Len(hist) = 1 /\ phase = "end")
(* a terminating option never reaches collection or upload ...              *)
I_TerminatingNeverCollects == (Valid /\ Terminating(opt)) => ("collect" \notin AllDid /\ "upload" \notin AllCalls)
(* ... and the run ends with 100 or 101                                     *)
I_TerminatingExit ==
    (Valid /\ Terminating(opt) /\ phase = "end") => hist[Len(hist)].code \in {100, 101}
(* offline: the server is never called; no_upload: nothing is uploaded      *)
I_OfflineSilent == opt.offline => AllCalls = {}
I_NoUpload      == ENoUpload(opt) => "upload" \notin AllCalls
(* an unregistered, non-registering run does not upload                     *)
I_UnregisteredStops ==
    \A h \in H : "upload" \in h.calls => (h.pre.registered \/ ERegister(opt) \/ opt.payload)
I_UnregisteredNoCollect ==
    \A h \in H : "collect" \in h.did => (h.pre.registered \/ ERegister(opt) \/ ENoUpload(opt))
(* --unregister: the marker goes only when the server agrees, or --force    *)
I_UnregisterAgreed ==
    \A h \in H : (h.phase = "post_update" /\ h.at = "ql_unreg" /\ h.pre.registered /\ ~h.post.registered) =>
        \/ srv.net = "down" /\ opt.force
        \/ srv.net = "up" /\ (srv.reg = "no" \/ srv.unreg = "ok")
        \/ ~h.pre.machineid
I_UnregisterExit ==
    \A h \in H : h.at \in {"ql_unreg", "q_unreg"} => (h.code = 100 => ~h.post.registered /\ h.post.unregistered)
(* status / checkin / diagnosis / test-connection leave the markers alone in the first two phases *)
I_Frame == \A h \in H : h.phase \in {"pre_update", "update"} =>
              /\ h.pre.registered = h.post.registered /\ h.pre.unregistered = h.post.unregistered
              /\ h.pre.machineid = h.post.machineid
(* what becomes of the archive                                               *)
I_ArchiveFate ==
    \A h \in H : h.phase = "collect_and_output" =>
        /\ ~h.post.tmp
        /\ h.post.kept = (EKeep(opt) /\ "collect" \in h.did)
        /\ h.post.outfile = (opt.output = "file")
        /\ h.post.outdir = (opt.output = "dir" /\ ~opt.payload)
(* collect_and_output fails exactly when the upload fails                    *)
I_CollectExit ==
    \A h \in H : h.phase = "collect_and_output" =>
        /\ h.code \in {0, 101}
        /\ (h.code = 101) = ("upload" \in h.calls /\ (srv.net = "down" \/ srv.up = "fail"))
        /\ (h.code = 0 => ~h.post.branch /\ "rotate" \in h.did)
        /\ (h.code = 0 /\ "upload" \in h.calls => h.post.lastupload)
(* statuses of the first three phases                                        *)
I_UpdateExit == \A h \in H : h.phase = "update" => h.code = (IF ~Valid \/ srv.upd = "raises" THEN 101 ELSE 0)
=============================================================================
