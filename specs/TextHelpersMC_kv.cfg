SPECIFICATION Spec
CONSTANTS
  Fam = "kv"
  N = 3
  Deep = FALSE
INVARIANT Admitted
INVARIANT NormalIdempotent
INVARIANT CommentsInert
INVARIANT LaterWins
INVARIANT SearchExact
CONSTRAINT Emit
CHECK_DEADLOCK FALSE
