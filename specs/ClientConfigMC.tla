---------------------------- MODULE ClientConfigMC ----------------------------
(* Model-checking wrapper of ClientConfig: chooses the case (the raw layers)  *)
(* in a first step, runs the design through it, and emits one CASE record     *)
(* per explored case for harness/drive_clientconfig.py.                       *)
(*   Mode "prec"  : one focus option, every placement of a value in the file, *)
(*                  the environment and on the command line (all 8 subsets of *)
(*                  the three sources x the spellings of Vocab).              *)
(*   Mode "unk"   : unknown names and ill-typed siblings next to an option.   *)
(*   Mode "pair"  : the two options of a conflict given by different sources. *)
(*   Mode "conf"  : the option that names the file itself (--conf) given on   *)
(*                  the command line NEXT TO other switches and also in the   *)
(*                  file / the environment; and only in the environment.      *)
(*   Mode "lit"   : untyped options whose text holds characters a parser      *)
(*                  could take apart (LiteralWords), in every source.         *)
(*   Mode "table" : every assignment of default / non-default to the options  *)
(*                  of the implication table with at most MaxWeight           *)
(*                  non-default ones (MaxWeight = all: the full product).     *)
(*   Mode "ext"   : the same over a wider option set and value classes.       *)
(*   Mode "rtable", "dense": random cases for -simulate (full product of the  *)
(*                  table; random texts for random options in every layer).   *)
EXTENDS ClientConfig, Json, Randomization, FiniteSetsExt

CONSTANTS Mode, Vocab, MaxWeight

Absent == "-absent-"
Big    == Vocab = "big"

DefWords(n) == IF HasDefWord(n) THEN {DefWord(n)} ELSE {}       \* the option's own default, set explicitly
FileWords(n) == DefWords(n) \cup
    CASE TypeOf(n) = "bool"  -> IF Big THEN {"1", "true", "On", "no", "FALSE", "0", "maybe"} ELSE {"yes", "off"}
      [] TypeOf(n) = "int"   -> IF Big THEN {"3", "45", "0", "abc"} ELSE {"3", "45"}
      [] TypeOf(n) = "float" -> IF Big THEN {"7.5", "45", "0", "abc"} ELSE {"7.5", "45"}
      [] OTHER               -> IF Big THEN {"alpha", "True", "0", ""} ELSE {"alpha", "True"}
EnvWords(n) == DefWords(n) \cup
    CASE TypeOf(n) = "bool"  -> IF Big THEN {"true", "TRUE", "False", "fAlSe", "yes", "0"} ELSE {"True", "false"}
      [] TypeOf(n) = "int"   -> IF Big THEN {"7", "300", "true", "abc"} ELSE {"7", "300"}
      [] TypeOf(n) = "float" -> IF Big THEN {"0.25", "3", "False", "abc"} ELSE {"0.25", "3"}
      [] OTHER               -> IF Big THEN {"beta", "false", "TRUE", ""} ELSE {"beta", "false"}
CliForms(n) ==
    CASE CliKind(n) = "none"      -> {}
      [] CliKind(n) = "store"     -> {[has |-> TRUE, arg |-> "gamma"]} \cup (IF Big THEN {[has |-> TRUE, arg |-> "true"]} ELSE {})
                                     \cup {[has |-> TRUE, arg |-> w] : w \in DefWords(n)}
      [] CliKind(n) = "store_int" -> {[has |-> TRUE, arg |-> "7"]} \cup {[has |-> TRUE, arg |-> w] : w \in DefWords(n)}
      [] CliKind(n) = "optarg"    -> {[has |-> FALSE, arg |-> ""], [has |-> TRUE, arg |-> "delta"]}
      [] OTHER                    -> {[has |-> FALSE, arg |-> ""]}
NoCli == [has |-> FALSE, arg |-> Absent]

Focus == OptNames \ {"conf"}            \* --conf is how the harness hands over the file

FileOf(n, w) == IF w = Absent THEN {} ELSE {[name |-> n, text |-> w]}
CliOf(n, c)  == IF c = NoCli THEN {} ELSE {[name |-> n, has |-> c.has, arg |-> c.arg]}

PrecCases ==
    { [fstate |-> "ok", file |-> FileOf(x[1], x[2]), env |-> FileOf(x[1], x[3]), cli |-> CliOf(x[1], x[4])] :
        x \in UNION { {n} \X ({Absent} \cup FileWords(n)) \X ({Absent} \cup EnvWords(n)) \X ({NoCli} \cup CliForms(n))
                      : n \in Focus } }

UnknownNames == {"frobnicate", "no_schedule", "load_all", "_cli_opts", "__dict__"}
UnkCases ==
    { [fstate |-> "ok",
       file |-> (IF x[2] \in {"file", "both"} THEN {[name |-> x[1], text |-> "UNKNOWN-VALUE-f"]} ELSE {})
                \cup {[name |-> "username", text |-> "alpha"]} \cup x[3],
       env  |-> (IF x[2] \in {"env", "both"} THEN {[name |-> x[1], text |-> "UNKNOWN-VALUE-e"]} ELSE {})
                \cup {[name |-> "loglevel", text |-> "beta"]},
       cli  |-> {}] :
        x \in UnknownNames \X {"file", "env", "both"} \X
              {{}, {[name |-> "offline", text |-> "maybe"]}, {[name |-> "retries", text |-> "abc"]},
               {[name |-> "http_timeout", text |-> "soon"]}} }
    \cup { [fstate |-> f, file |-> {[name |-> "username", text |-> "alpha"]},
            env |-> {[name |-> "loglevel", text |-> "beta"]}, cli |-> {}] : f \in {"missing", "nosection"} }

(* ---- conflicting pairs, the two options coming from DIFFERENT sources ---- *)
(* Mode "pair": for every pair (a, b) that C16 says must be refused together  *)
(* (obfuscate_hostname without obfuscate; offline with a network action),     *)
(* the file and the environment each leave a and b unset, turn them on or     *)
(* turn them off, in every combination (81 per pair); with Vocab = "big" the  *)
(* command line additionally gives each switch that exists or not.  Whether   *)
(* the combination conflicts is a question about the MERGED values only.      *)
ConflictPairs == ({<<"obfuscate_hostname", "obfuscate">>}
                  \cup {<<"offline", NetActions[i]>> : i \in DOMAIN NetActions})
                 \cap (OptNames \X OptNames)
Tri == {"unset", "on", "off"}
TriWord(layer, n, v) ==
    IF layer = "env" THEN (IF v = "on" THEN "True" ELSE "false")
    ELSE IF TypeOf(n) = "bool" THEN (IF v = "on" THEN "yes" ELSE "off")
    ELSE (IF v = "on" THEN "True" ELSE "")                   \* untyped in the file: any non-empty text is true
TriRows(layer, n, v) == IF v = "unset" THEN {} ELSE {[name |-> n, text |-> TriWord(layer, n, v)]}
CliChoice(n) == IF Big /\ CliKind(n) = "flag_true" THEN {"unset", "on"} ELSE {"unset"}
CliRows(n, v) == IF v = "on" THEN {[name |-> n, has |-> FALSE, arg |-> ""]} ELSE {}
PairCases ==
    { [fstate |-> "ok",
       file |-> TriRows("file", x[1][1], x[2]) \cup TriRows("file", x[1][2], x[3]),
       env  |-> TriRows("env", x[1][1], x[4]) \cup TriRows("env", x[1][2], x[5]),
       cli  |-> CliRows(x[1][1], x[6][1]) \cup CliRows(x[1][2], x[6][2])] :
        x \in UNION { {pr} \X Tri \X Tri \X Tri \X Tri \X (CliChoice(pr[1]) \X CliChoice(pr[2])) : pr \in ConflictPairs } }

(* ---- the option that names the configuration file ---- *)
(* Mode "conf": `conf` is an option like any other: the command line (--conf) *)
(* beats INSIGHTS_CONF beats a conf= key of the file.  The command line holds *)
(* it next to 0, 1 or 2 other switches (every switch of the table once as a   *)
(* companion), the file and the environment give it or not.  ConfArg stands   *)
(* for the path of the generated file (the driver substitutes it).  Without   *)
(* --conf the file read is the built-in default path (fstate "missing").      *)
ConfArg    == "@CONF"
ConfRow    == [name |-> "conf", has |-> TRUE, arg |-> ConfArg]
Companions == {n \in Focus : CliKind(n) # "none"}
Form1(n)   == LET c == CHOOSE c \in CliForms(n) : TRUE IN [name |-> n, has |-> c.has, arg |-> c.arg]
TwoComp    == {"retries", "quiet", "no_upload", "keep_archive"} \cap Companions
CompSets   == {{}} \cup {{Form1(n)} : n \in Companions} \cup {{Form1(a), Form1(b)} : a, b \in TwoComp}
ConfCases ==
    IF "conf" \notin OptNames THEN {} ELSE
    { [fstate |-> "ok", file |-> FileOf("conf", x[1]), env |-> FileOf("conf", x[2]), cli |-> {ConfRow} \cup x[3]] :
        x \in (({Absent} \cup FileWords("conf")) \X ({Absent} \cup EnvWords("conf")) \X {{}})
              \cup ((IF Big THEN {Absent} \cup FileWords("conf") ELSE {Absent, "alpha"})
                    \X (IF Big THEN {Absent} \cup EnvWords("conf") ELSE {Absent, "beta"}) \X CompSets) }
    \cup { [fstate |-> "missing", file |-> {}, env |-> FileOf("conf", w), cli |-> cs] :
             w \in EnvWords("conf"), cs \in {{}} \cup {{Form1(n)} : n \in TwoComp} }

(* ---- literal texts ---- *)
(* Mode "lit": every option that is not typed by its default x every text of  *)
(* LiteralWords, given by the file (next to a typed sibling), by the          *)
(* environment (the file gives a plain word), or by the switch if it takes an *)
(* argument (the file gives the same text).                                   *)
LitOpts == {n \in Focus : TypeOf(n) = "str"}
Sibling == IF "retries" \in OptNames THEN {[name |-> "retries", text |-> "3"]} ELSE {}
LitPlaces(n) == {"file", "env"} \cup (IF CliKind(n) \in {"store", "optarg"} THEN {"cli"} ELSE {})
LitCases ==
    { [fstate |-> "ok",
       file |-> Sibling \cup {[name |-> x[1], text |-> IF x[3] = "env" THEN "alpha" ELSE x[2]]},
       env  |-> IF x[3] = "env" THEN {[name |-> x[1], text |-> x[2]]} ELSE {},
       cli  |-> IF x[3] = "cli" THEN {[name |-> x[1], has |-> TRUE, arg |-> x[2]]} ELSE {}] :
        x \in UNION { {n} \X LiteralWords \X LitPlaces(n) : n \in LitOpts } }

(* ---- the implication / validation table ---- *)
ExtOpts   == TableOpts \cup ({"analyze_container", "analyze_file", "use_atomic", "enable_schedule", "disable_schedule",
                              "payload", "content_type", "compressor", "module", "app", "net_debug", "legacy_upload",
                              "compliance", "ansible_host", "no_gpg", "core_collect"} \cap OptNames)
(* non-default classes of an option: T true, F false, P a usable path, E empty text, W a word *)
Classes(n) ==
    CASE n \in {"output_dir", "output_file"}  -> IF Mode = "ext" THEN {"P", "E"} ELSE {"P"}
      [] n \in {"compressor"}                 -> {"W:xz", "W:zip"}
      [] n \in {"module"}                     -> {"W:insights.client.apps.x", "W:os"}
      [] n \in {"app"}                        -> {"W:malware-detection", "W:nosuchapp"}
      [] n \in {"payload", "content_type", "ansible_host"} -> {"W:alpha"}
      [] TypeOf(n) = "bool" /\ T(Default(n))  -> {"F"}
      [] OTHER                                -> {"T"}
D == "D"
EnvText(n, cls) ==
    CASE cls = "T" -> "true" [] cls = "F" -> "false" [] cls = "E" -> ""
      [] cls = "P" -> "/usable/" \o n
      [] cls = "W:xz" -> "xz" [] cls = "W:zip" -> "zip" [] cls = "W:os" -> "os"
      [] cls = "W:insights.client.apps.x" -> "insights.client.apps.x"
      [] cls = "W:malware-detection" -> "malware-detection" [] cls = "W:nosuchapp" -> "nosuchapp"
      [] OTHER -> "alpha"
(* assignments: a set A of at most MaxWeight options leaves the default, each *)
(* with one of its non-default classes                                        *)
RECURSIVE Prod(_)
Prod(A) == IF A = {} THEN {[m \in {} |-> D]}
           ELSE LET n == CHOOSE x \in A : TRUE IN
                {[m \in DOMAIN f \cup {n} |-> IF m = n THEN c ELSE f[m]] : f \in Prod(A \ {n}), c \in Classes(n)}
EffCases(opts) == UNION {Prod(A) : A \in UNION {kSubset(k, opts) : k \in 0..MaxWeight}}
LayOfEff(f) == [fstate |-> "ok", file |-> {},
                env |-> {[name |-> n, text |-> EnvText(n, f[n])] : n \in DOMAIN f},
                cli |-> {}]
EffSet(f) == {[name |-> n, cls |-> f[n]] : n \in DOMAIN f}

VARIABLES eff        \* the abstract assignment of a table case ({} otherwise)
mcvars == <<vars, eff>>

Start(l, e) == lay' = l /\ eff' = e /\ cfg' = Defaults /\ loaded' = Defaults /\ phase' = "start"

One(Sx) == {RandomElement(Sx)}
RandLayer(opts, W(_)) ==
    {[name |-> n, text |-> RandomElement(W(n))] : n \in RandomSubset(RandomElement(0..4), opts)}
Pick ==
    /\ phase = "pick"
    /\ CASE Mode = "prec"   -> \E l \in PrecCases : Start(l, {})
         [] Mode = "unk"    -> \E l \in UnkCases : Start(l, {})
         [] Mode = "pair"   -> \E l \in PairCases : Start(l, {})
         [] Mode = "conf"   -> \E l \in ConfCases : Start(l, {})
         [] Mode = "lit"    -> \E l \in LitCases : Start(l, {})
         [] Mode = "table"  -> \E f \in EffCases(TableOpts) : Start(LayOfEff(f), EffSet(f))
         [] Mode = "ext"    -> \E f \in EffCases(ExtOpts) : Start(LayOfEff(f), EffSet(f))
         [] Mode = "rtable" -> \E A \in {RandomSubset(RandomElement(0..Cardinality(TableOpts)), TableOpts)} :
                               \E f \in One(Prod(A)) : Start(LayOfEff(f), EffSet(f))
         [] Mode = "dense"  ->
              \E fs \in One({"ok", "ok", "ok", "ok", "missing", "nosection"}),
                 fl \in {RandLayer(Focus, FileWords)},
                 en \in {RandLayer(Focus, EnvWords)},
                 cn \in {RandomSubset(RandomElement(0..3), {n \in Focus : CliKind(n) # "none"})} :
                 Start([fstate |-> fs, file |-> fl, env |-> en,
                        cli |-> {LET c == RandomElement(CliForms(n)) IN [name |-> n, has |-> c.has, arg |-> c.arg] : n \in cn}], {})
         [] OTHER -> FALSE

MCInit == lay = NoLayers /\ cfg = Defaults /\ loaded = Defaults /\ phase = "pick" /\ eff = {}
MCNext == Pick \/ (Load /\ UNCHANGED eff)
MCSpec == MCInit /\ [][MCNext]_mcvars

Emit ==
    phase \in {"ok", "error"} =>
        PrintT(<<"CASE", ToJson([mode |-> Mode, fstate |-> lay.fstate, file |-> lay.file, env |-> lay.env,
                                 cli |-> lay.cli, eff |-> eff,
                                 design |-> [outcome |-> phase, refusal |-> IF phase = "error" /\ EnvUsable(lay) THEN Refusal(cfg) ELSE ""]])>>)
=============================================================================
