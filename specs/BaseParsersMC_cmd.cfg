SPECIFICATION Spec
CONSTANTS
  Fam = "cmd"
  N = 3
  Deep = FALSE
INVARIANT Totality
INVARIANT SearchExact
INVARIANT SearchMonotone
INVARIANT AfterExact
INVARIANT YearNear
CONSTRAINT Emit
CHECK_DEADLOCK FALSE
