SPECIFICATION TraceSpec
CONSTANTS
  MaxN = 1
  Rd1 = {}
  RdK = {}
  Outs = {}
  Rcs = {}
  Slows = {}
  Errs = {}
  MaxOdd = 0
  Apis = {}
  Keeps = {}
  Tmos = {}
  Sigs = {}
  Splits = {}
  Forms = {}
  Metas = {}
  Envs = {}
  Bares = {}
  Flts = {}
  Mechs = {}
  Admit = {}
POSTCONDITION Post
CHECK_DEADLOCK FALSE
