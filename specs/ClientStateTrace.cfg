SPECIFICATION TraceSpec
CONSTANTS
  MaxFresh = 0
POSTCONDITION PostCond
CHECK_DEADLOCK FALSE
