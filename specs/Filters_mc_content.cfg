SPECIFICATION SpecContent
CONSTANTS
  NP = 2
  BudSet = {1}
  Depth = 0
  CacheRule = "none"
  AddSet = {"P"}
  GetSet = {"P"}
  PatSets = {{1}}
  MaxLines = 4
  CBudSet = {0, 1, 2, 10000}
  PathSet = {"archive", "cleaner", "host", "helper", "serialized", "serialized-multi"}
INVARIANT Subsequence
INVARIANT KeptLinesMatch
INVARIANT LastMatchKept
INVARIANT DroppedOnlyWhenBudgetSpent
INVARIANT NoFilterNoHostCollection
CHECK_DEADLOCK FALSE
