\* a transcription of the code: TLC is EXPECTED to refute F_CodeRight_SpecInGroup
SPECIFICATION Spec
CONSTANTS
  Fam = "prog"
  MinN = 2
  N = 3
  KindSet = {"comp", "point"}
  TypSet = {"base"}
  GrpSet = {1}
  LabelSet = {"g1", "none", "req"}
  PrioSet = {1}
  MaxAdds = 0
  AskSet = {"specs"}
  KeyMode = "any"
  WalkMech = "bfs"
  Prefix <- NoPrefix
INVARIANT F_CodeRight_SpecInGroup
CHECK_DEADLOCK FALSE
