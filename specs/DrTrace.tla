------------------------------- MODULE DrTrace -------------------------------
(***************************************************************************)
(* Trace validation for DrEngine: every execution of the real engine that   *)
(* the drivers recorded (forced schedules through run_components, engine-   *)
(* chosen schedules through dr.run, run_incremental, run_all with a thread  *)
(* pool, and the repository's own tests under the recording plugin) must be *)
(* a behaviour of DrEngine, and satisfy C01-C04 at every step.              *)
(*                                                                         *)
(* What is compared exactly: which bodies were called, with which           *)
(* arguments, the value / missing-requirements entry left for the attempted *)
(* component.  What is only constrained (R1): where failures are filed -    *)
(* any placement the property allows is accepted.                           *)
(***************************************************************************)
EXTENDS DrEngine, Json, IOUtils, TLCExt

Batch == JsonDeserialize(IOEnv.TRACE_FILE)

VARIABLES tid, l
tvars == <<vars, tid, l>>

Rng(s) == {s[i] : i \in DOMAIN s}
T      == Batch[tid]
Ev     == T.events[l + 1]
More   == l < Len(T.events)

ProgOf(t) == [c \in DOMAIN t.prog |-> [t.prog[c] EXCEPT !.ignore = Rng(@)]]
SubEvents(t) == SelectSeq(t.events, LAMBDA e : e.ev = "sub")

S0(t) ==
    [prog |-> ProgOf(t), ss |-> t.ss, mode |-> t.mode, arch |-> t.arch,
     subs |-> [i \in DOMAIN SubEvents(t) |-> Rng(SubEvents(t)[i].keys)],
     cur  |-> [w \in 1..t.workers |-> 0],
     inst |-> [c \in Comp |-> IF t.prog[c].seeded
                                 THEN (IF t.prog[c].outc = "none" THEN NoneV ELSE SeedV(c)) ELSE Absent],
     \* reports an earlier evaluation left in this broker (driver "rerun"); none in all other executions
     missing |-> [c \in Comp |-> IF c \in DOMAIN t.miss0 /\ t.miss0[c].set THEN t.miss0[c] ELSE NoMiss]]

InitFrom(t) ==
    LET s == S0(t) IN
    /\ phase = "run" /\ prog = s.prog /\ ss = s.ss /\ mode = s.mode /\ arch = s.arch /\ subs = s.subs
    /\ nextSub = 1 /\ cur = s.cur /\ inst = s.inst /\ missing = s.missing
    /\ excs = {} /\ att = <<>> /\ calls = <<>>

NextFrom(t) ==
    LET s == S0(t) IN
    /\ phase' = "run" /\ prog' = s.prog /\ ss' = s.ss /\ mode' = s.mode /\ arch' = s.arch /\ subs' = s.subs
    /\ nextSub' = 1 /\ cur' = s.cur /\ inst' = s.inst /\ missing' = s.missing
    /\ excs' = {} /\ att' = <<>> /\ calls' = <<>>

(* ---- property-level constraints on where failures are filed (C03) ---- *)
RecAllowed(r, c) ==
    /\ r.by \in Comp
    /\ r.under \in MayFileUnder(r.by)
    /\ r.kind = "skip" => (ss /\ r.under = r.by)
    /\ r.kind \in FailKinds

(* ---- one disjunct per kind of recorded event ---- *)
SubOK ==
    /\ nextSub <= Len(subs)
    /\ IF mode = "single" THEN subs[nextSub] = Graph
       ELSE IF T.strict THEN subs[nextSub] \in ConnComps(Graph)     \* C04's check
       ELSE subs[nextSub] \subseteq Graph                           \* other checks take the split as observed
    /\ T.strict => \A i \in 1..(nextSub - 1) : subs[i] \cap subs[nextSub] = {}
    /\ T.closure => Flagged = DepClosure(Targets)      \* the engine built the graph from targets

(* Second look (C02 only) at an execution already rejected for the ORDER of    *)
(* its attempts (DepsBefore, C01's clause): the order is taken as observed and  *)
(* the execution is judged against the final broker instead - a component      *)
(* whose requirements are met there must have been invoked, a spec with an      *)
(* implementation that produced a value must hold a value.                      *)
Lenient == "lenient" \in DOMAIN T
FinalLive(c)  == c \in Graph /\ prog[c].enabled /\ c \notin Seeded /\ ~IgnoredNow(inst, c)
FinalIffOK(c) == (FinalLive(c) /\ Ready(inst, c)) => (IF Kind(c) = "point" THEN Has(inst, c) ELSE Fired(c))

AttGuard(w, c) ==
    /\ w \in DOMAIN cur /\ c \in Comp
    /\ cur[w] # 0
    /\ c \in SubAll(cur[w])
    /\ c \notin AttemptedIn(cur[w])                                   \* AtMostOnce
    /\ c \in Graph => c \notin Attempted                              \* AtMostOnce, across sub-graphs
    /\ c \in Graph => (Lenient \/ \A d \in DepSet(c) \cap Graph : d \in Attempted)  \* DepsBefore

(* "exactly the missing required dependencies and unsatisfied groups": the  *)
(* report is compared as a set of dependencies and a set of groups; that the *)
(* report is the same in every run (order included) is the "same" event.     *)
GrpSets(mg)     == {Rng(mg[i]) : i \in DOMAIN mg}
SameMiss(a, b)  == a.set = b.set /\ Rng(a.mr) = Rng(b.mr) /\ GrpSets(a.mg) = GrpSets(b.mg)
                   /\ Len(a.mr) = Len(b.mr) /\ Len(a.mg) = Len(b.mg)
SameVal(a, b)   == a.k = b.k /\ a.c = b.c /\ a.xs = b.xs /\ Rng(a.mr) = Rng(b.mr) /\ GrpSets(a.mg) = GrpSets(b.mg)
                   /\ Len(a.mr) = Len(b.mr) /\ Len(a.mg) = Len(b.mg)

(* every observer whose type matches fired exactly once for this attempt and  *)
(* saw the state after it; no other observer fired                            *)
ObsOK(c, v) ==
    /\ {Ev.obs[i].t : i \in DOMAIN Ev.obs} = ObserversFor(c)
    /\ Len(Ev.obs) = Cardinality(ObserversFor(c))
    /\ \A i \in DOMAIN Ev.obs : Ev.obs[i].has = (v.k # "absent")

AttOK ==
    /\ AttGuard(Ev.w, Ev.c)
    /\ LET c == Ev.c
           e == Eff(inst, c)
       IN /\ SameVal(e.v, Ev.v)                                       \* Isolation / SeedsPreserved / MissingExact(rule)
          \* MissingExact; a report left by an EARLIER evaluation for a component that is not skipped now is
          \* history the statement does not speak about: it may stay or be dropped
          /\ \/ SameMiss(IF e.m.set THEN e.m ELSE missing[c], Ev.m)
             \/ (~e.m.set /\ ~Ev.m.set)
          /\ e.calls = Ev.calls                                       \* FiresIff / ArgBinding / OnlyGraphRuns
          /\ \A r \in Rng(Ev.recs) : RecAllowed(r, c)                 \* NothingElsewhere
          /\ ObsOK(c, e.v)                                            \* ObserversExact
          \* Isolation: the time limit of a datasource attempt (SIGALRM, armed under a HostContext) belongs to
          \* that attempt; the attempt is one atomic step of DrEngine, so no timer is pending after it,
          \* whatever its outcome (a leftover would fire inside some later, healthy component)
          /\ ~Ev.alarm

EndOK(E) ==
    /\ AllDone
    /\ Lenient => \A c \in Comp : FinalIffOK(c)
    /\ \A r \in E : RecAllowed(r, r.by)
    /\ \A c \in Comp : \A r \in RaisedBy(c) :
         /\ r[2] \in HardFail => \E e \in E : e.by = c /\ e.kind = r[2] /\ e.el = r[1] /\ e.tb
         /\ (r[2] = "skip" /\ ss) => \E e \in E : e.by = c /\ e.kind = "skip" /\ e.el = r[1] /\ e.under = c
    /\ \A e \in E : e.kind # "skip" => <<e.el, e.kind>> \in RaisedBy(e.by)
    /\ \A c \in Seeded : inst[c] = SeedVal(c) /\ CallsOf(c) = {}
    \* ... and what the broker really holds for them at the end is the supplied value (not a value loaded
    \* from the analysed archive or stored by any other route that bypasses the attempt)
    /\ \A i \in DOMAIN Ev.seeds : Ev.seeds[i].c \in Seeded /\ SameVal(SeedVal(Ev.seeds[i].c), Ev.seeds[i].v)

(* the observed event is a step of DrEngine that keeps C01-C04 *)
Accepts ==
    CASE Ev.ev = "sub" -> SubOK /\ ENABLED Take(Ev.w)
      [] Ev.ev = "att" -> AttOK
      [] Ev.ev = "end" -> EndOK(excs \cup Rng(Ev.recs))
      [] Ev.ev = "same" -> Ev.a = Ev.b       \* two runs of one program (other schedule / driver / hash seed)
      [] OTHER -> FALSE

Apply ==
    CASE Ev.ev = "sub" -> Take(Ev.w)
      [] Ev.ev = "same" -> UNCHANGED vars
      [] Ev.ev = "att" ->
           LET c == Ev.c
               e == Eff(inst, c)
           IN /\ inst'    = [inst EXCEPT ![c] = e.v]
              /\ missing' = [missing EXCEPT ![c] = IF e.m.set THEN e.m ELSE @]
              /\ calls'   = calls \o e.calls
              /\ excs'    = excs \cup Rng(Ev.recs)
              /\ att'     = Append(att, [w |-> Ev.w, s |-> cur[Ev.w], c |-> c])
              /\ UNCHANGED <<phase, prog, ss, mode, arch, subs, nextSub, cur>>
      [] OTHER ->
           /\ phase' = "done"
           /\ excs' = excs \cup Rng(Ev.recs)
           /\ UNCHANGED <<prog, ss, mode, arch, subs, nextSub, cur, inst, missing, att, calls>>

(* ---- total verdicts: name the failing clause, go on with the next trace *)
DiagAtt ==
    LET c == Ev.c  w == Ev.w IN
    IF ~(w \in DOMAIN cur /\ c \in Comp) THEN "att.shape"
    ELSE IF cur[w] = 0 THEN "att.no-subgraph"
    ELSE IF c \in Graph /\ c \in Attempted THEN "AtMostOnce.attempted-twice"    \* also when the second attempt is in a foreign sub-graph
    ELSE IF c \notin SubAll(cur[w]) THEN "PartitionExact.foreign-component"
    ELSE IF c \in AttemptedIn(cur[w]) THEN "AtMostOnce.attempted-twice"
    ELSE IF c \in Graph /\ ~(\A d \in DepSet(c) \cap Graph : d \in Attempted) THEN "DepsBefore"
    ELSE LET e == Eff(inst, c) IN
         IF e.calls # Ev.calls THEN
             (IF Len(e.calls) # Len(Ev.calls)
                THEN (IF Len(Ev.calls) > Len(e.calls)
                        THEN (IF c \notin Graph THEN "OnlyGraphRuns.ran-outside-the-evaluated-graph"
                              ELSE IF c \in Seeded THEN "SeedsPreserved.recomputed"
                              ELSE "FiresIff.fired-but-should-not")
                        ELSE "FiresIff.not-fired")
                ELSE "ArgBinding")
         ELSE IF ~SameVal(e.v, Ev.v) THEN
             (IF c \in Seeded THEN "SeedsPreserved" ELSE IF e.v.k = "skipresp" \/ Ev.v.k = "skipresp" THEN "MissingExact.rule" ELSE "Isolation.value")
         ELSE IF ~SameMiss(IF e.m.set THEN e.m ELSE missing[c], Ev.m) /\ ~(~e.m.set /\ ~Ev.m.set) THEN "MissingExact"
         ELSE IF \E r \in Rng(Ev.recs) : ~RecAllowed(r, c) THEN
             (LET r == CHOOSE r \in Rng(Ev.recs) : ~RecAllowed(r, c) IN
              IF r.kind = "skip" /\ ~ss THEN "SkipRecordedOnlyIfEnabled"
              ELSE IF r.kind \notin FailKinds THEN "NoEscape.foreign-exception"
              ELSE "NothingElsewhere:" \o Kind(c) \o ":" \o r.kind \o
                   (IF r.el > 0 THEN ":element" ELSE "") \o
                   (IF r.under \in Comp THEN ":under-" \o Kind(r.under) ELSE ":under-non-component"))
         ELSE IF ~ObsOK(c, e.v) THEN
             (IF Len(Ev.obs) > Cardinality(ObserversFor(c)) THEN "ObserversExact.fired-twice-or-foreign:" \o Kind(c)
              ELSE IF {Ev.obs[i].t : i \in DOMAIN Ev.obs} # ObserversFor(c) THEN "ObserversExact.not-fired:" \o Kind(c)
              ELSE "ObserversExact.fired-before-the-state-change:" \o Kind(c))
         ELSE IF Ev.alarm THEN "Isolation.time-limit-left-armed:" \o Kind(c) \o ":" \o prog[c].outc
         ELSE "att.unknown"

DiagEnd ==
    LET E == excs \cup Rng(Ev.recs) IN
    IF ~AllDone THEN "PartitionExact.component-lost"
    ELSE IF Lenient /\ \E c \in Comp : ~FinalIffOK(c)
         THEN "FiresIff.requirements-met-at-the-end-but-not-invoked:" \o Kind(CHOOSE c \in Comp : ~FinalIffOK(c))
    ELSE IF \E r \in E : ~RecAllowed(r, r.by) THEN "NothingElsewhere"
    ELSE IF \E c \in Comp : \E r \in RaisedBy(c) :
              r[2] \in HardFail /\ ~\E e \in E : e.by = c /\ e.kind = r[2] /\ e.el = r[1] /\ e.tb THEN
         (LET c == CHOOSE c \in Comp : \E r \in RaisedBy(c) :
                     r[2] \in HardFail /\ ~\E e \in E : e.by = c /\ e.kind = r[2] /\ e.el = r[1] /\ e.tb
              r == CHOOSE r \in RaisedBy(c) :
                     r[2] \in HardFail /\ ~\E e \in E : e.by = c /\ e.kind = r[2] /\ e.el = r[1] /\ e.tb
          IN "Accounted:" \o Kind(c) \o ":" \o r[2] \o (IF r[1] > 0 THEN ":element" ELSE "") \o
             (IF RegPts(c) = {} THEN ":no-registry-point" ELSE ":with-registry-point") \o
             (IF \E e \in E : e.by = c /\ e.kind = r[2] /\ e.el = r[1] THEN ":no-traceback" ELSE ":unrecorded"))
    ELSE IF \E c \in Comp : \E r \in RaisedBy(c) :
              r[2] = "skip" /\ ss /\ ~\E e \in E : e.by = c /\ e.kind = "skip" /\ e.el = r[1] /\ e.under = c THEN "SkipRecordedUnderItself"
    ELSE IF \E e \in E : e.kind # "skip" /\ <<e.el, e.kind>> \notin RaisedBy(e.by) THEN "NoPhantomExc"
    ELSE IF \E i \in DOMAIN Ev.seeds : ~(Ev.seeds[i].c \in Seeded /\ SameVal(SeedVal(Ev.seeds[i].c), Ev.seeds[i].v))
         THEN "SeedsPreserved.overwritten" \o (IF arch THEN ":archive-context" ELSE "")
    ELSE "SeedsPreserved"

Diagnose ==
    CASE Ev.ev = "att" -> DiagAtt
      [] Ev.ev = "sub" -> IF T.closure /\ Flagged # DepClosure(Targets) THEN "OnlyGraphRuns.graph-is-not-the-dependency-closure-of-the-targets"
                          ELSE IF arch /\ nextSub <= Len(subs) /\ subs[nextSub] # Graph THEN "OnlyGraphRuns.archive-pruning"
                          ELSE IF ~SubOK THEN "PartitionExact.split" ELSE "sub.worker-busy"
      [] Ev.ev = "end" -> DiagEnd
      [] Ev.ev = "escaped" -> "NoEscape:" \o Ev.exc \o (IF arch THEN ":archive-context" ELSE "")
      [] Ev.ev = "same" -> "Confluence.runs-differ:" \o
                           (IF Ev.a.inst # Ev.b.inst THEN "values"
                            ELSE IF Ev.a.missing # Ev.b.missing THEN "missing-reports" ELSE "recorded-failures")
      [] OTHER -> "unknown-event"

Advance ==
    IF tid < Len(Batch)
      THEN /\ tid' = tid + 1 /\ l' = 0
           /\ NextFrom(Batch[tid + 1])
      ELSE /\ tid' = Len(Batch) + 1 /\ l' = 0
           /\ UNCHANGED vars

TraceInit == tid = 1 /\ l = 0 /\ InitFrom(Batch[1])

(* One action, total: either the event is a step the specification allows   *)
(* (then take it), or the trace is rejected with the failing clause and the *)
(* next trace of the batch is started.                                      *)
TraceNext ==
    /\ tid <= Len(Batch)
    /\ IF ~More
         THEN TLCSet(2, TLCGet(2) + l) /\ Advance
         ELSE IF Accepts
           THEN Apply /\ l' = l + 1 /\ tid' = tid
           ELSE /\ TLCSet(1, TLCGet(1) \cup {[id |-> T.id, line |-> l + 1, clause |-> Diagnose]})
                /\ TLCSet(2, TLCGet(2) + l)
                /\ Advance
TraceSpec == TraceInit /\ [][TraceNext]_tvars

ASSUME TLCSet(1, {}) /\ TLCSet(2, 0)

Post ==
    /\ \A r \in TLCGet(1) : PrintT(<<"REJ", ToJson(r)>>)
    /\ PrintT(<<"STAT", ToJson([traces |-> Len(Batch), events |-> TLCGet(2)])>>)

=============================================================================
