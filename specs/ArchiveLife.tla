----------------------------- MODULE ArchiveLife -----------------------------
(***************************************************************************)
(* X06 - life cycle of the client's upload archive                         *)
(* (insights/client/archive.py, class InsightsArchive; used by             *)
(* core_collector.py: create_archive_dir, tmp_dir, archive_name,           *)
(* create_tar_file; cleanup_tmp runs through atexit).                      *)
(*                                                                         *)
(* State: the part of the file system the class owns, as abstract          *)
(* locations:                                                              *)
(*   tmp     the temporary directory the constructor makes inside          *)
(*           constants.insights_tmp_path (prefix insights-client-)         *)
(*   adir    tmp/<archive_name>/, the collection directory, with the set   *)
(*           of member files it holds                                      *)
(*   tar     tmp/<archive_name>.tar[.gz|.bz2|.xz], with the format the     *)
(*           file really has and the members it really lists               *)
(*   keepdir the --keep-archive directory (/var/cache/insights-client):    *)
(*           absent / present / blocked (a regular file is in its place)   *)
(*   kept    keepdir/<basename of tar>                                     *)
(*   prev    things other runs and other programs left behind: an old      *)
(*           and a recent insights-client-* directory, an unrelated old    *)
(*           directory, an old symlink insights-client-* -> a victim       *)
(*           directory elsewhere, an archive kept by an earlier run        *)
(*   tool    whether the compressor programs can be executed               *)
(*   rt      ghost: create_tar_file has returned a path ("tar_file")       *)
(*   clean   nothing exists outside the locations above (incl. the         *)
(*           working directory), no write outside the given directories    *)
(*           was attempted, the source files are as they were              *)
(*                                                                         *)
(* Two layers (as in ClientState.tla):                                     *)
(*  - the PROPERTY is the step relation StepOK(cfg, s, a, t): named        *)
(*    clauses over a state s, one method call a (with what it returned)    *)
(*    and the next state t.  It says only what the docstrings / comments   *)
(*    of archive.py and the --keep-archive help text pin down.             *)
(*  - the DESIGN is a deterministic function per method.  TLC explores     *)
(*    EVERY order of calls of the design (finite state graph) and checks   *)
(*    that each step satisfies StepOK and that the end-to-end invariants   *)
(*    hold (what is in the tar / kept file is what the caller added).      *)
(* ArchiveLifeTrace.tla judges recorded steps of the REAL class with       *)
(* StepOK.                                                                 *)
(***************************************************************************)
EXTENDS Naturals, Sequences, FiniteSets, TLC

CONSTANTS CopyArgs,     \* sources copy_file is called with: subset of {"f1","f2","missing","glob"}
          DirArgs,      \* sources copy_dir is called with: subset of {"dir","missing"}
          PathForms,    \* how a path inside the archive is spelled: subset of {"plain","slash","dslash"}
          PlantSets     \* which sets of leftovers an initial world may hold

Comps     == {"gz", "bz2", "xz", "none"}
KeepDirs  == {"absent", "present", "blocked"}
PrevKinds == {"old", "recent", "other", "link", "victim", "keptold"}
Plantable == {"old", "recent", "other", "link", "keptold"}   \* "victim" comes with "link"
MustGo    == {"old"}              \* a previous, killed run: insights-client-* directory not modified for a day
MayGo     == {"old", "link"}      \* everything else stays, always

MetaC     == {"c1", "c2"}
MetaOf(c) == "m=" \o c
AllMeta   == {MetaOf(c) : c \in MetaC}
GlobHits  == {"g1", "g2"}
DirHits   == {"da", "dc"}
Members   == {"f1", "f2"} \cup GlobHits \cup DirHits \cup AllMeta

NoDir == [ex |-> FALSE, mem |-> {}]
NoTar == [ex |-> FALSE, fmt |-> "-",   mem |-> {}, top |-> TRUE]
Junk  == [ex |-> TRUE,  fmt |-> "bad", mem |-> {}, top |-> TRUE]   \* a file that is no readable tar

NoRet       == [k |-> "none", loc |-> "-", rel |-> "-"]
PathRet(l, r) == [k |-> "path", loc |-> l, rel |-> r]
Raise       == [k |-> "raise", loc |-> "-", rel |-> "-"]
NoNw        == [dirs |-> 0, attr |-> FALSE, shape |-> "-", hashost |-> FALSE, atexit |-> FALSE]

EnsureOps == {"CreateArchiveDir", "GetFullArchivePath"}
AddOps    == {"CopyFile", "CopyDir", "AddMetadata"}
CleanOps  == {"CleanupTmp", "Exit"}
StoreOps  == CleanOps \cup {"StoringArchive"}
EnvOps    == {"ToolBreak", "ToolFix"}
ClientOps == {"New"} \cup EnsureOps \cup AddOps \cup StoreOps \cup
             {"CreateTarFile", "DeleteTmpDir", "DeleteArchiveDir", "CleanupPrevious"}

Call(op, x, y) == [op |-> op, x |-> x, y |-> y]

(* what a call adds to the collection directory *)
Adds(c) ==
    CASE c.op = "CopyFile" /\ c.x \in {"f1", "f2"} -> {c.x}
      [] c.op = "CopyFile" /\ c.x = "glob"         -> GlobHits
      [] c.op = "CopyDir"  /\ c.x = "dir"          -> DirHits
      [] c.op = "AddMetadata"                      -> {MetaOf(c.y)}
      [] OTHER                                     -> {}
Upd(mem, c) == IF c.op = "AddMetadata" THEN (mem \ AllMeta) \cup Adds(c) ELSE mem \cup Adds(c)
Base(s)     == IF s.adir.ex THEN s.adir.mem ELSE {}
ToolOK(cfg, s) == s.tool \/ cfg.comp = "none"

(***************************************************************************)
(* The property as a step relation.  cfg: [comp, keep]; s, t: states;      *)
(* a: [op, x, y, ret, nw].                                                 *)
(***************************************************************************)

(* nothing is created outside the temporary directory and the keep         *)
(* directory; the files that were copied from are not touched              *)
Confined(cfg, s, a, t) == t.clean

(* what other runs / other programs left is removed only by the constructor *)
(* and cleanup_previous_archive, and only if it is a stale insights-client- *)
(* directory; nothing appears                                              *)
Bystanders(cfg, s, a, t) ==
    \A k \in PrevKinds :
        /\ (s.prev[k] /\ ~t.prev[k]) => (k \in MayGo /\ a.op \in {"New", "CleanupPrevious"})
        /\ ~s.prev[k] => ~t.prev[k]

(* "clean the temporary directory of previous killed runs"                 *)
PreviousCleaned(cfg, s, a, t) ==
    a.op \in {"New", "CleanupPrevious"} => \A k \in MustGo : ~t.prev[k]

(* the keep location only ever receives a faithful copy of the tar file,   *)
(* only from cleanup_tmp under --keep-archive (or storing_archive itself); *)
(* the keep directory is only ever created, and only then                  *)
KeptFaithful(cfg, s, a, t) ==
    /\ t.kept # s.kept =>
          /\ a.op \in StoreOps /\ s.tar.ex /\ t.kept = s.tar
          /\ a.op \in CleanOps => (cfg.keep /\ s.rt)
    /\ t.keepdir # s.keepdir =>
          /\ a.op \in StoreOps /\ s.keepdir = "absent" /\ t.keepdir = "present"
          /\ a.op \in CleanOps => cfg.keep

(* which methods may change which location at all                           *)
Frame(cfg, s, a, t) ==
    /\ (t.tmp /\ ~s.tmp) => a.op \in {"New"} \cup EnsureOps \cup AddOps
    /\ (~t.tmp /\ s.tmp) => a.op \in {"DeleteTmpDir"} \cup CleanOps
    /\ t.adir # s.adir   => a.op \in EnsureOps \cup AddOps \cup CleanOps \cup
                                      {"CreateTarFile", "DeleteArchiveDir", "DeleteTmpDir"}
    /\ t.tar # s.tar     => a.op \in {"CreateTarFile", "DeleteTmpDir"} \cup CleanOps
    /\ a.op \in ClientOps => t.tool = s.tool

(* the constructor: one fresh directory insights-client-* inside the       *)
(* temporary path, published as tmp_dir; cleanup_tmp registered for exit   *)
NewMakesTmp(cfg, s, a, t) ==
    a.op = "New" => (a.ret.k = "ok" /\ t.obj /\ t.tmp /\ a.nw.dirs = 1 /\ a.nw.attr)
ExitRegistered(cfg, s, a, t) ==
    a.op = "New" => a.nw.atexit
(* insights-hostname-YYYYmmddHHMMSS, or insights-YYYYmmddHHMMSS-dddddd     *)
(* without the host name when it has to be obfuscated                      *)
NameShape(cfg, s, a, t) ==
    a.op = "New" =>
        /\ a.x = "obf"   => (a.nw.shape = "stamp-hex" /\ ~a.nw.hashost)
        /\ a.x = "plain" => a.nw.shape = "host-stamp"

(* create_archive_dir: "create the archive directory if it is undefined or *)
(* does not exist" - afterwards it exists, an existing one keeps its        *)
(* content, its path is returned; get_full_archive_path does the same and   *)
(* returns the path inside it, leading slashes dropped                      *)
ArchiveDirEnsured(cfg, s, a, t) ==
    a.op \in EnsureOps =>
        /\ t.tmp /\ t.adir.ex /\ t.adir.mem = Base(s)
        /\ a.ret = PathRet("adir", IF a.op = "CreateArchiveDir" THEN "." ELSE "R")

(* copy_file / copy_dir / add_metadata_to_archive: afterwards the           *)
(* collection directory holds what it held plus the copied file(s) under    *)
(* their own path / the metadata under the given path with the given        *)
(* content (replacing an earlier one); a source that does not exist adds    *)
(* nothing.  Copying a directory onto its own earlier copy is not           *)
(* specified (nothing may get lost).                                        *)
Added(cfg, s, a, t) ==
    a.op \in AddOps =>
        IF a.op = "CopyDir" /\ Adds(a) \cap Base(s) # {}
        THEN Base(s) \subseteq t.adir.mem
        ELSE /\ t.adir.mem = Upd(Base(s), a)
             /\ (Adds(a) # {} \/ s.adir.ex) => t.adir.ex

(* create_tar_file: a returned path is the documented one                   *)
(* (tmp_dir/archive_name.tar + extension of the compressor) ...             *)
TarWhere(cfg, s, a, t) ==
    (a.op = "CreateTarFile" /\ a.ret.k = "path") => a.ret.loc = "tar"
(* ... of a file that exists and is a tar readable with the chosen          *)
(* compression, every member below archive_name/ ...                        *)
TarReadable(cfg, s, a, t) ==
    (a.op = "CreateTarFile" /\ a.ret.k = "path") =>
        (t.tar.ex /\ t.tar.fmt = cfg.comp /\ t.tar.top)
(* ... whose members are what the collection directory held                 *)
TarFaithful(cfg, s, a, t) ==
    (a.op = "CreateTarFile" /\ a.ret.k = "path" /\ s.adir.ex) => t.tar.mem = s.adir.mem
(* it answers with a path or None (an exception only when the temporary     *)
(* directory is gone), and with a path when nothing is in the way           *)
TarSucceeds(cfg, s, a, t) ==
    a.op = "CreateTarFile" =>
        /\ s.tmp => a.ret.k \in {"path", "none"}
        /\ (s.tmp /\ s.adir.ex /\ ToolOK(cfg, s)) => a.ret.k = "path"
(* the collected data survive it: as the directory, or as a readable tar    *)
TarNoLoss(cfg, s, a, t) ==
    (a.op = "CreateTarFile" /\ s.adir.ex) =>
        \/ t.adir = s.adir
        \/ (t.tar.ex /\ t.tar.fmt = cfg.comp /\ t.tar.mem = s.adir.mem)

(* "delete the entire archive dir" / "delete the entire tmp dir"            *)
Deleted(cfg, s, a, t) ==
    /\ a.op = "DeleteArchiveDir" => ~t.adir.ex
    /\ a.op = "DeleteTmpDir"     => (~t.tmp /\ ~t.adir.ex /\ ~t.tar.ex)

(* cleanup_tmp (directly, at exit, on SIGTERM): "delete archive and tmp     *)
(* dirs on exit unless --keep-archive is specified and tar_file exists";    *)
(* --keep-archive: "store archive in /var/cache/insights-client/"           *)
Wanted(cfg, s) == cfg.keep /\ s.rt /\ s.tar.ex
Cleanup(cfg, s, a, t) ==
    a.op \in CleanOps =>
        /\ (~cfg.keep \/ ~s.rt) => (~t.tmp /\ ~t.adir.ex /\ ~t.tar.ex)
        /\ (Wanted(cfg, s) /\ s.keepdir # "blocked") => (t.kept = s.tar /\ t.keepdir = "present" /\ ~t.tmp)
        /\ (Wanted(cfg, s) /\ s.keepdir = "blocked") => (t.kept = s.tar \/ t.tar = s.tar)

(* storing_archive: the tar file is copied to the keep directory            *)
Stored(cfg, s, a, t) ==
    (a.op = "StoringArchive" /\ s.rt /\ s.tar.ex /\ s.keepdir # "blocked") =>
        (t.kept = s.tar /\ t.keepdir = "present")

Clauses == <<"Confined", "Bystanders", "PreviousCleaned", "KeptFaithful", "Frame", "NewMakesTmp", "ExitRegistered",
             "NameShape", "ArchiveDirEnsured", "Added", "TarWhere", "TarReadable", "TarFaithful", "TarSucceeds",
             "TarNoLoss", "Deleted", "Cleanup", "Stored">>
Holds(c, cfg, s, a, t) ==
    CASE c = "Confined"          -> Confined(cfg, s, a, t)
      [] c = "Bystanders"        -> Bystanders(cfg, s, a, t)
      [] c = "PreviousCleaned"   -> PreviousCleaned(cfg, s, a, t)
      [] c = "KeptFaithful"      -> KeptFaithful(cfg, s, a, t)
      [] c = "Frame"             -> Frame(cfg, s, a, t)
      [] c = "NewMakesTmp"       -> NewMakesTmp(cfg, s, a, t)
      [] c = "ExitRegistered"    -> ExitRegistered(cfg, s, a, t)
      [] c = "NameShape"         -> NameShape(cfg, s, a, t)
      [] c = "ArchiveDirEnsured" -> ArchiveDirEnsured(cfg, s, a, t)
      [] c = "Added"             -> Added(cfg, s, a, t)
      [] c = "TarWhere"          -> TarWhere(cfg, s, a, t)
      [] c = "TarReadable"       -> TarReadable(cfg, s, a, t)
      [] c = "TarFaithful"       -> TarFaithful(cfg, s, a, t)
      [] c = "TarSucceeds"       -> TarSucceeds(cfg, s, a, t)
      [] c = "TarNoLoss"         -> TarNoLoss(cfg, s, a, t)
      [] c = "Deleted"           -> Deleted(cfg, s, a, t)
      [] c = "Cleanup"           -> Cleanup(cfg, s, a, t)
      [] c = "Stored"            -> Stored(cfg, s, a, t)
StepOK(cfg, s, a, t) == \A i \in DOMAIN Clauses : Holds(Clauses[i], cfg, s, a, t)

(* how the specification tracks "tar_file is set"                           *)
RtAfter(s, a) == s.rt \/ (a.op = "CreateTarFile" /\ a.ret.k = "path")

(***************************************************************************)
(* Design: one deterministic function per method: [st, ret, nw].            *)
(* Where the property is silent the function says what the code does.       *)
(***************************************************************************)
D(st, ret)  == [st |-> st, ret |-> ret, nw |-> NoNw]

EnsureF(s)  == [s EXCEPT !.tmp = TRUE, !.adir = IF s.adir.ex THEN s.adir ELSE [ex |-> TRUE, mem |-> {}]]
DelTmpF(s)  == [s EXCEPT !.tmp = FALSE, !.adir = NoDir, !.tar = NoTar]
MkKeepF(s)  == [s EXCEPT !.keepdir = IF @ = "absent" THEN "present" ELSE @]

NewD(cfg, s, c) ==
    [st  |-> [s EXCEPT !.obj = TRUE, !.tmp = TRUE, !.prev = [k \in PrevKinds |-> s.prev[k] /\ k \notin MustGo]],
     ret |-> [k |-> "ok", loc |-> "-", rel |-> "-"],
     nw  |-> [dirs |-> 1, attr |-> TRUE, shape |-> IF c.x = "obf" THEN "stamp-hex" ELSE "host-stamp",
              hashost |-> c.x # "obf", atexit |-> TRUE]]

AddD(cfg, s, c) ==
    IF Adds(c) = {} THEN
        (IF c.op = "CopyDir" THEN D(EnsureF(s), PathRet("src", "-"))    \* copy_dir ensures the directory first
                             ELSE D(s, [k |-> "false", loc |-> "-", rel |-> "-"]))
    ELSE IF c.op = "CopyDir" /\ Adds(c) \cap Base(s) # {} THEN D(s, Raise)
    ELSE D([EnsureF(s) EXCEPT !.adir.mem = Upd(@, c)],
           IF c.op = "AddMetadata" \/ c.x = "glob" THEN NoRet ELSE PathRet("src", "-"))

TarD(cfg, s, c) ==
    IF ~s.tmp THEN D(s, Raise)
    ELSE IF ~ToolOK(cfg, s) THEN D([s EXCEPT !.tar = Junk], NoRet)            \* reported; the data stay
    ELSE IF s.adir.ex \/ cfg.comp \in {"gz", "none"}
         THEN D([s EXCEPT !.tar = [ex |-> TRUE, fmt |-> cfg.comp, mem |-> Base(s), top |-> TRUE],
                          !.adir = NoDir, !.rt = TRUE], PathRet("tar", "-"))
         ELSE D([s EXCEPT !.tar = [ex |-> TRUE, fmt |-> cfg.comp, mem |-> {}, top |-> TRUE]], NoRet)

StoreD(cfg, s, c) ==        \* storing_archive
    IF ~s.rt THEN D(MkKeepF(s), Raise)
    ELSE IF s.keepdir = "blocked" THEN D(s, Raise)
    ELSE IF ~s.tar.ex THEN D(MkKeepF(s), Raise)
    ELSE D([s EXCEPT !.kept = s.tar, !.keepdir = "present"], NoRet)

CleanD(cfg, s, c) ==
    IF cfg.keep /\ s.rt
    THEN (LET r == StoreD(cfg, s, c) IN IF r.ret.k = "raise" THEN r ELSE D(DelTmpF(r.st), NoRet))
    ELSE D(DelTmpF(s), NoRet)

Design(cfg, s, c) ==
    CASE c.op = "New"                -> NewD(cfg, s, c)
      [] c.op = "CreateArchiveDir"   -> D(EnsureF(s), PathRet("adir", "."))
      [] c.op = "GetFullArchivePath" -> D(EnsureF(s), PathRet("adir", "R"))
      [] c.op \in AddOps             -> AddD(cfg, s, c)
      [] c.op = "CreateTarFile"      -> TarD(cfg, s, c)
      [] c.op = "DeleteArchiveDir"   -> D([s EXCEPT !.adir = NoDir], NoRet)
      [] c.op = "DeleteTmpDir"       -> D(DelTmpF(s), NoRet)
      [] c.op \in CleanOps           -> CleanD(cfg, s, c)
      [] c.op = "StoringArchive"     -> StoreD(cfg, s, c)
      [] c.op = "CleanupPrevious"    -> D([s EXCEPT !.prev = [k \in PrevKinds |-> s.prev[k] /\ k \notin MustGo]], NoRet)
      [] c.op = "ToolBreak"          -> D([s EXCEPT !.tool = FALSE], NoRet)
      [] c.op = "ToolFix"            -> D([s EXCEPT !.tool = TRUE], NoRet)

ActOf(c, d) == [op |-> c.op, x |-> c.x, y |-> c.y, ret |-> d.ret, nw |-> d.nw]

(***************************************************************************)
(* The state machine explored by TLC.                                       *)
(***************************************************************************)
VARIABLES cfg,      \* [comp, keep]: the configuration the object is built with
          st,       \* the state record
          g         \* ghost: what the CALLER knows it added / packed, and the initial world
vars == <<cfg, st, g>>

Cfgs == [comp : Comps, keep : BOOLEAN]

PrevOf(planted) == [k \in PrevKinds |-> IF k = "victim" THEN "link" \in planted ELSE k \in planted]
World(planted, kd, tool) ==
    [obj |-> FALSE, tmp |-> FALSE, adir |-> NoDir, tar |-> NoTar, kept |-> NoTar, keepdir |-> kd,
     prev |-> PrevOf(planted), tool |-> tool, rt |-> FALSE, clean |-> TRUE]
Worlds == { World(p, kd, tl) : p \in PlantSets, kd \in KeepDirs, tl \in BOOLEAN }
WellFormedWorld(w) == w.prev["keptold"] => w.keepdir = "present"    \* an archive kept by an earlier run lies in the keep directory

Ghost0(w) == [added |-> {}, packed |-> {}, pk |-> FALSE, kpacked |-> {}, kpk |-> FALSE, rt |-> FALSE,
              fin |-> "no", explicit |-> FALSE, prev0 |-> w.prev]

Init == /\ cfg \in Cfgs
        /\ st \in {w \in Worlds : WellFormedWorld(w)}
        /\ g = Ghost0(st)

Calls ==
    {Call("New", x, y) : x \in {"plain", "obf"}, y \in {"short", "fqdn"}} \cup
    {Call("CreateArchiveDir", "-", "-")} \cup
    {Call("GetFullArchivePath", x, "-") : x \in PathForms} \cup
    {Call("CopyFile", x, "-") : x \in CopyArgs} \cup
    {Call("CopyDir", x, "-") : x \in DirArgs} \cup
    {Call("AddMetadata", x, y) : x \in PathForms \ {"dslash"}, y \in MetaC} \cup
    {Call(op, "-", "-") : op \in {"CreateTarFile", "DeleteTmpDir", "DeleteArchiveDir", "CleanupTmp",
                                  "CleanupPrevious", "StoringArchive", "ToolBreak", "ToolFix"}} \cup
    {Call("Exit", x, "-") : x \in {"normal", "sigterm"}}

Enabled(s, c) ==
    /\ (c.op = "New") = ~s.obj            \* one object per world; every other call needs it
    /\ c.op = "ToolBreak" => s.tool
    /\ c.op = "ToolFix"   => ~s.tool

(* the caller's bookkeeping, from the calls and their answers alone:        *)
(* added = what it put into the collection directory since that was last    *)
(* emptied; packed / pk = what it had added when create_tar_file last       *)
(* answered with a path, and whether that answer still stands; kpacked /    *)
(* kpk = the same for the copy in the keep directory; fin = what the last   *)
(* cleanup promised                                                         *)
GhostAfter(gh, c, ret) ==
    LET ok     == ret.k # "raise"
        tarred == c.op = "CreateTarFile" /\ ret.k = "path"
        stores == ok /\ (c.op = "StoringArchive" \/ (c.op \in CleanOps /\ cfg.keep /\ gh.rt))
        gone   == (c.op = "CreateTarFile" /\ ~tarred) \/ c.op = "DeleteTmpDir" \/ (c.op \in CleanOps /\ ok)
    IN
    [gh EXCEPT
       !.added   = IF c.op \in AddOps /\ ok THEN Upd(@, c)
                   ELSE IF c.op \in {"DeleteArchiveDir", "DeleteTmpDir"} THEN {}
                   ELSE IF c.op \in CleanOps /\ ok THEN {}
                   ELSE IF tarred THEN {}
                   ELSE @,
       !.packed  = IF tarred THEN gh.added ELSE IF gone THEN {} ELSE @,
       !.pk      = IF c.op = "CreateTarFile" THEN tarred ELSE IF gone THEN FALSE ELSE @,
       !.rt      = @ \/ tarred,
       !.kpacked = IF stores THEN gh.packed ELSE @,
       !.kpk     = IF stores THEN gh.pk ELSE @,
       !.explicit = @ \/ c.op = "StoringArchive",
       !.fin     = IF c.op \in CleanOps /\ ok THEN (IF cfg.keep /\ gh.rt THEN "kept" ELSE "clean")
                   ELSE IF c.op \in ClientOps THEN "no" ELSE @]

CheckStep(s, a, t) ==
    /\ \A i \in DOMAIN Clauses :
          Assert(Holds(Clauses[i], cfg, s, a, t), <<"design step violates", Clauses[i], a, s, t>>)
    /\ Assert(t.rt = RtAfter(s, a), <<"design does not track tar_file", a, s, t>>)

Step(c) ==
    /\ Enabled(st, c)
    /\ LET d == Design(cfg, st, c) IN
         /\ CheckStep(st, ActOf(c, d), d.st)
         /\ st' = d.st
         /\ g' = GhostAfter(g, c, d.ret)
    /\ UNCHANGED cfg

Of(op) == {c \in Calls : c.op = op}
(* (one named action per method; the first conjunct only gives TLC's coverage *)
(* report a name per method)                                                 *)
New                == \E c \in Of("New") : c.op = "New" /\ Step(c)
CreateArchiveDir   == \E c \in Of("CreateArchiveDir") : c.op = "CreateArchiveDir" /\ Step(c)
GetFullArchivePath == \E c \in Of("GetFullArchivePath") : c.op = "GetFullArchivePath" /\ Step(c)
CopyFile           == \E c \in Of("CopyFile") : c.op = "CopyFile" /\ Step(c)
CopyDir            == \E c \in Of("CopyDir") : c.op = "CopyDir" /\ Step(c)
AddMetadata        == \E c \in Of("AddMetadata") : c.op = "AddMetadata" /\ Step(c)
CreateTarFile      == \E c \in Of("CreateTarFile") : c.op = "CreateTarFile" /\ Step(c)
DeleteTmpDir       == \E c \in Of("DeleteTmpDir") : c.op = "DeleteTmpDir" /\ Step(c)
DeleteArchiveDir   == \E c \in Of("DeleteArchiveDir") : c.op = "DeleteArchiveDir" /\ Step(c)
CleanupTmp         == \E c \in Of("CleanupTmp") : c.op = "CleanupTmp" /\ Step(c)
ExitProcess        == \E c \in Of("Exit") : c.op = "Exit" /\ Step(c)
CleanupPrevious    == \E c \in Of("CleanupPrevious") : c.op = "CleanupPrevious" /\ Step(c)
StoringArchive     == \E c \in Of("StoringArchive") : c.op = "StoringArchive" /\ Step(c)
ToolBreak          == \E c \in Of("ToolBreak") : c.op = "ToolBreak" /\ Step(c)
ToolFix            == \E c \in Of("ToolFix") : c.op = "ToolFix" /\ Step(c)

Next == \/ New \/ CreateArchiveDir \/ GetFullArchivePath \/ CopyFile \/ CopyDir \/ AddMetadata
        \/ CreateTarFile \/ DeleteTmpDir \/ DeleteArchiveDir \/ CleanupTmp \/ ExitProcess
        \/ CleanupPrevious \/ StoringArchive \/ ToolBreak \/ ToolFix
Spec == Init /\ [][Next]_vars

(***************************************************************************)
(* What TLC checks on every reachable state of the design (besides StepOK   *)
(* on every step).                                                          *)
(***************************************************************************)
TarRec == [ex : BOOLEAN, fmt : Comps \cup {"-", "bad"}, mem : SUBSET Members, top : BOOLEAN]
TypeOK ==
    /\ cfg \in Cfgs
    /\ st.obj \in BOOLEAN /\ st.tmp \in BOOLEAN /\ st.tool \in BOOLEAN /\ st.rt \in BOOLEAN /\ st.clean \in BOOLEAN
    /\ st.adir \in [ex : BOOLEAN, mem : SUBSET Members]
    /\ st.tar \in TarRec /\ st.kept \in TarRec
    /\ st.keepdir \in KeepDirs /\ st.prev \in [PrevKinds -> BOOLEAN]

I_Structure ==
    /\ ~st.obj => ~st.tmp
    /\ ~st.tmp => (~st.adir.ex /\ ~st.tar.ex)
    /\ ~st.adir.ex => st.adir.mem = {}
    /\ st.kept.ex => st.keepdir = "present"
    /\ \A m \in {st.adir.mem, st.tar.mem, st.kept.mem} : Cardinality(m \cap AllMeta) <= 1

(* nothing outside the temporary directory and the keep directory            *)
I_Confined == st.clean

(* only stale insights-client- directories ever disappear, and they do       *)
I_PrevOnlyOld ==
    /\ \A k \in PrevKinds : st.prev[k] # g.prev0[k] => (k \in MayGo /\ ~st.prev[k])
    /\ st.obj => \A k \in MustGo : ~st.prev[k]

(* the collection directory holds exactly what the caller added since it     *)
(* was (re)created                                                           *)
I_AdirIsAdded == st.adir.mem = g.added

(* while create_tar_file's last answer stands, the file at the documented    *)
(* place is a tar of the chosen compression that lists exactly what the      *)
(* caller had added when it asked                                            *)
I_TarIsPacked ==
    g.pk => (st.tar.ex /\ st.tar.fmt = cfg.comp /\ st.tar.mem = g.packed /\ st.tar.top)

(* and so is its copy in the keep directory                                  *)
I_KeptIsPacked ==
    /\ g.kpk => (st.kept.ex /\ st.kept.fmt = cfg.comp /\ st.kept.mem = g.kpacked /\ st.kept.top)
    /\ st.kept.ex => (g.rt /\ st.keepdir = "present")

(* after cleanup_tmp / exit: nothing of the run remains without              *)
(* --keep-archive; with it exactly the tar file, in the keep directory       *)
I_AfterCleanup ==
    g.fin # "no" =>
        /\ ~st.tmp /\ ~st.adir.ex /\ ~st.tar.ex
        /\ g.fin = "kept" => (st.kept.ex /\ st.keepdir = "present")
        /\ (g.fin = "clean" /\ ~g.explicit) => ~st.kept.ex

I_GhostRt == g.rt = st.rt
=============================================================================
