\* the transcription of the code on the 'total0' inputs: TLC is EXPECTED to refute F_CodeMeetsReference
SPECIFICATION Spec
CONSTANTS
  Fam = "dirs"
  N = 2
  Admit = {"total0"}
INVARIANT F_CodeMeetsReference
CHECK_DEADLOCK FALSE
