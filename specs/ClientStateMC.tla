---------------------------- MODULE ClientStateMC ----------------------------
(* Model-checking wrapper of ClientState: keeps the history, restricts the   *)
(* histories to a plan (OpsSel: a set of operations per position, Depth) and *)
(* a family of initial states (InitSel), and emits one CASE record per       *)
(* complete history for the replay driver (harness/drive_clientstate.py).    *)
(* With -simulate the same module yields random histories from every         *)
(* initial state (TLC evaluates the CONSTRAINT on every candidate successor, *)
(* so each simulated prefix contributes all its one-step extensions).        *)
EXTENDS ClientState, Json

CONSTANTS Depth,      \* length of the emitted histories
          OpsSel,     \* which operations at which position: "any", "client", "ident", "ids", "markers", "plant"
          InitSel     \* which initial states: "all", "plain", "main", "ident", "rhsm", "markers", "bare"

IdOps  == {"ReadId", "NewId"}
RegOps == {"Register", "Unregister"}
DelOps == {"DeleteMarker"}
EnvOps == {"PlantSymlink"}
OpsAt(i) ==
    CASE OpsSel = "any"     -> ClientOps \cup EnvOps
      [] OpsSel = "client"  -> ClientOps
      [] OpsSel = "ident"   -> IdOps \cup RegOps
      [] OpsSel = "ids"     -> IdOps
      [] OpsSel = "markers" -> IF i = Depth THEN RegOps ELSE RegOps \cup DelOps
      [] OpsSel = "plant"   -> IF i = Depth THEN RegOps ELSE RegOps \cup DelOps \cup EnvOps
      [] OTHER              -> {}

VARIABLES hist, s0
mcvars == <<vars, hist, s0>>

PlainRhsm(s) == s.rhsm \in {"none", "canonical"}     \* the odd spellings have their own family ("rhsm")
AllAbsent(s, d) == s.reg[d] = "absent" /\ s.unreg[d] = "absent"
Sel(s) ==
    CASE InitSel = "all"     -> TRUE
      [] InitSel = "plain"   -> PlainRhsm(s)
      [] InitSel = "main"    -> s.dir["legacy"] = "absent" /\ PlainRhsm(s)
      [] InitSel = "ident"   -> s.dir["legacy"] = "absent" /\ AllAbsent(s, "main") /\ PlainRhsm(s)
      [] InitSel = "rhsm"    -> s.dir["legacy"] = "absent" /\ AllAbsent(s, "main") /\ ~PlainRhsm(s)
      [] InitSel = "markers" -> s.dir["main"] = "populated" /\ s.idf = [form |-> "canonical", id |-> "u0"] /\ ~HasRhsm(s)
      [] InitSel = "bare"    -> s.dir["main"] = "empty" /\ s.dir["legacy"] # "populated" /\ ~HasRhsm(s)
      [] OTHER               -> FALSE

MCInit == Init /\ Sel(st) /\ hist = <<>> /\ s0 = st
MCNext ==
    /\ Len(hist) < Depth
    /\ Next
    /\ act'.op \in OpsAt(Len(hist) + 1)
    /\ hist' = Append(hist, [op |-> act'.op, d |-> act'.d, m |-> act'.m, k |-> act'.k])
    /\ UNCHANGED s0
MCSpec == MCInit /\ [][MCNext]_mcvars

Emit ==
    Len(hist) = Depth =>
        PrintT(<<"CASE", ToJson([init |-> [dir |-> s0.dir, reg |-> s0.reg, unreg |-> s0.unreg,
                                           idf |-> s0.idf, rhsm |-> s0.rhsm],
                                 steps |-> hist])>>)
=============================================================================
