SPECIFICATION Spec
CONSTANTS
  MaxN = 2
  Rd1 = {"no"}
  RdK = {"no", "drain", "pass"}
  Outs = {"", "p", "pb"}
  Rcs = {"0"}
  Slows = {FALSE}
  Errs = {FALSE, TRUE}
  MaxOdd = 3
  Apis = {"call", "pipe", "shell", "connect"}
  Keeps = {FALSE}
  Tmos = {"none"}
  Sigs = {"KILL"}
  Splits = {FALSE, TRUE}
  Forms = {"list"}
  Metas = {FALSE}
  Envs = {"none"}
  Bares = {FALSE}
  Flts = {"none"}
  Mechs = {"code", "intended"}
  Admit = {}
INVARIANT TypeOK
INVARIANT ResultIsLastStageOutput
INVARIANT RcPolicy
INVARIANT NotFoundIsAnError
INVARIANT ExceptionCarriesOutput
INVARIANT TimeoutTerminates
INVARIANT Terminates
INVARIANT NoneRunningAtReturn
INVARIANT NothingStuck
INVARIANT AllReapedButKnown
INVARIANT NeverReadsCallerStdin
INVARIANT NoShell
INVARIANT EnvIsControlled
INVARIANT StreamEqualsCall
CONSTRAINT EmitCase
CHECK_DEADLOCK FALSE
