SPECIFICATION Spec
CONSTANTS
  N = 1
  Kinds = {"text", "raw", "command", "cfile", "ccmd", "datasource"}
  Atoms = {"p"}
  MinLines = 0
  MaxLines = 1
  MaxElems = 2
  SaveAsSet = {"none", "dir"}
  Modes = {"datagone", "shape"}
  MayFail = TRUE
  OutcomeSet = {"crash"}
  BackedSet = {FALSE}
  FilterSet = {FALSE}
  Budget = 2
  BudgetMode = "per-load"
  RecordMode = "component"
  PoolSet = {FALSE, TRUE}
  AssembleMode = "index"
  LateSet = {FALSE}
  LookupMode = "live"
  MaxFaults = 1
INVARIANT RoundTrip
INVARIANT ErrorsPersisted
INVARIANT FaultIsolation
INVARIANT JoinSplitLaw
CONSTRAINT Emit
CHECK_DEADLOCK FALSE
