\* cache rule "flush only when a registration brings a NEW filter string" (seeded change C07-13): TLC finds the
\* look-up that returns a budget a later registration has raised.  Expected result: LookupBudgetsInv violated.
SPECIFICATION SpecHist
CONSTANTS
  NP = 1
  BudSet = {1, 2}
  Depth = 4
  CacheRule = "newstring"
  AddSet = {"I1", "I2", "P", "I3", "P2", "Q1", "Q2", "K"}
  GetSet = {"I1", "I2", "P", "D1", "D0"}
  PatSets = {{1}}
  MaxLines = 0
  CBudSet = {0}
  PathSet = {"archive"}
INVARIANT LookupIsUnionInv
INVARIANT TableIsUnion
INVARIANT LookupBudgetsInv
CHECK_DEADLOCK FALSE
