SPECIFICATION Spec
CONSTANTS
  Fam = "prog"
  MinN = 3
  N = 3
  KindSet = {"comp"}
  TypSet = {"base", "sub"}
  GrpSet = {1, 2}
  LabelSet = {"none", "req"}
  PrioSet = {1}
  MaxAdds = 0
  AskSet = {"basic"}
  KeyMode = "any"
  WalkMech = "bfs"
  Prefix <- NoPrefix
INVARIANT TypeOK
INVARIANT RegistryInverse
INVARIANT RegistryIsDeclared
INVARIANT ClosureLaws
INVARIANT PointLaws
INVARIANT GrowLaws
INVARIANT PeelLaws
INVARIANT BfsLaws
INVARIANT HelperLaws
INVARIANT SpecLaws
INVARIANT CodeFormDeviatesOnlyInClasses
CONSTRAINT Emit
CHECK_DEADLOCK FALSE
