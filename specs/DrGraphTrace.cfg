SPECIFICATION TraceSpec
CONSTANTS
  Fam = "trace"
  MinN = 0
  N = 0
  KindSet = {}
  TypSet = {}
  GrpSet = {}
  LabelSet = {}
  PrioSet = {}
  MaxAdds = 0
  AskSet = {}
  KeyMode = "any"
POSTCONDITION Post
CHECK_DEADLOCK FALSE
