SPECIFICATION TraceSpec
CONSTANTS
  Fam = "trace"
  MinN = 0
  N = 0
  KindSet = {}
  TypSet = {}
  GrpSet = {}
  LabelSet = {}
  PrioSet = {}
  MaxAdds = 0
  AskSet = {}
  KeyMode = "any"
  WalkMech = "bfs"
  Prefix <- NoPrefixT
POSTCONDITION Post
CHECK_DEADLOCK FALSE
