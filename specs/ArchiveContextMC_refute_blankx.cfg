\* the transcription of the code on the 'blankx' inputs: TLC is EXPECTED to refute F_StaysInside
SPECIFICATION Spec
CONSTANTS
  Dirs = {}
  Leaves = {"f"}
  MaxFiles = 1
  MaxDepth = 1
  Packs = {"zip"}
  Wraps = {FALSE}
  Evils = {"none"}
  Overrides = {"none"}
  Wheres = {"plain"}
  Injects = {"none"}
  Plugs = {"none"}
  Modes = {"api"}
  Spaces = {"exdirx"}
  Mech = "code"
  Admit = {"blank"}
INVARIANT F_StaysInside
CHECK_DEADLOCK FALSE
