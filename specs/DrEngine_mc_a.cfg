SPECIFICATION Spec
CONSTANTS
  N = 3
  KindSet = {"plain"}
  OutSet = {"val", "skip", "crash"}
  ElemOutSet = {"val"}
  MaxItems = 2
  MaxGrp = 2
  ListLen = 2
  AllowDisabled = FALSE
  AllowSeeded = FALSE
  AllowOutOfGraph = FALSE
  AllowIgnore = FALSE
  SSSet = {FALSE}
  ModeSet = {"single"}
  Workers = 1
  ArchSet = {FALSE}
INVARIANT AtMostOnce
INVARIANT DepsBefore
INVARIANT SeedsPreserved
INVARIANT OnlyGraphRuns
INVARIANT FiresIff
INVARIANT MissingExact
INVARIANT ArgBinding
INVARIANT DisabledNeverFires
INVARIANT NothingElsewhere
INVARIANT Accounted
INVARIANT NoPhantomExc
INVARIANT Isolation
INVARIANT Confluence
INVARIANT PartitionExact
INVARIANT OneWorkerPerSub
CHECK_DEADLOCK FALSE
