SPECIFICATION Spec
CONSTANTS
  Dirs = {"a", "meta_data"}
  Leaves = {"f", "insights_archive.txt", "c1", "c2"}
  MaxFiles = 3
  MaxDepth = 3
  Packs = {"dir"}
  Wraps = {FALSE}
  Evils = {"none"}
  Overrides = {"none", "SerializedArchiveContext", "HostArchiveContext"}
  Wheres = {"plain"}
  Injects = {"none"}
  Plugs = {"none"}
  Modes = {"api"}
  Spaces = {"none"}
  Mech = "code"
  Admit = {}
INVARIANT TypeOK
INVARIANT MarkerPriority
INVARIANT TriedInOrder
INVARIANT DefaultWhenNoMarker
INVARIANT RootInsideInput
INVARIANT OverrideWins
INVARIANT CreateAllowed
INVARIANT ListedExactly
INVARIANT BrokerSeededExactly
INVARIANT ExtractionStaysInTempDir
INVARIANT TempDirRemoved
INVARIANT ContextDeterministic
INVARIANT Ends
CONSTRAINT Emit
CHECK_DEADLOCK FALSE
