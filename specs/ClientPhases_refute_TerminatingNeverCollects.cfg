SPECIFICATION Spec
CONSTANTS
  Mech = "code"
  MaxOn = 2
  SrvSel = "small"
  Focus = {"version", "unregister", "legacy", "no_upload", "register", "force"}
INVARIANT I_TerminatingNeverCollects
CHECK_DEADLOCK FALSE
