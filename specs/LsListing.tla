------------------------------ MODULE LsListing ------------------------------
(***************************************************************************)
(* The shared directory-listing parser of insights-core:                   *)
(* insights/core/ls_parser.py (parse, Directory, parse_non_selinux,        *)
(* parse_selinux, parse_rhel8_selinux, parse_path) and the user-facing     *)
(* wrapper insights/parsers/ls.py FileListing (+ LsBoot, LsDev,            *)
(* LsSysFirmware, which give it a root path).  Extra check X04.            *)
(*                                                                         *)
(* A listing is ABSTRACT: a format (plain `ls -la[n]`, newZ = `ls -laZ` as *)
(* printed since RHEL 8: the context between group and size, oldZ = `ls    *)
(* -lZ` of RHEL 6/7: no link count / size / date), the class it is read    *)
(* through, and a sequence of directories, each with an optional `total`   *)
(* and a sequence of entries.  Text is a sequence of one-character strings *)
(* so that the contract can take it apart.                                 *)
(*   Admits   - what a format can carry unambiguously (the quantifier)     *)
(*   Exp / Normal - what the accessors must return (the docstrings)        *)
(*   the state machine - the line-by-line grouping of the listing into     *)
(*     directories (header / total / entry / blank / "No such file" line), *)
(*     once as specified ("intended") and once as a transcription of the   *)
(*     code ("code"); TLC checks mechanism |= reference on every input,    *)
(*     and that the code's transcription leaves the reference exactly on   *)
(*     the classes of inputs named by Classes (the recorded findings).     *)
(* The renderer lives in the driver (harness/drive_lslisting.py) and is    *)
(* cross-checked against the real `ls`; recorded accessor results of the   *)
(* real code are held to Exp / Normal by LsListingTrace.                   *)
(***************************************************************************)
EXTENDS Integers, Sequences, FiniteSets, TLC

CONSTANTS
    Fam,        \* "entry" | "pair" | "dirs" | "dirsz" | "root" | "trace"
    N,          \* bound: richer alphabets (entry, pair) / number of directories (dirs)
    Admit       \* the known-defect classes the enumeration keeps (refutation runs admit one each)

VARIABLES
    inp,        \* the abstract listing
    pos,        \* number of abstract lines consumed
    cur,        \* the directory being read, per mechanism
    acc,        \* the directories closed so far, per mechanism
    out,        \* what the accessors hand out, per mechanism (once done)
    done
vars == <<inp, pos, cur, acc, out, done>>

Rng(s)  == {s[i] : i \in DOMAIN s}
Idx(s)  == [i \in 1..Len(s) |-> i]

-----------------------------------------------------------------------------
(* Text = sequence of one-character strings                                 *)
Blank(c)      == c = " " \/ c = "\t"
IsStripped(s) == s = <<>> \/ (~Blank(s[1]) /\ ~Blank(s[Len(s)]))
NoBlank(s)    == \A i \in DOMAIN s : ~Blank(s[i])
Digits        == {"0", "1", "2", "3", "4", "5", "6", "7", "8", "9"}
IsDigit(c)    == c \in Digits
OccursAt(sub, s, i) == i >= 1 /\ i + Len(sub) - 1 <= Len(s) /\ \A j \in 1..Len(sub) : s[i + j - 1] = sub[j]
Find(s, sub)  == LET c == {i \in 1..(Len(s) - Len(sub) + 1) : OccursAt(sub, s, i)} IN
                 IF c = {} THEN 0 ELSE CHOOSE i \in c : \A j \in c : i <= j
FindLast(s, sub) == LET c == {i \in 1..(Len(s) - Len(sub) + 1) : OccursAt(sub, s, i)} IN
                    IF c = {} THEN 0 ELSE CHOOSE i \in c : \A j \in c : j <= i
Contains(s, sub)    == Find(s, sub) > 0
BeforeFirst(s, sub) == IF Find(s, sub) = 0 THEN s ELSE SubSeq(s, 1, Find(s, sub) - 1)
AfterFirst(s, sub)  == IF Find(s, sub) = 0 THEN <<>> ELSE SubSeq(s, Find(s, sub) + Len(sub), Len(s))
RECURSIVE SplitOn(_, _)          \* the parts between occurrences of the character c
SplitOn(s, c) == LET i == Find(s, <<c>>) IN
                 IF i = 0 THEN <<s>> ELSE <<SubSeq(s, 1, i - 1)>> \o SplitOn(SubSeq(s, i + 1, Len(s)), c)
RECURSIVE JoinWith(_, _)
JoinWith(ps, c) == IF ps = <<>> THEN <<>> ELSE IF Len(ps) = 1 THEN ps[1] ELSE ps[1] \o <<c>> \o JoinWith(Tail(ps), c)
RECURSIVE Str(_)                 \* the TLA+ string spelled by a text (for whole-token comparison)
Str(cs) == IF cs = <<>> THEN "" ELSE cs[1] \o Str(Tail(cs))
FirstNB(s) == CHOOSE i \in 1..(Len(s) + 1) : (i = Len(s) + 1 \/ ~Blank(s[i])) /\ \A j \in 1..(i - 1) : Blank(s[j])
FirstB(s)  == CHOOSE i \in 1..(Len(s) + 1) : (i = Len(s) + 1 \/ Blank(s[i])) /\ \A j \in 1..(i - 1) : ~Blank(s[j])
RECURSIVE Words(_)               \* the blank-separated words of a text, as strings
Words(s) == LET a == FirstNB(s) IN
            IF a > Len(s) THEN <<>>
            ELSE LET r == SubSeq(s, a, Len(s))  b == FirstB(r) IN <<Str(SubSeq(r, 1, b - 1))>> \o Words(SubSeq(r, b, Len(r)))

Arrow   == <<" ", "-", ">", " ">>
NSFD    == <<":", " ", "N", "o", " ", "s", "u", "c", "h", " ", "f", "i", "l", "e", " ", "o", "r", " ",
             "d", "i", "r", "e", "c", "t", "o", "r", "y">>      \* such lines are noise of `ls`, by the code's own comment
NoneTxt == <<"<", "N", "o", "n", "e", ">">>                     \* how the driver writes Python's None
Slash   == <<"/">>

-----------------------------------------------------------------------------
(* Entries, directories, listings                                           *)
(* entry: [t, perms, mark, links, owner, group, size, major, minor, date,   *)
(*         name, target, ctx]                                               *)
(* dir:   [name, total (-1 = no total line), ents]                          *)
(* doc:   [fmt, cls, root, hl (head-less: one directory, no header line),   *)
(*         noise (a "No such file or directory" line first), dirs]          *)
Types     == {"-", "d", "l", "c", "b", "p", "s"}
Formats   == {"plain", "newZ", "oldZ"}
PermChars == {"r", "w", "x", "s", "S", "t", "T", "-"}
Marks     == {<<>>, <<".">>, <<"+">>}
Absent    == 0 - 1
Wrappers  == {"LsBoot", "LsDev", "LsSysFirmware"}
Readers   == {"FileListing", "parse"} \cup Wrappers
RootBoot  == <<"/", "b", "o", "o", "t">>
RootDev   == <<"/", "d", "e", "v">>
RootFw    == <<"/", "s", "y", "s", "/", "f", "i", "r", "m", "w", "a", "r", "e">>

IsDev(e)    == e.t \in {"b", "c"}
Shown(fmt)  == fmt # "oldZ"          \* link count, size / device numbers and date are printed
HasCtx(fmt) == fmt # "plain"
CtxParts(e) == SplitOn(e.ctx, ":")
Tail4(ps)   == JoinWith(SubSeq(ps, 4, Len(ps)), ":")     \* the MLS part = everything after the third colon

(* Mon DD HH:MM  or  Mon DD  YYYY, twelve characters either way             *)
IsDate(d) ==
    /\ Len(d) = 12 /\ d[4] = " " /\ d[7] = " "
    /\ \A i \in 1..3 : ~Blank(d[i]) /\ ~IsDigit(d[i])
    /\ (d[5] = " " \/ IsDigit(d[5])) /\ IsDigit(d[6])
    /\ IF d[8] = " " THEN \A i \in 9..12 : IsDigit(d[i])
       ELSE IsDigit(d[8]) /\ IsDigit(d[9]) /\ d[10] = ":" /\ IsDigit(d[11]) /\ IsDigit(d[12])

AdmitsEntry(e, fmt) ==
    /\ e.t \in Types
    /\ Len(e.perms) = 9 /\ \A i \in 1..9 : e.perms[i] \in PermChars
    /\ e.mark \in Marks
    /\ e.links \in Nat /\ e.size \in Nat /\ e.minor \in Nat
    /\ e.major \in 0..999                                  \* "If a comma is in the first four characters ..."
    /\ e.owner # <<>> /\ NoBlank(e.owner) /\ e.group # <<>> /\ NoBlank(e.group)
    /\ fmt = "oldZ" => ~IsDigit(e.owner[1])                \* a digit after the permissions announces a link count
    /\ IsDate(e.date)
    /\ e.name # <<>> /\ IsStripped(e.name) /\ ~Contains(e.name, Slash) /\ ~Contains(e.name, NSFD)
    /\ IF e.t = "l"
         THEN /\ ~Contains(e.name, Arrow)                  \* `a -> b -> c` is ambiguous only in the NAME of a link
              /\ e.target # <<>> /\ IsStripped(e.target) /\ ~Contains(e.target, NSFD)
         ELSE e.target = <<>>
    /\ IF HasCtx(fmt) THEN e.ctx # <<>> /\ NoBlank(e.ctx) /\ (e.ctx = <<"?">> \/ Contains(e.ctx, <<":">>))
       ELSE e.ctx = <<>>

AdmitsDir(d, hl) ==
    /\ d.total >= Absent
    /\ IF hl THEN d.name = <<>>
       ELSE /\ d.name # <<>> /\ d.name[1] = "/" /\ IsStripped(d.name) /\ ~Contains(d.name, NSFD)
            /\ Len(d.name) > 1 => d.name[Len(d.name)] # "/"           \* "full path without trailing slash"
    /\ \A i, j \in DOMAIN d.ents : d.ents[i].name = d.ents[j].name => i = j

RootFor(cls, root) ==
    CASE cls = "FileListing" -> root = <<>>
      [] cls = "LsBoot" -> root = RootBoot
      [] cls = "LsDev" -> root = RootDev
      [] cls = "LsSysFirmware" -> root = RootFw
      [] OTHER -> root = <<>> \/ (root[1] = "/" /\ IsStripped(root))

Admits(doc) ==
    /\ doc.fmt \in Formats /\ doc.cls \in Readers /\ RootFor(doc.cls, doc.root)
    /\ doc.hl \in BOOLEAN /\ doc.noise \in BOOLEAN
    /\ Len(doc.dirs) >= 1 /\ (doc.hl => Len(doc.dirs) = 1)
    /\ doc.hl => (doc.dirs[1].total >= 0 \/ doc.dirs[1].ents # <<>>)                   \* some content
    /\ \A i, j \in DOMAIN doc.dirs : doc.dirs[i].name = doc.dirs[j].name => i = j
    /\ \A i \in DOMAIN doc.dirs : /\ AdmitsDir(doc.dirs[i], doc.hl)
                                  /\ \A j \in DOMAIN doc.dirs[i].ents : AdmitsEntry(doc.dirs[i].ents[j], doc.fmt)

-----------------------------------------------------------------------------
(* REFERENCE: what the accessors must hand out (docstrings of FileListing)  *)
(* the key a directory is found under *)
Key(doc, i) == IF doc.hl THEN (IF doc.root = <<>> THEN NoneTxt ELSE doc.root) ELSE doc.dirs[i].name

(* one entry as dir_entry / listing_of / path_entry return it; numbers are  *)
(* numbers, -1 = the key is not there; se: user, role, type, MLS when the   *)
(* context has them, else only its first part is demanded                   *)
Exp(e, fmt, key) ==
    LET ps == CtxParts(e) IN
    [type   |-> e.t,
     perms  |-> e.perms \o e.mark,                         \* "permission string including ACL character"
     links  |-> IF Shown(fmt) THEN e.links ELSE Absent,
     owner  |-> e.owner,
     group  |-> e.group,
     size   |-> IF Shown(fmt) /\ ~IsDev(e) THEN e.size ELSE Absent,     \* "size, or major and minor number for block and
     major  |-> IF Shown(fmt) /\ IsDev(e) THEN e.major ELSE Absent,     \*  character devices"
     minor  |-> IF Shown(fmt) /\ IsDev(e) THEN e.minor ELSE Absent,
     date   |-> IF Shown(fmt) THEN e.date ELSE <<>>,                    \* "in the format given in the listing"
     name   |-> e.name,
     haslink |-> e.t = "l",                                             \* "name of linked file, if a symlink"
     link   |-> e.target,
     se     |-> IF ~HasCtx(fmt) THEN <<>>
                ELSE IF Len(ps) >= 4 THEN <<ps[1], ps[2], ps[3], Tail4(ps)>> ELSE <<ps[1]>>,
     dir    |-> key]

NamesOf(d, T) == LET es == SelectSeq(d.ents, LAMBDA e : e.t \in T) IN [i \in 1..Len(es) |-> es[i].name]
NormalDir(doc, i) ==
    LET d == doc.dirs[i] IN
    [key      |-> Key(doc, i),
     total    |-> d.total,                                              \* -1: no total line, nothing demanded
     files    |-> NamesOf(d, Types \ {"b", "c", "d"}),                  \* "non-special files (not block or character)"
     dirs     |-> NamesOf(d, {"d"}),
     specials |-> NamesOf(d, {"b", "c"}),
     ents     |-> [j \in 1..Len(d.ents) |-> Exp(d.ents[j], doc.fmt, Key(doc, i))]]
Normal(doc) == [i \in 1..Len(doc.dirs) |-> NormalDir(doc, i)]

(* path_entry: "a path, which is separated into its directory and entry name" *)
PathOf(key, name) == IF key = Slash THEN key \o name ELSE key \o Slash \o name

(* raw_entry_of: "the re-constructed rough line", read as: the fields of    *)
(* the listed line in their order, spacing free                             *)
RoughTokens(e, fmt) ==
    <<Str(<<e.t>> \o e.perms \o e.mark)>>
    \o (IF Shown(fmt) THEN <<ToString(e.links)>> ELSE <<>>)
    \o <<Str(e.owner), Str(e.group)>>
    \o (IF HasCtx(fmt) THEN <<Str(e.ctx)>> ELSE <<>>)
    \o (IF ~Shown(fmt) THEN <<>>
        ELSE IF IsDev(e) THEN <<ToString(e.major) \o ",", ToString(e.minor)>> ELSE <<ToString(e.size)>>)
    \o (IF Shown(fmt) THEN Words(e.date) ELSE <<>>)
    \o Words(e.name)
    \o (IF e.t = "l" THEN <<"->">> \o Words(e.target) ELSE <<>>)

(* permissions_of is held to its documented attributes where FilePermissions *)
(* says it applies: plain listings, permission characters -rwxsS, no colon  *)
PermsApplies(e, fmt) ==
    /\ fmt = "plain" /\ \A i \in 1..9 : e.perms[i] \in {"r", "w", "x", "s", "S", "-"}
    /\ ~Contains(e.owner, <<":">>) /\ ~Contains(e.group, <<":">>)
ExpPerm(e) == [type |-> e.t, po |-> SubSeq(e.perms, 1, 3), pg |-> SubSeq(e.perms, 4, 6), pt |-> SubSeq(e.perms, 7, 9),
               owner |-> e.owner, group |-> e.group]

(* the reverse reading: an abstract listing with the same normal form       *)
EntryOf(x, fmt) ==
    [t |-> x.type, perms |-> SubSeq(x.perms, 1, 9), mark |-> SubSeq(x.perms, 10, Len(x.perms)),
     links |-> IF x.links = Absent THEN 0 ELSE x.links, owner |-> x.owner, group |-> x.group,
     size |-> IF x.size = Absent THEN 0 ELSE x.size, major |-> IF x.major = Absent THEN 0 ELSE x.major,
     minor |-> IF x.minor = Absent THEN 0 ELSE x.minor,
     date |-> x.date, name |-> x.name, target |-> x.link,
     ctx |-> IF HasCtx(fmt) THEN JoinWith(x.se, ":") ELSE <<>>]
DocOf(nm, doc) ==
    [doc EXCEPT !.dirs = [i \in 1..Len(nm) |-> [name |-> doc.dirs[i].name, total |-> nm[i].total,
                                                ents |-> [j \in 1..Len(nm[i].ents) |-> EntryOf(nm[i].ents[j], doc.fmt)]]]]

-----------------------------------------------------------------------------
(* Known-defect classes: the inputs on which the transcription of the code  *)
(* leaves the reference (each is a recorded finding; notes/X04.md)          *)
AllClasses == {"total0", "rootkey", "arrow", "comma", "mlscat", "shortctx", "rootdir"}
AllEnts(doc) == UNION {Rng(doc.dirs[i].ents) : i \in DOMAIN doc.dirs}
InTotal0(doc)   == \E i \in 1..(Len(doc.dirs) - 1) : doc.dirs[i].total = 0 /\ doc.dirs[i].ents # <<>>
InRootKey(doc)  == doc.hl /\ doc.cls \in Wrappers
ArrowEnt(e)     == e.t # "l" /\ Contains(e.name, Arrow)
CommaEnt(e, fmt) == fmt = "newZ" /\ ~IsDev(e) /\ (Contains(e.name, <<",">>) \/ Contains(e.target, <<",">>))
MlsCatEnt(e, fmt)   == HasCtx(fmt) /\ Len(CtxParts(e)) > 4
ShortCtxEnt(e, fmt) == HasCtx(fmt) /\ Len(CtxParts(e)) < 4
InRootDir(doc)  == \E i \in DOMAIN doc.dirs : Key(doc, i) = Slash /\ doc.dirs[i].ents # <<>>
Classes(doc) ==
    (IF InTotal0(doc) THEN {"total0"} ELSE {}) \cup (IF InRootKey(doc) THEN {"rootkey"} ELSE {})
    \cup (IF \E e \in AllEnts(doc) : ArrowEnt(e) THEN {"arrow"} ELSE {})
    \cup (IF \E e \in AllEnts(doc) : CommaEnt(e, doc.fmt) THEN {"comma"} ELSE {})
    \cup (IF \E e \in AllEnts(doc) : MlsCatEnt(e, doc.fmt) THEN {"mlscat"} ELSE {})
    \cup (IF \E e \in AllEnts(doc) : ShortCtxEnt(e, doc.fmt) THEN {"shortctx"} ELSE {})
    \cup (IF InRootDir(doc) THEN {"rootdir"} ELSE {})

-----------------------------------------------------------------------------
(* MECHANISM.  The listing as abstract lines, read one at a time.           *)
Mechs == {"intended", "code"}
RECURSIVE DirLines(_, _)
DirLines(doc, i) ==
    IF i > Len(doc.dirs) THEN <<>>
    ELSE (IF doc.hl THEN <<>> ELSE <<[k |-> "hdr", d |-> i, e |-> 0]>>)
         \o (IF doc.dirs[i].total >= 0 THEN <<[k |-> "total", d |-> i, e |-> 0]>> ELSE <<>>)
         \o [j \in 1..Len(doc.dirs[i].ents) |-> [k |-> "ent", d |-> i, e |-> j]]
         \o (IF i < Len(doc.dirs) THEN <<[k |-> "blank", d |-> i, e |-> 0]>> ELSE <<>>)
         \o DirLines(doc, i + 1)
LinesOf(doc) == (IF doc.noise THEN <<[k |-> "noise", d |-> 0, e |-> 0]>> ELSE <<>>) \o DirLines(doc, 1)

Fresh == [named |-> FALSE, name |-> <<>>, hastotal |-> FALSE, total |-> 0, ents |-> <<>>]
Touched(c) == c.named \/ c.hastotal \/ c.ents # <<>>

(* the key of a directory without header line: the reader's root path.      *)
(* code: `__root_path` is name-mangled per class, FileListing.parse_content *)
(* reads its own (None) whatever a subclass sets                            *)
MechRoot(m) == IF m = "code" /\ inp.cls \in Wrappers THEN NoneTxt
               ELSE IF inp.root = <<>> THEN NoneTxt ELSE inp.root
(* code: `total or len(entries)` for every directory but the last           *)
MechTotal(m, c, last) ==
    IF m = "code"
      THEN IF last THEN (IF c.hastotal THEN c.total ELSE Len(c.ents))
           ELSE (IF c.hastotal /\ c.total # 0 THEN c.total ELSE Len(c.ents))
      ELSE IF c.hastotal THEN c.total ELSE Absent
Closed(m, c, last) == [key |-> IF c.named THEN c.name ELSE MechRoot(m), total |-> MechTotal(m, c, last), ents |-> c.ents]

(* one entry line -> the record kept for it                                 *)
Rest(e)   == e.name \o (IF e.t = "l" THEN Arrow \o e.target ELSE <<>>)        \* what follows the date / the context
MechCrash(m, e, fmt) == m = "code" /\ CommaEnt(e, fmt)       \* `"," in last` looks at the whole rest of the line
MechEntry(m, e, fmt, key) ==
    LET x == Exp(e, fmt, key)  ps == CtxParts(e)
        split == m = "code" \/ e.t = "l" IN                  \* code: parse_path partitions every line at its first arrow
    [x EXCEPT !.name = IF split THEN BeforeFirst(Rest(e), Arrow) ELSE e.name,
              !.link = IF split THEN AfterFirst(Rest(e), Arrow) ELSE <<>>,
              !.haslink = IF split THEN AfterFirst(Rest(e), Arrow) # <<>> ELSE FALSE,
              !.se = IF m = "code" /\ Len(ps) > 4 THEN <<ps[1], ps[2], ps[3], ps[4]>> ELSE @]
(* path_entry: the directory part of a path.  code: '/'.join(parts[:-1])    *)
MechPathDir(m, path) == LET i == FindLast(path, Slash)  pre == SubSeq(path, 1, i - 1) IN
                        IF m = "intended" /\ pre = <<>> THEN Slash ELSE pre
(* raw_entry_of: code joins the four context fields, None for missing ones  *)
MechRawFails(m, e, fmt) == m = "code" /\ ShortCtxEnt(e, fmt)

Hand(m, a) ==        \* the directories as the accessors see them
    [crash |-> \E i \in DOMAIN a : \E p \in Rng(a[i].ents) : MechCrash(m, inp.dirs[p[1]].ents[p[2]], inp.fmt),
     dirs  |-> [i \in 1..Len(a) |->
                  [key |-> a[i].key, total |-> a[i].total,
                   ents |-> [j \in 1..Len(a[i].ents) |->
                               MechEntry(m, inp.dirs[a[i].ents[j][1]].ents[a[i].ents[j][2]], inp.fmt, a[i].key)]]]]

Line == LinesOf(inp)[pos + 1]
More == pos < Len(LinesOf(inp))
Step == pos' = pos + 1 /\ UNCHANGED <<inp, out, done>>

ReadHeader ==
    /\ ~done /\ More /\ Line.k = "hdr" /\ Step
    /\ acc' = [m \in Mechs |-> IF Touched(cur[m]) THEN Append(acc[m], Closed(m, cur[m], FALSE)) ELSE acc[m]]
    /\ cur' = [m \in Mechs |-> [Fresh EXCEPT !.named = TRUE, !.name = inp.dirs[Line.d].name]]
ReadTotal ==
    /\ ~done /\ More /\ Line.k = "total" /\ Step /\ UNCHANGED acc
    /\ cur' = [m \in Mechs |-> [cur[m] EXCEPT !.hastotal = TRUE, !.total = inp.dirs[Line.d].total]]
ReadEntry ==
    /\ ~done /\ More /\ Line.k = "ent" /\ Step /\ UNCHANGED acc
    /\ cur' = [m \in Mechs |-> [cur[m] EXCEPT !.ents = Append(@, <<Line.d, Line.e>>)]]
SkipLine ==
    /\ ~done /\ More /\ Line.k \in {"blank", "noise"} /\ Step /\ UNCHANGED <<acc, cur>>
Finish ==
    /\ ~done /\ ~More
    /\ acc' = [m \in Mechs |-> Append(acc[m], Closed(m, cur[m], TRUE))]
    /\ out' = [m \in Mechs |-> Hand(m, acc'[m])]
    /\ done' = TRUE /\ UNCHANGED <<inp, pos, cur>>

Next == ReadHeader \/ ReadTotal \/ ReadEntry \/ SkipLine \/ Finish

-----------------------------------------------------------------------------
(* The listings TLC enumerates (tiny alphabets; the driver renames letters, *)
(* draws numbers, dates, owners, permission strings and spacings).  The     *)
(* families take a parameter on purpose: TLC evaluates every zero-arity     *)
(* constant definition at start-up, which would build all of them each run. *)
DateT  == <<"J", "u", "l", " ", " ", "6", " ", "2", "3", ":", "3", "2">>
DateT2 == <<"J", "u", "l", " ", "1", "6", " ", "0", "3", ":", "0", "5">>
DateY  == <<"S", "e", "p", " ", "1", "6", " ", " ", "2", "0", "1", "5">>
DateY2 == <<"S", "e", "p", " ", " ", "6", " ", " ", "2", "0", "1", "5">>
Dates(n) == IF n >= 2 THEN {DateT, DateT2, DateY, DateY2} ELSE {DateT, DateY}
OgName == <<<<"r", "o", "o", "t">>, <<"w", "h", "e", "e", "l">>>>
OgNum  == <<<<"0">>, <<"1", "0", "0", "0">>>>
Ogs(fmt) == IF fmt = "oldZ" THEN {OgName} ELSE {OgName, OgNum}
Ctx4 == <<"u", ":", "r", ":", "t", ":", "s", "0">>
CtxC == <<"u", ":", "r", ":", "t", ":", "s", "0", ":", "c", "1", ",", "c", "2">>
CtxQ == <<"?">>
Ctxs(fmt) == IF HasCtx(fmt) THEN {Ctx4, CtxC, CtxQ} ELSE {<<>>}
PermsOf(t) == CASE t = "d" -> <<"r", "w", "x", "r", "-", "x", "r", "-", "x">>
                [] t = "l" -> <<"r", "w", "x", "r", "w", "x", "r", "w", "x">>
                [] OTHER -> <<"r", "w", "-", "r", "-", "-", "r", "-", "-">>

NmX == <<"x">>   NmB == <<"b">>   NmDot == <<".">>   NmDots == <<".", ".">>
NmBlank  == <<"x", " ", "y">>
NmBlank2 == <<"x", " ", " ", "y", " ", "z">>
NmArrow  == <<"x", " ", "-", ">", " ", "y">>
NmDash   == <<"-", "x">>
NmDArrow == <<"-", ">", " ", "x">>
NmTotal  == <<"t", "o", "t", "a", "l", " ", "5">>
NmHdr    == <<"x", ":">>
NmComma  == <<"x", ",", "y">>
NmColon  == <<"a", ":", "b">>
NmNum    == <<"1", "0", ",", " ", "3">>
NmQ      == <<"?">>
Names(n) == {NmX, NmBlank, NmArrow, NmDash, NmTotal, NmHdr, NmComma, NmColon}
            \cup (IF n >= 2 THEN {NmDot, NmDots, NmBlank2, NmDArrow, NmNum, NmQ} ELSE {})
NamesFor(t, n) == {x \in Names(n) : t = "l" => ~Contains(x, Arrow)}
TgY == <<"y">>
TgBlank == <<"y", " ", "z">>
TgArrow == <<"y", " ", "-", ">", " ", "z">>
TgAbs   == <<"/", "e", "/", "y">>
TgComma == <<"y", ",", "z">>
Targets(t, n) == IF t # "l" THEN {<<>>} ELSE {TgY, TgBlank, TgArrow} \cup (IF n >= 2 THEN {TgAbs, TgComma} ELSE {})

Ent(t, mk, og, dt, nm, tg, cx) ==
    [t |-> t, perms |-> PermsOf(t), mark |-> mk, links |-> 1, owner |-> og[1], group |-> og[2], size |-> 4096,
     major |-> 253, minor |-> 10, date |-> dt, name |-> nm, target |-> tg, ctx |-> cx]
Dir(nm, tot, es) == [name |-> nm, total |-> tot, ents |-> es]
Doc(fmt, cls, root, hl, noise, ds) == [fmt |-> fmt, cls |-> cls, root |-> root, hl |-> hl, noise |-> noise, dirs |-> ds]
DnD  == <<"/", "d">>
DnA  == <<"/", "a">>
DnAB == <<"/", "a", "/", "b">>
DnSp == <<"/", "a", " ", "b", ":">>
DnTo == <<"/", "t", "o", "t", "a", "l", " ", "5">>

(* entry: one directory, one entry, every combination of the entry's features *)
EntryDocs(n) ==
    UNION {UNION {
        {Doc(fmt, "FileListing", <<>>, FALSE, FALSE, <<Dir(DnD, 8, <<Ent(t, mk, og, dt, nm, tg, cx)>>)>>) :
            mk \in Marks, og \in Ogs(fmt), dt \in Dates(n), nm \in NamesFor(t, n), tg \in Targets(t, n), cx \in Ctxs(fmt)}
        : t \in Types} : fmt \in Formats}

(* pair: one directory, two entries (classification, order, names next to each other), every total *)
PTypes(n) == IF n >= 2 THEN Types ELSE {"-", "d", "l", "c", "p"}
PNames == {NmX, NmB, NmBlank, NmArrow, NmTotal, NmHdr}
PEnt(t, nm, fmt) == Ent(t, <<".">>, OgName, DateT, nm, IF t = "l" THEN TgY ELSE <<>>, IF HasCtx(fmt) THEN Ctx4 ELSE <<>>)
PairDocs(n) ==
    UNION {
        {Doc(fmt, "FileListing", <<>>, FALSE, FALSE, <<Dir(DnD, tot, <<PEnt(t1, n1, fmt), PEnt(t2, n2, fmt)>>)>>) :
            t1 \in PTypes(n), t2 \in PTypes(n), n1 \in PNames, n2 \in PNames, tot \in {Absent, 0, 7}}
        : fmt \in Formats}

(* dirs: up to N directories (root, one inside another, blank and colon in the name, named like a total line), *)
(* totals absent / 0 / positive, a few entries each                         *)
DirNames(m) == {Slash, DnA, DnAB, DnSp} \cup (IF m >= 3 THEN {} ELSE {DnTo})
SEnt(t, nm, fmt) == PEnt(t, nm, fmt)
EntSeqs(fmt, rich) == {<<>>, <<SEnt("d", NmB, fmt)>>}
                      \cup (IF rich THEN {<<SEnt("-", NmX, fmt)>>, <<SEnt("d", NmB, fmt), SEnt("-", NmX, fmt)>>,
                                          <<SEnt("l", NmX, fmt), SEnt("c", NmB, fmt)>>} ELSE {})
DirSet(fmt, m) == {Dir(nm, tot, es) : nm \in DirNames(m), tot \in {Absent, 0, 7}, es \in EntSeqs(fmt, m < 3)}
DirSeqs(fmt, m) == [1..m -> DirSet(fmt, m)]
DirsDocs(n) ==      \* Fam "dirs": Z formats for one directory only; Fam "dirsz": for two as well
    UNION {UNION {
        {Doc(fmt, "FileListing", <<>>, FALSE, noise, ds) : ds \in DirSeqs(fmt, m), noise \in (IF m = 1 THEN BOOLEAN ELSE {FALSE})}
        : fmt \in (IF m >= 3 \/ (m = 2 /\ Fam = "dirs") THEN {"plain"} ELSE Formats)} : m \in 1..n}

(* root: who supplies the key of a listing without header line; a header wins over the root path *)
RootOf(cls) == CASE cls = "LsBoot" -> RootBoot [] cls = "LsDev" -> RootDev [] cls = "LsSysFirmware" -> RootFw
                 [] cls = "parse" -> <<"/", "r">> [] OTHER -> <<>>
RootDocs(n) ==
    UNION {
        {Doc(fmt, cls, RootOf(cls), hl, noise, <<Dir(IF hl THEN <<>> ELSE RootOf("LsBoot"), tot, es)>>) :
            cls \in Readers, hl \in BOOLEAN, noise \in BOOLEAN, tot \in {Absent, 0, 7}, es \in EntSeqs(fmt, TRUE)}
        : fmt \in Formats}
    \cup {Doc("plain", "parse", <<>>, TRUE, FALSE, <<Dir(<<>>, 7, <<SEnt("-", NmX, "plain")>>)>>)}

Raw(n) == CASE Fam = "entry" -> EntryDocs(n)
         [] Fam = "pair" -> PairDocs(n)
         [] Fam \in {"dirs", "dirsz"} -> DirsDocs(n)
         [] Fam = "root" -> RootDocs(n)
(* the raw families contain sequences with a repeated directory / entry name and symlinks named with an arrow;  *)
(* everything else about Admits is checked as the invariant Admitted on what is enumerated                      *)
DistinctNames(x) ==
    /\ \A i \in DOMAIN x.dirs : \A j \in DOMAIN x.dirs[i].ents :
            x.dirs[i].ents[j].t = "l" => ~Contains(x.dirs[i].ents[j].name, Arrow)
    /\ \A i, j \in DOMAIN x.dirs : x.dirs[i].name = x.dirs[j].name => i = j
    /\ \A i \in DOMAIN x.dirs : \A j, k \in DOMAIN x.dirs[i].ents : x.dirs[i].ents[j].name = x.dirs[i].ents[k].name => j = k
    /\ x.hl => (x.dirs[1].total >= 0 \/ x.dirs[1].ents # <<>>)
Inputs(n) == {x \in Raw(n) : DistinctNames(x) /\ (Admit = AllClasses \/ Classes(x) \subseteq Admit)}

Init ==
    /\ inp \in Inputs(N)
    /\ pos = 0 /\ cur = [m \in Mechs |-> Fresh] /\ acc = [m \in Mechs |-> <<>>]
    /\ out = [m \in Mechs |-> [crash |-> FALSE, dirs |-> <<>>]] /\ done = FALSE
Spec == Init /\ [][Next]_vars

-----------------------------------------------------------------------------
(* What TLC checks on every enumerated listing                              *)
Admitted == pos = 0 => Admits(inp)            \* the enumeration stays inside what the formats admit (inp never changes)

(* mechanism |= reference *)
Meets(m) ==
    /\ ~out[m].crash
    /\ Len(out[m].dirs) = Len(inp.dirs)
    /\ \A i \in DOMAIN inp.dirs :
         LET o == out[m].dirs[i]  nd == NormalDir(inp, i) IN
         /\ o.key = nd.key                                          \* KeyExact
         /\ nd.total >= 0 => o.total = nd.total                     \* TotalExact
         /\ o.ents = nd.ents                                        \* EntriesExact (grouping, order, every field)
         /\ nd.key # NoneTxt => \A j \in DOMAIN nd.ents :           \* PathEntryFinds
                MechPathDir(m, PathOf(nd.key, nd.ents[j].name)) = nd.key
         /\ \A j \in DOMAIN inp.dirs[i].ents : ~MechRawFails(m, inp.dirs[i].ents[j], inp.fmt)     \* RawEntryDefined
IntendedMeetsReference == done => Meets("intended")
(* the transcription of the code meets the reference exactly outside the recorded classes *)
CodeDeviatesExactlyOnClasses == done => (Meets("code") <=> Classes(inp) = {})
F_CodeMeetsReference == done => Meets("code")                       \* refuted on each class (refutation configs)

(* internal laws of the reference *)
NormalIdempotent == done => Normal(DocOf(Normal(inp), inp)) = Normal(inp)
AccessorsConsistent ==
    done => \A i \in DOMAIN inp.dirs :
        LET nd == NormalDir(inp, i)
            keys == {nd.ents[j].name : j \in DOMAIN nd.ents} IN
        /\ Rng(nd.files) \cup Rng(nd.dirs) \cup Rng(nd.specials) = keys            \* the three lists cover listing_of
        /\ Rng(nd.files) \cap Rng(nd.dirs) = {} /\ Rng(nd.files) \cap Rng(nd.specials) = {}
        /\ Rng(nd.dirs) \cap Rng(nd.specials) = {}                                 \* a name is never in two classes
        /\ Len(nd.files) + Len(nd.dirs) + Len(nd.specials) = Len(nd.ents)
        /\ \A j \in DOMAIN nd.ents :
             /\ nd.ents[j].dir = nd.key
             /\ (nd.ents[j].size = Absent) = (nd.ents[j].major # Absent \/ ~Shown(inp.fmt))   \* size OR device numbers
             /\ (nd.ents[j].major = Absent) = (nd.ents[j].minor = Absent)
             /\ nd.ents[j].haslink = (nd.ents[j].link # <<>>)
             \* the path of an entry leads back to exactly this directory and name
             /\ nd.key # NoneTxt => \A i2 \in DOMAIN inp.dirs : \A j2 \in DOMAIN inp.dirs[i2].ents :
                    PathOf(Key(inp, i2), inp.dirs[i2].ents[j2].name) = PathOf(nd.key, nd.ents[j].name) => (i2 = i /\ j2 = j)
RoughTokensWellFormed ==
    done => \A e \in AllEnts(inp) : LET ts == RoughTokens(e, inp.fmt) IN \A k \in DOMAIN ts : ts[k] # ""

=============================================================================
