----------------------------- MODULE DrGraphMC -----------------------------
(* Model-checking wrapper of DrGraph: emits one CASE record per answered    *)
(* question (program + add_dependency calls + question, or a raw graph) for *)
(* the replay driver, and provides randomised Define / AddDep / Ask steps   *)
(* for -simulate (programs beyond the exhaustive bounds).                   *)
EXTENDS DrGraph, Json

GraphSeq(Gr) == LET ks == Asc(DOMAIN Gr) IN [i \in DOMAIN ks |-> [k |-> ks[i], vs |-> Asc(Gr[ks[i]])]]

Emit ==
    phase = "done" =>
        PrintT(<<"CASE", ToJson([fam |-> Fam, prog |-> prog, adds |-> adds,
                                 q |-> [t |-> q.t, K |-> Asc(q.K), root |-> q.root, pres |-> Asc(q.pres)],
                                 raw |-> IF Fam = "raw" THEN GraphSeq(G) ELSE <<>>])>>)

NoPrefix == <<>>
(* two registry points with one parser each: what rules are written over *)
PtDecl(k)  == [kind |-> "point", typ |-> "base", grp |-> 1, prio |-> 1, decl |-> PointDecl]
Parser(d)  == [kind |-> "comp", typ |-> "base", grp |-> 1, prio |-> 1, decl |-> <<Item("req", <<d>>)>>]
ParserPrefix == <<PtDecl(1), PtDecl(2), Parser(1), Parser(2)>>
(* ... and a condition that requires the first parser and at least the second *)
CondPrefix == ParserPrefix \o <<[kind |-> "comp", typ |-> "base", grp |-> 1, prio |-> 1,
                                  decl |-> <<Item("req", <<3>>), Item("grp", <<4>>)>>]>>

Pick(S) == {RandomElement(S)}          \* a singleton: the choice is made once, then bound

(* a random declaration: every earlier component is named with probability  *)
(* about 2 in 5 (dense graphs hide the partition), in one of the ways of     *)
(* LabelSet                                                                  *)
RandLab(c) == [j \in Low(c) |-> IF RandomElement(1..5) <= 2 THEN RandomElement(LabelSet) ELSE "none"]

DefineSim ==
    /\ phase = "define" /\ Len(prog) < N
    /\ \E k \in Pick(KindSet) :
       \E ty \in Pick(IF k = "comp" THEN TypSet ELSE {"base"}), g \in Pick(IF k = "point" THEN {1} ELSE GrpSet),
          pr \in Pick(IF k = "point" THEN PrioSet ELSE {NeutralPrio}) :
       \E lab \in {IF k = "point" THEN <<>> ELSE RandLab(Len(prog) + 1)} :
          DefineWith(k, ty, g, pr, IF k = "point" THEN PointDecl ELSE DeclOfLabels(lab))

EndDefineSim == EndDefine /\ (Len(prog) = N \/ RandomElement(1..6) = 1)

AddDepSim ==
    /\ phase = "adds" /\ Len(adds) < MaxAdds
    /\ LET cand == {cd \in Ids \X Ids : CanAdd(cd[1], cd[2])}
           \* an implementation for a registry point first, and mostly no cycle
           pts  == {cd \in cand : IsPoint(prog, cd[1])}
           fwd  == {cd \in cand : cd[2] < cd[1]} IN
       /\ cand # {}
       /\ \E cd \in Pick(IF pts # {} /\ RandomElement(1..4) # 1 THEN pts
                         ELSE IF fwd # {} /\ RandomElement(1..4) # 1 THEN fwd ELSE cand) : AddDepWith(cd[1], cd[2])

EndAddsSim == EndAdds /\ (Len(adds) = MaxAdds \/ RandomElement(1..3) = 1
                          \/ {cd \in Ids \X Ids : CanAdd(cd[1], cd[2])} = {})

RandSub(S) == {x \in S : RandomElement(1..3) # 1}
AskSim ==
    /\ phase = "ask"
    /\ \E t \in Pick(AskSet) :
         CASE t = "basic" -> AskWith("basic", {}, 0, {})
           [] t \in {"sub", "topo"} ->
                \E K0 \in {RandSub(Ids)} :
                \E K \in {IF K0 = {} THEN Ids ELSE IF KeyMode = "closed" \/ RandomElement(1..2) = 1 THEN Close(D, K0) ELSE K0} :
                    AskWith(t, K, 0, {})
           [] t = "walk" -> \E r \in Pick(Ids) : AskWith("walk", {}, r, {})
           [] t = "specs" ->
                LET ok == {r \in Ids : SpecsAskable(EffProg(prog, adds, Len(adds)), adds, Len(adds), r)} IN
                IF ok = {} THEN AskWith("basic", {}, 0, {}) ELSE \E r \in Pick(ok) : AskWith("specs", {}, r, {})
           [] OTHER -> \E r \in Pick(Ids) : \E pres \in {RandSub(Ids)} : AskWith("help", {}, r, pres)

NextSim == DefineSim \/ EndDefineSim \/ AddDepSim \/ EndAddsSim \/ AskSim
           \/ GrowStart \/ GrowSpread \/ GrowYield \/ GrowEnd \/ Peel \/ PeelEnd \/ Bfs \/ BfsEnd
SpecSim == Init /\ [][NextSim]_vars
=============================================================================
