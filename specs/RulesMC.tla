------------------------------- MODULE RulesMC -------------------------------
(* Emits every explored rule set with every processing order.               *)
EXTENDS Rules, Json
Emit == (phase = "eval" /\ processed = DOMAIN rules) =>
            PrintT(<<"CASE", ToJson([rules |-> rules, order |-> order])>>)
(* the Response constructor table: class x key kind x keyword kind x size class *)
CtorCells == [cls : {"fail", "response", "pass", "info", "fingerprint", "metadata", "metadata_key"},
              key : {"valid", "empty", "none", "nonstr"}, kw : {"plain", "type", "keyname"},
              size : {"below", "at", "above"}]
ASSUME \A c \in CtorCells : PrintT(<<"CASE", ToJson([ctor |-> c])>>)

(* -simulate: one random rule per Define step *)
DefineSim ==
    /\ phase = "define" /\ Len(rules) < R
    /\ \E ret \in {RandomElement(RetSet)}, dep \in {RandomElement(DepSet)}, en \in {RandomElement(EnSet)},
          k \in {RandomElement(1..NKeys)}, m \in {RandomElement(1..NMods)} :
         rules' = Append(rules, [ret |-> ret, dep |-> dep, enabled |-> en, key |-> k, mod |-> m])
    /\ UNCHANGED <<phase, processed, order, buckets, skips, meta, metakeys, excs, shown>>
NextSim == DefineSim \/ Start \/ (\E r \in 1..R : Process(r)) \/ Format
SpecSim == Init /\ [][NextSim]_vars
==============================================================================
