\* the transcription of the code: TLC is EXPECTED to refute I_CleanExact
SPECIFICATION MCSpec
CONSTANTS
  MECH = "code"
  YV = {"none"}
  PV = {"none"}
  LV = {"none"}
  Fam = "leg"
INVARIANT I_CleanExact
CHECK_DEADLOCK FALSE
