\* the transcription of the code on the 'blank' inputs: TLC is EXPECTED to refute F_TempRemoved
SPECIFICATION Spec
CONSTANTS
  Dirs = {}
  Leaves = {"f"}
  MaxFiles = 1
  MaxDepth = 1
  Packs = {"tar"}
  Wraps = {FALSE}
  Evils = {"none"}
  Overrides = {"none"}
  Wheres = {"plain"}
  Injects = {"none"}
  Plugs = {"none"}
  Modes = {"api"}
  Spaces = {"exdir"}
  Mech = "code"
  Admit = {"blank"}
INVARIANT F_TempRemoved
CHECK_DEADLOCK FALSE
