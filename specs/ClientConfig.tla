----------------------------- MODULE ClientConfig -----------------------------
(***************************************************************************)
(* Option resolution of the insights client                                *)
(* (insights/client/config.py: load_all 667-678, _update_dict 519-542,      *)
(* _load_env 544-586, _load_command_line 588-625, _load_config_file         *)
(* 627-665, _imply_options 779-872, _validate_options 680-777).             *)
(*                                                                         *)
(* The option table OptSeq (name, type of the default, default value, kind  *)
(* of command-line switch) is NOT written here: it is extracted from        *)
(* DEFAULT_OPTS of the tree under test at check time and substituted for    *)
(* the constant, so a new option is modelled automatically.                 *)
(*                                                                         *)
(* A configuration `cfg` maps every option name to a tagged value.  Four    *)
(* layers feed it: the defaults, the [insights-client] section of the       *)
(* file, INSIGHTS_* environment variables, command-line switches.  Raw      *)
(* layer contents are texts; FileVal / EnvVal / CliVal say how a text       *)
(* becomes a value (boolean spellings, numeric coercion) as the code        *)
(* documents it.                                                            *)
(*                                                                         *)
(* Property level (C16): Precedence, UnknownIgnored, OfflineConsistent,     *)
(* OutputConsistent, ObfuscationConsistent, RejectedNotResolved.            *)
(* Design level: LoadFile, LoadEnv, LoadCli, Imply, Validate as functions;  *)
(* TLC checks that the design satisfies the property on every explored      *)
(* case; ClientConfigTrace checks the same predicates on what the real      *)
(* load_all() was observed to do.                                           *)
(***************************************************************************)
EXTENDS Naturals, Sequences, FiniteSets, TLC

CONSTANTS OptSeq        \* << [name, type, def, cli], ... >> generated from DEFAULT_OPTS

(* ---- tagged values (one record shape, so that TLC can compare them) ---- *)
B(x)     == [t |-> "bool",  b |-> x,     n |-> 0, s |-> ""]
I(k)     == [t |-> "int",   b |-> FALSE, n |-> k, s |-> ""]
Fl(r)    == [t |-> "float", b |-> FALSE, n |-> 0, s |-> r]     \* r: Python repr of the float
S(x)     == [t |-> "str",   b |-> FALSE, n |-> 0, s |-> x]
NoneV    == [t |-> "none",  b |-> FALSE, n |-> 0, s |-> ""]
(* Python truthiness ("other": containers, the driver reports bool(value) in b) *)
T(v) == CASE v.t = "bool"  -> v.b
          [] v.t = "int"   -> v.n # 0
          [] v.t = "float" -> v.s \notin {"0.0", "-0.0"}
          [] v.t = "str"   -> v.s # ""
          [] v.t = "other" -> v.b
          [] OTHER         -> FALSE
Or(a, b)     == IF T(a) THEN a ELSE b               \* Python `a or b`
AndNot(a, b) == IF T(a) THEN B(~T(b)) ELSE a        \* Python `a and not b`

(* ---- the option table ---- *)
OptIdx     == DOMAIN OptSeq
OptNames   == {OptSeq[i].name : i \in OptIdx}
OptTable   == [n \in OptNames |-> OptSeq[CHOOSE i \in OptIdx : OptSeq[i].name = n]]
Default(n) == OptTable[n].def
TypeOf(n)  == OptTable[n].type                      \* "bool" | "int" | "float" | "str"
CliKind(n) == OptTable[n].cli                       \* "none" | "flag_true" | "flag_false" | "store" | "store_int" | "optarg"
Defaults   == [n \in OptNames |-> Default(n)]

(* ---- spellings ---- *)
FileTrue  == {"1", "yes", "true", "on", "Yes", "True", "TRUE", "On", "YES", "ON"}       \* configparser.getboolean
FileFalse == {"0", "no", "false", "off", "No", "False", "FALSE", "Off", "NO", "OFF"}
EnvTrue   == {"true", "True", "TRUE", "tRuE"}                                            \* _boolify: v.lower()
EnvFalse  == {"false", "False", "FALSE", "fAlSe"}
IntWords   == [w \in {"0", "1", "3", "7", "45", "300"} |->
                 CASE w = "0" -> 0 [] w = "1" -> 1 [] w = "3" -> 3 [] w = "7" -> 7 [] w = "45" -> 45 [] OTHER -> 300]
FloatWords == [w \in {"0", "1", "3", "7", "45", "300", "7.5", "0.25"} |->
                 CASE w = "0" -> "0.0" [] w = "1" -> "1.0" [] w = "3" -> "3.0" [] w = "7" -> "7.0"
                   [] w = "45" -> "45.0" [] w = "300" -> "300.0" [] w = "7.5" -> "7.5" [] OTHER -> "0.25"]
Bad == [t |-> "bad", b |-> FALSE, n |-> 0, s |-> ""]
(* Every source can also SET an option explicitly to its own default value:  *)
(* DefWord(n) is the text that spells the default of n (numbers and texts;   *)
(* booleans are covered by the boolean words, None has no spelling).         *)
HasDefWord(n) == Default(n).t \in {"int", "float", "str"}
DefWord(n)    == IF Default(n).t = "int" THEN ToString(Default(n).n) ELSE Default(n).s
IntOf(n, w)   == IF w \in DOMAIN IntWords THEN I(IntWords[w])
                 ELSE IF Default(n).t = "int" /\ w = DefWord(n) THEN Default(n) ELSE Bad
FloatOf(n, w) == IF w \in DOMAIN FloatWords THEN Fl(FloatWords[w])
                 ELSE IF Default(n).t = "float" /\ w = DefWord(n) THEN Default(n) ELSE Bad
(* Texts that a parser could be tempted to take apart (percent signs,       *)
(* %(name)s / ${name} references to other keys, doubled percent signs,       *)
(* comment and delimiter characters inside the value).  For an option that   *)
(* is not typed by its default "the value given" in a source is the text as  *)
(* written there: FileVal / EnvVal / CliVal give S(w) for them like for any  *)
(* other word; they are named here so that cases and diagnoses can refer to  *)
(* them.                                                                     *)
LiteralWords == {"100%safe", "a%%b", "%(username)s", "${username}", "p%40ss:x=y", "a;b#c"}

(* value of a text in the configuration file: booleans and numbers are     *)
(* typed by the option's default; an ill-typed text is Bad                  *)
FileVal(n, w) ==
    CASE TypeOf(n) = "bool"  -> IF w \in FileTrue THEN B(TRUE) ELSE IF w \in FileFalse THEN B(FALSE) ELSE Bad
      [] TypeOf(n) = "int"   -> IntOf(n, w)
      [] TypeOf(n) = "float" -> FloatOf(n, w)
      [] OTHER               -> S(w)
(* value of a text in the environment: "true"/"false" in any case become    *)
(* booleans for EVERY option, numeric options are coerced afterwards        *)
EnvVal(n, w) ==
    LET v == IF w \in EnvTrue THEN B(TRUE) ELSE IF w \in EnvFalse THEN B(FALSE) ELSE S(w) IN
    CASE TypeOf(n) = "int"   -> IF v.t = "bool" THEN I(IF v.b THEN 1 ELSE 0)
                                ELSE IntOf(n, w)
      [] TypeOf(n) = "float" -> IF v.t = "bool" THEN Fl(IF v.b THEN "1.0" ELSE "0.0")
                                ELSE FloatOf(n, w)
      [] OTHER               -> v
(* value of a command-line occurrence [name, has, arg] *)
CliVal(n, c) ==
    CASE CliKind(n) = "flag_true"  -> B(TRUE)
      [] CliKind(n) = "flag_false" -> B(FALSE)
      [] CliKind(n) = "store_int"  -> IntOf(n, c.arg)
      [] CliKind(n) = "optarg"     -> IF c.has THEN S(c.arg) ELSE B(TRUE)
      [] OTHER                     -> S(c.arg)

(* ---- layers: sets of [name, text] (file, env) / [name, has, arg] (cli) ---- *)
Names(L)   == {r.name : r \in L}
At(L, n)   == CHOOSE r \in L : r.name = n
Known(L)   == {r \in L : r.name \in OptNames}          \* update guard: unknown names are dropped

FileUsable(lay) == lay.fstate = "ok" /\ \A r \in Known(lay.file) : FileVal(r.name, r.text) # Bad
EnvUsable(lay)  == \A r \in Known(lay.env) : EnvVal(r.name, r.text) # Bad

(* what a layer assigns, as a function on the option names it mentions;     *)
(* `no_gpg` set to something true in a layer means gpg = False in it        *)
Assign(raw, V(_, _)) ==
    LET own == [n \in Names(raw) |-> V(n, At(raw, n))] IN
    IF "no_gpg" \in DOMAIN own /\ T(own["no_gpg"]) /\ "gpg" \in OptNames
      THEN [n \in DOMAIN own \cup {"gpg"} |-> IF n = "gpg" THEN B(FALSE) ELSE own[n]]
      ELSE own
FileLayer(lay) == IF FileUsable(lay) THEN Assign(Known(lay.file), LAMBDA n, r : FileVal(n, r.text))
                  ELSE [n \in {} |-> Bad]
EnvLayer(lay)  == Assign(Known(lay.env), LAMBDA n, r : EnvVal(n, r.text))
CliLayer(lay)  == Assign(Known(lay.cli), LAMBDA n, r : CliVal(n, r))

Overlay(c, L) == [n \in OptNames |-> IF n \in DOMAIN L THEN L[n] ELSE c[n]]

(***************************************************************************)
(* Property level                                                           *)
(***************************************************************************)
(* first present of command line, environment, file, default                *)
Layers(lay) == [cli |-> CliLayer(lay), env |-> EnvLayer(lay), file |-> FileLayer(lay)]
ResolveIn(L, n) ==
    IF n \in DOMAIN L.cli THEN L.cli[n]
    ELSE IF n \in DOMAIN L.env THEN L.env[n]
    ELSE IF n \in DOMAIN L.file THEN L.file[n]
    ELSE Default(n)
SourceIn(L, n) ==
    IF n \in DOMAIN L.cli THEN "cli"
    ELSE IF n \in DOMAIN L.env THEN "env"
    ELSE IF n \in DOMAIN L.file THEN "file" ELSE "default"
Resolve(lay, n) == ResolveIn(Layers(lay), n)
Source(lay, n)  == SourceIn(Layers(lay), n)
PrecedenceAt(lay, c, n) == c[n] = Resolve(lay, n)
Precedence(lay, c)      == LET L == Layers(lay) IN \A n \in OptNames : c[n] = ResolveIn(L, n)

NetActions == <<"status", "test_connection", "checkin", "unregister", "check_results", "diagnosis", "to_json">>
Has(c, n)  == n \in DOMAIN c /\ T(c[n])
OfflineBreaks(c) ==      \* the options that contradict offline mode in c
    IF ~Has(c, "offline") THEN {}
    ELSE {n \in {"no_upload"} : n \in DOMAIN c /\ ~T(c[n])}
         \cup {n \in {"register", "auto_update"} : Has(c, n)}
         \cup {NetActions[i] : i \in {j \in DOMAIN NetActions : Has(c, NetActions[j])}}
OfflineConsistent(c) == OfflineBreaks(c) = {}
OutputBreaks(c) ==
    IF ~(Has(c, "output_dir") \/ Has(c, "output_file")) THEN {}
    ELSE {n \in {"no_upload"} : n \in DOMAIN c /\ ~T(c[n])} \cup {n \in {"keep_archive"} : Has(c, n)}
OutputConsistent(c) == OutputBreaks(c) = {}
ObfuscationConsistent(c) == Has(c, "obfuscate_hostname") => Has(c, "obfuscate")

(* the combinations C16 says must be refused, on the options as loaded      *)
Conflicts(c) ==
    (IF Has(c, "offline") THEN {NetActions[i] : i \in {j \in DOMAIN NetActions : Has(c, NetActions[j])}} ELSE {})
    \cup (IF Has(c, "obfuscate_hostname") /\ ~Has(c, "obfuscate") THEN {"obfuscate_hostname"} ELSE {})
RejectedNotResolved(loaded, outcome) == outcome = "ok" => Conflicts(loaded) = {}

(* the options the implication table of C16 talks about                     *)
TableOpts == {"offline", "no_upload", "register", "auto_update", "keep_archive", "to_json", "quiet", "status",
              "test_connection", "checkin", "unregister", "check_results", "diagnosis", "obfuscate",
              "obfuscate_hostname", "output_dir", "output_file"} \cap OptNames

(***************************************************************************)
(* Design level: _imply_options and _validate_options                       *)
(***************************************************************************)
Set(c, n, v) == IF n \in DOMAIN c THEN [c EXCEPT ![n] = v] ELSE c
G(c, n)      == IF n \in DOMAIN c THEN c[n] ELSE NoneV
ValidCompressors == {"gz", "xz", "bz2", "none"}
KnownApps        == {"default", "compliance", "malware-detection"}

ImplyF(c, cliAnsible) ==
    LET c1  == Set(Set(c, "no_upload", Or(G(c, "no_upload"), G(c, "offline"))),
                   "auto_update", AndNot(G(c, "auto_update"), G(c, "offline")))
        c2  == IF \E n \in {"analyze_container", "analyze_file", "analyze_mountpoint", "analyze_image_id"} : Has(c1, n)
                 THEN Set(c1, "analyze_container", B(TRUE)) ELSE c1
        c3  == Set(c2, "to_json", Or(G(c2, "to_json"), G(c2, "analyze_container")))
        c4  == Set(c3, "register", AndNot(G(c3, "register"), G(c3, "offline")))
        c5  == Set(c4, "keep_archive", Or(G(c4, "keep_archive"), G(c4, "no_upload")))
        c6  == IF Has(c5, "to_json") /\ Has(c5, "quiet") THEN Set(c5, "diagnosis", B(TRUE)) ELSE c5
        c7  == IF Has(c6, "test_connection") THEN Set(c6, "net_debug", B(TRUE)) ELSE c6
        c8  == IF \E n \in {"payload", "diagnosis", "check_results", "checkin"} : Has(c7, n)
                 THEN Set(c7, "legacy_upload", B(FALSE)) ELSE c7
        c9  == IF Has(c8, "output_dir") \/ Has(c8, "output_file")
                 THEN Set(Set(c8, "no_upload", B(TRUE)), "keep_archive", B(FALSE)) ELSE c8
        c10 == IF G(c9, "compressor").t = "str" /\ G(c9, "compressor").s \in ValidCompressors
                 THEN c9 ELSE Set(c9, "compressor", S("gz"))
        c11 == IF Has(c10, "app")
                 THEN Set(Set(c10, "legacy_upload", B(FALSE)), "manifest",
                          IF G(c10, "app").s \in KnownApps THEN S("manifest-of-app") ELSE NoneV)
                 ELSE c10
        c12 == IF \E n \in {"compliance", "compliance_policies", "compliance_assign", "compliance_unassign"} : Has(c11, n)
                 THEN Set(Set(c11, "legacy_upload", B(FALSE)), "manifest", S("manifest-of-compliance")) ELSE c11
        c13 == IF cliAnsible /\ ~Has(c12, "register") THEN Set(c12, "legacy_upload", B(FALSE)) ELSE c12
    IN c13

(* first reason _validate_options refuses c, or "" (output paths are        *)
(* assumed usable: a new name in an existing directory)                     *)
Refusal(c) ==
    IF \E n \in {"analyze_image_id", "analyze_file", "analyze_mountpoint", "analyze_container",
                 "use_atomic", "use_docker"} : Has(c, n)                       THEN "unsupported"
    ELSE IF Has(c, "obfuscate_hostname") /\ ~Has(c, "obfuscate")               THEN "obfuscate_hostname"
    ELSE IF Has(c, "enable_schedule") /\ Has(c, "disable_schedule")            THEN "schedule"
    ELSE IF Has(c, "payload") /\ ~Has(c, "content_type")                       THEN "payload"
    ELSE IF Has(c, "offline") /\ \E i \in DOMAIN NetActions : Has(c, NetActions[i]) THEN "offline"
    ELSE IF Has(c, "output_dir") /\ Has(c, "output_file")                      THEN "output-both"
    ELSE IF G(c, "output_dir") = S("") \/ G(c, "output_file") = S("")          THEN "output-empty"
    ELSE IF Has(c, "module") /\ G(c, "module").s \notin {"insights.client.apps.x"} THEN "module"
    ELSE IF Has(c, "app") /\ ~Has(c, "manifest")                               THEN "app"
    ELSE ""

(***************************************************************************)
(* The state machine explored by TLC: one behaviour = one load_all().       *)
(***************************************************************************)
VARIABLES lay,      \* [fstate, file, env, cli]: the raw layers of this case
          cfg,      \* current configuration
          phase,    \* "pick" "start" "file" "env" "loaded" "implied" "ok" "error"
          loaded    \* cfg as it was when loading finished (history, for RejectedNotResolved)
vars == <<lay, cfg, phase, loaded>>

NoLayers == [fstate |-> "ok", file |-> {}, env |-> {}, cli |-> {}]

LoadFile == /\ phase = "start"
            /\ cfg' = Overlay(cfg, FileLayer(lay))
            /\ phase' = "file" /\ UNCHANGED <<lay, loaded>>
LoadEnv  == /\ phase = "file"
            /\ IF EnvUsable(lay) THEN cfg' = Overlay(cfg, EnvLayer(lay)) /\ phase' = "env"
                                 ELSE cfg' = cfg /\ phase' = "error"      \* ValueError: invalid number
            /\ UNCHANGED <<lay, loaded>>
LoadCli  == /\ phase = "env"
            /\ cfg' = Overlay(cfg, CliLayer(lay))
            /\ loaded' = cfg'
            /\ phase' = "loaded" /\ UNCHANGED lay
Imply    == /\ phase = "loaded"
            /\ cfg' = ImplyF(cfg, "ansible_host" \in Names(lay.cli))
            /\ phase' = "implied" /\ UNCHANGED <<lay, loaded>>
Validate == /\ phase = "implied"
            /\ phase' = IF Refusal(cfg) = "" THEN "ok" ELSE "error"
            /\ UNCHANGED <<lay, cfg, loaded>>
Load == LoadFile \/ LoadEnv \/ LoadCli \/ Imply \/ Validate

(* ---- invariants of the design ---- *)
Inv_Precedence     == phase = "loaded" => Precedence(lay, cfg)
Inv_UnknownIgnored == DOMAIN cfg = OptNames
Inv_Offline        == phase = "ok" => OfflineConsistent(cfg)
Inv_Output         == phase = "ok" => OutputConsistent(cfg)
Inv_Obfuscation    == phase = "ok" => ObfuscationConsistent(cfg)
Inv_Rejected       == phase = "ok" => Conflicts(loaded) = {}
(* the design refuses exactly the listed conflicts among the table options  *)
Inv_ConflictsRefused == (phase = "error" /\ Refusal(cfg) = "offline") => Conflicts(loaded) # {}

=============================================================================
