------------------------------ MODULE SerdeTrace ------------------------------
(***************************************************************************)
(* Trace validation for Serde: one trace = one archive that the real        *)
(* Hydration.dehydrate wrote (through the broker observer), that was then   *)
(* damaged on disk, and that the real Hydration.hydrate /                   *)
(* initialize_broker loaded into a fresh broker (harness/drive_serde.py).   *)
(*                                                                         *)
(* events                                                                   *)
(*   collected : the broker after collection -- per component the kind,     *)
(*               multi/single, failed, and per readable element the lines   *)
(*               (atoms), cmd, args                                         *)
(*   persisted : what is on disk after dehydrate -- per component the       *)
(*               metadata document (parsed by the driver with json alone)   *)
(*               -- plus the environment cross-checks (R4): for every data  *)
(*               file its content as atoms/NL and what Python's own line    *)
(*               iteration makes of it, and "\n".join of the lines          *)
(*   corrupt   : the damage applied per component                           *)
(*   hydrated  : the fresh broker -- per component present / elements with  *)
(*               lines, cmd, args, relative_path -- or that hydrate raised  *)
(*                                                                         *)
(* Clauses starting with "R4." are cross-checks of the model's text         *)
(* operators against the interpreter, reported as machinery failures.       *)
(***************************************************************************)
EXTENDS Serde, Json, IOUtils, TLCExt

Batch == JsonDeserialize(IOEnv.TRACE_FILE)

VARIABLES tid, l, dead
tvars == <<vars, tid, l, dead>>

T    == Batch[tid]
Ev   == T.events[l + 1]
More == l < Len(T.events) /\ ~dead

S == DOMAIN entries                   \* the components of this archive

FromSeq(q) == [c \in DOMAIN q |-> q[c]]
Blank(n, x) == [c \in 1..n |-> x]

(* ---- collected --------------------------------------------------------- *)
CollectedOK == TRUE

(* ---- persisted --------------------------------------------------------- *)
EnvOK == \A i \in DOMAIN Ev.env :
            /\ Lines(Ev.env[i].file) = Ev.env[i].split          \* Python's line iteration
            /\ Join(Ev.env[i].lines) = Ev.env[i].joined         \* "\n".join
PersistedOK == EnvOK /\ ErrorsPersistedFor(S, entries, FromSeq(Ev.docs))

DiagPersisted ==
    IF ~EnvOK THEN
        (IF \E i \in DOMAIN Ev.env : Lines(Ev.env[i].file) # Ev.env[i].split THEN "R4.split" ELSE "R4.join")
    ELSE LET c == CHOOSE c \in S : entries[c].failed /\ ~(Ev.docs[c].present /\ Ev.docs[c].nerrors >= 1) IN
         "ErrorsPersisted:failed-component-without-errors:" \o entries[c].outcome \o ":" \o
         (IF entries[c].backed THEN "implements-registry-point" ELSE "stand-alone-datasource")

(* ---- hydrated ---------------------------------------------------------- *)
Ld == FromSeq(Ev.loaded)
HydratedOK ==
    /\ ~Ev.escaped
    /\ FaultIsolationFor(S, meta, fault, Ld)
    /\ RoundTripFor(S, entries, meta, fault, Ld)

ModeNames == <<"deleted", "truncated", "nonjson", "unknown", "shape", "datagone", "unopenable">>
RECURSIVE ModesText(_)
ModesText(i) ==
    IF i > Len(ModeNames) THEN ""
    ELSE (IF \E c \in S : fault[c] = ModeNames[i] THEN "+" \o ModeNames[i] ELSE "") \o ModesText(i + 1)
Faults == IF \A c \in S : fault[c] = "none" THEN "none" ELSE ModesText(1)

LateTag(c) == IF entries[c].late THEN ":registered-after-first-load" ELSE ""
Feat(c) == "kind=" \o entries[c].kind \o ":" \o (IF entries[c].multi THEN "multi" ELSE "single") \o
           ":saveas=" \o entries[c].saveas \o (IF entries[c].filtered THEN ":filtered-spec" ELSE "") \o LateTag(c)

Perms(n) == {f \in [1..n -> 1..n] : \A i, j \in 1..n : i # j => f[i] # f[j]}

DiagEntry(c) ==
    LET e == entries[c]  ld == Ld[c]  res == meta[c].res IN
    IF ld.multi # e.multi THEN "multi-shape"
    ELSE IF Len(ld.elems) # Len(res) THEN "element-count"
    ELSE IF Len(ld.elems) # Len(e.elems) THEN "elements"
    ELSE IF \E f \in Perms(Len(e.elems)) :
              \A i \in DOMAIN ld.elems : ElemOK(e.kind, e.elems[f[i]], ld.elems[i], res[i].rel) THEN "element-order"
    ELSE LET i == CHOOSE i \in DOMAIN ld.elems : ~ElemOK(e.kind, e.elems[i], ld.elems[i], res[i].rel) IN
         IF ~LinesOK(e.elems[i].lines, ld.elems[i].lines) THEN
             (IF Len(ld.elems[i].lines) # Len(e.elems[i].lines) THEN "lines-count" ELSE "lines-text")
         ELSE IF e.kind \in CmdKinds /\ ld.elems[i].cmd # e.elems[i].cmd THEN "cmd"
         ELSE IF e.kind \in CmdKinds /\ ld.elems[i].args # e.elems[i].args THEN "args"
         ELSE "relative-location"

DiagHydrated ==
    IF Ev.escaped THEN "FaultIsolation:hydrate-raised:faults=" \o Faults
    ELSE IF \E c \in S : MustLoadFor(c, meta, fault) /\ ~Ld[c].present THEN
        (LET c == CHOOSE c \in S : MustLoadFor(c, meta, fault) /\ ~Ld[c].present IN
         IF Faults = "none" THEN "RoundTrip:persisted-entry-not-loaded:" \o Feat(c)
         ELSE "FaultIsolation:intact-entry-not-loaded:kind=" \o entries[c].kind \o LateTag(c) \o ":faults=" \o Faults)
    ELSE IF ~FaultIsolationFor(S, meta, fault, Ld) THEN "FaultIsolation:phantom-entry-loaded"
    ELSE LET c == CHOOSE c \in S : Ld[c].present /\ fault[c] = "none" /\ ~EntryOK(entries[c], Ld[c], meta[c].res) IN
         "RoundTrip:" \o DiagEntry(c) \o ":" \o Feat(c)

(* ------------------------------------------------------------------------ *)
Accepts ==
    CASE Ev.ev = "collected" -> CollectedOK
      [] Ev.ev = "persisted" -> PersistedOK
      [] Ev.ev = "corrupt"   -> TRUE
      [] Ev.ev = "hydrated"  -> HydratedOK
      [] OTHER -> FALSE

Diagnose ==
    CASE Ev.ev = "persisted" -> DiagPersisted
      [] Ev.ev = "hydrated"  -> DiagHydrated
      [] OTHER -> "unknown-event"

Keep == UNCHANGED <<pos, data, hyd, pooled, inflight>>
Apply ==
    CASE Ev.ev = "collected" ->
            /\ entries' = FromSeq(Ev.comps)
            /\ meta' = Blank(Len(Ev.comps), NoDoc) /\ fault' = Blank(Len(Ev.comps), "none")
            /\ loaded' = Blank(Len(Ev.comps), Absent) /\ phase' = "collect" /\ Keep
      [] Ev.ev = "persisted" ->
            /\ meta' = FromSeq(Ev.docs) /\ phase' = "corrupt" /\ UNCHANGED <<entries, fault, loaded>> /\ Keep
      [] Ev.ev = "corrupt" ->
            /\ fault' = FromSeq(Ev.fault)
            /\ meta' = DamageAll(FromSeq(Ev.fault), {c \in S : Ev.fault[c] # "none"}, meta)
            /\ phase' = "load" /\ UNCHANGED <<entries, loaded>> /\ Keep
      [] OTHER ->
            /\ loaded' = Ld /\ phase' = "done" /\ UNCHANGED <<entries, meta, fault>> /\ Keep

Idle == /\ phase = "collect" /\ entries = <<>> /\ pos = 1 /\ meta = <<>> /\ data = {} /\ fault = <<>>
        /\ hyd = <<>> /\ loaded = <<>> /\ pooled = FALSE /\ inflight = NoFlight

TraceInit == tid = 1 /\ l = 0 /\ dead = FALSE /\ Idle

TraceNext ==
    /\ tid <= Len(Batch)
    /\ IF ~More
         THEN /\ TLCSet(2, TLCGet(2) + l)
              /\ tid' = tid + 1 /\ l' = 0 /\ dead' = FALSE
              /\ phase' = "collect" /\ entries' = <<>> /\ meta' = <<>> /\ fault' = <<>> /\ loaded' = <<>> /\ Keep
         ELSE IF Accepts
           THEN Apply /\ l' = l + 1 /\ UNCHANGED <<tid, dead>>
           ELSE /\ TLCSet(1, TLCGet(1) \cup {[id |-> T.id, line |-> l + 1, clause |-> Diagnose]})
                /\ l' = l + 1 /\ dead' = TRUE /\ UNCHANGED <<vars, tid>>
TraceSpec == TraceInit /\ [][TraceNext]_tvars

ASSUME TLCSet(1, {}) /\ TLCSet(2, 0)

Post ==
    /\ \A r \in TLCGet(1) : PrintT(<<"REJ", ToJson(r)>>)
    /\ PrintT(<<"STAT", ToJson([traces |-> Len(Batch), events |-> TLCGet(2)])>>)

=============================================================================
