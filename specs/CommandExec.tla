---------------------------- MODULE CommandExec ----------------------------
(***************************************************************************)
(* Command execution of insights-core: how a command or a pipeline of      *)
(* commands is run and what the caller gets back                           *)
(*   insights/util/subproc.py     Pipeline, call, CalledProcessError        *)
(*   insights/util/streams.py     stream, connect                           *)
(*   insights/core/context.py     ExecutionContext.check_output, shell_out, *)
(*                                stream, connect, HostContext timeouts     *)
(*   insights/core/spec_factory.py CommandOutputProvider.load / _stream     *)
(*                                (simple_command: SAFE_ENV, inherit_env,   *)
(*                                override_env, keep_rc, the grep stage)    *)
(*                                                                         *)
(* A CASE is one call: a pipeline of 1..3 abstract stage processes, the    *)
(* entry point used, and its arguments.  A stage is a behaviour record     *)
(*   rd   "no" | "drain" | "pass": ignores stdin / reads it to EOF / copies *)
(*        it to its output (then writes its own lines)                     *)
(*   out  own output lines, kinds "p" plain, "b" with bytes that are not    *)
(*        UTF-8, "L" longer than a pipe buffer                             *)
(*   rc   "0" "1" "2" "127" exit status, "sig" dies of SIGTERM, "nf" the    *)
(*        command does not exist                                           *)
(*   slow sleeps longer than any timeout after writing its output          *)
(*   err  writes one more line to stderr                                   *)
(*                                                                         *)
(* Two layers (as in ArchiveContext).                                      *)
(*  REFERENCE  what docstrings and comments promise, as functions of the   *)
(*             case: RefOut, Fail, AllowedKeepRc, FailStatuses, RefEnv ... *)
(*  MECHANISM  a state machine over processes, pipes, a three-instant      *)
(*             clock and the parent: Spawn, ReadStdin, Read (Connect),     *)
(*             Emit (Output), Wake, End (Exit), Epipe, TimeoutKill,        *)
(*             Collect / Return (Raise), SpawnFail, Tick.  mech = "code"   *)
(*             transcribes what the code does (only the first stage of a   *)
(*             Pipeline is wrapped in `timeout`, only the last stage is    *)
(*             waited for and only its status is looked at, the parent     *)
(*             keeps its copies of the pipe ends, streams inherit stdin,   *)
(*             decode strictly and look commands up in os.environ);        *)
(*             mech = "intended" is the specified behaviour.               *)
(* TLC checks MECHANISM |= REFERENCE on every case of a family; the        *)
(* classes of cases on which the transcription is known to leave the       *)
(* reference (Classes, Admit) are refuted in separate configurations.      *)
(* CommandExecTrace.tla judges recorded executions of the REAL code with   *)
(* the REFERENCE operators only.                                           *)
(***************************************************************************)
EXTENDS Naturals, Sequences, FiniteSets, TLC

CONSTANTS
    MaxN,      \* stages per pipeline (1..3)
    Rd1, RdK,  \* stdin behaviours of the first / of later stages
    Outs,      \* own outputs a stage may have, one letter per line: "" "p" "b" "L" "pp" "pb" "bp" "pL" "Lp"
    Rcs,       \* exit behaviours
    Slows, Errs,
    MaxOdd,    \* at most this many stages differ from the default stage (bounds the product)
    Apis,      \* "call" "pipe" "write" "shell" "connect" "prov" "provs"
    Keeps,     \* keep_rc
    Tmos,      \* "none" | "arg" (timeout argument) | "ctx" (context default) | "both" (argument short, context long)
    Sigs,      \* "KILL" | "TERM" (signum)
    Splits,    \* split argument (shell_out / simple_command)
    Forms,     \* "list" (argv lists) | "str" (command strings, shlex.split by the code)
    Metas,     \* BOOLEAN: every stage gets an argument full of shell metacharacters
    Envs,      \* "none" (not passed) | "given" (explicit dict) | "safe" | "safep" (simple_command: + inherit_env / override_env)
    Bares,     \* BOOLEAN: commands are bare names to be found through PATH
    Flts,      \* "none" | "hit" | "miss": filter registered for the spec (simple_command)
    Mechs,     \* subset of {"code", "intended"}: the mechanisms explored (chosen with the case)
    Admit      \* classes of known deviations admitted with mech = "code"

-----------------------------------------------------------------------------
Range(s)    == {s[i] : i \in DOMAIN s}
Last(s)     == s[Len(s)]
RECURSIVE IsSubSeq(_, _)
IsSubSeq(a, b) ==      \* a can be obtained from b by deleting elements
    IF a = <<>> THEN TRUE
    ELSE IF b = <<>> THEN FALSE
    ELSE IF Head(a) = Head(b) THEN IsSubSeq(Tail(a), Tail(b))
    ELSE IsSubSeq(a, Tail(b))

-----------------------------------------------------------------------------
(* cases *)
Beh(rd, out, rc, slow, err) == [rd |-> rd, out |-> out, rc |-> rc, slow |-> slow, err |-> err]
Default1 == Beh("no", "p", "0", FALSE, FALSE)
DefaultK == Beh("pass", "p", "0", FALSE, FALSE)
OutSeq(o) ==
    CASE o = ""   -> <<>>
      [] o = "p"  -> <<"p">>      [] o = "b"  -> <<"b">>      [] o = "L"  -> <<"L">>
      [] o = "pp" -> <<"p", "p">> [] o = "pb" -> <<"p", "b">> [] o = "bp" -> <<"b", "p">>
      [] o = "pL" -> <<"p", "L">> [] o = "Lp" -> <<"L", "p">>
(* a command that does not exist has no behaviour *)
NfBeh == Beh("no", "", "nf", FALSE, FALSE)
NfSet == IF "nf" \in Rcs THEN {NfBeh} ELSE {}
Beh1 == [rd : Rd1, out : Outs, rc : Rcs \ {"nf"}, slow : Slows, err : Errs] \cup {Default1} \cup NfSet
BehK == [rd : RdK, out : Outs, rc : Rcs \ {"nf"}, slow : Slows, err : Errs] \cup {DefaultK} \cup NfSet
(* pipelines of 1..MaxN stages in which at most MaxOdd stages differ from the default stage (built position *)
(* by position, so that the bound also bounds the sets TLC has to construct)                               *)
Pick(i, P)  == IF i \in P THEN (IF i = 1 THEN Beh1 ELSE BehK) ELSE {IF i = 1 THEN Default1 ELSE DefaultK}
OddSets(n)  == {P \in SUBSET (1..n) : Cardinality(P) <= MaxOdd}
Pipelines ==
    UNION {{<<a>> : a \in Pick(1, P)} : P \in OddSets(1)}
    \cup (IF MaxN >= 2 THEN UNION {{<<a, b>> : a \in Pick(1, P), b \in Pick(2, P)} : P \in OddSets(2)} ELSE {})
    \cup (IF MaxN >= 3 THEN UNION {{<<a, b, d>> : a \in Pick(1, P), b \in Pick(2, P), d \in Pick(3, P)} : P \in OddSets(3)}
          ELSE {})

PipeApi(a)   == a \in {"call", "pipe", "write", "shell", "prov"}     \* subproc.Pipeline underneath
StreamApi(a) == a \in {"connect", "provs"}                           \* streams.connect underneath
ProvApi(a)   == a \in {"prov", "provs"}                              \* through a simple_command spec
TextApi(a)   == a \in {"call", "shell", "prov", "connect", "provs"}  \* the result is text (decoded)

Valid(c) ==
    /\ ProvApi(c.api)  => (Len(c.st) = 1 /\ c.form = "str" /\ c.env \in {"safe", "safep"} /\ ~c.bare)
    /\ ~ProvApi(c.api) => (c.flt = "none" /\ c.env \in {"none", "given"})
    /\ c.tmo \in {"ctx", "both"} => c.api \in {"shell", "prov"}
    /\ c.api \notin {"shell", "prov"} => c.split
    /\ c.tmo = "none" => c.sig = "KILL"
    /\ StreamApi(c.api) => (c.sig = "KILL" /\ ~c.keep)
    /\ c.flt # "none" => c.split          \* the grep stage is added only when the output is split

Cases ==
    {c \in [st : Pipelines, api : Apis, keep : Keeps, tmo : Tmos, sig : Sigs, split : Splits, form : Forms,
            meta : Metas, env : Envs, bare : Bares, flt : Flts] : Valid(c)}

(* the stages that really run: simple_command appends `grep -F -e <filters>` *)
GrepStage  == Beh("filter", "", "grep", FALSE, FALSE)
Stages(c)  == IF c.flt # "none" THEN c.st \o <<GrepStage>> ELSE c.st
N(c)       == Len(Stages(c))
Tmo(c)     == c.tmo # "none"
KillStatus(c) == IF c.sig = "KILL" THEN "kill9" ELSE "t124"
(* a stage from which no process can be started, and everything after it *)
NfAt(c)    == {i \in 1..N(c) : Stages(c)[i].rc = "nf"}
Unstartable(c) == NfAt(c) # {}

-----------------------------------------------------------------------------
(* tokens: the lines that travel.  s = stage that wrote it (0: the caller's *)
(* stdin), k = kind ("p" "b" "L", "e" stderr line, "C" caller's line),      *)
(* i = index among the stage's own lines                                    *)
Tok(s, k, i) == [s |-> s, k |-> k, i |-> i]
CallerTok    == Tok(0, "C", 1)
Own(c, i) ==
    LET b == Stages(c)[i]  o == OutSeq(b.out) IN
    [j \in 1..Len(o) |-> Tok(i, o[j], j)] \o (IF b.err THEN <<Tok(i, "e", 1)>> ELSE <<>>)
(* the filter "hit" is a string that the plain lines contain and no other line does *)
FilterKeeps(flt, t) == flt = "hit" /\ t.k = "p"
Through(c, i, in) ==
    LET b == Stages(c)[i] IN
    CASE b.rd = "pass"   -> in
      [] b.rd = "filter" -> SelectSeq(in, LAMBDA t : FilterKeeps(c.flt, t))
      [] OTHER           -> <<>>

-----------------------------------------------------------------------------
(* REFERENCE *)
(* what the last stage writes: "The output of the last command is written   *)
(* to out_stream"; stderr of every stage goes where its stdout goes         *)
(* ("redirect stderr to stdout for all processes"); the first stage reads   *)
(* nothing (stdin is closed / empty)                                        *)
RECURSIVE OutOf(_, _)
OutOf(c, i) == Through(c, i, IF i = 1 THEN <<>> ELSE OutOf(c, i - 1)) \o Own(c, i)
RefOut(c)   == OutOf(c, N(c))

(* exit status of the grep stage: 1 when it selects nothing *)
GrepRc(c)   == IF Through(c, N(c), OutOf(c, N(c) - 1)) = <<>> THEN "1" ELSE "0"
DeclRc(c, i) == IF Stages(c)[i].rc = "grep" THEN GrepRc(c) ELSE Stages(c)[i].rc
TimedOut(c) == Tmo(c) /\ \E i \in 1..N(c) : Stages(c)[i].slow
(* "CalledProcessError if any return code in the pipeline is nonzero";       *)
(* "If the timeout is reached before the command returns, a                 *)
(* CalledProcessError is raised"                                            *)
Fail(c)     == TimedOut(c) \/ \E i \in 1..N(c) : DeclRc(c, i) # "0"
(* a stage in front of one that never reads may die of SIGPIPE before it    *)
(* fails or is timed out: its failure is possible, not certain              *)
Shielded(c, i) == \E j \in (i + 1)..N(c) : Stages(c)[j].rd = "no"
CertainFail(c) == \E i \in 1..N(c) : ~Shielded(c, i) /\ (DeclRc(c, i) # "0" \/ (Tmo(c) /\ Stages(c)[i].slow))
(* statuses stage i can end with (a reader behind a killed stage may or may *)
(* not be caught by its own timeout)                                        *)
PossStat(c, i) == {DeclRc(c, i)} \cup (IF TimedOut(c) THEN {KillStatus(c)} ELSE {})
FailStatuses(c) == UNION {PossStat(c, i) \ {"0"} : i \in 1..N(c)}
(* keep_rc: "an (exit code, output) tuple" - reading: the status of the     *)
(* last stage, or that of a stage that failed                               *)
AllowedKeepRc(c) ==
    IF ~Fail(c) THEN {"0"}
    ELSE PossStat(c, N(c)) \cup UNION {PossStat(c, i) \ {"0"} : i \in 1..(N(c) - 1)}
(* when a timeout strikes, what was written before is all that is demanded  *)
Racy(c)     == TimedOut(c)
(* a writer whose reader never reads may die of SIGPIPE: no verdict on its  *)
(* status                                                                   *)
Unread(c)   == \E i \in 2..N(c) : Stages(c)[i].rd = "no"
OutOK(c, out) == IF Racy(c) THEN IsSubSeq(out, RefOut(c)) ELSE out = RefOut(c)

(* the environment a stage sees *)
EnvView(leak, mark, inh, ovr, path) == [leak |-> leak, mark |-> mark, inh |-> inh, ovr |-> ovr, path |-> path]
RefEnv(c) ==
    CASE c.env = "none"  -> EnvView(TRUE,  FALSE, TRUE,  FALSE, "os")      \* the caller's environment
      [] c.env = "given" -> EnvView(FALSE, TRUE,  FALSE, FALSE, "given")   \* exactly the given one
      [] c.env = "safe"  -> EnvView(FALSE, FALSE, FALSE, FALSE, "safe")    \* SAFE_ENV
      [] c.env = "safep" -> EnvView(FALSE, FALSE, TRUE,  TRUE,  "safe")    \* SAFE_ENV + inherit_env + override_env
(* which of two commands of the same name runs: the one on the PATH of the  *)
(* environment the command is given                                         *)
RefWhich(c) == IF ~c.bare THEN "abs" ELSE IF c.env = "given" THEN "env" ELSE "os"

-----------------------------------------------------------------------------
(* classes of cases on which the transcription of the code leaves the       *)
(* reference (see notes/X03.md)                                             *)
SlowLater(c)  == \E i \in 2..N(c) : Stages(c)[i].slow
EarlyFailOnly(c) ==        \* something before the last stage fails, the last stage ends with 0
    /\ \E i \in 1..(N(c) - 1) : DeclRc(c, i) # "0" \/ (Tmo(c) /\ Stages(c)[i].slow)
    /\ DeclRc(c, N(c)) = "0"
Classes(c) ==
    (IF PipeApi(c.api) /\ ~Unstartable(c) /\ ~c.keep /\ EarlyFailOnly(c) THEN {"earlyfail"} ELSE {}) \cup
    (IF PipeApi(c.api) /\ ~Unstartable(c) /\ Tmo(c) /\ SlowLater(c) THEN {"lateslow"} ELSE {}) \cup
    (IF ~Unstartable(c) /\ Unread(c) THEN {"unread"} ELSE {}) \cup
    (IF Unstartable(c) /\ NfAt(c) # {1} THEN {"nflater"} ELSE {}) \cup
    (IF StreamApi(c.api) /\ ~Unstartable(c) /\ Stages(c)[1].rd # "no" THEN {"streamstdin"} ELSE {}) \cup
    (IF StreamApi(c.api) /\ ~Unstartable(c) /\ \E k \in DOMAIN RefOut(c) : RefOut(c)[k].k = "b" THEN {"streambin"} ELSE {}) \cup
    (IF StreamApi(c.api) /\ c.bare /\ c.env = "given" THEN {"streampath"} ELSE {})

-----------------------------------------------------------------------------
(* MECHANISM *)
VARIABLES
    c,        \* the case
    mech,     \* "code": transcription of what the code does | "intended": the specified behaviour
    pc,       \* parent: "spawn" | "done"
    nsp,      \* stages spawned so far
    sp,       \* per stage: "unborn" | "read" | "emit" | "sleep" | "end" | "dead"
    kx,       \* per stage: own lines written
    stt,      \* per stage: "none" | exit status | "kill9" | "t124" | "pipe"
    pipe,     \* per stage: lines written and not yet read by the next stage
    got,      \* what the parent has received from the last stage
    clock,    \* 0 start | 1 the timeout has expired | 2 the slow stages wake up | 3 nothing moves any more
    res,      \* what the caller gets
    fin,      \* per stage: ran to its end
    sawc,     \* per stage: read the caller's standard input
    view,     \* per stage: argv / environment / command lookup as the process sees them
    reaped,   \* stages the parent has waited for
    left      \* at return: stages still running / not waited for
vars == <<c, mech, pc, nsp, sp, kx, stt, pipe, got, clock, res, fin, sawc, view, reaped, left>>

S      == Stages(c)
NN     == N(c)
NoRes  == [kind |-> "none", rc |-> "none", out |-> <<>>, cmd |-> "none", at |-> 0]
Res(kind, rc, out, cmd) == [kind |-> kind, rc |-> rc, out |-> out, cmd |-> cmd, at |-> clock]
Alive(i)   == sp[i] \notin {"unborn", "dead"}
HasL(q)    == \E k \in DOMAIN q : q[k].k = "L"
(* a line longer than the pipe's buffer: its writer does nothing else until it has been read *)
Blocked(i) == i < NN /\ HasL(pipe[i])
(* the `timeout` wrapper: Pipeline puts it before cmds[0] only; streams.stream before every command *)
UnderTimeout(i) == Tmo(c) /\ (mech = "intended" \/ StreamApi(c.api) \/ i = 1)
(* the parent's own copy of the read end of pipe i: Pipeline keeps it as long as stage i lives     *)
(* (the Popen object of an unfinished earlier stage is parked in subprocess._active with its        *)
(* stdout), connect until it returns; the specified behaviour closes it once the reader exists      *)
ParentHolds(i) == mech = "code" /\ (IF StreamApi(c.api) THEN pc # "done" ELSE sp[i] # "dead")
ReadersOpen(i) == IF i < 3 THEN (sp[i + 1] # "dead" \/ ParentHolds(i)) ELSE TRUE
(* stdin of the first stage: Pipeline gives DEVNULL; streams.stream passes stdin=None = inherited  *)
Stdin1 == IF mech = "code" /\ StreamApi(c.api) THEN "caller" ELSE "devnull"

(* static views *)
NoView    == [argv |-> "none", env |-> EnvView(FALSE, FALSE, FALSE, FALSE, "none"), which |-> "none"]
MechEnv   == RefEnv(c)
MechWhich == IF mech = "code" /\ StreamApi(c.api) /\ c.bare THEN "os" ELSE RefWhich(c)    \* streams: which(command[0]) without env
MechArgv  == "exact"                                                            \* argv lists, shlex.split, no shell

Init ==
    /\ mech \in Mechs
    /\ c \in {x \in Cases : mech = "code" => Classes(x) \subseteq Admit}
    /\ pc = "spawn" /\ nsp = 0
    /\ sp = [i \in 1..3 |-> "unborn"] /\ kx = [i \in 1..3 |-> 0] /\ stt = [i \in 1..3 |-> "none"]
    /\ pipe = [i \in 1..3 |-> <<>>] /\ got = <<>> /\ clock = 0 /\ res = NoRes
    /\ fin = [i \in 1..3 |-> FALSE] /\ sawc = [i \in 1..3 |-> FALSE]
    /\ view = [i \in 1..3 |-> NoView] /\ reaped = {} /\ left = [running |-> {}, unreaped |-> {}]

(* ---- enabling conditions (needed explicitly: time passes only when nothing else can happen) ---- *)
InputReady(i) == IF i = 1 THEN TRUE ELSE (pipe[i - 1] # <<>> \/ sp[i - 1] = "dead")
ReadEn(i)  == sp[i] = "read" /\ ~Blocked(i) /\ InputReady(i)
EmitEn(i)  == sp[i] = "emit" /\ ~Blocked(i)
WakeEn(i)  == sp[i] = "sleep" /\ clock >= 2
EndEn(i)   == sp[i] = "end" /\ ~Blocked(i)
KillEn(i)  == Alive(i) /\ clock >= 1 /\ UnderTimeout(i)
WantsToWrite(i) == Blocked(i) \/ (sp[i] = "emit" /\ kx[i] < Len(Own(c, i)))
                   \/ (IF i > 1 THEN sp[i] = "read" /\ S[i].rd \in {"pass", "filter"} /\ pipe[i - 1] # <<>> ELSE FALSE)
EpipeEn(i) == Alive(i) /\ i < NN /\ ~ReadersOpen(i) /\ WantsToWrite(i)
SpawnEn    == pc = "spawn" /\ nsp < NN
AllDead    == \A i \in 1..NN : sp[i] = "dead"
(* Pipeline: communicate() / wait() on the last process only; connect: every stream() waits for its process *)
ReturnEn   == pc = "spawn" /\ nsp = NN /\
              (IF mech = "code" /\ PipeApi(c.api) THEN sp[NN] = "dead" ELSE AllDead)
(* connect in the code: a command that does not exist is noticed after its predecessors were started, *)
(* and the exception has to pass their `finally: output.wait()`                                      *)
FailWaits  == mech = "code" /\ StreamApi(c.api) /\ nsp > 0 /\ ~ProvApi(c.api)
SpawnBusy  == SpawnEn /\ (S[nsp + 1].rc = "nf" /\ FailWaits => \A i \in 1..nsp : sp[i] = "dead")
Busy == SpawnBusy \/ ReturnEn \/ \E i \in 1..NN : ReadEn(i) \/ EmitEn(i) \/ WakeEn(i) \/ EndEn(i) \/ KillEn(i) \/ EpipeEn(i)

(* ---- the parent ---- *)
Deliver(i, t) ==       \* stage i writes line t
    IF i = NN THEN got' = Append(got, t) /\ UNCHANGED pipe
    ELSE pipe' = [pipe EXCEPT ![i] = Append(@, t)] /\ UNCHANGED got

Spawn ==
    /\ SpawnEn /\ S[nsp + 1].rc # "nf"
    /\ LET i == nsp + 1 IN
       /\ nsp' = i
       /\ sp' = [sp EXCEPT ![i] = IF S[i].rd = "no" THEN "emit" ELSE "read"]
       /\ view' = [view EXCEPT ![i] = [argv |-> MechArgv, env |-> MechEnv, which |-> MechWhich]]
    /\ UNCHANGED <<c, mech, pc, kx, stt, pipe, got, clock, res, fin, sawc, reaped, left>>

LeftNow(rp) == [running |-> {i \in 1..NN : Alive(i)}, unreaped |-> {i \in 1..NN : sp[i] # "unborn"} \ rp]

(* the command of the next stage does not exist.  Popen raises (Pipeline), stream() raises before     *)
(* Popen and the enclosing stream()s wait for their processes (connect), CommandOutputProvider        *)
(* refuses at construction ("Command not found").  The code leaves the stages it has started alone.   *)
SpawnFail ==
    /\ SpawnEn /\ S[nsp + 1].rc = "nf" /\ ~FailWaits
    /\ LET kind == IF ProvApi(c.api) THEN "content" ELSE "oserror" IN
       IF mech = "code"
         THEN /\ res' = Res(kind, "none", <<>>, "none")
              /\ left' = LeftNow({})
              /\ UNCHANGED <<sp, stt, reaped>>
         ELSE /\ res' = Res(kind, "none", <<>>, "none")        \* specified: what was started is stopped and waited for
              /\ sp' = [i \in 1..3 |-> IF Alive(i) THEN "dead" ELSE sp[i]]
              /\ stt' = [i \in 1..3 |-> IF Alive(i) THEN "kill9" ELSE stt[i]]
              /\ reaped' = 1..nsp
              /\ left' = [running |-> {}, unreaped |-> {}]
    /\ pc' = "done"
    /\ UNCHANGED <<c, mech, nsp, kx, pipe, got, clock, fin, sawc, view>>
(* connect in the code: the exception travels through `with stream(cmds[idx])`, whose finally waits *)
SpawnFailWait ==
    /\ SpawnEn /\ S[nsp + 1].rc = "nf" /\ FailWaits
    /\ \A i \in 1..nsp : sp[i] = "dead"
    /\ res' = Res("oserror", "none", <<>>, "none") /\ reaped' = 1..nsp /\ left' = [running |-> {}, unreaped |-> {}]
    /\ pc' = "done"
    /\ UNCHANGED <<c, mech, nsp, sp, kx, stt, pipe, got, clock, fin, sawc, view>>

(* what Pipeline.__call__ / write / call / shell_out make of the last stage's status *)
CodeResult ==
    LET rc == stt[NN] IN
    IF c.keep THEN Res("ret", rc, got, "none")
    ELSE IF rc # "0" THEN Res("cpe", rc, IF c.api = "write" THEN <<>> ELSE got, "first")
    ELSE Res("ret", "none", got, "none")
(* the specified behaviour: any failing stage counts *)
IntendedResult ==
    LET bad == {i \in 1..NN : stt[i] \notin {"0", "pipe"}} IN
    IF c.keep THEN Res("ret", IF stt[NN] # "0" \/ bad = {} THEN stt[NN] ELSE stt[CHOOSE i \in bad : TRUE], got, "none")
    ELSE IF bad # {} THEN Res("cpe", stt[CHOOSE i \in bad : \A j \in bad : j <= i], IF c.api = "write" THEN <<>> ELSE got, "failing")
    ELSE Res("ret", "none", got, "none")
HasBin(q) == \E k \in DOMAIN q : q[k].k = "b"

Return ==
    /\ ReturnEn
    /\ LET rp == IF mech = "code" /\ PipeApi(c.api) THEN {NN} ELSE 1..NN IN
       /\ reaped' = rp
       /\ left' = LeftNow(rp)
    /\ res' = IF StreamApi(c.api)
                THEN (IF mech = "code" /\ HasBin(got) THEN Res("decode", "none", <<>>, "none")   \* universal_newlines: strict UTF-8
                      ELSE Res("ret", "none", got, "none"))                                      \* exit statuses are not looked at
                ELSE IF mech = "code" THEN CodeResult ELSE IntendedResult
    /\ pc' = "done"
    /\ UNCHANGED <<c, mech, nsp, sp, kx, stt, pipe, got, clock, fin, sawc, view>>

(* ---- a stage ---- *)
ReadStdin ==       \* the first stage reads its standard input to the end
    /\ ReadEn(1)
    /\ sawc' = [sawc EXCEPT ![1] = Stdin1 = "caller"]
    /\ IF Stdin1 = "caller" /\ S[1].rd = "pass" THEN Deliver(1, CallerTok) ELSE UNCHANGED <<pipe, got>>
    /\ sp' = [sp EXCEPT ![1] = "emit"]
    /\ UNCHANGED <<c, mech, pc, nsp, kx, stt, clock, res, fin, view, reaped, left>>

Read(i) ==         \* a later stage takes the next line from the pipe that connects it to its predecessor, or sees EOF
    /\ i > 1 /\ ReadEn(i)
    /\ IF pipe[i - 1] # <<>>
         THEN LET t == Head(pipe[i - 1])
                  fw == S[i].rd = "pass" \/ (S[i].rd = "filter" /\ FilterKeeps(c.flt, t)) IN
              /\ (S[i].rd \in {"pass", "filter"} /\ i < NN) => ReadersOpen(i)        \* else SIGPIPE (Epipe)
              /\ IF fw /\ i = NN THEN got' = Append(got, t) /\ pipe' = [pipe EXCEPT ![i - 1] = Tail(@)]
                 ELSE IF fw THEN pipe' = [pipe EXCEPT ![i - 1] = Tail(@), ![i] = Append(@, t)] /\ UNCHANGED got
                 ELSE pipe' = [pipe EXCEPT ![i - 1] = Tail(@)] /\ UNCHANGED got
              /\ UNCHANGED sp
         ELSE sp' = [sp EXCEPT ![i] = "emit"] /\ UNCHANGED <<pipe, got>>
    /\ UNCHANGED <<c, mech, pc, nsp, kx, stt, clock, res, fin, sawc, view, reaped, left>>

Emit(i) ==         \* Output(stage, line): the next own line, or on to sleeping / ending
    /\ EmitEn(i) /\ (i = NN \/ ReadersOpen(i) \/ kx[i] = Len(Own(c, i)))
    /\ IF kx[i] < Len(Own(c, i))
         THEN Deliver(i, Own(c, i)[kx[i] + 1]) /\ kx' = [kx EXCEPT ![i] = @ + 1] /\ UNCHANGED sp
         ELSE sp' = [sp EXCEPT ![i] = IF S[i].slow THEN "sleep" ELSE "end"] /\ UNCHANGED <<pipe, got, kx>>
    /\ UNCHANGED <<c, mech, pc, nsp, stt, clock, res, fin, sawc, view, reaped, left>>

Wake(i) ==
    /\ WakeEn(i) /\ sp' = [sp EXCEPT ![i] = "end"]
    /\ UNCHANGED <<c, mech, pc, nsp, kx, stt, pipe, got, clock, res, fin, sawc, view, reaped, left>>

GrepStatus(i) == IF \E k \in DOMAIN got : TRUE THEN "0" ELSE "1"       \* the grep stage is always the last one
End(i) ==          \* Exit(stage, status)
    /\ EndEn(i)
    /\ sp' = [sp EXCEPT ![i] = "dead"] /\ fin' = [fin EXCEPT ![i] = TRUE]
    /\ stt' = [stt EXCEPT ![i] = IF S[i].rc = "grep" THEN GrepStatus(i) ELSE S[i].rc]
    /\ UNCHANGED <<c, mech, pc, nsp, kx, pipe, got, clock, res, sawc, view, reaped, left>>

Epipe(i) ==        \* nobody can read what the stage writes any more: SIGPIPE
    /\ EpipeEn(i)
    /\ sp' = [sp EXCEPT ![i] = "dead"] /\ stt' = [stt EXCEPT ![i] = "pipe"]
    /\ pipe' = [pipe EXCEPT ![i] = <<>>]
    /\ UNCHANGED <<c, mech, pc, nsp, kx, got, clock, res, fin, sawc, view, reaped, left>>

TimeoutKill(i) ==
    /\ KillEn(i)
    /\ sp' = [sp EXCEPT ![i] = "dead"] /\ stt' = [stt EXCEPT ![i] = KillStatus(c)]
    /\ pipe' = [pipe EXCEPT ![i] = SelectSeq(@, LAMBDA t : t.k # "L")]      \* an unfinished long write is cut
    /\ UNCHANGED <<c, mech, pc, nsp, kx, got, clock, res, fin, sawc, view, reaped, left>>

Tick == /\ ~Busy /\ clock < 3 /\ clock' = clock + 1
        /\ UNCHANGED <<c, mech, pc, nsp, sp, kx, stt, pipe, got, res, fin, sawc, view, reaped, left>>

StageRead  == \E i \in 1..3 : i <= NN /\ Read(i)
StageEmit  == \E i \in 1..3 : i <= NN /\ Emit(i)
StageWake  == \E i \in 1..3 : i <= NN /\ Wake(i)
StageEnd   == \E i \in 1..3 : i <= NN /\ End(i)
StageEpipe == \E i \in 1..3 : i <= NN /\ Epipe(i)
StageKill  == \E i \in 1..3 : i <= NN /\ TimeoutKill(i)
Next == Spawn \/ SpawnFail \/ SpawnFailWait \/ Return \/ ReadStdin \/ Tick
        \/ StageRead \/ StageEmit \/ StageWake \/ StageEnd \/ StageEpipe \/ StageKill
Spec == Init /\ [][Next]_vars

-----------------------------------------------------------------------------
(* What TLC checks: MECHANISM |= REFERENCE *)
Returned == res.kind # "none"
Statuses == {"none", "0", "1", "2", "127", "sig", "kill9", "t124", "pipe"}
TypeOK ==
    /\ pc \in {"spawn", "done"} /\ nsp \in 0..3 /\ clock \in 0..3
    /\ \A i \in 1..3 : sp[i] \in {"unborn", "read", "emit", "sleep", "end", "dead"} /\ stt[i] \in Statuses
    /\ res.kind \in {"none", "ret", "cpe", "oserror", "content", "decode"}
    /\ Returned <=> pc = "done"

(* the result is what the last stage wrote, in order *)
ResultIsLastStageOutput ==
    (res.kind = "ret" /\ ~Unstartable(c)) => OutOK(c, res.out)
(* which exit status decides *)
RcPolicy ==
    (Returned /\ ~Unstartable(c) /\ PipeApi(c.api)) =>
        /\ res.kind \in {"ret", "cpe"}
        /\ c.keep => (res.kind = "ret" /\ res.rc \in AllowedKeepRc(c))
        /\ ~c.keep => ((CertainFail(c) => res.kind = "cpe") /\ (res.kind = "cpe" => Fail(c)))
(* a command that does not exist is an error, never a result *)
NotFoundIsAnError ==
    (Returned /\ Unstartable(c)) => (res.kind \notin {"ret", "none"} /\ (ProvApi(c.api) => res.kind = "content"))
(* CalledProcessError(returncode, cmd, output) *)
ExceptionCarriesOutput ==
    res.kind = "cpe" =>
        /\ res.rc \in FailStatuses(c)
        /\ res.cmd \in {"first", "failing", "all"}
        /\ \/ OutOK(c, res.out)
           \/ c.api = "write" /\ res.out = <<>>
(* no call outlives its timeout, and what it started is dead *)
TimeoutTerminates ==
    Tmo(c) => /\ \A i \in 1..NN : S[i].slow => ~fin[i]
              /\ Returned => res.at <= 1
              /\ clock = 3 => Returned
(* every call returns *)
Terminates == clock = 3 => Returned
(* nothing is left behind: no process, nothing un-waited *)
NoneRunningAtReturn == Returned => left.running = {}
NothingStuck        == clock = 3 => \A i \in 1..NN : ~Alive(i)
AllReaped           == Returned => left.unreaped = {}
(* the transcription of the code never waits for the earlier stages of a Pipeline (class "unwaited") *)
AllReapedButKnown   == (mech = "code" /\ PipeApi(c.api) /\ "unwaited" \notin Admit) \/ AllReaped
(* a stage that reads its standard input gets EOF or its predecessor's output *)
NeverReadsCallerStdin == \A i \in 1..3 : ~sawc[i]
(* argv as given, the environment as documented, the command from that environment's PATH *)
NoShell          == \A i \in 1..3 : view[i] # NoView => view[i].argv = "exact"
EnvIsControlled  == \A i \in 1..3 : view[i] # NoView => (view[i].env = RefEnv(c) /\ view[i].which = RefWhich(c))
(* the streaming entry points yield what the collecting ones return *)
StreamEqualsCall ==
    (Returned /\ StreamApi(c.api) /\ ~Unstartable(c) /\ ~Fail(c)) => (res.kind = "ret" /\ OutOK(c, res.out))

=============================================================================
