-------------------------------- MODULE Rules --------------------------------
(***************************************************************************)
(* Rule evaluation and accounting (C12): insights/core/plugins.py           *)
(* (rule.process, Response and its subclasses), insights/core/evaluators.py *)
(* (SingleEvaluator / InsightsEvaluator observers), insights/formats        *)
(* (JsonFormat, YamlFormat, get_response_of_types).                         *)
(*                                                                         *)
(* A behaviour: rules are defined one at a time (Define), then each rule is *)
(* processed exactly once in any order (Process = one iteration of          *)
(* dr.run_components on a rule + the evaluator's observer), then a          *)
(* formatter may filter the response (Format).                              *)
(***************************************************************************)
EXTENDS Naturals, Sequences, FiniteSets, TLC

CONSTANTS
    R,          \* number of rules in a rule set
    RetSet,     \* what a rule body does when invoked (subset of Rets)
    DepSet,     \* subset of {"met", "missing", "missing-group", "missing-both", "ignored", "ignored-missing"}
    EnSet,      \* subset of BOOLEAN
    NKeys,      \* keys are drawn from 1..NKeys (rules may share a key)
    NMods       \* modules 1..NMods (rules may share a module)

Rets == {"fail", "pass", "info", "fingerprint", "metadata", "metadata_key", "none",
         "nonresp", "nonresp_falsy", "raises", "dskip",
         "key_empty", "key_none", "key_nonstr", "kw_type", "kw_keyname", "meta_kw_type",
         "over_fail", "over_pass", "over_info", "over_fingerprint", "over_metadata",
         "at_fail", "at_pass", "over_metadata_key"}

(* what kind of outcome a return behaviour is *)
Class(ret) ==
    CASE ret \in {"fail", "pass", "info", "fingerprint", "at_fail", "at_pass"} -> "typed"
      [] ret \in {"over_fail", "over_pass", "over_info", "over_fingerprint"} -> "stub"
      [] ret = "none" -> "none"
      [] ret = "metadata" -> "metadata"
      [] ret = "over_metadata" -> "metadata-stub"
      [] ret \in {"metadata_key", "over_metadata_key"} -> "metadata_key"     \* outside the size clause
      [] ret = "dskip" -> "nothing"
      [] OTHER -> "exception"   \* nonresp, raises, bad key, reserved argument name

TypeOf(ret) ==
    CASE ret \in {"fail", "over_fail", "at_fail"} -> "rule"
      [] ret \in {"pass", "over_pass", "at_pass"} -> "pass"
      [] ret \in {"info", "over_info"} -> "info"
      [] ret \in {"fingerprint", "over_fingerprint"} -> "fingerprint"
      [] ret = "none" -> "none"
      [] OTHER -> "n/a"

HeadingOf(type) ==
    CASE type = "rule" -> "reports"
      [] type = "fingerprint" -> "fingerprints"
      [] OTHER -> type            \* pass, info, none: stored under the type's own name

Headings == {"reports", "pass", "info", "fingerprints", "none"}

VARIABLES
    phase,      \* "define" | "eval" | "format" | "done"
    rules,      \* Seq of [ret, dep, enabled, key, mod]
    processed,  \* set of rule indices attempted so far
    order,      \* the sequence in which they were attempted
    buckets,    \* [Headings -> Seq of [r, type, key, stub]]   evaluator.results
    skips,      \* Seq of rule indices                         evaluator.rule_skips
    meta,       \* set of [r, stub]                            payloads merged into system.metadata
    metakeys,   \* set of rule indices                         evaluator.metadata_keys
    excs,       \* set of rule indices                         Broker.exceptions
    shown       \* [missing, show, vis : SUBSET Headings \cup {"skips","metadata"}] or "none"

vars == <<phase, rules, processed, order, buckets, skips, meta, metakeys, excs, shown>>

Define ==
    /\ phase = "define" /\ Len(rules) < R
    /\ \E ret \in RetSet, dep \in DepSet, en \in EnSet, k \in 1..NKeys, m \in 1..NMods :
         rules' = Append(rules, [ret |-> ret, dep |-> dep, enabled |-> en, key |-> k, mod |-> m])
    /\ UNCHANGED <<phase, processed, order, buckets, skips, meta, metakeys, excs, shown>>

Start ==
    /\ phase = "define" /\ Len(rules) = R
    /\ phase' = "eval"
    /\ UNCHANGED <<rules, processed, order, buckets, skips, meta, metakeys, excs, shown>>

(* The outcome the statement prescribes for one rule. *)
Outcome(rule) ==
    IF ~rule.enabled THEN "nothing"
    \* told to ignore a marker that is present: a deliberate skip, whatever else is missing -> nothing
    ELSE IF rule.dep \in {"ignored", "ignored-missing"} THEN "nothing"
    ELSE IF rule.dep # "met" THEN "skip"
    ELSE Class(rule.ret)

Process(r) ==
    /\ phase = "eval" /\ r \in DOMAIN rules /\ r \notin processed
    /\ processed' = processed \cup {r}
    /\ order' = Append(order, r)
    /\ LET o == Outcome(rules[r])
           t == TypeOf(rules[r].ret)
           e == [r |-> r, type |-> t, key |-> rules[r].key, stub |-> (o = "stub")]
       IN /\ buckets' = IF o \in {"typed", "stub", "none"}
                          THEN [buckets EXCEPT ![HeadingOf(t)] = Append(@, e)] ELSE buckets
          /\ skips'    = IF o = "skip" THEN Append(skips, r) ELSE skips
          /\ meta'     = IF o \in {"metadata", "metadata-stub"} THEN meta \cup {[r |-> r, stub |-> (o = "metadata-stub")]} ELSE meta
          /\ metakeys' = IF o = "metadata_key" THEN metakeys \cup {r} ELSE metakeys
          /\ excs'     = IF o = "exception" THEN excs \cup {r} ELSE excs
    /\ UNCHANGED <<phase, rules, shown>>

(* insights.formats.get_response_of_types: -m shows skips; without -S         *)
(* everything but "none" is shown; with -S only the listed types.            *)
ShowTypes == {"rule", "info", "pass", "none", "metadata", "fingerprint"}
Visible(missing, show) ==
    (IF missing THEN {"skips"} ELSE {}) \cup
    (IF show = {} THEN {"reports", "pass", "info", "fingerprints", "metadata"}
     ELSE {HeadingOf(t) : t \in show \cap {"rule", "info", "pass", "none", "fingerprint"}}
          \cup (IF "metadata" \in show THEN {"metadata"} ELSE {}))

Format ==
    /\ phase = "eval" /\ processed = DOMAIN rules
    /\ \E missing \in BOOLEAN, show \in {{}, ShowTypes, {"rule"}, {"pass", "none"}, {"metadata", "fingerprint"}} :
         shown' = [missing |-> missing, show |-> show, vis |-> Visible(missing, show)]
    /\ phase' = "done"
    /\ UNCHANGED <<rules, processed, order, buckets, skips, meta, metakeys, excs>>

Next == Define \/ Start \/ (\E r \in 1..R : Process(r)) \/ Format

Init ==
    /\ phase = "define" /\ rules = <<>> /\ processed = {} /\ order = <<>>
    /\ buckets = [h \in Headings |-> <<>>] /\ skips = <<>> /\ meta = {} /\ metakeys = {} /\ excs = {}
    /\ shown = [missing |-> FALSE, show |-> {}, vis |-> {}]

Spec == Init /\ [][Next]_vars

-----------------------------------------------------------------------------
InBucket(h, r) == Cardinality({i \in DOMAIN buckets[h] : buckets[h][i].r = r})
InSkips(r)     == Cardinality({i \in DOMAIN skips : skips[i] = r})
RECURSIVE SumOver(_, _)
SumOver(S, r)  == IF S = {} THEN 0 ELSE LET h == CHOOSE x \in S : TRUE IN InBucket(h, r) + SumOver(S \ {h}, r)
Appearances(r) == SumOver(Headings, r) + InSkips(r)
                  + Cardinality({m \in meta : m.r = r})
                  + (IF r \in metakeys THEN 1 ELSE 0) + (IF r \in excs THEN 1 ELSE 0)

Evaluated == phase \in {"eval", "done"} /\ processed = DOMAIN rules

(* C12 *)
ExactlyOneOutcome ==
    Evaluated => \A r \in DOMAIN rules :
        Appearances(r) = IF Outcome(rules[r]) = "nothing" THEN 0 ELSE 1
AtMostOneAlways ==
    \A r \in DOMAIN rules : Appearances(r) <= 1 /\ (r \notin processed => Appearances(r) = 0)
RightHeading ==
    \A h \in Headings : \A i \in DOMAIN buckets[h] :
        LET e == buckets[h][i] IN HeadingOf(e.type) = h /\ e.type = TypeOf(rules[e.r].ret) /\ e.key = rules[e.r].key
Rejected ==
    Evaluated => \A r \in DOMAIN rules :
        (rules[r].enabled /\ rules[r].dep = "met" /\ Class(rules[r].ret) = "exception") =>
            (r \in excs /\ SumOver(Headings, r) = 0 /\ InSkips(r) = 0)
StubOnOverflow ==
    \A h \in Headings : \A i \in DOMAIN buckets[h] :
        buckets[h][i].stub <=> rules[buckets[h][i].r].ret \in {"over_fail", "over_pass", "over_info", "over_fingerprint"}
SkipNamesMissing ==
    Evaluated => \A r \in DOMAIN rules : InSkips(r) = 1 <=> Outcome(rules[r]) = "skip"
ShownSubset ==
    phase = "done" => shown.vis \subseteq Headings \cup {"skips", "metadata"}

=============================================================================
