--------------------------- MODULE CommandExecMC ---------------------------
(* Model-checking wrapper of CommandExec: emits one CASE record per case of  *)
(* the family (from the initial state) for harness/drive_commandexec.py,     *)
(* with the reference values as the model computes them (evidence, replay    *)
(* files), and once the model's assumptions about the tools it abstracts     *)
(* (`timeout`, exit statuses, SIGPIPE, grep -F) for the R4 cross-check.      *)
EXTENDS CommandExec, Json

Initial == pc = "spawn" /\ nsp = 0 /\ clock = 0 /\ mech = "intended"      \* the specified mechanism admits every case

EmitCase ==
    Initial =>
        PrintT(<<"CASE", ToJson([st |-> c.st, api |-> c.api, keep |-> c.keep, tmo |-> c.tmo, sig |-> c.sig,
                                 split |-> c.split, form |-> c.form, meta |-> c.meta, env |-> c.env,
                                 bare |-> c.bare, flt |-> c.flt,
                                 ref |-> [out |-> RefOut(c), fail |-> Fail(c), timedout |-> TimedOut(c),
                                          classes |-> Classes(c)]])>>)

(* what the model assumes about the environment *)
ToolModel ==
    [kill    |-> [KILL |-> "kill9", TERM |-> "t124"],          \* status of a `timeout -s <sig>` whose time is up
     wrapped |-> [r0 |-> "0", r1 |-> "1", r2 |-> "2", r127 |-> "127", rsig |-> "sig"],   \* statuses pass through `timeout`
     plain   |-> [r0 |-> "0", r1 |-> "1", r2 |-> "2", r127 |-> "127", rsig |-> "sig"],
     epipe   |-> "pipe",                                       \* a writer nobody can read from any more
     bigblocks |-> TRUE,                                       \* a line of kind L does not fit into a pipe
     grep    |-> [p |-> TRUE, b |-> FALSE, L |-> FALSE, e |-> FALSE]]   \* lines `grep -F -e <hit>` keeps
ASSUME PrintT(<<"ACC", ToJson(ToolModel)>>)

(* the refutation configurations (specs/CommandExecMC_refute_*.cfg): the unguarded statements *)
F_RcPolicy          == RcPolicy
F_TimeoutTerminates == TimeoutTerminates
F_NoneRunning       == NoneRunningAtReturn
F_NothingStuck      == NothingStuck
F_Terminates        == Terminates
F_AllReaped         == AllReaped
F_Stdin             == NeverReadsCallerStdin
F_StreamEqualsCall  == StreamEqualsCall
F_Env               == EnvIsControlled
F_NotFoundLeft      == NoneRunningAtReturn

(* All refutations in one run (CONSTRAINT Witness, POSTCONDITION PostWitness, -workers 1): with every class  *)
(* admitted, each reachable state that breaks a statement is recorded with the classes of its case; the       *)
(* harness requires, for every class, a witness whose case belongs to that class only.                        *)
Broken ==
    (IF ~RcPolicy THEN {"RcPolicy"} ELSE {}) \cup (IF ~TimeoutTerminates THEN {"TimeoutTerminates"} ELSE {}) \cup
    (IF ~NoneRunningAtReturn THEN {"NoneRunningAtReturn"} ELSE {}) \cup (IF ~NothingStuck THEN {"NothingStuck"} ELSE {}) \cup
    (IF ~Terminates THEN {"Terminates"} ELSE {}) \cup (IF ~AllReaped THEN {"AllReaped"} ELSE {}) \cup
    (IF ~NeverReadsCallerStdin THEN {"NeverReadsCallerStdin"} ELSE {}) \cup
    (IF ~StreamEqualsCall THEN {"StreamEqualsCall"} ELSE {}) \cup (IF ~EnvIsControlled THEN {"EnvIsControlled"} ELSE {}) \cup
    (IF ~ResultIsLastStageOutput THEN {"ResultIsLastStageOutput"} ELSE {}) \cup
    (IF ~ExceptionCarriesOutput THEN {"ExceptionCarriesOutput"} ELSE {}) \cup (IF ~NotFoundIsAnError THEN {"NotFoundIsAnError"} ELSE {}) \cup
    (IF ~NoShell THEN {"NoShell"} ELSE {})
Witness == Broken = {} \/ TLCSet(11, TLCGet(11) \cup {[inv |-> n, classes |-> Classes(c), api |-> c.api] : n \in Broken})
ASSUME TLCSet(11, {})
PostWitness == PrintT(<<"ACC", ToJson([witnesses |-> TLCGet(11)])>>)
=============================================================================
