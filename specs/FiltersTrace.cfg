SPECIFICATION TraceSpec
CONSTANTS
  NP = 6
  BudSet = {1}
  Depth = 0
  CacheRule = "none"
  AddSet = {"P"}
  GetSet = {"P"}
  PatSets = {{1}}
  MaxLines = 0
  CBudSet = {0}
  PathSet = {"archive"}
POSTCONDITION Post
CHECK_DEADLOCK FALSE
