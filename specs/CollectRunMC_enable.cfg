SPECIFICATION Spec
CONSTANTS
  MaxCfg = 2
  CfgNames = {"x01", "specs", "impl", "alpha", "ibeta", "plugins", "po", "io", "nomatch"}
  CfgFlags = {"on", "off", "omit"}
  CfgPreset = "free"
  MaxPersist = 0
  PersistNames = {"x01"}
  PersistFlags = {"on"}
  PersistPreset = "all"
  DefaultSet = {FALSE, TRUE}
  PreSet = {"none", "ig_off", "pr_on"}
  FileDeny = {}
  CmdDeny = {}
  CompDeny = {}
  MaxDeny = 0
  ViaSet = {"manifest"}
  StrategySet = {"serial"}
  WorkerSet = {"default"}
  CompressSet = {FALSE}
  AlphaSet = {"present"}
  GammaSet = {"val"}
  Interleave = FALSE
  CfgMode = "documented"
  PersistMode = "documented"
  PersisterMode = "documented"
INVARIANT DefaultApplied
INVARIANT EnabledIsLastMatch
INVARIANT PersistSetIsLastMatch
INVARIANT BlacklistExact
INVARIANT DisabledNeverRuns
INVARIANT DeniedNeverCollected
INVARIANT PersistExact
INVARIANT ParallelEqualsSerial
INVARIANT LoadBackExact
INVARIANT ErrorsReported
INVARIANT Terminates
CONSTRAINT Emit
CHECK_DEADLOCK FALSE
