--------------------------- MODULE BaseParsersTrace ---------------------------
(***************************************************************************)
(* Trace validation for BaseParsers (C14).  A trace is a list of `call'     *)
(* events recorded by harness/drive_baseparsers.py: the abstract input that *)
(* was rendered to text, and what the real parser did with that text,       *)
(* abstracted back (line indices, outcome class, document tree).  An event  *)
(* is accepted iff the observation is what the reference operators of       *)
(* BaseParsers allow for that input.  Verdicts are total: a rejected trace  *)
(* is recorded with the failing clause and the next trace is examined.      *)
(***************************************************************************)
EXTENDS BaseParsers, Json, IOUtils, TLCExt

Batch == JsonDeserialize(IOEnv.TRACE_FILE)

VARIABLES tid, l
tvars == <<vars, tid, l>>

T    == Batch[tid]
Ev   == T.events[l + 1]
More == l < Len(T.events)

CmdIn    == [lines |-> Ev.lines, extra |-> Ev.extra]
SearchIn == [lines |-> Ev.lines, q |-> Ev.q]

(* R4: the model's calendar against the environment's (datetime.toordinal, recorded by the driver for the  *)
(* sought time and for every stamped line as rendered, a year-less stamp in the sought year)              *)
CalendarAgrees ==
    LET in == Ev.inp IN
    /\ AbsDay(in.T) = Ev.tord
    /\ \A i \in DOMAIN in.lines : in.lines[i].has =>
          AbsDay(At(IF in.lines[i].y # 0 THEN in.lines[i].y ELSE in.T.y, in.lines[i])) = Ev.ords[i]

Accepts ==
    CASE Ev.ev = "cmd"    -> Ev.outcome = CmdRef(CmdIn).outcome /\ Ev.seen = CmdRef(CmdIn).seen
      [] Ev.ev = "doc"    -> /\ Ev.outcome \in Allowed(Ev.fmt, DocClass(Ev.doc), Ev.noise)
                             /\ Ev.outcome = "value" => SameVal(Ev.value, Ev.doc)
      [] Ev.ev = "search" -> Ev.exc = "" /\ Ev.res = ViaRef(Ev.via, SearchIn)
      [] Ev.ev = "after"  -> AdmitsLog(Ev.inp) /\ CalendarAgrees /\ Ev.exc = "" /\ Ev.res = AfterRef(Ev.inp)
      [] OTHER -> FALSE

(* ---- name the failing clause and the abstract features of the input ---- *)
B(b, yes, no) == IF b THEN yes ELSE no

DiagCmd ==
    LET in == CmdIn  n == Len(in.lines)
        shape == IF n = 0 THEN "empty" ELSE IF n = 1 THEN "single-line" ELSE "multi-line"
        why == IF ~CmdBad(in) THEN "clean"
               ELSE LET i == CHOOSE i \in DOMAIN in.lines : CmdBadLine(in, i) IN
                    IF in.extra /\ in.lines[i].ex THEN "extra-phrase"
                    ELSE IF n = 1 THEN "single-phrase" ELSE "multi-phrase"
        feat == IF CmdBad(in) THEN why
                ELSE IF \E i \in DOMAIN in.lines : in.lines[i].sg \/ in.lines[i].ml \/ in.lines[i].ex
                       THEN "inapplicable-phrase" ELSE "plain"
    IN IF Ev.outcome # CmdRef(in).outcome
         THEN "CmdContract:" \o shape \o ":" \o feat \o ":expected-" \o CmdRef(in).outcome \o ":got-" \o
              (IF Ev.outcome \in {"ok", "content"} THEN Ev.outcome ELSE "other-exception")
              \o B(in.extra /\ Ev.meta, ":extra-phrases-with-metacharacters", "")
         ELSE "CmdUnchanged:" \o shape \o ":content-altered"

DiagDoc ==
    LET cls == DocClass(Ev.doc) IN
    IF Ev.outcome \notin Outcomes THEN "Totality:" \o Ev.fmt \o ":" \o cls \o ":other-exception"
    ELSE IF Ev.outcome \notin Allowed(Ev.fmt, cls, Ev.noise)
      THEN "DocOutcome:" \o Ev.fmt \o ":" \o cls \o B(Ev.noise > 0, ":noise", "")
           \o B(Ev.ind, ":indented-start-line", "") \o B(Ev.bn, ":blank-noise-line", "") \o ":got-" \o Ev.outcome
      ELSE "DocValue:" \o Ev.fmt \o ":" \o cls \o B(Ev.noise > 0, ":noise", "") \o ":value-differs"

SetDiff(res, ref) ==
    IF \E x \in Rng(ref) : x \notin Rng(res) THEN "missing-line"
    ELSE IF \E x \in Rng(res) : x \notin Rng(ref) THEN "extra-line"
    ELSE IF Len(res) # Len(ref) THEN "repeated-line" ELSE "order"

DiagSearch ==
    IF Ev.exc # "" THEN "SearchExact:" \o Ev.via \o ":exception"
    ELSE "SearchExact:" \o Ev.via \o B(Ev.q.any, ":any", ":all") \o B(Ev.q.num >= 0, ":limit", "") \o
         B(Ev.q.rev, ":reverse", "") \o ":" \o SetDiff(Ev.res, ViaRef(Ev.via, SearchIn))

LineKind(in, i) ==
    LET ln == in.lines[i] IN
    IF ~ln.has THEN "continuation"
    ELSE LET e == Eff(ln, in.T)  yl == ln.y = 0 IN
         (IF Key(e) = Key(in.T) THEN "stamp-equal" ELSE IF Key(e) > Key(in.T) THEN "stamp-after" ELSE "stamp-before")
         \o (IF e.y < in.T.y /\ yl THEN "-previous-year" ELSE IF e.y > in.T.y /\ yl THEN "-next-year" ELSE "")
         \o (IF yl /\ e.y # in.T.y /\ (Leap(e.y) \/ Leap(in.T.y)) THEN "-leap-year" ELSE "")
         \* a stamp that carries a year other than the one the year inference would give it (mixed format lists)
         \o (IF in.mx /\ ~yl /\ ln.y # InferYear(ln, in.T) THEN "-explicit-year-not-inferred" ELSE "")
MinOf(S) == CHOOSE x \in S : \A z \in S : x <= z

DiagAfter ==
    LET in == Ev.inp  ref == AfterRef(in)
        feat == (IF in.mx THEN ":mixed-formats" ELSE B(in.hy, ":with-year", ":without-year")) \o B(in.filt, ":filtered", "")
        miss == {x \in Rng(ref) : x \notin Rng(Ev.res)}
        extra == {x \in Rng(Ev.res) : x \notin Rng(ref)} IN
    IF ~AdmitsLog(in) THEN "machinery:log-not-admitted"
    ELSE IF ~CalendarAgrees THEN "machinery:calendar-disagrees-with-datetime"
    ELSE IF Ev.exc # "" THEN "AfterExact" \o feat \o ":exception"
    \* the first line (in log order) on which observation and reference differ
    ELSE IF miss # {} /\ (extra = {} \/ MinOf(miss) < MinOf(extra))
      THEN "AfterExact" \o feat \o ":missing:" \o LineKind(in, MinOf(miss))
    ELSE IF extra # {}
      THEN LET x == MinOf(extra) IN
           "AfterExact" \o feat \o ":extra:" \o (IF x \in DOMAIN in.lines THEN LineKind(in, x) ELSE "unknown-line")
    ELSE "AfterExact" \o feat \o ":order"

Diagnose ==
    CASE Ev.ev = "cmd" -> DiagCmd
      [] Ev.ev = "doc" -> DiagDoc
      [] Ev.ev = "search" -> DiagSearch
      [] Ev.ev = "after" -> DiagAfter
      [] OTHER -> "unknown-event"

Advance ==
    /\ tid' = tid + 1 /\ l' = 0
    /\ UNCHANGED vars

TraceInit == tid = 1 /\ l = 0 /\ inp = 0 /\ k = 0 /\ acc = <<>> /\ inc = FALSE /\ done = FALSE

TraceNext ==
    /\ tid <= Len(Batch)
    /\ IF ~More
         THEN TLCSet(2, TLCGet(2) + l) /\ Advance
         ELSE IF Accepts
           THEN l' = l + 1 /\ tid' = tid /\ UNCHANGED vars
           ELSE /\ TLCSet(1, TLCGet(1) \cup {[id |-> T.id, line |-> l + 1, clause |-> Diagnose]})
                /\ TLCSet(2, TLCGet(2) + l)
                /\ Advance
TraceSpec == TraceInit /\ [][TraceNext]_tvars

ASSUME TLCSet(1, {}) /\ TLCSet(2, 0)

Post ==
    /\ \A r \in TLCGet(1) : PrintT(<<"REJ", ToJson(r)>>)
    /\ PrintT(<<"STAT", ToJson([traces |-> Len(Batch), events |-> TLCGet(2)])>>)

=============================================================================
