------------------------------ MODULE DrGraph ------------------------------
(***************************************************************************)
(* The dependency-GRAPH utilities of insights/core/dr.py (X05): what the   *)
(* evaluation model DrEngine.tla takes for granted.                        *)
(*                                                                         *)
(*   registry   : get_dependencies / get_dependents / add_dependency and   *)
(*                the tables DEPENDENCIES / DEPENDENTS / COMPONENTS[group] *)
(*   closure    : walk_tree / walk_dependencies / get_dependency_graph /   *)
(*                determine_components                                     *)
(*   partition  : get_subgraphs                                            *)
(*   order      : run_order (insights/contrib/toposort.py)                 *)
(*   points     : get_registry_points                                      *)
(*   helpers    : split_requirements / get_missing_requirements / first_of *)
(*   specs      : get_dependency_specs                                     *)
(*   names      : get_name / get_component / get_component_by_name         *)
(*                                                                         *)
(* Two layers.  The REFERENCE layer gives every function its meaning as an *)
(* operator over a dependency map D (component -> set of components) or a  *)
(* plain graph G (key -> set of nodes): closure, weakly connected          *)
(* components, the topological-order PREDICATE (any valid order is         *)
(* accepted), bounds for what the docstrings leave open.  The MECHANISM    *)
(* layer is a state machine: components are declared one decorator at a    *)
(* time (Define), dependencies are added afterwards (AddDep =              *)
(* dr.add_dependency, also the way a SpecSet subclass registers the        *)
(* implementation of a registry point), then ONE question is asked and     *)
(* answered step by step the way its docstring describes the procedure:    *)
(*   grow : get_subgraphs - take a key, spread over dependencies and       *)
(*          dependents inside the graph until nothing new, yield           *)
(*   peel : toposort - repeatedly take the items without open dependency   *)
(*   bfs  : walk_dependencies - visit root, then dependencies breadth      *)
(*          first (and, for refutation, the code's depth-first walk)       *)
(* TLC checks on every program of the bounded size that the mechanisms     *)
(* meet the reference and that the reference operators obey their laws.    *)
(* specs/DrGraphTrace.tla judges what the REAL functions returned with the *)
(* same reference operators.                                               *)
(***************************************************************************)
EXTENDS Naturals, Sequences, FiniteSets, TLC

CONSTANTS
    Fam,        \* "prog": declared components; "raw": a plain dict handed to run_order; "trace": no behaviour
    MinN, N,    \* number of components of a program (nodes of a raw graph: N)
    KindSet,    \* kinds explored: "comp" (a ComponentType of its own), "ds" (plugins.datasource), "point" (RegistryPoint)
    TypSet,     \* "base" / "sub": two component types, one a subclass of the other
    GrpSet,     \* group tags (ComponentType group=...); registry points are always in the default group
    LabelSet,   \* how a component names an earlier one: "none","req","g1","g2","opt","req+opt","g1+g2","g1+opt"
    PrioSet,    \* prio of a registry point, 0..2 (the driver declares prio - 1; 1 = the default, "no priority")
    MaxAdds,    \* add_dependency calls after the declarations
    AskSet,     \* questions explored: "basic","sub","topo","walk","help","specs"
    KeyMode,    \* "any": every non-empty key set; "closed": key sets closed under dependencies; "all": all components
    Prefix,     \* declarations every program starts with (<<>>, or registry points with one parser each)
    WalkMech    \* "bfs": walk_dependencies as documented; "dfs": a transcription of the code (TLC refutes BfsLaws)

VARIABLES
    phase,      \* "define" | "adds" | "ask" | "grow" | "peel" | "bfs" | "done"
    prog,       \* Seq of declarations [kind, typ, grp, prio, decl]
    adds,       \* Seq of <<c, d>>: add_dependency(c, d) calls so far
    deps,       \* the table DEPENDENCIES as the registry mechanism maintains it
    dents,      \* the table DEPENDENTS
    q,          \* the question [t, K, root, pres]
    G,          \* the plain graph of a "topo" / "raw" question: key -> set of nodes
    rest, frontier, seen, parts,      \* grow
    data, ord, stuck,                 \* peel
    queue, calls                      \* bfs

vars == <<phase, prog, adds, deps, dents, q, G, rest, frontier, seen, parts, data, ord, stuck, queue, calls>>

-----------------------------------------------------------------------------
(* Small things                                                             *)
Rng(s)  == {s[i] : i \in DOMAIN s}
Max(S)  == CHOOSE x \in S : \A y \in S : y <= x
Min(S)  == CHOOSE x \in S : \A y \in S : x <= y
RECURSIVE Asc(_)
Asc(S)  == IF S = {} THEN <<>> ELSE <<Min(S)>> \o Asc(S \ {Min(S)})
NeutralPrio == 1
Ids     == 1..Len(prog)

(* E: node -> set of nodes; a node outside DOMAIN E has no successors        *)
Succ(E, x) == IF x \in DOMAIN E THEN E[x] ELSE {}
RECURSIVE Close(_, _)
Close(E, S) == LET T == S \cup UNION {Succ(E, x) : x \in S} IN IF T = S THEN S ELSE Close(E, T)
TC(E, x)    == Close(E, Succ(E, x))                    \* everything reachable in one or more steps
InvOf(E)    == [x \in DOMAIN E |-> {y \in DOMAIN E : x \in E[y]}]
OnCycle(E, x)      == x \in TC(E, x)
ReachesCycle(E, x) == \E y \in {x} \cup TC(E, x) : OnCycle(E, y)

-----------------------------------------------------------------------------
(* REFERENCE: declarations and the dependency map                           *)
(* "Required: a regular argument.  At least one: an argument as a list.     *)
(*  Optional: a list following optional=" - every component named in any of *)
(* the three ways is a dependency; add_dependency adds one more.            *)
DeclDeps(p, c)    == UNION {Rng(p[c].decl[i].ds) : i \in DOMAIN p[c].decl}
AddedTo(a, k, c)  == {a[i][2] : i \in {j \in 1..k : a[j][1] = c}}
DMap(p, a, k)     == [c \in DOMAIN p |-> DeclDeps(p, c) \cup AddedTo(a, k, c)]
HasGroup(p, c)    == \E i \in DOMAIN p[c].decl : p[c].decl[i].t = "grp"
IsPoint(p, c)     == p[c].kind = "point"
IsDS(p, c)        == p[c].kind = "ds"
ImplOfSome(p, a, k, d) == \E i \in 1..k : a[i][2] = d /\ IsPoint(p, a[i][1])

(* get_dependency_graph / determine_components: "a component's graph of    *)
(* dependencies": the component, everything it depends on directly or      *)
(* indirectly, each with exactly its direct dependencies                   *)
DepGraphOf(D, S) == [x \in Close(D, S) |-> D[x]]

(* determine_components of a type / a group                                *)
ExactType(p, ty)  == {c \in DOMAIN p : p[c].kind = "comp" /\ p[c].typ = ty}
WithSubTypes(p, ty) == {c \in DOMAIN p : p[c].kind = "comp" /\ (p[c].typ = ty \/ ty = "base")}
InGroup(p, g)     == {c \in DOMAIN p : p[c].kind # "point" /\ p[c].grp = g}

-----------------------------------------------------------------------------
(* REFERENCE: plain graphs (run_order / toposort)                           *)
(* "keys are items and values are a set of dependent items"; items that     *)
(* only occur in values "don't depend on anything"; self dependencies are   *)
(* ignored.                                                                 *)
GNodes(Gr)  == DOMAIN Gr \cup UNION {Gr[k] : k \in DOMAIN Gr}
GNoSelf(Gr) == [k \in DOMAIN Gr |-> Gr[k] \ {k}]
CyclicG(Gr) == \E x \in DOMAIN Gr : OnCycle(GNoSelf(Gr), x)
Pos(o, x)   == CHOOSE i \in DOMAIN o : o[i] = x
(* "an order that satisfies their dependency relationships": ANY permutation *)
(* of the nodes with every item after all of its dependencies                *)
IsTopoOrder(o, Gr) ==
    /\ Rng(o) = GNodes(Gr) /\ Len(o) = Cardinality(GNodes(Gr))
    /\ \A k \in DOMAIN Gr : \A d \in Gr[k] \ {k} : Pos(o, d) < Pos(o, k)

-----------------------------------------------------------------------------
(* REFERENCE: get_subgraphs - "given a graph of possibly disconnected       *)
(* components, generate all graphs of connected components": the weakly     *)
(* connected components of the graph on the key set K                       *)
AdjK(D, K, x)   == {y \in K : y # x /\ (y \in Succ(D, x) \/ x \in Succ(D, y))}
FineAdj(D, K)   == [x \in K |-> AdjK(D, K, x)]
Outside(D, K, x) == Succ(D, x) \ K
(* two keys that share a dependency which is no key: the docstring does not *)
(* say whether that joins them                                              *)
CoarseAdj(D, K) == [x \in K |-> AdjK(D, K, x) \cup {y \in K : y # x /\ Outside(D, K, x) \cap Outside(D, K, y) # {}}]
WeakComps(D, K) == {Close(FineAdj(D, K), {x}) : x \in K}
ConnectedWithin(A, P) == P # {} /\ LET R == [x \in P |-> Succ(A, x) \cap P] IN \E x \in P : Close(R, {x}) = P
(* ps: the parts in the order they were generated                           *)
PartsPartition(ps, K) ==
    /\ \A i \in DOMAIN ps : ps[i] # {}
    /\ UNION Rng(ps) = K
    /\ \A i, j \in DOMAIN ps : i # j => ps[i] \cap ps[j] = {}
NoEdgeBetween(ps, D) ==
    \A i, j \in DOMAIN ps : i # j => \A x \in ps[i] : Succ(D, x) \cap ps[j] = {}
PartsConnected(ps, D, K) == \A i \in DOMAIN ps : ConnectedWithin(CoarseAdj(D, K), ps[i])
SubgraphsOK(ps, D, K) == PartsPartition(ps, K) /\ NoEdgeBetween(ps, D) /\ PartsConnected(ps, D, K)

(* REFERENCE: get_registry_points - "a datasource looks through its         *)
(* dependents, anything else through its dependencies".  Whether the walk   *)
(* goes on behind a registry point is not said: the nearest points are      *)
(* demanded, the farther ones allowed.                                      *)
Dir(p, D, c)       == IF IsDS(p, c) THEN InvOf(D) ELSE D
StopAtPoints(p, E) == [x \in DOMAIN E |-> IF IsPoint(p, x) THEN {} ELSE E[x]]
NearRP(p, D, c) == IF IsPoint(p, c) THEN {c}
                   ELSE {x \in TC(StopAtPoints(p, Dir(p, D, c)), c) : IsPoint(p, x)}
AllRP(p, D, c)  == IF IsPoint(p, c) THEN {c} ELSE {x \in TC(Dir(p, D, c), c) : IsPoint(p, x)}
RPOK(obs, p, D, c) == NearRP(p, D, c) \subseteq obs /\ obs \subseteq AllRP(p, D, c)

(* "Return the sub-graphs sorted as per the prio" (of the registry point a   *)
(* key belongs to; prio -1 = "the last spec to collect"): a part whose best  *)
(* key ranks strictly below another part's best key does not come first.     *)
(* A key with several registry points may take the prio of any of them.      *)
KeyPrios(p, D, c) == IF AllRP(p, D, c) = {} THEN {NeutralPrio} ELSE {p[x].prio : x \in AllRP(p, D, c)}
HiPrio(p, D, P)   == Max(UNION {KeyPrios(p, D, x) : x \in P})
LoPrio(p, D, P)   == Max({Min(KeyPrios(p, D, x)) : x \in P})
PrioOrderOK(ps, p, D) == \A i, j \in DOMAIN ps : i < j => HiPrio(p, D, ps[i]) >= LoPrio(p, D, ps[j])

-----------------------------------------------------------------------------
(* REFERENCE: walk_dependencies - "call visitor on root and all             *)
(* dependencies reachable from it in breadth first order ... the call on    *)
(* root is visitor(root, None)" (parent None is written 0)                  *)
ReachEdges(D, r) == UNION {{<<d, par>> : d \in Succ(D, par)} : par \in {r} \cup TC(D, r)}
WalkCallsOK(cs, D, r) ==
    /\ Len(cs) >= 1 /\ cs[1] = <<r, 0>>
    /\ {cs[i] : i \in 2..Len(cs)} = ReachEdges(D, r)
RECURSIVE DistFrom(_, _, _, _)
DistFrom(D, S, x, k) == IF x \in S \/ k > Cardinality(DOMAIN D) THEN k
                        ELSE DistFrom(D, UNION {Succ(D, y) : y \in S}, x, k + 1)
Dist(D, r, x)   == DistFrom(D, {r}, x, 0)
FirstAt(cs, x)  == Min({i \in DOMAIN cs : cs[i][1] = x})
(* the weakest reading of "breadth first": a component farther from the root *)
(* is not met for the first time before a nearer one                         *)
WalkBreadthFirst(cs, D, r) ==
    LET V == {cs[i][1] : i \in DOMAIN cs} IN
    \A x, y \in V : Dist(D, r, x) < Dist(D, r, y) => FirstAt(cs, x) < FirstAt(cs, y)
(* the first pair of components met in the wrong order, for diagnosis *)
WalkOrderBreach(cs, D, r) ==
    LET V == {cs[i][1] : i \in DOMAIN cs} IN
    {<<x, y>> \in V \X V : Dist(D, r, x) < Dist(D, r, y) /\ FirstAt(cs, x) > FirstAt(cs, y)}

-----------------------------------------------------------------------------
(* REFERENCE: the requirement helpers.  A requirement list holds required   *)
(* components and at-least-one groups (lists) in declaration order.         *)
ReqSeq(d)  == LET r == SelectSeq(d, LAMBDA it : it.t = "req") IN [i \in DOMAIN r |-> r[i].ds[1]]
GrpSeq(d)  == LET g == SelectSeq(d, LAMBDA it : it.t = "grp") IN [i \in DOMAIN g |-> g[i].ds]
RECURSIVE FlatSeq(_)
FlatSeq(d) == IF d = <<>> THEN <<>> ELSE Head(d).ds \o FlatSeq(Tail(d))
MissAll(d, pres) == SelectSeq(ReqSeq(d), LAMBDA r : r \notin pres)
MissAny(d, pres) == SelectSeq(GrpSeq(d), LAMBDA g : Rng(g) \cap pres = {})
Satisfied(d, pres) == (\A r \in Rng(ReqSeq(d)) : r \in pres) /\ (\A g \in Rng(GrpSeq(d)) : Rng(g) \cap pres # {})
FirstOf(s, pres) == IF \E i \in DOMAIN s : s[i] \in pres THEN s[Min({i \in DOMAIN s : s[i] \in pres})] ELSE 0

-----------------------------------------------------------------------------
(* REFERENCE: get_dependency_specs - "the requires and at_least_one specs   *)
(* of the component; the optional specs are not considered":                *)
(*   [req_1, req_2, (alo_11, alo_12), (alo_21, [req_alo22, (alo_23, alo_24)])] *)
(* a list = all of its items are required, a tuple = at least one of its    *)
(* items is required, a name = that spec.  A spec is a registry point       *)
(* (its name starts with insights.specs); any other component stands for its *)
(* own requirements.  The meaning of such an answer is a monotone condition  *)
(* on the set of available specs; ANY answer with that meaning is accepted. *)
AddedSeq(a, k, c) == LET s == SelectSeq(SubSeq(a, 1, k), LAMBDA e : e[1] = c) IN [i \in DOMAIN s |-> s[i][2]]
EffDecl(p, a, k, c) ==                      \* add_dependency: "d joins the first at-least-one group"
    LET d == p[c].decl  x == AddedSeq(a, k, c) IN
    IF x = <<>> \/ ~HasGroup(p, c) THEN d
    ELSE LET i0 == Min({i \in DOMAIN d : d[i].t = "grp"}) IN [d EXCEPT ![i0].ds = @ \o x]
EffProg(p, a, k) == [c \in DOMAIN p |-> [p[c] EXCEPT !.decl = EffDecl(p, a, k, c)]]

RECURSIVE NeedsMet(_, _, _)
NeedsMet(ep, c, S) ==                       \* are the requirements of c met when exactly the specs S are available?
    LET d == ep[c].decl
        Leaf(x) == IF IsPoint(ep, x) THEN x \in S ELSE NeedsMet(ep, x, S) IN
    /\ \A r \in Rng(ReqSeq(d)) : Leaf(r)
    /\ \A g \in Rng(GrpSeq(d)) : \E m \in Rng(g) : Leaf(m)

(* an answer as a formula: one record shape for names, lists and tuples *)
Fm(t, n, xs) == [t |-> t, n |-> n, xs |-> xs]
RECURSIVE EvalF(_, _)
EvalF(f, S) == CASE f.t = "var" -> f.n \in S
                 [] f.t = "and" -> \A i \in DOMAIN f.xs : EvalF(f.xs[i], S)
                 [] f.t = "or"  -> \E i \in DOMAIN f.xs : EvalF(f.xs[i], S)
                 [] OTHER       -> FALSE
EvalList(fs, S) == \A i \in DOMAIN fs : EvalF(fs[i], S)
RECURSIVE ConcatAll(_)
ConcatAll(ss) == IF ss = <<>> THEN <<>> ELSE Head(ss) \o ConcatAll(Tail(ss))
(* the answer written the way the docstring's example writes it *)
RECURSIVE SpecForm(_, _)
SpecForm(ep, c) ==
    LET d == ep[c].decl  reqs == ReqSeq(d)  grps == GrpSeq(d)
        Flat(x)   == IF IsPoint(ep, x) THEN <<Fm("var", x, <<>>)>> ELSE SpecForm(ep, x)
        Member(x) == IF IsPoint(ep, x) THEN Fm("var", x, <<>>) ELSE Fm("and", 0, SpecForm(ep, x)) IN
    ConcatAll([i \in DOMAIN reqs |-> Flat(reqs[i])])
    \o [i \in DOMAIN grps |-> Fm("or", 0, [j \in DOMAIN grps[i] |-> Member(grps[i][j])])]
(* what a component's requirements look at: through requirements and groups, registry points are leaves *)
NeedEdges(ep) == [c \in DOMAIN ep |-> IF IsPoint(ep, c) THEN {}
                                     ELSE Rng(ReqSeq(ep[c].decl)) \cup UNION {Rng(g) : g \in Rng(GrpSeq(ep[c].decl))}]
(* the question has an answer the docstring defines: asked of a component that is no spec itself, reaches no     *)
(* cycle, and does not look at the implementation of a spec directly (whether that counts as "a spec" is not said) *)
SpecsAskable(ep, a, k, c) ==
    /\ ~IsPoint(ep, c) /\ ~ReachesCycle(NeedEdges(ep), c)
    /\ \A x \in {c} \cup TC(NeedEdges(ep), c) : ~(IsDS(ep, x) /\ ImplOfSome(ep, a, k, x))

(* A TRANSCRIPTION of the code of get_dependency_specs (get_requires / get_at_least_one with their      *)
(* "if ss not in ..." filters), to say at model level where it leaves the meaning:                       *)
(*   - only `requires` positions test for a spec name; a group member is always descended into           *)
(*   - a group member's items are wrapped in a list only when it has BOTH requires and groups of its own *)
(*   - items of such a list that an earlier member already put into the tuple are dropped from the list  *)
RECURSIVE CodeReq(_, _), CodeAlo(_, _), CodeReqFold(_, _, _, _), CodeAloFold(_, _, _, _)
NotIn(xs, acc) == SelectSeq(xs, LAMBDA ss : ss \notin Rng(acc))
CodeReqFold(ep, rs, i, acc) ==
    IF i > Len(rs) THEN acc
    ELSE LET r == rs[i] IN
         CodeReqFold(ep, rs, i + 1,
                     IF IsPoint(ep, r) THEN (IF Fm("var", r, <<>>) \in Rng(acc) THEN acc ELSE Append(acc, Fm("var", r, <<>>)))
                     ELSE acc \o NotIn(CodeReq(ep, r) \o CodeAlo(ep, r), acc))
CodeReq(ep, c) == CodeReqFold(ep, ReqSeq(ep[c].decl), 1, <<>>)
CodeAloFold(ep, ms, j, salo) ==
    IF j > Len(ms) THEN salo
    ELSE LET r == CodeReq(ep, ms[j])  a == CodeAlo(ep, ms[j]) IN
         CodeAloFold(ep, ms, j + 1,
                     IF r # <<>> /\ a # <<>> THEN Append(salo, Fm("and", 0, NotIn(r \o a, salo)))
                     ELSE salo \o NotIn(IF r # <<>> THEN r ELSE a, salo))
CodeAlo(ep, c) == LET gs == GrpSeq(ep[c].decl) IN [i \in DOMAIN gs |-> Fm("or", 0, CodeAloFold(ep, gs[i], 1, <<>>))]
CodeForm(ep, c) == CodeReq(ep, c) \o CodeAlo(ep, c)
PointsOf(ep)    == {x \in DOMAIN ep : IsPoint(ep, x)}
CodeRight(ep, c) == \A S \in SUBSET PointsOf(ep) : EvalList(CodeForm(ep, c), S) = NeedsMet(ep, c, S)

(* the classes of declarations on which it does (abstract features of the input; they name the findings) *)
SeenBy(ep, c)   == {c} \cup {x \in TC(NeedEdges(ep), c) : ~IsPoint(ep, x)}
GroupsOf(ep, x) == GrpSeq(ep[x].decl)
ReqItems(ep, m) == LET rs == ReqSeq(ep[m].decl) IN
                   ConcatAll([i \in DOMAIN rs |-> IF IsPoint(ep, rs[i]) THEN <<Fm("var", rs[i], <<>>)>> ELSE SpecForm(ep, rs[i])])
AloItems(ep, m) == SubSeq(SpecForm(ep, m), Len(ReqItems(ep, m)) + 1, Len(SpecForm(ep, m)))
Wrapped(ep, m)  == ReqItems(ep, m) # <<>> /\ AloItems(ep, m) # <<>>
SpecInGroup(ep, c) == \E x \in SeenBy(ep, c) : \E g \in Rng(GroupsOf(ep, x)) : \E m \in Rng(g) : IsPoint(ep, m)
OddMember(ep, c)   == \E x \in SeenBy(ep, c) : \E g \in Rng(GroupsOf(ep, x)) : \E m \in Rng(g) :
                          ~IsPoint(ep, m) /\ ~Wrapped(ep, m) /\ Len(SpecForm(ep, m)) # 1
Contrib(ep, m)  == IF IsPoint(ep, m) THEN {} ELSE IF Wrapped(ep, m) THEN {Fm("and", 0, SpecForm(ep, m))}
                   ELSE Rng(SpecForm(ep, m))
Absorbed(ep, c) == \E x \in SeenBy(ep, c) : \E g \in Rng(GroupsOf(ep, x)) : \E i, j \in DOMAIN g :
                          i < j /\ ~IsPoint(ep, g[j]) /\ Wrapped(ep, g[j])
                          /\ Rng(SpecForm(ep, g[j])) \cap Contrib(ep, g[i]) # {}
SpecClasses(ep, c) == (IF SpecInGroup(ep, c) THEN {"spec-directly-in-a-group"} ELSE {})
                      \cup (IF OddMember(ep, c) THEN {"group-member-whose-own-requirements-are-not-exactly-one-item"} ELSE {})
                      \cup (IF Absorbed(ep, c) THEN {"group-member-repeats-an-item-of-an-earlier-member"} ELSE {})

-----------------------------------------------------------------------------
(* MECHANISM: declaration                                                   *)
Low(c) == 1..(c - 1)
Lab(lab, S) == Asc({j \in DOMAIN lab : lab[j] \in S})
Item(t, ds)   == [t |-> t, ds |-> ds]
DeclOfLabels(lab) ==
    LET req == Lab(lab, {"req", "req+opt"})
        g1  == Lab(lab, {"g1", "g1+g2", "g1+opt"})
        g2  == Lab(lab, {"g2", "g1+g2"})
        opt == Lab(lab, {"opt", "req+opt", "g1+opt"}) IN
    [i \in DOMAIN req |-> Item("req", <<req[i]>>)]
    \o (IF g1 = <<>> THEN <<>> ELSE <<Item("grp", g1)>>)
    \o (IF g2 = <<>> THEN <<>> ELSE <<Item("grp", g2)>>)
    \o [i \in DOMAIN opt |-> Item("opt", <<opt[i]>>)]
PointDecl == <<Item("grp", <<>>)>>          \* RegistryPoint: datasource([]) - one empty at-least-one group

NoQ == [t |-> "none", K |-> {}, root |-> 0, pres |-> {}]

Init ==
    /\ prog = Prefix /\ adds = <<>> /\ deps = DMap(Prefix, <<>>, 0) /\ dents = InvOf(DMap(Prefix, <<>>, 0)) /\ q = NoQ
    /\ rest = {} /\ frontier = {} /\ seen = {} /\ parts = <<>>
    /\ ord = <<>> /\ stuck = FALSE /\ queue = <<>> /\ calls = <<>>
    /\ IF Fam = "raw"
         THEN /\ phase = "peel"
              /\ \E K \in SUBSET (1..N) : G \in [K -> SUBSET (1..N)]
              /\ data = [x \in GNodes(G) |-> Succ(G, x) \ {x}]
         ELSE phase = "define" /\ G = <<>> /\ data = <<>>

(* one decorator application: _register_component + add_dependent           *)
DefineWith(k, ty, g, pr, d) ==
    LET c == Len(prog) + 1
        ds == UNION {Rng(d[i].ds) : i \in DOMAIN d} IN
    /\ prog' = Append(prog, [kind |-> k, typ |-> ty, grp |-> g, prio |-> pr, decl |-> d])
    /\ deps' = [x \in 1..c |-> IF x = c THEN ds ELSE deps[x]]
    /\ dents' = [x \in 1..c |-> IF x = c THEN {} ELSE dents[x] \cup (IF x \in ds THEN {c} ELSE {})]
    /\ UNCHANGED <<phase, adds, q, G, rest, frontier, seen, parts, data, ord, stuck, queue, calls>>

Define ==
    /\ phase = "define" /\ Len(prog) < N
    /\ \E k \in KindSet :
       \E ty \in (IF k = "comp" THEN TypSet ELSE {"base"}), g \in (IF k = "point" THEN {1} ELSE GrpSet),
          pr \in (IF k = "point" THEN PrioSet ELSE {NeutralPrio}) :
       \E lab \in (IF k = "point" THEN {<<>>} ELSE [Low(Len(prog) + 1) -> LabelSet]) :
          DefineWith(k, ty, g, pr, IF k = "point" THEN PointDecl ELSE DeclOfLabels(lab))

EndDefine ==
    /\ phase = "define" /\ Len(prog) >= MinN
    /\ phase' = "adds"
    /\ UNCHANGED <<prog, adds, deps, dents, q, G, rest, frontier, seen, parts, data, ord, stuck, queue, calls>>

(* dr.add_dependency(c, d): d joins the first at-least-one group of c; both  *)
(* tables are updated.  A registry point gets its implementations this way   *)
(* (a datasource implements at most one point, and not one it depends on).   *)
(* A component without an at-least-one group has nothing to add to: outside  *)
(* the model.                                                                *)
CanAdd(c, d) ==
    /\ c # d /\ HasGroup(prog, c)
    /\ IsPoint(prog, c) => /\ IsDS(prog, d) /\ ~ImplOfSome(prog, adds, Len(adds), d)
                           \* the registration walks the implementation's dependencies: not on a cycle
                           /\ ~ReachesCycle([deps EXCEPT ![c] = @ \cup {d}], d)
AddDepWith(c, d) ==
    /\ adds' = Append(adds, <<c, d>>)
    /\ deps' = [deps EXCEPT ![c] = @ \cup {d}]
    /\ dents' = [dents EXCEPT ![d] = @ \cup {c}]
    /\ UNCHANGED <<phase, prog, q, G, rest, frontier, seen, parts, data, ord, stuck, queue, calls>>
AddDep ==
    /\ phase = "adds" /\ Len(adds) < MaxAdds
    /\ \E c, d \in Ids : CanAdd(c, d) /\ AddDepWith(c, d)

EndAdds ==
    /\ phase = "adds"
    /\ phase' = "ask"
    /\ UNCHANGED <<prog, adds, deps, dents, q, G, rest, frontier, seen, parts, data, ord, stuck, queue, calls>>

-----------------------------------------------------------------------------
(* MECHANISM: one question                                                  *)
D == deps                                   \* the dependency map the questions are about
KeySets == IF KeyMode = "all" THEN {Ids}
           ELSE IF KeyMode = "closed" THEN {K \in SUBSET Ids : K # {} /\ Close(D, K) = K}
           ELSE SUBSET Ids \ {{}}

GraphOn(K) == [k \in K |-> D[k]]
BestKeys(R) == {x \in R : \A y \in R : Max(KeyPrios(prog, D, x)) >= Max(KeyPrios(prog, D, y))}

AskWith(t, K, root, pres) ==
    /\ q' = [t |-> t, K |-> K, root |-> root, pres |-> pres]
    /\ CASE t = "sub"  -> /\ phase' = "grow" /\ rest' = K
                          /\ UNCHANGED <<G, data, queue, calls>>
         [] t = "topo" -> /\ phase' = "peel" /\ G' = GraphOn(K)
                          /\ data' = [x \in GNodes(GraphOn(K)) |-> Succ(GraphOn(K), x) \ {x}]
                          /\ UNCHANGED <<rest, queue, calls>>
         [] t = "walk" /\ ~ReachesCycle(D, root)
                       -> /\ phase' = "bfs" /\ calls' = <<<<root, 0>>>>
                          /\ queue' = LET ds == Asc(D[root]) IN [i \in DOMAIN ds |-> <<ds[i], root>>]
                          /\ UNCHANGED <<G, data, rest>>
         [] OTHER      -> /\ phase' = "done"
                          /\ UNCHANGED <<G, data, rest, queue, calls>>
    /\ UNCHANGED <<prog, adds, deps, dents, frontier, seen, parts, ord, stuck>>

Ask ==
    /\ phase = "ask"
    /\ \/ "basic" \in AskSet /\ AskWith("basic", {}, 0, {})
       \/ "sub" \in AskSet /\ \E K \in KeySets : AskWith("sub", K, 0, {})
       \/ "topo" \in AskSet /\ \E K \in KeySets : AskWith("topo", K, 0, {})
       \/ "walk" \in AskSet /\ \E r \in Ids : AskWith("walk", {}, r, {})
       \/ "help" \in AskSet /\ \E r \in Ids, pres \in SUBSET Ids : AskWith("help", {}, r, pres)
       \/ "specs" \in AskSet /\ \E r \in Ids \ DOMAIN Prefix :
                                               SpecsAskable(EffProg(prog, adds, Len(adds)), adds, Len(adds), r)
                                               /\ AskWith("specs", {}, r, {})

(* grow: "keys are sorted as per prio"; take the first remaining key, spread  *)
(* over dependencies and dependents that are in the graph, yield, go on       *)
GrowStart ==
    /\ phase = "grow" /\ frontier = {} /\ seen = {} /\ rest # {}
    /\ \E x \in BestKeys(rest) : frontier' = {x}
    /\ UNCHANGED <<phase, prog, adds, deps, dents, q, G, rest, seen, parts, data, ord, stuck, queue, calls>>
GrowSpread ==
    /\ phase = "grow" /\ frontier # {}
    /\ \E x \in frontier :
        /\ seen' = seen \cup {x}
        /\ frontier' = (frontier \cup {y \in q.K : y \in D[x] \/ x \in D[y]}) \ (seen \cup {x})
    /\ UNCHANGED <<phase, prog, adds, deps, dents, q, G, rest, parts, data, ord, stuck, queue, calls>>
GrowYield ==
    /\ phase = "grow" /\ frontier = {} /\ seen # {}
    /\ parts' = Append(parts, seen) /\ rest' = rest \ seen /\ seen' = {}
    /\ UNCHANGED <<phase, prog, adds, deps, dents, q, G, frontier, data, ord, stuck, queue, calls>>
GrowEnd ==
    /\ phase = "grow" /\ frontier = {} /\ seen = {} /\ rest = {}
    /\ phase' = "done"
    /\ UNCHANGED <<prog, adds, deps, dents, q, G, rest, frontier, seen, parts, data, ord, stuck, queue, calls>>

(* peel: "the first set consists of items with no dependences, each           *)
(* subsequent set consists of items that depend upon items in the preceding   *)
(* sets"; what cannot be peeled is cyclic                                      *)
Ready == {x \in DOMAIN data : data[x] = {}}
Peel ==
    /\ phase = "peel" /\ Ready # {}
    /\ ord' = ord \o Asc(Ready)
    /\ data' = [x \in DOMAIN data \ Ready |-> data[x] \ Ready]
    /\ UNCHANGED <<phase, prog, adds, deps, dents, q, G, rest, frontier, seen, parts, stuck, queue, calls>>
PeelEnd ==
    /\ phase = "peel" /\ Ready = {}
    /\ stuck' = (DOMAIN data # {}) /\ phase' = "done"
    /\ UNCHANGED <<prog, adds, deps, dents, q, G, rest, frontier, seen, parts, data, ord, queue, calls>>

(* bfs: "visitor(root, None)", then the pending (dependency, parent) visits one at a time; a visited     *)
(* component's own dependencies wait at the END of the line (breadth first, as documented) - or, in the  *)
(* transcription of the code ("dfs"), go to the FRONT (visit(d) right after visitor(d, parent)).         *)
(* Only asked for roots that reach no cycle.                                                             *)
Kids(x) == LET ds == Asc(D[x]) IN [i \in DOMAIN ds |-> <<ds[i], x>>]
Bfs ==
    /\ phase = "bfs" /\ queue # <<>>
    /\ LET v == Head(queue) IN
        /\ calls' = Append(calls, v)
        /\ queue' = IF WalkMech = "bfs" THEN Tail(queue) \o Kids(v[1]) ELSE Kids(v[1]) \o Tail(queue)
    /\ UNCHANGED <<phase, prog, adds, deps, dents, q, G, rest, frontier, seen, parts, data, ord, stuck>>
BfsEnd ==
    /\ phase = "bfs" /\ queue = <<>>
    /\ phase' = "done"
    /\ UNCHANGED <<prog, adds, deps, dents, q, G, rest, frontier, seen, parts, data, ord, stuck, queue, calls>>

Next == Define \/ EndDefine \/ AddDep \/ EndAdds \/ Ask
        \/ GrowStart \/ GrowSpread \/ GrowYield \/ GrowEnd \/ Peel \/ PeelEnd \/ Bfs \/ BfsEnd
Spec == Init /\ [][Next]_vars

-----------------------------------------------------------------------------
(* LAWS checked by TLC                                                      *)

(* the two tables are mutual inverses and say what was declared, at every    *)
(* point of the history                                                      *)
RegistryInverse == \A c, d \in Ids : (d \in deps[c]) <=> (c \in dents[d])
RegistryIsDeclared == deps = DMap(prog, adds, Len(adds)) /\ dents = InvOf(DMap(prog, adds, Len(adds)))

AtAsk == phase = "ask"
ClosureLaws ==
    AtAsk =>
    /\ \A S \in SUBSET Ids : LET C == Close(D, S) IN
          /\ S \subseteq C /\ Close(D, C) = C                                  \* extensive, idempotent
          /\ \A x \in C : D[x] \subseteq C                                      \* closed
          /\ (Len(prog) <= 5) => \A T \in SUBSET Ids : S \subseteq T => C \subseteq Close(D, T)     \* monotone
          /\ C = UNION {Close(D, {x}) : x \in S} \cup S                         \* a list is the union of its members
    /\ \A c \in Ids : \A x \in TC(D, c) : TC(D, x) \subseteq TC(D, c)            \* transitive
    /\ \A c, x \in Ids : (x \in TC(D, c)) <=> (c \in TC(InvOf(D), x))            \* dependents walk = inverse
    /\ \A c \in Ids : LET g == DepGraphOf(D, {c}) IN
          /\ c \in DOMAIN g /\ \A x \in DOMAIN g : g[x] \subseteq DOMAIN g      \* a dependency graph is closed
          /\ DepGraphOf(D, DOMAIN g) = g                                         \* and is its own dependency graph
          /\ (~ReachesCycle(D, c)) => ~CyclicG(g)

PointLaws ==
    AtAsk => \A c \in Ids :
        /\ NearRP(prog, D, c) \subseteq AllRP(prog, D, c)
        /\ (AllRP(prog, D, c) # {}) => (NearRP(prog, D, c) # {})
        /\ IsPoint(prog, c) => RPOK({c}, prog, D, c)
        /\ \A x \in NearRP(prog, D, c) : IsPoint(prog, x)
        /\ KeyPrios(prog, D, c) # {}

(* every partition of K into sets: only for the uniqueness law, small K *)
RECURSIVE Partitions(_)
Partitions(S) ==
    IF S = {} THEN {{}}
    ELSE LET x == Min(S) IN
         UNION {{P \cup {B \cup {x}} : P \in Partitions(S \ (B \cup {x}))} : B \in SUBSET (S \ {x})}
RECURSIVE SeqOfSet(_)
SeqOfSet(S) == IF S = {} THEN <<>> ELSE LET x == CHOOSE x \in S : TRUE IN <<x>> \o SeqOfSet(S \ {x})

GrowLaws ==
    (phase = "done" /\ q.t = "sub") =>
    /\ SubgraphsOK(parts, D, q.K)
    /\ Rng(parts) = WeakComps(D, q.K) /\ Len(parts) = Cardinality(WeakComps(D, q.K))
    /\ PrioOrderOK(parts, prog, D)
    /\ (Cardinality(q.K) <= 4 /\ Close(D, q.K) = q.K) =>          \* for a closed key set the answer is unique
          \A P \in Partitions(q.K) : SubgraphsOK(SeqOfSet(P), D, q.K) => P = WeakComps(D, q.K)
    /\ (Cardinality(q.K) <= 4) =>                                  \* otherwise between the fine and the coarse one
          \A P \in Partitions(q.K) : SubgraphsOK(SeqOfSet(P), D, q.K) =>
              \A W \in WeakComps(D, q.K) : \E B \in P : W \subseteq B

RECURSIVE Perms(_)
Perms(S) == IF S = {} THEN {<<>>} ELSE UNION {{<<x>> \o s : s \in Perms(S \ {x})} : x \in S}
PeelLaws ==
    (phase = "done" /\ q.t \in {"topo", "none"} /\ (Fam = "raw" \/ q.t = "topo")) =>
    /\ stuck <=> CyclicG(G)                                       \* what cannot be ordered is exactly what is cyclic
    /\ ~stuck => IsTopoOrder(ord, G)
    /\ (Cardinality(GNodes(G)) <= 4) =>
          ((\E o \in Perms(GNodes(G)) : IsTopoOrder(o, G)) <=> ~CyclicG(G))
    /\ (Fam # "raw" /\ Close(D, q.K) = q.K /\ ~stuck) =>           \* on a closed graph: dependencies first, nothing else
          Rng(ord) = q.K

BfsLaws ==
    (phase = "done" /\ q.t = "walk" /\ ~ReachesCycle(D, q.root)) =>
    /\ WalkCallsOK(calls, D, q.root)
    /\ WalkBreadthFirst(calls, D, q.root)
    /\ {calls[i][1] : i \in DOMAIN calls} = {q.root} \cup TC(D, q.root)

HelperLaws ==
    (phase = "done" /\ q.t = "help") =>
    LET d == prog[q.root].decl IN
    /\ (MissAll(d, q.pres) = <<>> /\ MissAny(d, q.pres) = <<>>) <=> Satisfied(d, q.pres)
    /\ FirstOf(FlatSeq(d), q.pres) # 0 <=> Rng(FlatSeq(d)) \cap q.pres # {}
    /\ Len(ReqSeq(d)) + Len(GrpSeq(d)) = Cardinality({i \in DOMAIN d : d[i].t # "opt"})

SpecLaws ==
    (phase = "done" /\ q.t = "specs") =>
    LET ep == EffProg(prog, adds, Len(adds))  pts == {x \in Ids : IsPoint(prog, x)} IN
    /\ \A S \in SUBSET pts : EvalList(SpecForm(ep, q.root), S) = NeedsMet(ep, q.root, S)   \* the documented form says it
    /\ \A S \in SUBSET pts : \A T \in SUBSET pts : (S \subseteq T /\ NeedsMet(ep, q.root, S)) => NeedsMet(ep, q.root, T)
    /\ \A S \in SUBSET pts : NeedsMet(ep, q.root, S) = NeedsMet(ep, q.root, S \cap TC(NeedEdges(ep), q.root))

(* the transcription of the code leaves the meaning only on the recorded classes of declarations ...       *)
AtSpecs == phase = "done" /\ q.t = "specs"
CodeFormDeviatesOnlyInClasses ==
    AtSpecs => LET ep == EffProg(prog, adds, Len(adds)) IN (SpecClasses(ep, q.root) = {} => CodeRight(ep, q.root))
(* ... and does leave it on each of them: these three are EXPECTED to be refuted by TLC                       *)
F_CodeRightOn(cl) == AtSpecs => LET ep == EffProg(prog, adds, Len(adds)) IN (SpecClasses(ep, q.root) = {cl} => CodeRight(ep, q.root))
F_CodeRight_SpecInGroup == F_CodeRightOn("spec-directly-in-a-group")
F_CodeRight_OddMember   == F_CodeRightOn("group-member-whose-own-requirements-are-not-exactly-one-item")
F_CodeRight_Absorbed    == F_CodeRightOn("group-member-repeats-an-item-of-an-earlier-member")

TypeOK ==
    /\ phase \in {"define", "adds", "ask", "grow", "peel", "bfs", "done"}
    /\ Len(prog) <= N /\ Len(adds) <= MaxAdds
    /\ DOMAIN deps = Ids /\ DOMAIN dents = Ids
    /\ \A c \in Ids : deps[c] \subseteq Ids /\ dents[c] \subseteq Ids
=============================================================================
