-------------------------- MODULE SpecRegistryTrace --------------------------
(***************************************************************************)
(* Trace validation for SpecRegistry (C05).                                 *)
(*                                                                         *)
(* kind "gen": the driver created real SpecSet subclasses with type() for a *)
(* history TLC explored (or a seeded random one beyond TLC's bounds).       *)
(*   reg  events carry the declaration that was registered and the state of *)
(*        the real registries afterwards (dr.IGNORE projected on contexts,  *)
(*        context handler lists, the point's dependency list): they must be *)
(*        the state RegisterImpl leaves;                                    *)
(*   eval events carry one dr.run: active context, outcome vectors, the     *)
(*        broker value of the registry point and the invocation log: they   *)
(*        are judged by the INDEPENDENT statement of C05 (ExpectedIn,       *)
(*        DeclFor, Latest), not by the mechanism.                           *)
(* kind "shipped": one spec name of insights.specs with the dependency DAG  *)
(*        of its implementations as the registries hold it; judged by the   *)
(*        static form of the statement under every shipped context.         *)
(***************************************************************************)
EXTENDS SpecRegistry, Json, IOUtils, TLCExt

Batch == JsonDeserialize(IOEnv.TRACE_FILE)

VARIABLES tid, l
tvars == <<vars, tid, l>>

T    == Batch[tid]
Ev   == T.events[l + 1]
More == l < Len(T.events)

Kinds == {"req", "any", "via", "viaimpl"}
Other == 99          \* the driver's code for "a value that is no implementation's"

DeclShapeOK(d) ==
    /\ d.k \in Kinds
    /\ Len(impls) < MaxImpl
    /\ \A c \in Rng(d.cs) : c \in Ctx
    /\ IF d.k = "viaimpl" THEN d.j \in DOMAIN impls /\ d.cs = <<>> ELSE d.cs # <<>> /\ d.j = 0
    /\ d.lvl \in 0..levels

AfterReg == RegState(Ev.d, impls, handlers, ignore, pointDeps)

RegIgnoreOK   == \A i \in DOMAIN Ev.ignore : i \in 1..MaxImpl /\ AfterReg.ignore[i] = Rng(Ev.ignore[i])
RegHandlersOK == \A c \in DOMAIN Ev.handlers : c \in Ctx /\ AfterReg.handlers[c] = Ev.handlers[c]
(* Ev.deps: one list per level 0..levels (0 = the point of the next level, 99 = anything else) *)
DepsAre(P)    == Len(Ev.deps) = levels + 1 /\ \A q \in 0..levels : P[q] = Ev.deps[q + 1]
RegDepsOK     == DepsAre(AfterReg.pointDeps)

(* noop: a class definition that must NOT register anything (a datasource of the spec's name in a    *)
(* sub-subclass of an implementation class: its base declares no registry point)                     *)
NoopOK == Ev.check => /\ Ev.rd.ignore => (/\ Len(Ev.ignore) = Len(impls)
                                           /\ \A i \in DOMAIN Ev.ignore : ignore[i] = Rng(Ev.ignore[i]))
                      /\ Ev.rd.handlers => \A c \in DOMAIN Ev.handlers : c \in Ctx /\ handlers[c] = Ev.handlers[c]
                      /\ Ev.rd.deps => DepsAre(pointDeps)

(* A history is validated twice: once with check = TRUE (the registries after each registration are  *)
(* the state RegisterImpl leaves: mechanism conformance), once with check = FALSE followed by the    *)
(* evaluations (judged by the statement alone), so that a difference in the mechanism never hides    *)
(* what it does to the statement.                                                                    *)
(* The registries are internal tables: the driver reports each of the three projections as readable *)
(* or not (Ev.rd); an unreadable one (changed shape) is NOT constrained - the property is about which  *)
(* implementation's value a consumer gets and which implementations execute, judged on the /stmt      *)
(* trace.                                                                                              *)
IgnChk == Ev.rd.ignore => (Len(Ev.ignore) = Len(impls) + 1 /\ RegIgnoreOK)
HdlChk == Ev.rd.handlers => RegHandlersOK
DepChk == Ev.rd.deps => RegDepsOK
RegOK == /\ DeclShapeOK(Ev.d)
         /\ Ev.check => (IgnChk /\ HdlChk /\ DepChk)

(* ---- the statement, on observed values ---- *)
A   == Ev.active
Cd  == Rng(Ev.called)
Sd  == Rng(Ev.seeded)
EvalShapeOK == Len(Ev.outc) = Len(impls) /\ Len(Ev.houtc) = Len(impls) /\ A \in Ctx \cup {0}

OthersSilentOK == \A j \in DOMAIN impls : A \notin DeclFor(j) => (j \notin Cd /\ Ev.pval # j)
EarlierOK      == \A j \in DOMAIN impls : (A \in DeclFor(j) /\ j < Latest(A)) => j \notin Cd
BackfillOK     == LET L == Latest(A) IN (L # 0 /\ ~YieldsIn(L, impls, Ev.outc, Ev.houtc)) => Ev.pval = 0
ResolvesOK     == Ev.pval = ExpectedIn(A, impls, Ev.outc, Ev.houtc)
(* seeded broker: judged on the registry point alone - it hands on the value of the most recently   *)
(* registered implementation that HOLDS one (Ev.has, observed); which implementations obtain a      *)
(* value from seeded ones is the engine's business (archive pruning, C01) and not constrained here  *)
Hd             == Rng(Ev.has)
SeededOK       == Ev.pval = LatestHolding(Hd) /\ Cd \cap Sd = {} /\ Sd \subseteq Hd

EvalOK ==
    /\ EvalShapeOK
    /\ IF A # 0 THEN OthersSilentOK /\ EarlierOK /\ BackfillOK /\ ResolvesOK ELSE SeededOK

DagOK ==
    \A a \in 1..Ev.nctx :
        /\ StaticOthersSilent(Ev.nodes, Ev.pimpls, a)
        /\ StaticEarlierNotExecuted(Ev.nodes, Ev.pimpls, a)
        /\ StaticLatestRuns(Ev.nodes, Ev.pimpls, a)

Accepts ==
    CASE Ev.ev = "reg"  -> RegOK
      [] Ev.ev = "noop" -> NoopOK
      [] Ev.ev = "eval" -> EvalOK
      [] Ev.ev = "dag"  -> DagOK
      [] OTHER -> FALSE

Apply ==
    CASE Ev.ev = "reg" ->
           /\ impls' = AfterReg.impls /\ handlers' = AfterReg.handlers
           /\ ignore' = AfterReg.ignore /\ pointDeps' = AfterReg.pointDeps
           /\ ev' = NoEval
           /\ UNCHANGED <<phase, levels>>
      [] OTHER -> UNCHANGED vars

(* ---- diagnosis: failing clause + abstract features of the failing case ---- *)
(* declaration kind and, when the implementation was built with a spec_factory class, that class *)
KindOfD(d) == IF d.f = "fn" THEN d.k ELSE d.k \o "/" \o d.f
KindOf(j) == IF j \in DOMAIN impls THEN KindOfD(impls[j]) ELSE "none"
(* level features: is the implementation attached to a re-declared (refined) point *)
LvlTag(d) == IF d.lvl > 0 THEN "@refined" ELSE ""
LvlOf(j)  == IF j \in DOMAIN impls /\ impls[j].lvl > 0 THEN "@refined" ELSE ""
DiagReg ==
    IF ~DeclShapeOK(Ev.d) THEN "reg.shape"
    ELSE IF ~DepChk THEN "Reg.pointDeps:" \o KindOfD(Ev.d) \o LvlTag(Ev.d)
    ELSE IF ~HdlChk THEN "Reg.handlers:" \o KindOfD(Ev.d) \o LvlTag(Ev.d)
    ELSE "Reg.ignore:" \o KindOfD(Ev.d) \o LvlTag(Ev.d)

DiagEval ==
    IF ~EvalShapeOK THEN "eval.shape"
    ELSE IF A = 0 THEN
        (IF Cd \cap Sd # {} THEN "SeededResolvesToLatest:seeded-implementation-re-run"
         ELSE "SeededResolvesToLatest:" \o
              (IF ~(Sd \subseteq Hd) THEN "seeded-value-lost"
               ELSE IF Ev.pval = 0 THEN "absent" ELSE IF Ev.pval \in Hd THEN "earlier-value" ELSE "other-value"))
    ELSE IF ~OthersSilentOK THEN
        (LET j == CHOOSE j \in DOMAIN impls : A \notin DeclFor(j) /\ (j \in Cd \/ Ev.pval = j)
         IN "OtherContextsSilent:" \o KindOf(j) \o (IF Ev.pval = j THEN ":supplies-value" ELSE ":executed"))
    ELSE IF ~EarlierOK THEN
        (LET j == CHOOSE j \in DOMAIN impls : A \in DeclFor(j) /\ j < Latest(A) /\ j \in Cd
         IN "EarlierNotExecuted:earlier-" \o KindOf(j) \o LvlOf(j) \o ":latest-" \o KindOf(Latest(A)) \o LvlOf(Latest(A)))
    ELSE IF ~BackfillOK THEN
        "AbsentNotBackfilled:latest-" \o KindOf(Latest(A)) \o LvlOf(Latest(A)) \o ":filled-from-" \o KindOf(Ev.pval) \o LvlOf(Ev.pval)
    ELSE "ResolvesToLatest:latest-" \o KindOf(Latest(A)) \o LvlOf(Latest(A)) \o
         (IF Ev.pval = 0 THEN ":absent" ELSE IF Ev.pval = Other THEN ":foreign-value"
          ELSE ":value-of-earlier-" \o KindOf(Ev.pval) \o LvlOf(Ev.pval))

DiagDag ==
    LET a == CHOOSE a \in 1..Ev.nctx :
                ~(/\ StaticOthersSilent(Ev.nodes, Ev.pimpls, a)
                  /\ StaticEarlierNotExecuted(Ev.nodes, Ev.pimpls, a)
                  /\ StaticLatestRuns(Ev.nodes, Ev.pimpls, a))
    IN IF ~StaticOthersSilent(Ev.nodes, Ev.pimpls, a) THEN "shipped:OtherContextsSilent"
       ELSE IF ~StaticEarlierNotExecuted(Ev.nodes, Ev.pimpls, a) THEN "shipped:EarlierNotExecuted"
       ELSE "shipped:ResolvesToLatest.latest-ignores-its-own-context"

Diagnose ==
    CASE Ev.ev = "reg"  -> DiagReg
      [] Ev.ev = "noop" -> "Reg.unregistered-deep-subclass-changed-the-registries"
      [] Ev.ev = "regfail" -> "Registration.raised:" \o KindOfD(Ev.d) \o LvlTag(Ev.d)
      [] Ev.ev = "eval" -> DiagEval
      [] Ev.ev = "dag"  -> DiagDag
      [] OTHER -> "unknown-event"

LevelsOf(t) == IF t.kind = "gen" THEN t.levels ELSE 0
Fresh ==
    /\ phase' = "reg" /\ impls' = <<>> /\ handlers' = [c \in Ctx |-> <<>>]
    /\ ignore' = [i \in 1..MaxImpl |-> {}] /\ levels' = LevelsOf(Batch[tid + 1])
    /\ pointDeps' = FreshDeps(LevelsOf(Batch[tid + 1])) /\ ev' = NoEval

Advance ==
    IF tid < Len(Batch)
      THEN tid' = tid + 1 /\ l' = 0 /\ Fresh
      ELSE tid' = Len(Batch) + 1 /\ l' = 0 /\ UNCHANGED vars

TraceInit ==
    /\ tid = 1 /\ l = 0
    /\ phase = "reg" /\ impls = <<>> /\ handlers = [c \in Ctx |-> <<>>] /\ ignore = [i \in 1..MaxImpl |-> {}]
    /\ levels = LevelsOf(Batch[1]) /\ pointDeps = FreshDeps(LevelsOf(Batch[1])) /\ ev = NoEval

TraceNext ==
    /\ tid <= Len(Batch)
    /\ IF ~More
         THEN TLCSet(2, TLCGet(2) + l) /\ Advance
         ELSE IF Accepts
           THEN Apply /\ l' = l + 1 /\ tid' = tid
           ELSE /\ TLCSet(1, TLCGet(1) \cup {[id |-> T.id, line |-> l + 1, clause |-> Diagnose]})
                /\ TLCSet(2, TLCGet(2) + l)
                /\ Advance
TraceSpec == TraceInit /\ [][TraceNext]_tvars

ASSUME TLCSet(1, {}) /\ TLCSet(2, 0)

Post ==
    /\ \A r \in TLCGet(1) : PrintT(<<"REJ", ToJson(r)>>)
    /\ PrintT(<<"STAT", ToJson([traces |-> Len(Batch), events |-> TLCGet(2)])>>)

=============================================================================
