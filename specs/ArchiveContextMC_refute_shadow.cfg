\* the transcription of the code on the 'shadow' inputs: TLC is EXPECTED to refute F_MarkerSeen
SPECIFICATION Spec
CONSTANTS
  Dirs = {"insights_commands_not", "insights_commands"}
  Leaves = {"f"}
  MaxFiles = 1
  MaxDepth = 3
  Packs = {"dir"}
  Wraps = {FALSE}
  Evils = {"none"}
  Overrides = {"none"}
  Wheres = {"plain"}
  Injects = {"none"}
  Plugs = {"none"}
  Modes = {"api"}
  Spaces = {"none"}
  Mech = "code"
  Admit = {"shadow"}
INVARIANT F_MarkerSeen
CHECK_DEADLOCK FALSE
