----------------------------- MODULE CollectTrace -----------------------------
(***************************************************************************)
(* Trace validation for Collect: what the real providers / factories /      *)
(* serialisers of insights.core.spec_factory did on a materialised layout   *)
(* (harness/drive_collect.py) must be allowed by the specification.         *)
(*                                                                         *)
(* A trace is either                                                        *)
(*   kind "path": lay = [fs, root, out]; events                             *)
(*      provide : a provider was requested for root (+) path -- recorded:   *)
(*                returned / raised, the content ids actually read, and     *)
(*                what the kernel says about the path (kstatus, knode)      *)
(*      persist : a yielded provider was serialised to the output directory *)
(*                -- recorded: every regular file created or modified       *)
(*                anywhere in the scratch tree (locations from Top), and    *)
(*                the destination strings seen by the audit hook            *)
(*   kind "deny": lay = the deny-list world W2/{root, out}; events           *)
(*      fpersist: everything one factory evaluation persisted through the  *)
(*                Hydration.make_persister observer, with the save_as form  *)
(*                given to the FACTORY -- recorded like persist; a write    *)
(*                the driver's guard refused (destination outside the       *)
(*                scratch area) is recorded as location <<"<outside>", ..>> *)
(*      collect : one factory evaluated under a host context with a deny    *)
(*                configuration -- recorded per candidate item: whether the *)
(*                file was opened / the command executed                    *)
(*                                                                         *)
(* Only what C06 states is constrained (R1).  Clauses starting with "R4."   *)
(* are cross-checks of the model's path walk against the kernel: the        *)
(* harness reports them as machinery failures, not as verdicts.             *)
(***************************************************************************)
EXTENDS Collect, Json, IOUtils, TLCExt

Batch == JsonDeserialize(IOEnv.TRACE_FILE)

VARIABLES tid, l
tvars == <<vars, tid, l>>

Rng(s) == {s[i] : i \in DOMAIN s}
T      == Batch[tid]
Ev     == T.events[l + 1]
More   == l < Len(T.events)
L      == T.lay                         \* only for kind "path"

HasDots(p) == \E i \in DOMAIN p : p[i] = ".."

(* ---- provide ----------------------------------------------------------- *)
KernelAgrees ==
    \/ Ev.kstatus = "skip"
    \/ LET r == Resolve(L, Ev.path) IN
       \/ r.status = "abovetop"                 \* the walk leaves the scratch world: not modelled, not compared
       \/ /\ r.status = Ev.kstatus
          /\ r.status = "ok" => r.cur = Ev.knode

IsInsideFile(c) == c \in DOMAIN L.fs /\ L.fs[c].k = "file" /\ IsDesc(L.fs, c, RootNode(L))

ProvideOK == KernelAgrees /\ \A c \in Rng(Ev.contents) : IsInsideFile(c)

DiagProvide ==
    IF ~KernelAgrees THEN "R4.resolve:model-" \o Resolve(L, Ev.path).status \o ":kernel-" \o Ev.kstatus
    ELSE LET c == CHOOSE c \in Rng(Ev.contents) : ~IsInsideFile(c) IN
         IF c \notin DOMAIN L.fs \/ L.fs[c].k # "file" THEN "Contained:yielded-unidentified-content"
         ELSE "Contained:yielded-outside-root:" \o Region(L, c)

(* ---- persist ----------------------------------------------------------- *)
ModelDst(d) == WalkLoc(L.fs, Run(L.fs, Walk(Top, d, TRUE)))
DstAgrees   == Ev.seq # "single" \/           \* (after a first spec wrote, the tree is no longer the layout's)
               \A loc \in Rng(Ev.written) : \E d \in Rng(Ev.dsts) : ModelDst(d) = loc   \* every file really
                                    \* written is where the model's walk puts one of the destination strings
AllCopies   == \A i \in DOMAIN Ev.wtypes : Ev.wtypes[i] = "file"      \* what is persisted is a real copy
PersistOK   == DstAgrees /\ (\A loc \in Rng(Ev.written) : UnderOut(L, loc)) /\ AllCopies

DiagPersist ==
    IF ~DstAgrees THEN "R4.destination"
    ELSE IF Ev.seq # "single" THEN          \* two specs persisted the same relative path, one after the other
         (IF \E loc \in Rng(Ev.written) : ~UnderOut(L, loc)
            THEN "WritesUnderOut:second-spec-same-path-wrote-outside-outdir:" \o Ev.seq
            ELSE "WritesUnderOut:persisted-object-is-" \o (CHOOSE x \in Rng(Ev.wtypes) : x # "file") \o ":" \o Ev.seq)
    ELSE IF \A loc \in Rng(Ev.written) : UnderOut(L, loc)
         THEN "WritesUnderOut:persisted-object-is-" \o (CHOOSE x \in Rng(Ev.wtypes) : x # "file") \o ":saveas-" \o Ev.saveas
    ELSE "WritesUnderOut:written-outside-outdir:" \o
         (IF HasDots(Ev.path) THEN "relpath-dotdot" ELSE "relpath-plain") \o ":saveas-" \o Ev.saveas

(* ---- fpersist (a factory's results persisted by the observer) ----------- *)
DiagFPersist ==
    IF ~DstAgrees THEN "R4.destination"
    ELSE IF \A loc \in Rng(Ev.written) : UnderOut(L, loc)
         THEN "WritesUnderOut:persisted-object-is-" \o (CHOOSE x \in Rng(Ev.wtypes) : x # "file") \o ":" \o Ev.factory
    ELSE IF \E loc \in Rng(Ev.written) : loc # <<>> /\ loc[1] = "out0"
         THEN "WritesUnderOut:written-into-earlier-runs-outdir:" \o Ev.factory
    ELSE "WritesUnderOut:written-outside-outdir:" \o Ev.factory \o ":saveas-" \o Ev.saveas

(* ---- collect (deny list) ------------------------------------------------ *)
CfgOf(e) == [files |-> Rng(e.files), commands |-> Rng(e.commands), comps |-> Rng(e.comps)]
Offending(e) == {i \in DOMAIN e.items : e.items[i].acc /\ DeniedByUser(CfgOf(e), e.comp, [t |-> e.items[i].t, w |-> e.items[i].w])}
CollectOK == Offending(Ev) = {}

HowDenied(e, it) ==
    IF it.t = "file" /\ it.w \in Rng(e.files) THEN "exact-path"
    ELSE IF it.t = "cmd" /\ it.w \in Rng(e.commands) THEN "exact-command"
    ELSE IF it.t = "cmd" /\ \E x \in Rng(e.commands) : IsPrefix(x, it.w) THEN "command-followed-by-space"
    ELSE IF e.comp # "" /\ FullName(e.comp) \in Rng(e.comps) THEN "component-name"
    ELSE "symbolic-name"

DiagCollect ==
    LET i == CHOOSE i \in Offending(Ev) : TRUE IN
    "DenyRespected:" \o Ev.factory \o ":" \o Ev.items[i].t \o ":" \o HowDenied(Ev, Ev.items[i]) \o
    (CASE Ev.items[i].cls = "blank" -> ":blank-in-path"
       [] Ev.items[i].cls = "meta"  -> ":regex-chars"
       [] Ev.items[i].cls = "deep"  -> ":deep-path-argument"
       [] Ev.items[i].cls = "digit-name" -> ":digit-in-name"
       [] Ev.items[i].cls = "nonnormal" -> ":path-not-in-normal-form"
       [] OTHER -> "") \o
    (IF Ev.entry = "collect" THEN ":through-collect-entry-point" ELSE "")

(* ------------------------------------------------------------------------ *)
Accepts ==
    CASE Ev.ev = "provide" -> ProvideOK
      [] Ev.ev = "persist" -> PersistOK
      [] Ev.ev = "fpersist" -> PersistOK
      [] Ev.ev = "collect" -> CollectOK
      [] OTHER -> FALSE

Diagnose ==
    CASE Ev.ev = "provide" -> DiagProvide
      [] Ev.ev = "persist" -> DiagPersist
      [] Ev.ev = "fpersist" -> DiagFPersist
      [] Ev.ev = "collect" -> DiagCollect
      [] OTHER -> "unknown-event"

Idle == /\ sub = "trace" /\ lay = <<>> /\ path = <<>> /\ w = <<>> /\ yielded = FALSE /\ written = {}
        /\ dn = NoDeny

TraceInit == tid = 1 /\ l = 0 /\ Idle

(* Total: an event is either allowed by the specification or the trace is   *)
(* rejected with the failing clause; a path trace goes on after a rejection *)
(* (its events are independent), so one finding does not hide another.      *)
TraceNext ==
    /\ tid <= Len(Batch)
    /\ UNCHANGED vars
    /\ IF ~More
         THEN /\ TLCSet(2, TLCGet(2) + l)
              /\ tid' = tid + 1 /\ l' = 0
         ELSE /\ IF Accepts THEN TRUE
                 ELSE TLCSet(1, TLCGet(1) \cup {[id |-> T.id, line |-> l + 1, clause |-> Diagnose]})
              /\ l' = l + 1 /\ tid' = tid
TraceSpec == TraceInit /\ [][TraceNext]_tvars

ASSUME TLCSet(1, {}) /\ TLCSet(2, 0)

Post ==
    /\ \A r \in TLCGet(1) : PrintT(<<"REJ", ToJson(r)>>)
    /\ PrintT(<<"STAT", ToJson([traces |-> Len(Batch), events |-> TLCGet(2)])>>)

=============================================================================
