\* run with -simulate num=12000 -depth 100
SPECIFICATION SpecSim
CONSTANTS
  Fam = "prog"
  MinN = 4
  N = 8
  KindSet = {"comp", "ds", "point"}
  TypSet = {"base", "sub"}
  GrpSet = {1, 2}
  LabelSet = {"g1", "g2", "none", "opt", "req"}
  PrioSet = {0, 1, 2}
  MaxAdds = 4
  AskSet = {"basic", "help", "specs", "sub", "topo", "walk"}
  KeyMode = "any"
  WalkMech = "bfs"
  Prefix <- NoPrefix
INVARIANT TypeOK
INVARIANT RegistryInverse
INVARIANT RegistryIsDeclared
INVARIANT ClosureLaws
INVARIANT PointLaws
INVARIANT GrowLaws
INVARIANT PeelLaws
INVARIANT BfsLaws
INVARIANT HelperLaws
INVARIANT SpecLaws
INVARIANT CodeFormDeviatesOnlyInClasses
CONSTRAINT Emit
CHECK_DEADLOCK FALSE
