SPECIFICATION SpecDeny
CONSTANTS
  MaxLen = 0
  MaxDots = 0
  MaxHops = 40
  L1Set = {"none"}
  L2Set = {"none"}
  ViaSet = {"direct"}
  OutSet = {"t"}
  SaveAsSet = {"none"}
  ContainMode = "ancestry"
  DestMode = "normalised"
  CopyMode = "content"
  CollectOrder = "configs-then-denylist"
  ObserverMode = "copied"
  DenyFactories = {"simple_file", "glob_file", "first_file", "foreach_collect", "simple_command", "command_with_args", "foreach_execute", "container_execute", "container_collect"}
  DenyMax = 3
INVARIANT DenyRespected
INVARIANT FactoryWritesUnderOut
CONSTRAINT Emit
CHECK_DEADLOCK FALSE
