SPECIFICATION SpecPath
CONSTANTS
  MaxLen = 4
  MaxDots = 3
  MaxHops = 40
  L1Set = {"none", "infile", "parent", "absin", "absdir", "abspre", "absoth", "relpre", "reloth", "dirpre", "diroth", "dangling", "loop"}
  L2Set = {"none", "chain", "up2pre", "uptf"}
  ViaSet = {"direct"}
  OutSet = {"t"}
  SaveAsSet = {"none", "file", "dir"}
  ContainMode = "ancestry"
  DestMode = "normalised"
  CopyMode = "content"
  CollectOrder = "configs-then-denylist"
  ObserverMode = "copied"
  DenyFactories = {}
  DenyMax = 0
INVARIANT Contained
INVARIANT WritesUnderOut
INVARIANT StepAgreesWithRun
INVARIANT RealpathIsFixpoint
INVARIANT NormalIsLexical
CONSTRAINT Emit
CHECK_DEADLOCK FALSE
