SPECIFICATION Spec
CONSTANTS
  MaxCfg = 0
  CfgNames = {"x01", "specs", "impl", "alpha", "ibeta", "plugins", "po", "io", "nomatch"}
  CfgFlags = {"on", "off", "omit"}
  CfgPreset = "allon"
  MaxPersist = 0
  PersistNames = {"x01"}
  PersistFlags = {"on"}
  PersistPreset = "all"
  DefaultSet = {FALSE}
  PreSet = {"none"}
  FileDeny = {"f_alpha", "f_b1", "f_osrel", "f_sym", "f_ident"}
  CmdDeny = {"c_exact", "c_pre", "c_mid", "c_nopre", "c_sym"}
  CompDeny = {"k_ig", "k_pa", "k_io", "k_unknown"}
  MaxDeny = 3
  ViaSet = {"manifest", "rmconf", "split"}
  StrategySet = {"serial", "parallel"}
  WorkerSet = {"default"}
  CompressSet = {FALSE}
  AlphaSet = {"present", "absent"}
  GammaSet = {"val"}
  Interleave = FALSE
  CfgMode = "documented"
  PersistMode = "documented"
  PersisterMode = "documented"
INVARIANT DefaultApplied
INVARIANT EnabledIsLastMatch
INVARIANT PersistSetIsLastMatch
INVARIANT BlacklistExact
INVARIANT DisabledNeverRuns
INVARIANT DeniedNeverCollected
INVARIANT PersistExact
INVARIANT ParallelEqualsSerial
INVARIANT LoadBackExact
INVARIANT ErrorsReported
INVARIANT Terminates
CONSTRAINT Emit
CHECK_DEADLOCK FALSE
