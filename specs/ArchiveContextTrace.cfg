SPECIFICATION TraceSpec
CONSTANTS
  Dirs = {}
  Leaves = {}
  MaxFiles = 0
  MaxDepth = 1
  Packs = {}
  Wraps = {}
  Evils = {}
  Overrides = {}
  Wheres = {}
  Injects = {}
  Plugs = {}
  Modes = {}
  Spaces = {}
  Mech = "intended"
  Admit = {}
POSTCONDITION Post
CHECK_DEADLOCK FALSE
