-------------------------------- MODULE Serde --------------------------------
(***************************************************************************)
(* What collection persists is what analysis loads                          *)
(* (insights/core/serde.py Hydration.dehydrate / hydrate, the provider      *)
(* serializers / deserializers of insights/core/spec_factory.py,            *)
(* insights/core/hydration.py initialize_broker).                           *)
(*                                                                         *)
(* A behaviour:                                                             *)
(*   collect : the entries of an archive are chosen (Init) and persisted    *)
(*             one Dehydrate step per component: a data file per element    *)
(*             (the lines joined with "\n") and one metadata document;      *)
(*   corrupt : any subset of the metadata entries is damaged (deleted,      *)
(*             truncated, non-JSON, unknown component name, wrong shape,    *)
(*             data file gone);                                             *)
(*   load    : HydrateEntry(c) for the metadata files in ANY order, each    *)
(*             inside its own try/except;                                   *)
(*   done.                                                                  *)
(*                                                                         *)
(* Text is abstract: a line is a sequence of atoms (<<>> is the empty       *)
(* line), a file is a sequence over atoms and "NL".  Join / Lines are the   *)
(* transcription of "\n".join and of Python's line iteration; the driver    *)
(* cross-checks both against the real interpreter (R4).                     *)
(*                                                                         *)
(* Properties (C11): RoundTrip, ErrorsPersisted, FaultIsolation.            *)
(***************************************************************************)
EXTENDS Naturals, Sequences, FiniteSets, TLC, SequencesExt

CONSTANTS
    N,          \* components / metadata entries in the archive
    Kinds,      \* subset of AllKinds
    Atoms,      \* line atoms: plain, plain with trailing blank, non-ASCII, very long
    MinLines,   \* lines per element, lower bound
    MaxLines,   \* lines per element, upper bound
    MaxElems,   \* 0: only single-output entries; k: also multi-output entries with 1..k elements
    SaveAsSet,  \* subset of {"none", "file", "dir"}
    Modes,      \* corruption modes explored
    MayFail,    \* BOOLEAN: components that did not produce a value are part of the archive
    OutcomeSet, \* how such a component ended: subset of {"content", "cmd", "timeout", "crash", "skip"}
                \* (ContentException, CalledProcessError, TimeoutException, any other exception, SkipComponent)
    BackedSet,  \* subset of BOOLEAN: TRUE = the datasource implements a registry point (the spec is what is
                \* persisted), FALSE = a stand-alone datasource (persisted under its own name)
    FilterSet,  \* subset of BOOLEAN: TRUE = the spec is filterable and has a filter with a max-match budget; every
                \* persisted line matches it and an element has at most Budget lines, so loading keeps them all
    Budget,     \* the filter's max_match
    BudgetMode, \* "per-load": every element is filtered against the full budget (specified) | "shared": what one
                \* element used up is gone for the next (exists so that TLC can show that RoundTrip is able to fail)
    RecordMode, \* "component": a failure is filed under what is persisted (specified) | "points-only": only under
                \* registry points (exists so that TLC can show that ErrorsPersisted is able to fail)
    MaxFaults,  \* at most this many corrupted entries
    PoolSet,    \* subset of BOOLEAN: Hydration is given a thread pool (the elements of a multi-output value are
                \* then serialised concurrently, in any completion order)
    LateSet,    \* subset of BOOLEAN: TRUE = the component was registered (its plugin was loaded) only AFTER the process
                \* had already loaded an earlier archive, i.e. after the process's first look-up of a component by name
                \* (a long-running process: load, load a further plugin, collect, load); FALSE = registered before
    LookupMode, \* "live": a look-up by name finds every component registered at the time of the look-up (specified) |
                \* "snapshot": it answers from the table of the process's first look-up (exists so that TLC can show
                \* that FaultIsolation is able to fail)
    AssembleMode \* "index": results are assembled in element order (specified) | "completion": in the order
                \* in which the pool finished them (exists so that TLC can show that RoundTrip is able to fail)

AllKinds == {"text", "raw", "command", "cfile", "ccmd", "datasource"}
CmdKinds == {"command", "ccmd"}               \* the kinds that carry a command and arguments (Reading, notes/C11.md)
AllModes == {"deleted", "truncated", "nonjson", "unknown", "shape", "datagone", "unopenable"}
            \* unopenable: the entry cannot even be opened (a directory of that name, a dangling symlink)
FailOutcomes == {"content", "cmd", "timeout", "crash"}        \* "failed"; "skip" is not a failure

VARIABLES
    phase,      \* "collect" | "corrupt" | "load" | "done"
    entries,    \* [Comp -> Entry]   what collection produced (the broker before dehydrate)
    pos,        \* next component to dehydrate
    meta,       \* [Comp -> Doc]     metadata documents on disk
    data,       \* set of [rel, file] data files on disk
    fault,      \* [Comp -> mode | "none"]
    hyd,        \* sequence of entries hydrated so far (the glob order)
    loaded,     \* [Comp -> Loaded]  the fresh broker
    pooled,     \* this archive is persisted with a thread pool
    inflight    \* pooled dehydrate in progress: [c, todo (elements not yet serialised), fin (completion order)]

vars == <<phase, entries, pos, meta, data, fault, hyd, loaded, pooled, inflight>>

Comp == 1..N

-----------------------------------------------------------------------------
(* Text.                                                                    *)
RECURSIVE Join(_)
Join(L) == IF L = <<>> THEN <<>>
           ELSE IF Len(L) = 1 THEN L[1]
           ELSE L[1] \o <<"NL">> \o Join(Tail(L))             \* "\n".join(lines)

RECURSIVE Pieces(_, _)
Pieces(F, cur) ==                                             \* split at every NL
    IF F = <<>> THEN <<cur>>
    ELSE IF Head(F) = "NL" THEN <<cur>> \o Pieces(Tail(F), <<>>)
    ELSE Pieces(Tail(F), Append(cur, Head(F)))

Lines(F) ==                                                   \* [l.rstrip("\n") for l in file]
    LET P == Pieces(F, <<>>) IN IF Last(P) = <<>> THEN Front(P) ELSE P

(* "lines equal the persisted lines up to one trailing empty line"          *)
LinesOK(orig, got) ==
    \/ got = orig
    \/ orig # <<>> /\ Last(orig) = <<>> /\ got = Front(orig)

-----------------------------------------------------------------------------
(* Entries.  One record shape everywhere.                                   *)
NoArgs      == [shape |-> "none", v |-> <<>>]
Elem(ls, cmd, args) == [lines |-> ls, cmd |-> cmd, args |-> args]

NoValue(o, b) == [kind |-> "none", multi |-> FALSE, failed |-> o \in FailOutcomes, outcome |-> o, backed |-> b, filtered |-> FALSE,
                  late |-> FALSE, saveas |-> "none", elems |-> <<>>]
LineSet  == {<<>>} \cup {<<a>> : a \in Atoms}
RECURSIVE SeqsUpTo(_, _)
SeqsUpTo(S, n) == IF n = 0 THEN {<<>>} ELSE SeqsUpTo(S, n - 1) \cup {Append(q, x) : q \in SeqsUpTo(S, n - 1), x \in S}
Contents == {q \in SeqsUpTo(LineSet, MaxLines) : Len(q) >= MinLines}

CmdOf(k, c, j)  == IF k \in CmdKinds \cup {"cfile"} THEN "cmd-" \o ToString(c) \o "-" \o ToString(j) ELSE ""
ArgsOf(k, c, j, multi) ==
    IF k = "ccmd" THEN [shape |-> "seq", v |-> <<"img", "podman", "k" \o ToString(j)>>]
    ELSE IF k = "command" /\ multi THEN        \* per-item arguments, some of them falsy: "" and ()
        (CASE j = 1 -> [shape |-> "str", v |-> <<"">>]
           [] j = 3 -> [shape |-> "seq", v |-> <<>>]
           [] OTHER -> [shape |-> "str", v |-> <<"a" \o ToString(j)>>])
    ELSE NoArgs

SaveAsOf(k) == IF k \in {"cfile", "ccmd"} THEN {"none"} ELSE SaveAsSet
EntrySpace(c) ==
    (IF TRUE \in FilterSet THEN
       { [kind |-> k, multi |-> TRUE, failed |-> FALSE, outcome |-> "ok", backed |-> TRUE, filtered |-> TRUE, late |-> FALSE, saveas |-> "none",
          elems |-> [j \in 1..Len(lss) |-> Elem(lss[j], CmdOf(k, c, j), ArgsOf(k, c, j, TRUE))]]
           : k \in Kinds \cap {"command", "ccmd", "cfile", "datasource"},
             lss \in (SeqsUpTo({q \in SeqsUpTo(LineSet \ {<<>>}, Budget) : q # <<>>}, MaxElems) \ {<<>>}) }
     ELSE {}) \cup
    { [kind |-> k, multi |-> FALSE, failed |-> FALSE, outcome |-> "ok", backed |-> b, filtered |-> FALSE, late |-> lt, saveas |-> sa,
       elems |-> <<Elem(ls, CmdOf(k, c, 1), ArgsOf(k, c, 1, FALSE))>>]
        : k \in Kinds, sa \in SaveAsSet, ls \in Contents, b \in BackedSet, lt \in LateSet } \cup
    { [kind |-> k, multi |-> TRUE, failed |-> FALSE, outcome |-> "ok", backed |-> b, filtered |-> FALSE, late |-> lt, saveas |-> sa,
       elems |-> [j \in 1..Len(lss) |-> Elem(lss[j], CmdOf(k, c, j), ArgsOf(k, c, j, TRUE))]]
        : k \in Kinds, sa \in SaveAsSet \ {"file"}, lss \in (SeqsUpTo(Contents, MaxElems) \ {<<>>}), b \in BackedSet,
          lt \in LateSet } \cup
    (IF MayFail THEN {NoValue(o, b) : o \in OutcomeSet, b \in BackedSet} ELSE {})
Applicable(e) == e.saveas \in SaveAsOf(e.kind)

(* relative location recorded by the serializer                             *)
Prefix(k) == CASE k = "command" -> <<"insights_commands">>
               [] k \in {"cfile", "ccmd"} -> <<"insights_containers">>
               [] OTHER -> <<>>
Base(c, j) == <<"p" \o ToString(c), "f" \o ToString(j)>>
RelOf(e, c, j) ==
    Prefix(e.kind) \o
    (CASE e.saveas = "none" -> Base(c, j)
       [] e.saveas = "file" -> <<"sv" \o ToString(c), "x">>
       [] e.saveas = "dir"  -> <<"sv" \o ToString(c), Last(Base(c, j))>>)

(* Metadata document.                                                       *)
NoDoc == [present |-> FALSE, readable |-> FALSE, shape |-> FALSE, name |-> 0, nerrors |-> 0, hasres |-> FALSE,
          multi |-> FALSE, res |-> <<>>]
DocOrd(e, c, ord) ==                    \* ord: the order in which the results are listed
    [present |-> TRUE, readable |-> TRUE, shape |-> TRUE, name |-> c,
     nerrors |-> IF e.failed THEN 1 ELSE 0, hasres |-> ~e.failed, multi |-> e.multi,
     res |-> [i \in DOMAIN ord |-> [rel |-> RelOf(e, c, ord[i]), cmd |-> e.elems[ord[i]].cmd,
                                    args |-> e.elems[ord[i]].args]]]
DocOf(e, c) == DocOrd(e, c, [j \in DOMAIN e.elems |-> j])
NoFlight == [c |-> 0, todo |-> {}, fin |-> <<>>]

Absent == [present |-> FALSE, multi |-> FALSE, elems |-> <<>>]

-----------------------------------------------------------------------------
NoEntry == [kind |-> "none", multi |-> FALSE, failed |-> FALSE, outcome |-> "ok", backed |-> FALSE, filtered |-> FALSE, late |-> FALSE,
            saveas |-> "none", elems |-> <<>>]

(* Is the failure of e on record under the key that is persisted?  dr files every other exception under the     *)
(* component and its registry points; datasource.invoke files ContentException / CalledProcessError /           *)
(* TimeoutException under the registry points, or under the component itself when it implements none.           *)
Recorded(e) == e.failed /\ (RecordMode = "component" \/ e.backed \/ e.outcome = "crash")
Persisted(e, c) == IF e.outcome = "ok" THEN DocOf(e, c)
                   ELSE IF Recorded(e) THEN DocOf(e, c)
                   ELSE NoDoc                               \* nothing to write: no results, no errors

Init ==
    /\ phase = "collect" /\ pos = 1
    /\ entries = [c \in Comp |-> NoEntry]
    /\ meta = [c \in Comp |-> NoDoc] /\ data = {}
    /\ fault = [c \in Comp |-> "none"] /\ hyd = <<>>
    /\ loaded = [c \in Comp |-> Absent]
    /\ pooled \in PoolSet /\ inflight = NoFlight

(* Component c produced e (any entry of the space) and the persister ran:    *)
(* Hydration.dehydrate(c, broker) serialises every element and writes the   *)
(* metadata document.                                                       *)
DehydrateWith(e) ==
    /\ phase = "collect" /\ pos <= N /\ inflight.c = 0
    /\ LET c == pos IN
       IF pooled /\ e.multi
         THEN /\ entries' = [entries EXCEPT ![c] = e]          \* marshal hands the elements to the pool
              /\ inflight' = [c |-> c, todo |-> DOMAIN e.elems, fin |-> <<>>]
              /\ UNCHANGED <<data, meta, pos, phase>>
         ELSE /\ entries' = [entries EXCEPT ![c] = e]
              /\ data' = data \cup {[rel |-> RelOf(e, c, j), file |-> Join(e.elems[j].lines)] : j \in DOMAIN e.elems}
              /\ meta' = [meta EXCEPT ![c] = Persisted(e, c)]
              /\ pos' = pos + 1
              /\ phase' = IF pos = N THEN "corrupt" ELSE phase
              /\ UNCHANGED inflight
    /\ UNCHANGED <<fault, hyd, loaded, pooled>>

(* a pool thread finishes serialising one element: ANY completion order     *)
SerializeElem(j) ==
    /\ phase = "collect" /\ inflight.c # 0 /\ j \in inflight.todo
    /\ LET c == inflight.c  e == entries[c] IN
       data' = data \cup {[rel |-> RelOf(e, c, j), file |-> Join(e.elems[j].lines)]}
    /\ inflight' = [inflight EXCEPT !.todo = @ \ {j}, !.fin = Append(@, j)]
    /\ UNCHANGED <<phase, entries, pos, meta, fault, hyd, loaded, pooled>>
SerializeAny == \E j \in inflight.todo : SerializeElem(j)

(* all elements done: the document lists the results in ELEMENT order        *)
DehydrateEnd ==
    /\ phase = "collect" /\ inflight.c # 0 /\ inflight.todo = {}
    /\ LET c == inflight.c  e == entries[c] IN
       meta' = [meta EXCEPT ![c] = IF AssembleMode = "completion" THEN DocOrd(e, c, inflight.fin) ELSE DocOf(e, c)]
    /\ pos' = pos + 1
    /\ phase' = IF pos = N THEN "corrupt" ELSE phase
    /\ inflight' = NoFlight
    /\ UNCHANGED <<entries, data, fault, hyd, loaded, pooled>>

Dehydrate == phase = "collect" /\ pos <= N /\ inflight.c = 0 /\ \E e \in {x \in EntrySpace(pos) : Applicable(x)} : DehydrateWith(e)

RelsOf(c) == {meta[c].res[j].rel : j \in DOMAIN meta[c].res}

Damage(c, m, mt) ==
    CASE m = "deleted"   -> [mt EXCEPT ![c] = NoDoc]
      [] m \in {"truncated", "nonjson", "unopenable"} -> [mt EXCEPT ![c].readable = FALSE]
      [] m = "unknown"   -> [mt EXCEPT ![c].name = 0]
      [] m = "shape"     -> [mt EXCEPT ![c].shape = FALSE]
      [] OTHER           -> mt

RECURSIVE DamageAll(_, _, _)
DamageAll(f, S, mt) == IF S = {} THEN mt
                       ELSE LET c == CHOOSE c \in S : TRUE IN DamageAll(f, S \ {c}, Damage(c, f[c], mt))

Corrupt ==
    /\ phase = "corrupt"
    /\ \E f \in [Comp -> Modes \cup {"none"}] :
         /\ Cardinality({c \in Comp : f[c] # "none"}) <= MaxFaults
         /\ \A c \in Comp : f[c] = "datagone" => (meta[c].hasres /\ meta[c].res # <<>>)
         /\ fault' = f
         /\ meta' = DamageAll(f, {c \in Comp : f[c] # "none"}, meta)
         /\ data' = {d \in data : ~\E c \in Comp : f[c] = "datagone" /\ d.rel \in RelsOf(c)}
    /\ phase' = "load"
    /\ UNCHANGED <<entries, pos, hyd, loaded, pooled, inflight>>

FileAt(rel) == (CHOOSE d \in data : d.rel = rel).file
(* dr.get_component_by_name: the name recorded in the document is mapped back to the component.  Every component  *)
(* that is registered when the archive is loaded is found, also one whose plugin was loaded after the process had  *)
(* already answered look-ups (an earlier archive).                                                                 *)
Findable(c) == LookupMode = "live" \/ ~entries[c].late
Loadable(c) ==
    LET d == meta[c] IN
    /\ d.present /\ d.readable /\ d.shape /\ d.name \in Comp /\ d.hasres
    /\ Findable(d.name)
    /\ \A j \in DOMAIN d.res : \E x \in data : x.rel = d.res[j].rel

(* load-time filtering of a filterable spec: the last `n` matching lines are kept (all lines match here) *)
LastN(q, n) == IF Len(q) <= n THEN q ELSE SubSeq(q, Len(q) - n + 1, Len(q))
RECURSIVE UsedBefore(_, _)
UsedBefore(d, j) == IF j <= 1 THEN 0 ELSE UsedBefore(d, j - 1) + Len(Lines(FileAt(d.res[j - 1].rel)))
Left(d, j) == IF BudgetMode = "per-load" THEN Budget
              ELSE IF UsedBefore(d, j) >= Budget THEN 0 ELSE Budget - UsedBefore(d, j)
Build(c) ==
    LET d == meta[c] IN
    [present |-> TRUE, multi |-> d.multi,
     elems |-> [j \in DOMAIN d.res |->
                  [lines |-> IF entries[c].filtered THEN LastN(Lines(FileAt(d.res[j].rel)), Left(d, j))
                             ELSE Lines(FileAt(d.res[j].rel)),
                   cmd |-> d.res[j].cmd, args |-> d.res[j].args, rel |-> d.res[j].rel]]]

(* one iteration of the loop in Hydration.hydrate, in its own try/except    *)
HydrateEntry(c) ==
    /\ phase = "load" /\ meta[c].present /\ c \notin {hyd[i] : i \in DOMAIN hyd}
    /\ hyd' = Append(hyd, c)
    /\ loaded' = IF Loadable(c) THEN [loaded EXCEPT ![meta[c].name] = Build(c)] ELSE loaded
    /\ UNCHANGED <<phase, entries, pos, meta, data, fault, pooled, inflight>>
HydrateAny == \E c \in Comp : HydrateEntry(c)

Finish ==
    /\ phase = "load" /\ \A c \in Comp : meta[c].present => c \in {hyd[i] : i \in DOMAIN hyd}
    /\ phase' = "done"
    /\ UNCHANGED <<entries, pos, meta, data, fault, hyd, loaded, pooled, inflight>>

Next == Dehydrate \/ SerializeAny \/ DehydrateEnd \/ Corrupt \/ HydrateAny \/ Finish
Spec == Init /\ [][Next]_vars

View == <<phase, entries, pos, meta, data, fault, {hyd[i] : i \in DOMAIN hyd}, loaded, pooled, inflight>>

-----------------------------------------------------------------------------
(* Properties.  The same operators judge the real traces in SerdeTrace.     *)
ArgsOK(k, o, g) == k \in CmdKinds => (g.cmd = o.cmd /\ g.args = o.args)

ElemOK(k, o, g, rel) == LinesOK(o.lines, g.lines) /\ ArgsOK(k, o, g) /\ g.rel = rel

(* strictly increasing maps 1..m -> 1..n: the loaded elements are an order- *)
(* preserving selection of the collected ones                               *)
Embeddings(m, n) == {f \in [1..m -> 1..n] : \A i, j \in 1..m : i < j => f[i] < f[j]}

EntryOK(e, ld, res) ==
    /\ ld.multi = e.multi
    /\ Len(ld.elems) = Len(res)
    /\ \E f \in Embeddings(Len(ld.elems), Len(e.elems)) :
         \A i \in DOMAIN ld.elems : ElemOK(e.kind, e.elems[f[i]], ld.elems[i], res[i].rel)

(* parameterised so that SerdeTrace can apply them to what was observed    *)
RoundTripFor(S, ents, mt, flt, ld) ==
    \A c \in S : (ld[c].present /\ flt[c] = "none") => EntryOK(ents[c], ld[c], mt[c].res)
ErrorsPersistedFor(S, ents, mt) ==
    \A c \in S : ents[c].failed => (mt[c].present /\ mt[c].nerrors >= 1)
MustLoadFor(c, mt, flt) == flt[c] = "none" /\ mt[c].present /\ mt[c].readable /\ mt[c].hasres
FaultIsolationFor(S, mt, flt, ld) ==
    /\ \A c \in S : MustLoadFor(c, mt, flt) => ld[c].present
    /\ \A c \in S : ld[c].present => mt[c].present

RoundTrip       == RoundTripFor(Comp, entries, meta, fault, loaded)
ErrorsPersisted == phase = "corrupt" => ErrorsPersistedFor(Comp, entries, meta)
FaultIsolation  == phase = "done" => FaultIsolationFor(Comp, meta, fault, loaded)

(* the text model itself *)
JoinSplitLaw == \A c \in Comp : \A j \in DOMAIN entries[c].elems :
                    LinesOK(entries[c].elems[j].lines, Lines(Join(entries[c].elems[j].lines)))

=============================================================================
