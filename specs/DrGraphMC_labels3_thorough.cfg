SPECIFICATION Spec
CONSTANTS
  Fam = "prog"
  MinN = 3
  N = 3
  KindSet = {"comp"}
  TypSet = {"base"}
  GrpSet = {1}
  LabelSet = {"g1", "g1+g2", "g1+opt", "g2", "none", "opt", "req", "req+opt"}
  PrioSet = {1}
  MaxAdds = 2
  AskSet = {"basic", "sub", "topo", "walk"}
  KeyMode = "any"
  WalkMech = "bfs"
  Prefix <- NoPrefix
INVARIANT TypeOK
INVARIANT RegistryInverse
INVARIANT RegistryIsDeclared
INVARIANT ClosureLaws
INVARIANT PointLaws
INVARIANT GrowLaws
INVARIANT PeelLaws
INVARIANT BfsLaws
INVARIANT HelperLaws
INVARIANT SpecLaws
INVARIANT CodeFormDeviatesOnlyInClasses
CONSTRAINT Emit
CHECK_DEADLOCK FALSE
