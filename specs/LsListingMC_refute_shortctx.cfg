\* the transcription of the code on the 'shortctx' inputs: TLC is EXPECTED to refute F_CodeMeetsReference
SPECIFICATION Spec
CONSTANTS
  Fam = "entry"
  N = 1
  Admit = {"shortctx"}
INVARIANT F_CodeMeetsReference
CHECK_DEADLOCK FALSE
