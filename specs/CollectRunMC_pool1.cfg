SPECIFICATION Spec
CONSTANTS
  MaxCfg = 0
  CfgNames = {"x01", "specs", "impl", "alpha", "ibeta", "plugins", "po", "io", "nomatch"}
  CfgFlags = {"on", "off", "omit"}
  CfgPreset = "allon"
  MaxPersist = 1
  PersistNames = {"ibeta", "plugins"}
  PersistFlags = {"on"}
  PersistPreset = "free"
  DefaultSet = {FALSE}
  PreSet = {"none"}
  FileDeny = {}
  CmdDeny = {}
  CompDeny = {}
  MaxDeny = 0
  ViaSet = {"manifest"}
  StrategySet = {"parallel"}
  WorkerSet = {"one"}
  CompressSet = {FALSE}
  AlphaSet = {"present"}
  GammaSet = {"val"}
  Interleave = FALSE
  CfgMode = "documented"
  PersistMode = "documented"
  PersisterMode = "documented"
INVARIANT DefaultApplied
INVARIANT EnabledIsLastMatch
INVARIANT PersistSetIsLastMatch
INVARIANT BlacklistExact
INVARIANT DisabledNeverRuns
INVARIANT DeniedNeverCollected
INVARIANT PersistExact
INVARIANT ParallelEqualsSerial
INVARIANT LoadBackExact
INVARIANT ErrorsReported
INVARIANT Terminates
CONSTRAINT Emit
CHECK_DEADLOCK FALSE
