-------------------------- MODULE ClientPhasesTrace --------------------------
(***************************************************************************)
(* Trace validation for ClientPhases (X08).  A trace is one client run that *)
(* harness/drive_clientphases.py made with the REAL phase functions: the    *)
(* options, the server script, the projection of the sandbox before the     *)
(* run, and per phase that ran: every status given to sys.exit, the status  *)
(* the process ended with, the opaque steps, the request kinds that reached *)
(* the scripted server, and the projection of the sandbox afterwards.       *)
(*                                                                         *)
(* Each observed phase is judged against the specified behaviour            *)
(* (Mech = "intent") evaluated by TLC on the OBSERVED state before the      *)
(* phase: Outcome(phase, opt, srv, disk).  A failing phase is recorded with *)
(* the clause and the abstract features of the deciding point; validation   *)
(* continues from the observed state.  Verdicts are total.                  *)
(***************************************************************************)
EXTENDS ClientPhases, Json, IOUtils, TLCExt

Batch == JsonDeserialize(IOEnv.TRACE_FILE)

VARIABLES tid, l
tvars == <<vars, tid, l>>

T    == Batch[tid]
Ev   == T.events[l + 1]
More == l < Len(T.events)

ToSet(q) == {q[i] : i \in DOMAIN q}
DiskRec(p) == [registered |-> p.registered, unregistered |-> p.unregistered, machineid |-> p.machineid,
               branch |-> p.branch, lastupload |-> p.lastupload, tmp |-> p.tmp, kept |-> p.kept,
               outfile |-> p.outfile, outdir |-> p.outdir]
OptRec(p) == [version |-> p.version, validate |-> p.validate, enable_schedule |-> p.enable_schedule,
              disable_schedule |-> p.disable_schedule, test_connection |-> p.test_connection, support |-> p.support,
              diagnosis |-> p.diagnosis, checkin |-> p.checkin, status |-> p.status, unregister |-> p.unregister,
              register |-> p.register, offline |-> p.offline, no_upload |-> p.no_upload,
              keep_archive |-> p.keep_archive, list_specs |-> p.list_specs, show_results |-> p.show_results,
              check_results |-> p.check_results, force |-> p.force, compliance |-> p.compliance,
              legacy |-> p.legacy, payload |-> p.payload, output |-> p.output]
SrvRec(p) == [net |-> p.net, reg |-> p.reg, up |-> p.up, chk |-> p.chk, unreg |-> p.unreg, upd |-> p.upd]

(* request kinds and steps the specification speaks about (R1: test-connection *)
(* probes made on the way, branch_info and display-name traffic are free)      *)
JudgedCalls == {"upload", "register", "unregister", "checkin", "diagnosis", "hostexists", "regcheck", "advisor"}
JudgedDid   == {"collect", "schedule", "unschedule", "support", "show_results", "update", "rotate"}

Want    == Outcome(Ev.phase, opt, srv, disk)
ObsDid  == ToSet(Ev.did) \cap JudgedDid
ObsCall == ToSet(Ev.calls) \cap JudgedCalls
ObsDisk == DiskRec(Ev.post)

KnownPhase == l + 1 <= 4 /\ Ev.phase = Phases[l + 1]
C_OneExit  == Len(Ev.exits) = 1 /\ Ev.exits[1] = Ev.code /\ Ev.code \in Codes
C_Exit     == Ev.code = Want.code
C_Offline  == opt.offline => Len(Ev.calls) = 0
C_NoUpload == ENoUpload(opt) => "upload" \notin ToSet(Ev.calls)
C_Terminating == (~Invalid(opt) /\ Terminating(opt)) => ("collect" \notin ToSet(Ev.did) /\ "upload" \notin ToSet(Ev.calls))
C_Steps    == ObsDid = Want.did \cap JudgedDid
C_Calls    == ObsCall = Want.calls \cap JudgedCalls
C_Disk     == ObsDisk = Want.disk

Accepts == KnownPhase /\ C_OneExit /\ C_Exit /\ C_Offline /\ C_NoUpload /\ C_Terminating /\ C_Steps /\ C_Calls /\ C_Disk

(* ---- naming the failing clause and the abstract features of the case ------- *)
B(b) == IF b THEN "yes" ELSE "no"
Mode == IF ELegacy(opt) THEN "legacy" ELSE "platform"
(* the features the deciding point looks at *)
Feat(p) ==
    CASE p \in {"p_diagnosis", "p_checkin"} -> ":net=" \o srv.net \o ":known=" \o srv.reg \o ":chk=" \o srv.chk \o ":machine-id=" \o B(disk.machineid)
      [] p = "p_testconn" -> ":net=" \o srv.net
      [] p = "q_check" -> ":net=" \o srv.net \o ":known=" \o srv.reg
      [] p = "ql_status" -> ":net=" \o srv.net \o ":known=" \o srv.reg \o ":machine-id=" \o B(disk.machineid)
      [] p = "ql_unreg" -> ":net=" \o srv.net \o ":known=" \o srv.reg \o ":delete=" \o srv.unreg \o ":force=" \o B(opt.force)
      [] p = "ql_register" -> ":net=" \o srv.net \o ":known=" \o srv.reg \o ":machine-id=" \o B(disk.machineid)
                              \o ":register=" \o B(ERegister(opt))
      [] p = "q_status" -> ":no-upload=" \o B(ENoUpload(opt) \/ opt.payload)
      [] p = "q_unreg" -> ":force=" \o B(opt.force) \o ":no-upload=" \o B(ENoUpload(opt) \/ opt.payload)
      [] p = "q_halt" -> ":marker=" \o B(disk.registered) \o ":register=" \o B(ERegister(opt))
      [] p \in {"q_bypass", "ql_bypass"} -> ":status=" \o B(opt.status) \o ":unregister=" \o B(opt.unregister)
      [] p \in {"c_upload", "c_rotate", "c_output"} ->
            ":net=" \o srv.net \o ":upload=" \o srv.up \o ":payload=" \o B(opt.payload) \o ":output=" \o opt.output
            \o ":keep=" \o B(EKeep(opt))
      [] p = "u_update" -> ":update=" \o srv.upd
      [] OTHER -> ""
TermOpts == <<"version", "validate", "enable_schedule", "disable_schedule", "test_connection", "support", "diagnosis",
              "checkin", "list_specs", "show_results", "check_results", "status", "unregister">>
(* --disable-schedule together with --register does not end the run *)
TermOn(i) == opt[TermOpts[i]] /\ (TermOpts[i] = "disable_schedule" => ~ERegister(opt))
FirstTerm == LET i == CHOOSE i \in 1..Len(TermOpts) : TermOn(i) /\ \A j \in 1..(i - 1) : ~TermOn(j)
             IN TermOpts[i]
Where == Ev.phase \o ":" \o Mode \o ":" \o Want.at
FirstOf(S) == CHOOSE x \in S : TRUE
DiskFields == <<"registered", "unregistered", "machineid", "branch", "lastupload", "tmp", "kept", "outfile", "outdir">>
DiffField == LET i == CHOOSE i \in 1..Len(DiskFields) :
                        /\ ObsDisk[DiskFields[i]] # Want.disk[DiskFields[i]]
                        /\ \A j \in 1..(i - 1) : ObsDisk[DiskFields[j]] = Want.disk[DiskFields[j]]
             IN DiskFields[i] \o "=" \o B(ObsDisk[DiskFields[i]])

Diagnose ==
    IF ~KnownPhase THEN "ENV:unexpected-phase"
    ELSE IF ~C_OneExit THEN "OneExit:" \o Ev.phase \o ":sys.exit-called=" \o ToString(Len(Ev.exits)) \o ":ended-with=" \o ToString(Ev.code)
    ELSE IF ~C_Exit THEN "Exit:" \o Where \o ":want=" \o ToString(Want.code) \o ":got=" \o ToString(Ev.code) \o Feat(Want.at)
    ELSE IF ~C_Offline THEN "Offline:" \o Where \o ":request=" \o Ev.calls[1]
    ELSE IF ~C_NoUpload THEN "NoUpload:" \o Where
    ELSE IF ~C_Terminating THEN
        "Terminating:" \o Ev.phase \o ":" \o Mode \o ":option=" \o FirstTerm \o ":collect=" \o B("collect" \in ToSet(Ev.did))
        \o ":upload=" \o B("upload" \in ToSet(Ev.calls))
    ELSE IF ~C_Steps THEN
        "Steps:" \o Where \o ":" \o
        (IF ObsDid \ Want.did # {} THEN "unexpected=" \o FirstOf(ObsDid \ Want.did)
         ELSE "missing=" \o FirstOf((Want.did \cap JudgedDid) \ ObsDid)) \o Feat(Want.at)
    ELSE IF ~C_Calls THEN
        "Calls:" \o Where \o ":" \o
        (IF ObsCall \ Want.calls # {} THEN "unexpected=" \o FirstOf(ObsCall \ Want.calls)
         ELSE "missing=" \o FirstOf((Want.calls \cap JudgedCalls) \ ObsCall)) \o Feat(Want.at)
    ELSE IF ~C_Disk THEN "Disk:" \o Where \o ":" \o DiffField \o Feat(Want.at)
    ELSE "unknown"

Load(t) == opt' = OptRec(t.opt) /\ srv' = SrvRec(t.srv) /\ disk' = DiskRec(t.init) /\ disk0' = DiskRec(t.init)

Advance ==
    IF tid < Len(Batch)
      THEN tid' = tid + 1 /\ l' = 0 /\ Load(Batch[tid + 1])
      ELSE tid' = Len(Batch) + 1 /\ l' = 0 /\ UNCHANGED <<opt, srv, disk, disk0>>

TraceInit ==
    /\ tid = 1 /\ l = 0
    /\ opt = OptRec(Batch[1].opt) /\ srv = SrvRec(Batch[1].srv)
    /\ disk = DiskRec(Batch[1].init) /\ disk0 = DiskRec(Batch[1].init)
    /\ phase = "pre_update" /\ pc = "start" /\ code = Running /\ at = "-" /\ did = {} /\ calls = {} /\ hist = <<>>

Record(c) == TLCSet(1, TLCGet(1) \cup {[id |-> T.id, line |-> l + 1, clause |-> c]})

(* the harness composes the phases like the wrapper: a phase after a non-zero exit is its own mistake *)
Composed == l = 0 \/ T.events[l].code = 0

TraceNext ==
    /\ tid <= Len(Batch)
    /\ IF ~More
         THEN TLCSet(2, TLCGet(2) + l) /\ Advance
         ELSE /\ IF ~Composed THEN Record("ENV:phase-after-nonzero-exit")
                 ELSE IF Accepts THEN TRUE ELSE Record(Diagnose)
              /\ disk' = ObsDisk /\ UNCHANGED <<opt, srv, disk0>>
              /\ l' = l + 1 /\ tid' = tid
    /\ UNCHANGED <<phase, pc, code, at, did, calls, hist>>
TraceSpec == TraceInit /\ [][TraceNext]_tvars

ASSUME TLCSet(1, {}) /\ TLCSet(2, 0)

PostCond ==
    /\ \A r \in TLCGet(1) : PrintT(<<"REJ", ToJson(r)>>)
    /\ PrintT(<<"STAT", ToJson([traces |-> Len(Batch), events |-> TLCGet(2)])>>)
=============================================================================
