\* a transcription of the code: TLC is EXPECTED to refute BfsLaws
SPECIFICATION Spec
CONSTANTS
  Fam = "prog"
  MinN = 4
  N = 4
  KindSet = {"comp"}
  TypSet = {"base"}
  GrpSet = {1}
  LabelSet = {"none", "req"}
  PrioSet = {1}
  MaxAdds = 0
  AskSet = {"walk"}
  KeyMode = "any"
  WalkMech = "dfs"
  Prefix <- NoPrefix
INVARIANT BfsLaws
CHECK_DEADLOCK FALSE
