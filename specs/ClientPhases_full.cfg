SPECIFICATION Spec
CONSTANTS
  Mech = "intent"
  MaxOn = 2
  SrvSel = "small"
  Focus = {"version", "validate", "enable_schedule", "disable_schedule", "test_connection", "support", "diagnosis", "checkin", "status", "unregister", "register", "offline", "no_upload", "keep_archive", "list_specs", "show_results", "check_results", "force", "compliance", "legacy", "payload"}
INVARIANT TypeOK
INVARIANT I_OneExit
INVARIANT I_Compose
INVARIANT I_NoCrash
INVARIANT I_InvalidStops
INVARIANT I_TerminatingNeverCollects
INVARIANT I_TerminatingExit
INVARIANT I_OfflineSilent
INVARIANT I_NoUpload
INVARIANT I_UnregisteredStops
INVARIANT I_UnregisteredNoCollect
INVARIANT I_UnregisterAgreed
INVARIANT I_UnregisterExit
INVARIANT I_Frame
INVARIANT I_ArchiveFate
INVARIANT I_CollectExit
INVARIANT I_UpdateExit
CHECK_DEADLOCK FALSE
