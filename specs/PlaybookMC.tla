----------------------------- MODULE PlaybookMC -----------------------------
(***************************************************************************)
(* Model-checking wrapper for Playbook: the bounded play sets.  Every play *)
(* of the set is one initial state; TLC checks the per-play laws as        *)
(* invariants, the set-level law Injective as an ASSUME-style invariant on *)
(* the first state, and emits one CASE record per play for the driver.     *)
(*                                                                         *)
(*  "free"   a standard signed play whose free part (top-level key 'a')    *)
(*           ranges over ALL value trees of at most 3 nodes over a small   *)
(*           scalar / key set rich in the serialiser's own delimiters,     *)
(*           plus one big-string position (all strings up to StrLen over   *)
(*           the 9-symbol alphabet) as value, sequence item, mapping value *)
(*           and mapping KEY; the set therefore contains every single edit *)
(*           (change, insert, delete, reorder, re-nest, re-type) of each   *)
(*           of its members that stays inside the bound                    *)
(*  "craft"  edits crafted from the reference serialisation: a key / value *)
(*           whose text re-creates the serialised text of a two-entry      *)
(*           mapping / two-item sequence; control characters against the   *)
(*           text of a shorter hex escape followed by a hex digit          *)
(*  "table"  the verification outcome table: hosts x vars shape x          *)
(*           signature x exclusion list x excluded child; plus plays with  *)
(*           top-level labels that merely start with hosts / vars          *)
(*           (vars_files, vars_prompt, hostsfile, host) and requests       *)
(*           naming them or their children                                 *)
(*  "touch"  every single scalar edit of every accepted "table" play       *)
(*           (inside and outside the excluded elements)                    *)
(***************************************************************************)
EXTENDS Playbook, Json

CONSTANTS StrLen,        \* longest string of the big-string position (2 quick, 3 thorough)
          Part,          \* which family of plays this run enumerates
          Rich           \* BOOLEAN: larger scalar / key sets for the <= 3 node trees (thorough tier)

A == <<97>>
B64 == <<97, 97, 97, 97>>

(* ---- builders: a subtree is a flat sequence whose root has depth 0 ---- *)
NoKey(t, v, n) == Node(0, t, "none", <<>>, 0, v, n)
S(v)  == << NoKey("str", v, 0) >>
I(n)  == << NoKey("int", <<>>, n) >>
Bo(b) == << NoKey("bool", <<>>, IF b THEN 1 ELSE 0) >>
Nul   == << NoKey("null", <<>>, 0) >>
Shift(tr) == [i \in DOMAIN tr |-> [tr[i] EXCEPT !.d = @ + 1]]
RECURSIVE Cat(_)
Cat(ss) == IF ss = <<>> THEN <<>> ELSE Head(ss) \o Cat(Tail(ss))
L(items)   == << NoKey("seq", <<>>, 0) >> \o Cat([i \in DOMAIN items |-> Shift(items[i])])
M(entries) == << NoKey("map", <<>>, 0) >> \o Cat([i \in DOMAIN entries |-> Shift(entries[i])])
SK(k)  == [kt |-> "str", k |-> k, kn |-> 0]
IK(n)  == [kt |-> "int", k |-> <<>>, kn |-> n]
E(key, tr) == [tr EXCEPT ![1].kt = key.kt, ![1].k = key.k, ![1].kn = key.kn]
KS(k, tr)  == E(SK(k), tr)

(* ---- exclusion requests ---- *)
P1(a)       == <<SLASH>> \o a
P2(a, b)    == <<SLASH>> \o a \o <<SLASH>> \o b
P3(a, b, c) == <<SLASH>> \o a \o <<SLASH>> \o b \o <<SLASH>> \o c
C2(x, y)    == x \o <<COMMA>> \o y
CKEY == <<99>>       \* "c": the optional extra child of vars / hosts

StdList == C2(P1(HOSTS), P2(VARS, SIG))
Std(free) ==
    M(<< KS(NAME, S(A)), KS(HOSTS, S(A)),
         KS(VARS, M(<< KS(SIGEXCL, S(StdList)), KS(SIG, S(B64)) >>)),
         KS(A, free) >>)

(* ---- "free": all value trees of at most 3 nodes ---- *)
Chars == {97, 39, 34, 92, 44, 40, 41, 32, 10, 110,  \* a ' " \ , ( ) space newline n (n: the text of an escape)
          1, 16, 31, 48, 102}                        \* control characters U+0001 U+0010 U+001F and the hex digits 0 f
RECURSIVE StrUpTo(_)
StrUpTo(n) == IF n = 0 THEN {<<>>} ELSE StrUpTo(n - 1) \cup {Append(s, c) : s \in {x \in StrUpTo(n - 1) : Len(x) = n - 1}, c \in Chars}
BigStr == StrUpTo(StrLen)

Sc  == {S(A), S(<<39>>), S(<<92>>), S(<<49>>), I(1), Bo(TRUE), Nul, S(<<97, 39>>)}     \* 'a' "'" '\' '1' 1 True None "a'"
       \cup (IF Rich THEN {S(<<34>>), S(<<44, 32>>), I(0), Bo(FALSE), S(<<97, 10>>)} ELSE {})   \* '"' ', ' 0 False 'a\n'
Key == {SK(A), SK(<<98>>), SK(<<49>>), IK(1), SK(<<39>>)}                               \* 'a' 'b' '1' 1 "'"
       \cup (IF Rich THEN {SK(<<92>>), IK(0)} ELSE {})

FreeBig == UNION {{S(s), L(<<S(s)>>), M(<<KS(A, S(s))>>), M(<<KS(s, S(A))>>)} : s \in BigStr}
FreeSmall ==
    Sc \cup {L(<<>>), M(<<>>)}
    \cup {L(<<a>>) : a \in Sc} \cup {M(<<E(k, a)>>) : k \in Key, a \in Sc}
    \cup {L(<<a, b>>) : a, b \in Sc}
    \cup {L(<<L(<<a>>)>>) : a \in Sc} \cup {L(<<M(<<E(k, a)>>)>>) : k \in Key, a \in Sc}
    \cup {M(<<E(k, a), E(k2, b)>>) : <<k, k2>> \in {kk \in Key \X Key : kk[1] # kk[2]}, a \in Sc, b \in Sc}
    \cup {M(<<E(k, L(<<a>>))>>) : k \in Key, a \in Sc}
    \cup {M(<<E(k, M(<<E(k2, a)>>))>>) : k, k2 \in Key, a \in Sc}

(* ---- "craft": the text of the reference serialisation injected as a key / value ---- *)
PlainK == {A, <<98>>, <<49>>}
PlainV == {A, <<49>>, <<97, 32>>, <<>>}
Inner(tr) == LET s == Ser(tr) IN s            \* reference text of a subtree
CraftKey(k1, v1, k2, v2) ==                   \* {k1: v1, k2: v2}  ~>  {"k1', 'v1'), ('k2": v2}
    LET full == Ser(M(<<KS(k1, S(v1)), KS(k2, S(v2))>>))
        tail == 3 + Len(Ser(S(v2))) + 1 + Len(TxOdClose)
    IN SubSeq(full, Len(TxOdOpen) + 3, Len(full) - tail)
CraftVal(v1, v2) ==                           \* [v1, v2]  ~>  ["v1', 'v2"]
    LET full == Ser(L(<<S(v1), S(v2)>>)) IN SubSeq(full, 3, Len(full) - 2)
FreeCraft ==
    UNION {{M(<<KS(k1, S(v1)), KS(k2, S(v2))>>), M(<<KS(CraftKey(k1, v1, k2, v2), S(v2))>>)}
           : <<k1, k2>> \in {kk \in PlainK \X PlainK : kk[1] # kk[2]}, v1 \in PlainV, v2 \in PlainV}
    \cup UNION {{L(<<S(v1), S(v2)>>), L(<<S(CraftVal(v1, v2))>>), S(Ser(L(<<S(v1), S(v2)>>)))}
           : v1 \in PlainV, v2 \in PlainV}
    \* a control character vs the smaller control character its (un-padded) hex escape starts with + a hex digit,
    \* and the literal escape texts, as value and as key
    \cup UNION {{S(s), L(<<S(s)>>), M(<<KS(s, S(A))>>), M(<<KS(A, S(s)), KS(s, I(1))>>)}
                : s \in {<<16>>, <<1, 48>>, <<31>>, <<1, 102>>, <<127>>, <<7, 102>>, <<7>>, <<0>>, <<0, 48>>, <<27>>, <<1, 98>>,
                         <<92, 120, 49, 48>>, <<92, 120, 49, 102>>, <<92, 120, 48, 49, 48>>, <<16, 48>>, <<1, 48, 48>>}}
    \cup UNION {{tr, S(Ser(tr))} : tr \in {I(1), Bo(TRUE), Bo(FALSE), Nul, L(<<>>), M(<<>>), L(<<I(1)>>), M(<<KS(A, I(1))>>)}}

(* ---- "table" ---- *)
HostsOpts == { <<>>, <<KS(HOSTS, S(A))>>, <<KS(HOSTS, M(<<KS(A, S(A)), KS(CKEY, I(1))>>))>>, <<KS(HOSTS, L(<<S(A)>>))>> }
SigOpts   == { <<>>, <<KS(SIG, Nul)>>, <<KS(SIG, S(B64))>> }
Lists == { P1(HOSTS), P2(VARS, SIG), StdList, P1(VARS), P1(TASKS), P1(NAME), P2(HOSTS, A), P2(VARS, CKEY),
           P3(VARS, CKEY, A), P2(A, HOSTS), <<>>, C2(P1(HOSTS), P1(HOSTS)), HOSTS, P2(VARS, SIGEXCL),
           C2(P2(VARS, SIG), P1(VARS)), C2(P1(VARS), P2(VARS, CKEY)), P2(TASKS, A),
           C2(P2(VARS, CKEY), P2(VARS, SIG)), C2(P1(HOSTS), P1(TASKS)), P2(VARS, <<49>>), P2(HOSTS, <<48>>),
           C2(P2(VARS, SIG), P2(HOSTS, A)), C2(StdList, P2(VARS, CKEY)), C2(P2(HOSTS, CKEY), P2(VARS, SIG)),
           P2(A, CKEY), C2(P2(VARS, SIG), P2(A, CKEY)), P1(A) }
ListOpts  == { <<>> } \cup { <<KS(SIGEXCL, S(e))>> : e \in Lists }
ChildOpts == { <<>>, <<KS(CKEY, S(A))>>, <<KS(CKEY, M(<<KS(A, S(A))>>))>>, <<E(IK(1), S(A))>> }
TasksE    == <<KS(TASKS, L(<<M(<<KS(A, S(A))>>)>>)), KS(A, M(<<KS(HOSTS, S(A)), KS(CKEY, I(1))>>))>>   \* a non-dynamic mapping too
\* labels that merely START with a dynamic label (real play keywords vars_files, vars_prompt) or are a prefix of one
VARSFILES  == VARS \o <<95, 102, 105, 108, 101, 115>>           \* "vars_files"
VARSPROMPT == VARS \o <<95, 112, 114, 111, 109, 112, 116>>      \* "vars_prompt"
HOSTSFILE  == HOSTS \o <<102, 105, 108, 101>>                   \* "hostsfile"
HOST       == <<104, 111, 115, 116>>                            \* "host"
PrefixE == <<KS(VARSFILES, M(<<KS(A, S(A))>>)), KS(VARSPROMPT, L(<<S(A)>>)), KS(HOSTSFILE, S(A)), KS(HOST, S(A))>>
PrefixLists == { StdList, P2(VARS, SIG), P1(VARSFILES), P1(VARSPROMPT), P1(HOSTSFILE), P1(HOST), P2(VARSFILES, A),
                 P2(HOSTSFILE, A), C2(StdList, P1(VARSFILES)), C2(P2(VARS, SIG), P2(VARSFILES, A)),
                 C2(P1(VARSPROMPT), P2(VARS, SIG)), VARSFILES }
PrefixTable ==
    {M(<<KS(NAME, S(A))>> \o h \o <<KS(VARS, M(<<KS(SIGEXCL, S(x)), KS(SIG, S(B64))>> \o c))>> \o PrefixE \o TasksE)
        : h \in {<<>>, <<KS(HOSTS, S(A))>>}, x \in PrefixLists, c \in {<<>>, <<KS(VARSFILES, S(A))>>}}

Table ==
    PrefixTable \cup
    {M(<<KS(NAME, S(A))>> \o h \o <<KS(VARS, M(c1 \o x \o s \o c2))>> \o TasksE)
        : h \in HostsOpts, s \in SigOpts, x \in ListOpts,
          <<c1, c2>> \in {<< <<>>, c >> : c \in ChildOpts} \cup {<< <<KS(CKEY, S(A))>>, <<>> >>}}
    \cup {M(<<KS(NAME, S(A))>> \o h \o v \o TasksE)
        : h \in HostsOpts, v \in {<<>>, <<KS(VARS, S(A))>>, <<KS(VARS, S(SIGEXCL))>>, <<KS(VARS, L(<<S(SIGEXCL)>>))>>,
                                  <<KS(VARS, Nul)>>, <<KS(VARS, I(1))>>}}
    \cup {M(<<>>)}
    \cup {M(<<KS(VARS, M(<<KS(SIGEXCL, x), KS(SIG, S(B64))>>))>>) : x \in {Nul, I(1), L(<<S(P1(HOSTS))>>)}}

Touches == UNION {{Touch(p, i) : i \in Scalars(p)} : p \in {q \in Table : Pre(q, "verify_play") = "ok"}}

Plays ==
    CASE Part = "free"  -> {Std(f) : f \in FreeBig \cup FreeSmall}
      [] Part = "craft" -> {Std(f) : f \in FreeCraft}
      [] Part = "table" -> Table
      [] Part = "touch" -> Touches
      [] OTHER -> {Std(f) : f \in FreeBig \cup FreeSmall \cup FreeCraft} \cup Table \cup Touches

VARIABLE c
Init == c \in Plays
Next == FALSE /\ UNCHANGED c          \* no behaviour: every play is one (initial) state
Spec == Init /\ [][Next]_c

WellFormed(p) ==      \* keys of one mapping are pairwise different, depths are consistent
    /\ p[1].d = 0 /\ p[1].t = "map" /\ p[1].kt = "none"
    /\ \A i \in 2..Len(p) : p[i].d >= 1 /\ p[i].d <= p[i - 1].d + 1
    /\ \A i \in DOMAIN p :
         /\ (p[i].t \notin {"map", "seq"}) => Kids(p, i) = <<>>
         /\ LET ks == Kids(p, i) IN
            /\ \A a, b \in DOMAIN ks : (a # b /\ p[i].t = "map") => <<p[ks[a]].kt, p[ks[a]].k, p[ks[a]].kn>> # <<p[ks[b]].kt, p[ks[b]].k, p[ks[b]].kn>>
            /\ \A a \in DOMAIN ks : (p[ks[a]].kt = "none") <=> (p[i].t = "seq")

InvWellFormed   == WellFormed(c)
InvOutcomeTotal == OutcomeTotal(c)
InvOnlyHostsVars == OnlyHostsVars(c)
InvEditVisible  == EditVisibleIffKept(c)

\* set-level law, evaluated once (TLC evaluates ASSUME before the search)
ASSUME InjectiveOnBound == Injective(Plays)

Emit == PrintT(<<"CASE", ToJson([part |-> Part, play |-> c,
                                 pre |-> [via \in {"exclude", "verify_play"} |-> Pre(c, via)]])>>)
=============================================================================
