\* generated from harness/p_cleaner.py CONFIGS['runs3']; the check generates its cfgs at run time
SPECIFICATION Spec
CONSTANTS
  Kinds = {"text", "kw", "pat", "fqdn", "dom", "pw", "ip"}
  NIp = 1
  NDom = 1
  NMac = 1
  NKw = 1
  NPat = 1
  NIp6 = 1
  NAk = 1
  V6Set = {FALSE}
  NoFqdnSet = {FALSE}
  DnameSet = {FALSE}
  DelSet = {"space"}
  MaxTok = 1
  MaxLines = 3
  MaxSpecs = 1
  TotLines = 3
  ObfSet = {TRUE}
  HostSet = {TRUE}
  MacSet = {TRUE}
  KwSets = {{1}}
  PatSets = {{1}}
  RegexSet = {FALSE}
  SysDomSet = {TRUE}
  NoRedSet = {FALSE, TRUE}
  NoObfSets = {{}}
  WidthSet = {FALSE}
  AllowSet = {0}
  FamSet = {"plain", "kwdom", "pwip"}
  AllowBlank = TRUE
  Runs = 2
  AllOrders = FALSE
  FreeOrder = FALSE
INVARIANT NoLeak
INVARIANT PatternDrops
INVARIANT Rewritten
INVARIANT Injective
INVARIANT ReportExact
INVARIANT NoPhantom
INVARIANT ProvenanceMonotone
INVARIANT BlankCollapses
INVARIANT OneOrder
INVARIANT Deterministic
PROPERTY Consistent
CONSTRAINT Emit
CHECK_DEADLOCK FALSE
