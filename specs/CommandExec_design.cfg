SPECIFICATION Spec
CONSTANTS
  MaxN = 2
  Rd1 = {"no", "pass"}
  RdK = {"no", "pass"}
  Outs = {"p", "L"}
  Rcs = {"0", "1", "nf"}
  Slows = {FALSE, TRUE}
  Errs = {FALSE}
  MaxOdd = 3
  Apis = {"call", "connect"}
  Keeps = {FALSE}
  Tmos = {"none", "arg"}
  Sigs = {"KILL"}
  Splits = {TRUE}
  Forms = {"list"}
  Metas = {FALSE}
  Envs = {"none"}
  Bares = {FALSE}
  Flts = {"none"}
  Mechs = {"intended"}
  Admit = {}
INVARIANT TypeOK
INVARIANT ResultIsLastStageOutput
INVARIANT RcPolicy
INVARIANT NotFoundIsAnError
INVARIANT ExceptionCarriesOutput
INVARIANT TimeoutTerminates
INVARIANT Terminates
INVARIANT NoneRunningAtReturn
INVARIANT NothingStuck
INVARIANT AllReapedButKnown
INVARIANT NeverReadsCallerStdin
INVARIANT NoShell
INVARIANT EnvIsControlled
INVARIANT StreamEqualsCall
CHECK_DEADLOCK FALSE
