SPECIFICATION Spec
CONSTANTS
  MaxCfg = 0
  CfgNames = {"x01", "specs", "impl", "alpha", "ibeta", "plugins", "po", "io", "nomatch"}
  CfgFlags = {"on", "off", "omit"}
  CfgPreset = "allon"
  MaxPersist = 0
  PersistNames = {"x01"}
  PersistFlags = {"on"}
  PersistPreset = "wide"
  DefaultSet = {FALSE}
  PreSet = {"none"}
  FileDeny = {"f_b1"}
  CmdDeny = {}
  CompDeny = {"k_pa"}
  MaxDeny = 1
  ViaSet = {"manifest"}
  StrategySet = {"serial", "parallel"}
  WorkerSet = {"default"}
  CompressSet = {FALSE}
  AlphaSet = {"present"}
  GammaSet = {"val", "oserr"}
  Interleave = TRUE
  CfgMode = "documented"
  PersistMode = "documented"
  PersisterMode = "documented"
INVARIANT DefaultApplied
INVARIANT EnabledIsLastMatch
INVARIANT PersistSetIsLastMatch
INVARIANT BlacklistExact
INVARIANT DisabledNeverRuns
INVARIANT DeniedNeverCollected
INVARIANT PersistExact
INVARIANT ParallelEqualsSerial
INVARIANT LoadBackExact
INVARIANT ErrorsReported
INVARIANT Terminates
CONSTRAINT Emit
CHECK_DEADLOCK FALSE
