SPECIFICATION Spec
CONSTANTS
  Dirs = {"a", "insights_commands"}
  Leaves = {"f", "insights_archive.txt"}
  MaxFiles = 2
  MaxDepth = 2
  Packs = {"tar", "tgz", "zip"}
  Wraps = {FALSE, TRUE}
  Evils = {"none", "dotdot", "abs", "link"}
  Overrides = {"none"}
  Wheres = {"plain"}
  Injects = {"none", "raise"}
  Plugs = {"none"}
  Modes = {"api"}
  Spaces = {"none"}
  Mech = "code"
  Admit = {}
INVARIANT TypeOK
INVARIANT MarkerPriority
INVARIANT TriedInOrder
INVARIANT DefaultWhenNoMarker
INVARIANT RootInsideInput
INVARIANT OverrideWins
INVARIANT CreateAllowed
INVARIANT ListedExactly
INVARIANT BrokerSeededExactly
INVARIANT ExtractionStaysInTempDir
INVARIANT TempDirRemoved
INVARIANT ContextDeterministic
INVARIANT Ends
CONSTRAINT Emit
CHECK_DEADLOCK FALSE
