\* generated from harness/p_cleaner.py CONFIGS['hist2']; the check generates its cfgs at run time
SPECIFICATION Spec
CONSTANTS
  Kinds = {"ip", "short", "fqdn", "dom", "mac"}
  NIp = 2
  NDom = 2
  NMac = 2
  NKw = 1
  NPat = 1
  NIp6 = 1
  NAk = 1
  V6Set = {FALSE}
  NoFqdnSet = {FALSE}
  DnameSet = {FALSE}
  DelSet = {"space"}
  MaxTok = 2
  MaxLines = 2
  MaxSpecs = 2
  TotLines = 2
  ObfSet = {TRUE}
  HostSet = {TRUE}
  MacSet = {TRUE}
  KwSets = {{}}
  PatSets = {{}}
  RegexSet = {FALSE}
  SysDomSet = {TRUE}
  NoRedSet = {FALSE}
  NoObfSets = {{}}
  WidthSet = {FALSE}
  AllowSet = {0}
  FamSet = {"plain", "collide", "suffix", "prefix"}
  AllowBlank = FALSE
  Runs = 1
  AllOrders = FALSE
  FreeOrder = FALSE
INVARIANT NoLeak
INVARIANT PatternDrops
INVARIANT Rewritten
INVARIANT Injective
INVARIANT ReportExact
INVARIANT NoPhantom
INVARIANT ProvenanceMonotone
INVARIANT BlankCollapses
INVARIANT OneOrder
INVARIANT Deterministic
PROPERTY Consistent
CONSTRAINT Emit
CHECK_DEADLOCK FALSE
