--------------------------- MODULE DrGraphTrace ---------------------------
(***************************************************************************)
(* Trace validation for DrGraph (X05).  One trace = one abstract program   *)
(* built with the REAL decorators (harness/drive_drgraph.py), the          *)
(* add_dependency calls made on it, and what the real graph utilities of   *)
(* insights/core/dr.py answered; or one plain dict handed to run_order.    *)
(* The first event declares the input as the driver WROTE it (never read   *)
(* back from dr's tables); every other event is one observation:           *)
(*   add      - add_dependency / SpecSet implementation of a point         *)
(*   deps     - get_dependencies, get_dependents, DEPENDENCIES[c],         *)
(*              COMPONENTS[group][c] of one component after `na` adds      *)
(*   name     - get_name, get_simple_name, get_component(name),            *)
(*              get_component_by_name(name)                                *)
(*   dgraph   - get_dependency_graph(c)                                    *)
(*   tree     - walk_tree(c) over dependencies / dependents                *)
(*   walk     - the visitor calls of walk_dependencies(c, visitor)         *)
(*   rps      - get_registry_points(c)                                     *)
(*   detc     - determine_components(component | list | set | type |       *)
(*              group | dict)                                              *)
(*   subg     - get_subgraphs(graph on a key set)                          *)
(*   order    - run_order(graph on a key set);  rorder - run_order(dict)   *)
(*   help     - split_requirements, get_missing_requirements, first_of,    *)
(*              stringify_requirements                                     *)
(*   specs    - get_dependency_specs(c) as a formula (name / list / tuple) *)
(*   stranger - the same questions about something never registered        *)
(* An event is accepted iff the answer is one the reference operators of   *)
(* DrGraph allow (ANY valid topological order, ANY valid order of parts,   *)
(* bounds where the docstrings are silent; nothing is demanded of          *)
(* recursive walks over a cyclic registration).  Verdicts are total, per   *)
(* event: a rejected event is recorded with the failing clause and the     *)
(* abstract features of the failing input; the remaining events of the     *)
(* trace are still judged.                                                 *)
(***************************************************************************)
EXTENDS DrGraph, Json, IOUtils, TLCExt

Batch == JsonDeserialize(IOEnv.TRACE_FILE)
NoPrefixT == <<>>

VARIABLES tid, l
tvars == <<vars, tid, l>>

TR    == Batch[tid]
Ev    == TR.events[l + 1]
MoreE == l < Len(TR.events)
H     == TR.events[1]                        \* the declared input of this trace
IsRaw == H.ev = "raw"
P     == H.prog
A     == [i \in DOMAIN H.adds |-> <<H.adds[i][1], H.adds[i][2]>>]
PIds  == DOMAIN P
DAt(k) == DMap(P, A, k)
DE    == DAt(Ev.na)                          \* the dependency map the current event was asked about

SetEq(s, S) == Rng(s) = S /\ Len(s) = Cardinality(S)
NoDup(s)    == \A i, j \in DOMAIN s : s[i] = s[j] => i = j

(* a recorded graph [{k, vs}] against a reference graph (function key -> set) *)
KeysOf(g)      == [i \in DOMAIN g |-> g[i].k]
KeysAre(g, S)  == SetEq(KeysOf(g), S)
ValuesAre(g, R) == \A i \in DOMAIN g : g[i].k \in DOMAIN R => SetEq(g[i].vs, R[g[i].k])
GraphIs(g, R)  == KeysAre(g, DOMAIN R) /\ ValuesAre(g, R)
AsGraph(g)     == [k \in Rng(KeysOf(g)) |-> Rng(g[CHOOSE i \in DOMAIN g : g[i].k = k].vs)]

-----------------------------------------------------------------------------
(* the quantifier: what a program / an add_dependency call may look like     *)
Kinds3 == {"comp", "ds", "point"}
ItemOK(it, c) == /\ it.t \in {"req", "grp", "opt"}
                 /\ \A i \in DOMAIN it.ds : it.ds[i] \in 1..(c - 1)
                 /\ (it.t # "grp" => Len(it.ds) = 1)
ProgOK ==
    /\ \A c \in PIds :
        /\ P[c].kind \in Kinds3 /\ P[c].typ \in {"base", "sub"} /\ P[c].grp \in {1, 2} /\ P[c].prio \in 0..2
        /\ (P[c].kind = "point") => P[c].decl = PointDecl
        /\ (P[c].kind # "point") => \A i \in DOMAIN P[c].decl : ItemOK(P[c].decl[i], c)
    /\ \A k \in DOMAIN A :
        LET c == A[k][1]  d == A[k][2] IN
        /\ c \in PIds /\ d \in PIds /\ c # d /\ HasGroup(P, c)
        /\ IsPoint(P, c) => (IsDS(P, d) /\ ~ImplOfSome(P, A, k - 1, d) /\ ~ReachesCycle(DAt(k), d))
RawOK == \A i \in DOMAIN H.g : H.g[i].k \in 1..64 /\ \A j \in DOMAIN H.g[i].vs : H.g[i].vs[j] \in 1..64
Admitted == IF IsRaw THEN RawOK /\ NoDup(KeysOf(H.g)) ELSE H.ev = "prog" /\ ProgOK

Evs == {"prog", "raw", "add", "deps", "name", "dgraph", "tree", "walk", "rps", "detc", "subg", "order", "rorder",
        "help", "specs", "stranger"}
HasNa == {"add", "deps", "dgraph", "tree", "walk", "rps", "detc", "subg", "order"}
WellFormed ==
    /\ Ev.ev \in Evs
    /\ (l = 0) = (Ev.ev \in {"prog", "raw"})
    /\ IsRaw => Ev.ev \in {"raw", "rorder"}
    /\ Ev.ev \in HasNa => Ev.na \in 0..Len(A)
    /\ Ev.ev \in {"add", "deps", "name", "dgraph", "tree", "walk", "rps", "help", "specs"} => Ev.c \in PIds
    /\ Ev.ev \in {"subg", "order"} => (Rng(Ev.keys) \subseteq PIds /\ NoDup(Ev.keys))
    /\ Ev.ev = "detc" => Rng(Ev.ids) \subseteq PIds

-----------------------------------------------------------------------------
(* where nothing is demanded: recursive walks over a cyclic registration     *)
CycUp(c)   == ReachesCycle(DE, c)
CycDown(c) == ReachesCycle(InvOf(DE), c)
CycAny(S)  == \E x \in S : CycUp(x) \/ CycDown(x)

AddOK ==
    \/ Ev.exc = ""
    \/ ReachesCycle(DE, Ev.c)                \* the implementation of a point that closes a cycle: nothing demanded

DepsOK ==
    /\ SetEq(Ev.deps, DE[Ev.c])
    /\ SetEq(Ev.dents, InvOf(DE)[Ev.c])
    /\ Ev.hasreg /\ SetEq(Ev.reg, DE[Ev.c])
    /\ Ev.hascomp /\ SetEq(Ev.comp, DE[Ev.c])

NameOK ==
    /\ Ev.name = Ev.want /\ Ev.simple = Ev.wantsimple
    /\ Ev.imp = Ev.c
    /\ Ev.early # "some"
    /\ Ev.byn = Ev.c

DGraphOK ==
    CycUp(Ev.c) \/ (Ev.exc = "" /\ GraphIs(Ev.g, DepGraphOf(DE, {Ev.c})))

TreeE  == IF Ev.dir = "deps" THEN DE ELSE InvOf(DE)
TreeOK == ReachesCycle(TreeE, Ev.c) \/ (Ev.exc = "" /\ Rng(Ev.nodes) = TC(TreeE, Ev.c))

Calls == [i \in DOMAIN Ev.calls |-> <<Ev.calls[i][1], Ev.calls[i][2]>>]
WalkOK ==
    CycUp(Ev.c) \/ (Ev.exc = "" /\ WalkCallsOK(Calls, DE, Ev.c) /\ WalkBreadthFirst(Calls, DE, Ev.c))

RpsOK ==
    ReachesCycle(Dir(P, DE, Ev.c), Ev.c)
    \/ (Ev.exc = "" /\ Ev.isset /\ NoDup(Ev.rps) /\ RPOK(Rng(Ev.rps), P, DE, Ev.c))

(* determine_components: "a dependency graph, a single component, a          *)
(* component group, or a component type ... the appropriate graph is built"  *)
Closed(S) == Close(DE, S) = S
DetcOK ==
    LET S == Rng(Ev.ids)  ks == Rng(KeysOf(Ev.g)) IN
    CASE Ev.how \in {"single", "list", "set"} ->
            (\E x \in S : CycUp(x)) \/ (Ev.exc = "" /\ ~Ev.isnone /\ GraphIs(Ev.g, DepGraphOf(DE, S)))
      [] Ev.how = "dict" ->
            Ev.exc = "" /\ ~Ev.isnone /\ GraphIs(Ev.g, [x \in S |-> DE[x]])
      [] Ev.how = "type" ->
            LET lo == ExactType(P, Ev.tag)  hi == WithSubTypes(P, Ev.tag) IN
            (lo = {} \/ \E x \in hi : CycUp(x))             \* a type nothing was declared with: not said
            \/ (/\ Ev.exc = "" /\ ~Ev.isnone /\ NoDup(KeysOf(Ev.g))
                /\ Close(DE, lo) \subseteq ks /\ ks \subseteq Close(DE, hi) /\ Closed(ks)
                /\ ValuesAre(Ev.g, DE))
      [] OTHER ->                                           \* group
            LET m == InGroup(P, IF Ev.tag = "1" THEN 1 ELSE 2) IN
            (m = {})
            \/ (/\ Ev.exc = "" /\ ~Ev.isnone /\ NoDup(KeysOf(Ev.g))
                /\ m \subseteq ks /\ ks \subseteq Close(DE, m)
                /\ ValuesAre(Ev.g, DE))

PartKeys == [i \in DOMAIN Ev.parts |-> Rng(KeysOf(Ev.parts[i]))]
SubgOK ==
    LET K == Rng(Ev.keys) IN
    CycAny(K)
    \/ (/\ Ev.exc = ""
        /\ \A i \in DOMAIN Ev.parts : NoDup(KeysOf(Ev.parts[i])) /\ ValuesAre(Ev.parts[i], DE)
        /\ SubgraphsOK(PartKeys, DE, K)
        /\ PrioOrderOK(PartKeys, P, DE))

OrderAgainst(Gr) ==
    /\ IF CyclicG(Gr) THEN Ev.exc = "ValueError"
       ELSE Ev.exc = "" /\ Ev.islist /\ IsTopoOrder(Ev.order, Gr)
    /\ GraphIs(Ev.after, Gr)                              \* "copy the input so as to leave it unmodified"
OrderOK  == OrderAgainst([k \in Rng(Ev.keys) |-> DE[k]])
ROrderOK == OrderAgainst(AsGraph(H.g))

SameBag(s, t)  == Rng(s) = Rng(t) /\ Len(s) = Len(t)
SetsOf(ss)     == [i \in DOMAIN ss |-> Rng(ss[i])]
HelpOK ==
    LET d == P[Ev.c].decl  pres == Rng(Ev.pres) IN
    /\ SameBag(Ev.all, ReqSeq(d)) /\ SameBag(SetsOf(Ev.any), SetsOf(GrpSeq(d)))
    /\ Ev.exc = ""
    /\ IF Satisfied(d, pres) THEN Ev.missk = "none"
       ELSE Ev.missk = "pair" /\ SameBag(Ev.mall, MissAll(d, pres))
            /\ SameBag(SetsOf(Ev.many), SetsOf(MissAny(d, pres)))
    /\ Ev.first = FirstOf(FlatSeq(d), pres)
    /\ Ev.s1 = Ev.s2

(* get_dependency_specs is asked after all adds *)
EP      == EffProg(P, A, Len(A))
Points  == {x \in PIds : IsPoint(P, x)}
SpecsOK ==
    ~SpecsAskable(EP, A, Len(A), Ev.c)
    \/ (Ev.exc = "" /\ Ev.islist /\ \A S \in SUBSET Points : EvalList(Ev.f, S) = NeedsMet(EP, Ev.c, S))

StrangerOK == Ev.exc = "" /\ Ev.deps = <<>> /\ Ev.dents = <<>> /\ Ev.gexc # "" /\ ~Ev.isgraph /\ Ev.byn = "none"

Accepts ==
    /\ WellFormed /\ (l = 0 => Admitted)
    /\ CASE Ev.ev \in {"prog", "raw"} -> TRUE
         [] Ev.ev = "add"      -> AddOK
         [] Ev.ev = "deps"     -> DepsOK
         [] Ev.ev = "name"     -> NameOK
         [] Ev.ev = "dgraph"   -> DGraphOK
         [] Ev.ev = "tree"     -> TreeOK
         [] Ev.ev = "walk"     -> WalkOK
         [] Ev.ev = "rps"      -> RpsOK
         [] Ev.ev = "detc"     -> DetcOK
         [] Ev.ev = "subg"     -> SubgOK
         [] Ev.ev = "order"    -> OrderOK
         [] Ev.ev = "rorder"   -> ROrderOK
         [] Ev.ev = "help"     -> HelpOK
         [] Ev.ev = "specs"    -> SpecsOK
         [] OTHER              -> StrangerOK

-----------------------------------------------------------------------------
(* failing clause + the abstract features of the failing input              *)
B(b, yes) == IF b THEN yes ELSE ""
HowNamed(c, d) ==                       \* the ways component c names d in its declaration
    LET ts == {P[c].decl[i].t : i \in {j \in DOMAIN P[c].decl : d \in Rng(P[c].decl[j].ds)}} IN
    B("req" \in ts, ":required") \o B("grp" \in ts, ":at-least-one") \o B("opt" \in ts, ":optional")
    \o B(\E k \in 1..Ev.na : A[k] = <<c, d>>, ":added")
KindOf(c)  == ":" \o P[c].kind \o B(IsDS(P, c) /\ ImplOfSome(P, A, Len(A), c), ":implementation")
(* the first component whose presence differs between an observed list and the expected set *)
Lack(s, S) == LET m == S \ Rng(s)  x == Rng(s) \ S IN
              IF m # {} THEN "missing" ELSE IF x # {} THEN (IF 0 \in x THEN "unknown-object" ELSE "extra") ELSE "duplicate"
LackEdge(c, s, S) == LET m == S \ Rng(s) IN IF m # {} THEN "missing" \o HowNamed(c, Min(m)) ELSE Lack(s, S)
LackEdgeInv(c, s, S) == LET m == S \ Rng(s) IN IF m # {} THEN "missing" \o HowNamed(Min(m), c) ELSE Lack(s, S)

DiagDeps ==
    LET c == Ev.c IN
    IF ~SetEq(Ev.deps, DE[c]) THEN "Registry:get_dependencies:" \o LackEdge(c, Ev.deps, DE[c])
    ELSE IF ~SetEq(Ev.dents, InvOf(DE)[c]) THEN "Registry:get_dependents:" \o LackEdgeInv(c, Ev.dents, InvOf(DE)[c])
    ELSE IF ~(Ev.hasreg /\ SetEq(Ev.reg, DE[c])) THEN
        "Registry:DEPENDENCIES-table:" \o (IF Ev.hasreg THEN LackEdge(c, Ev.reg, DE[c]) ELSE "no-entry")
    ELSE "Registry:COMPONENTS-table:" \o (IF Ev.hascomp THEN LackEdge(c, Ev.comp, DE[c]) ELSE "no-entry") \o KindOf(c)

DiagName ==
    IF Ev.name # Ev.want THEN "Names:get_name" \o KindOf(Ev.c)
    ELSE IF Ev.simple # Ev.wantsimple THEN "Names:get_simple_name" \o KindOf(Ev.c)
    ELSE IF Ev.imp # Ev.c THEN "Names:get_component:" \o (IF Ev.imp = 0 THEN "not-found" ELSE "other-component") \o KindOf(Ev.c)
    ELSE IF Ev.early = "some" THEN "Names:get_component_by_name:found-before-loaded"
    ELSE "Names:get_component_by_name:" \o (IF Ev.byn = 0 THEN "not-found" ELSE "other-component")
         \o B(Ev.early = "none", ":asked-before-it-was-loaded") \o B(Ev.early = "no", KindOf(Ev.c))

DiagGraph(g, R) ==
    IF ~KeysAre(g, DOMAIN R) THEN "nodes:" \o Lack(KeysOf(g), DOMAIN R)
    ELSE LET i == Min({j \in DOMAIN g : ~SetEq(g[j].vs, R[g[j].k])}) IN
         "dependencies-of-a-node:" \o LackEdge(g[i].k, g[i].vs, R[g[i].k])

DiagDGraph == IF Ev.exc # "" THEN "DependencyGraph:exception:" \o Ev.exc
              ELSE "DependencyGraph:" \o DiagGraph(Ev.g, DepGraphOf(DE, {Ev.c}))
DiagTree == IF Ev.exc # "" THEN "WalkTree:" \o Ev.dir \o ":exception:" \o Ev.exc
            ELSE "WalkTree:" \o Ev.dir \o ":" \o Lack(Ev.nodes, TC(TreeE, Ev.c))
DiagWalk ==
    IF Ev.exc # "" THEN "Walk:exception:" \o Ev.exc
    ELSE IF ~(Len(Calls) >= 1 /\ Calls[1] = <<Ev.c, 0>>) THEN "Walk:root-not-visited-first-with-parent-None"
    ELSE IF ~WalkCallsOK(Calls, DE, Ev.c) THEN
        "Walk:calls:" \o (IF ReachEdges(DE, Ev.c) \ Rng(Calls) # {} THEN "dependency-not-visited" ELSE "call-that-is-no-dependency")
    ELSE "Walk:order:not-breadth-first"

DiagRps ==
    IF Ev.exc # "" THEN "RegistryPoints:exception:" \o Ev.exc \o KindOf(Ev.c)
    ELSE IF ~(Ev.isset /\ NoDup(Ev.rps)) THEN "RegistryPoints:not-a-set"
    ELSE IF ~(NearRP(P, DE, Ev.c) \subseteq Rng(Ev.rps)) THEN "RegistryPoints:nearest-point-missing" \o KindOf(Ev.c)
    ELSE "RegistryPoints:" \o (IF 0 \in Rng(Ev.rps) THEN "unknown-object"
                               ELSE IF \E x \in Rng(Ev.rps) : ~IsPoint(P, x) THEN "not-a-registry-point"
                               ELSE "point-in-the-other-direction") \o KindOf(Ev.c)

DiagDetc ==
    LET S == Rng(Ev.ids)  ks == Rng(KeysOf(Ev.g))  pre == "DetermineComponents:" \o Ev.how \o ":" IN
    IF Ev.exc # "" THEN pre \o "exception:" \o Ev.exc
    ELSE IF Ev.isnone THEN pre \o "none"
    ELSE CASE Ev.how \in {"single", "list", "set"} -> pre \o DiagGraph(Ev.g, DepGraphOf(DE, S))
           [] Ev.how = "dict" -> pre \o DiagGraph(Ev.g, [x \in S |-> DE[x]])
           [] Ev.how = "type" ->
                LET lo == ExactType(P, Ev.tag)  hi == WithSubTypes(P, Ev.tag) IN
                IF ~NoDup(KeysOf(Ev.g)) THEN pre \o "nodes:duplicate"
                ELSE IF ~(Close(DE, lo) \subseteq ks) THEN pre \o "nodes:missing"
                ELSE IF ~(ks \subseteq Close(DE, hi)) THEN pre \o "nodes:extra"
                ELSE IF ~Closed(ks) THEN pre \o "nodes:not-closed"
                ELSE pre \o "dependencies-of-a-node"
           [] OTHER ->
                LET m == InGroup(P, IF Ev.tag = "1" THEN 1 ELSE 2) IN
                IF ~NoDup(KeysOf(Ev.g)) THEN pre \o "nodes:duplicate"
                ELSE IF ~(m \subseteq ks) THEN pre \o "nodes:missing"
                ELSE IF ~(ks \subseteq Close(DE, m)) THEN pre \o "nodes:extra"
                ELSE pre \o "dependencies-of-a-node"

KeyFeat(K) == B(Closed(K), ":closed-keys") \o B(~Closed(K), ":open-keys")
              \o B(\E x \in PIds : IsPoint(P, x), ":with-registry-points")
DiagSubg ==
    LET K == Rng(Ev.keys) IN
    IF Ev.exc # "" THEN "Subgraphs:exception:" \o Ev.exc \o KeyFeat(K)
    ELSE IF \E i \in DOMAIN Ev.parts : ~NoDup(KeysOf(Ev.parts[i])) THEN "Subgraphs:duplicate-key-in-part"
    ELSE IF ~PartsPartition(PartKeys, K) THEN
        "Subgraphs:partition:" \o (IF \E i \in DOMAIN PartKeys : PartKeys[i] = {} THEN "empty-part"
                                   ELSE IF K \ UNION Rng(PartKeys) # {} THEN "key-in-no-part"
                                   ELSE IF UNION Rng(PartKeys) \ K # {} THEN "part-has-a-node-that-is-no-key"
                                   ELSE "key-in-two-parts") \o KeyFeat(K)
    ELSE IF ~NoEdgeBetween(PartKeys, DE) THEN "Subgraphs:dependency-between-parts" \o KeyFeat(K)
    ELSE IF ~PartsConnected(PartKeys, DE, K) THEN "Subgraphs:part-not-connected" \o KeyFeat(K)
    ELSE IF \E i \in DOMAIN Ev.parts : ~ValuesAre(Ev.parts[i], DE) THEN "Subgraphs:dependencies-of-a-node" \o KeyFeat(K)
    ELSE "Subgraphs:prio-order"

DiagOrder(Gr) ==
    LET self == \E k \in DOMAIN Gr : k \in Gr[k] IN
    IF CyclicG(Gr) /\ Ev.exc # "ValueError" THEN
        "RunOrder:cyclic:" \o (IF Ev.exc = "" THEN "an-order-was-returned" ELSE "exception:" \o Ev.exc)
    ELSE IF ~CyclicG(Gr) /\ Ev.exc # "" THEN "RunOrder:exception:" \o Ev.exc \o B(self, ":self-dependency")
    ELSE IF ~CyclicG(Gr) /\ ~Ev.islist THEN "RunOrder:not-a-list"
    ELSE IF ~CyclicG(Gr) /\ ~(Rng(Ev.order) = GNodes(Gr) /\ Len(Ev.order) = Cardinality(GNodes(Gr))) THEN
        "RunOrder:not-a-permutation:" \o
            (IF (GNodes(Gr) \ Rng(Ev.order)) \cap DOMAIN Gr # {} THEN "key-missing"
             ELSE IF GNodes(Gr) \ Rng(Ev.order) # {} THEN "dependency-that-is-no-key-missing"
             ELSE IF Rng(Ev.order) \ GNodes(Gr) # {} THEN "extra" ELSE "duplicate")
    ELSE IF ~CyclicG(Gr) /\ ~IsTopoOrder(Ev.order, Gr) THEN "RunOrder:dependency-after-dependent" \o B(self, ":self-dependency")
    ELSE "RunOrder:input-modified" \o B(self, ":self-dependency")

DiagHelp ==
    LET d == P[Ev.c].decl  pres == Rng(Ev.pres) IN
    IF ~SameBag(Ev.all, ReqSeq(d)) THEN "SplitRequirements:all"
    ELSE IF ~SameBag(SetsOf(Ev.any), SetsOf(GrpSeq(d))) THEN "SplitRequirements:any"
    ELSE IF Ev.exc # "" THEN "MissingRequirements:exception:" \o Ev.exc
    ELSE IF Satisfied(d, pres) /\ Ev.missk # "none" THEN "MissingRequirements:reported-although-met"
    ELSE IF ~Satisfied(d, pres) /\ Ev.missk # "pair" THEN "MissingRequirements:" \o Ev.missk \o "-although-unmet"
                  \o B(MissAll(d, pres) # <<>>, ":required") \o B(MissAny(d, pres) # <<>>, ":at-least-one")
    ELSE IF ~Satisfied(d, pres) /\ ~SameBag(Ev.mall, MissAll(d, pres)) THEN "MissingRequirements:required"
    ELSE IF ~Satisfied(d, pres) /\ ~SameBag(SetsOf(Ev.many), SetsOf(MissAny(d, pres))) THEN "MissingRequirements:at-least-one"
    ELSE IF Ev.first # FirstOf(FlatSeq(d), pres) THEN
        "FirstOf:" \o (IF Ev.first = 0 THEN "none-although-present" ELSE IF FirstOf(FlatSeq(d), pres) = 0 THEN "value-although-absent"
                       ELSE "not-the-first")
    ELSE "StringifyRequirements:list-and-pair-forms-differ"

(* the classes of the declaration that bear on the answer (DrGraph: SpecClasses) *)
DiagSpecs ==
    LET cls  == SpecClasses(EP, Ev.c)
        \* one class names the finding: the first that applies
        feat == IF "spec-directly-in-a-group" \in cls THEN ":spec-directly-in-a-group"
                ELSE IF "group-member-whose-own-requirements-are-not-exactly-one-item" \in cls
                     THEN ":group-member-whose-own-requirements-are-not-exactly-one-item"
                ELSE IF "group-member-repeats-an-item-of-an-earlier-member" \in cls
                     THEN ":group-member-repeats-an-item-of-an-earlier-member" ELSE "" IN
    IF Ev.exc # "" THEN "DependencySpecs:exception:" \o Ev.exc \o feat
    ELSE IF ~Ev.islist THEN "DependencySpecs:not-a-list"
    ELSE "DependencySpecs:meaning-differs" \o feat

DiagStranger ==
    IF Ev.exc # "" THEN "Stranger:exception:" \o Ev.exc
    ELSE IF Ev.deps # <<>> THEN "Stranger:get_dependencies-not-empty"
    ELSE IF Ev.dents # <<>> THEN "Stranger:get_dependents-not-empty"
    ELSE IF Ev.gexc = "" \/ Ev.isgraph THEN "Stranger:get_dependency_graph-of-unregistered-did-not-raise"
    ELSE "Stranger:get_component_by_name-of-unknown-name"

Diagnose ==
    IF ~WellFormed THEN "malformed-event"
    ELSE IF l = 0 /\ ~Admitted THEN "not-admitted"
    ELSE CASE Ev.ev = "add"      -> "AddDependency:exception:" \o Ev.exc \o ":" \o Ev.how
           [] Ev.ev = "deps"     -> DiagDeps
           [] Ev.ev = "name"     -> DiagName
           [] Ev.ev = "dgraph"   -> DiagDGraph
           [] Ev.ev = "tree"     -> DiagTree
           [] Ev.ev = "walk"     -> DiagWalk
           [] Ev.ev = "rps"      -> DiagRps
           [] Ev.ev = "detc"     -> DiagDetc
           [] Ev.ev = "subg"     -> DiagSubg
           [] Ev.ev = "order"    -> DiagOrder([k \in Rng(Ev.keys) |-> DE[k]])
           [] Ev.ev = "rorder"   -> DiagOrder(AsGraph(H.g))
           [] Ev.ev = "help"     -> DiagHelp
           [] Ev.ev = "specs"    -> DiagSpecs
           [] OTHER              -> DiagStranger

-----------------------------------------------------------------------------
Advance == tid' = tid + 1 /\ l' = 0 /\ UNCHANGED vars

TraceInit ==
    /\ tid = 1 /\ l = 0
    /\ phase = "done" /\ prog = <<>> /\ adds = <<>> /\ deps = <<>> /\ dents = <<>> /\ q = NoQ /\ G = <<>>
    /\ rest = {} /\ frontier = {} /\ seen = {} /\ parts = <<>> /\ data = <<>> /\ ord = <<>> /\ stuck = FALSE
    /\ queue = <<>> /\ calls = <<>>

(* a rejected event is recorded and the next event is judged; a trace whose   *)
(* input is outside the quantifier, whose events are malformed, or whose      *)
(* registration itself failed on a cycle (nothing demanded from then on) is   *)
(* left at once                                                               *)
Leave == ~WellFormed \/ (l = 0 /\ ~Admitted) \/ (Ev.ev = "add" /\ Ev.exc # "")
TraceNext ==
    /\ tid <= Len(Batch)
    /\ IF ~MoreE
         THEN TLCSet(2, TLCGet(2) + l) /\ Advance
         ELSE /\ IF Accepts THEN TRUE
                 ELSE TLCSet(1, TLCGet(1) \cup {[id |-> TR.id, line |-> l + 1, clause |-> Diagnose]})
              /\ IF Leave THEN TLCSet(2, TLCGet(2) + l + 1) /\ Advance
                 ELSE l' = l + 1 /\ tid' = tid /\ UNCHANGED vars
TraceSpec == TraceInit /\ [][TraceNext]_tvars

ASSUME TLCSet(1, {}) /\ TLCSet(2, 0)

Post ==
    /\ \A r \in TLCGet(1) : PrintT(<<"REJ", ToJson(r)>>)
    /\ PrintT(<<"STAT", ToJson([traces |-> Len(Batch), events |-> TLCGet(2)])>>)

=============================================================================
