----------------------------- MODULE RpmVercmp -----------------------------
(***************************************************************************)
(* C13 - reference semantics of RPM's version comparison.                   *)
(*                                                                         *)
(* VerCmp is a transcription of rpmvercmp() from rpm's lib/rpmvercmp.c      *)
(* (rpm >= 4.15: tilde and caret), EvrCmp of rpmVersionCompare (epoch as a  *)
(* number, then version, then release).  A string is a sequence of code     *)
(* points (naturals >= 1); rpm works on bytes with its own ASCII-only       *)
(* risalpha/risdigit, so every code >= 128 (each byte of a non-ASCII        *)
(* character) is neither alphanumeric nor '~' nor '^': a separator.         *)
(*                                                                         *)
(* The module is constant-level: operators only.  Laws are operators over a *)
(* finite set / list of strings; RpmVercmpMC instantiates them on bounded   *)
(* alphabets, RpmVercmpTrace re-evaluates VerCmp / EvrCmp on the inputs the *)
(* real code was run on.                                                    *)
(***************************************************************************)
EXTENDS Integers, Sequences, FiniteSets

Tilde == 126
Caret == 94
Zero  == 48

IsDigit(c) == c >= 48 /\ c <= 57
IsAlpha(c) == (c >= 65 /\ c <= 90) \/ (c >= 97 /\ c <= 122)
IsAlnum(c) == IsDigit(c) \/ IsAlpha(c)
IsSep(c)   == ~IsAlnum(c) /\ c # Tilde /\ c # Caret        \* includes every code >= 128

Sign(n) == IF n < 0 THEN -1 ELSE IF n > 0 THEN 1 ELSE 0

\* C: while one is at a character that is not alphanumeric, not '~' and not '^': one++
RECURSIVE SkipSep(_, _)
SkipSep(s, i) == IF i <= Len(s) /\ IsSep(s[i]) THEN SkipSep(s, i + 1) ELSE i

\* C: while str1 is at a digit (resp. a letter): str1++
RECURSIVE SegEnd(_, _, _)
SegEnd(s, i, num) ==
    IF i <= Len(s) /\ (IF num THEN IsDigit(s[i]) ELSE IsAlpha(s[i])) THEN SegEnd(s, i + 1, num) ELSE i

\* C: while one is at '0': one++      (inside the segment [i, e))
RECURSIVE SkipZero(_, _, _)
SkipZero(s, i, e) == IF i < e /\ s[i] = Zero THEN SkipZero(s, i + 1, e) ELSE i

(* strcmp of s[i .. e1-1] and t[j .. e2-1]                                   *)
RECURSIVE Lex(_, _, _, _, _, _)
Lex(s, i, e1, t, j, e2) ==
    IF i >= e1 /\ j >= e2 THEN 0
    ELSE IF i >= e1 THEN -1
    ELSE IF j >= e2 THEN 1
    ELSE IF s[i] < t[j] THEN -1
    ELSE IF s[i] > t[j] THEN 1
    ELSE Lex(s, i + 1, e1, t, j + 1, e2)

D(r, why) == [r |-> r, why |-> why]

(* One iteration of the main loop, with `one` = a from i0 and `two` = b     *)
(* from j0.  Result: the value returned and the branch that decided.        *)
RECURSIVE Walk(_, _, _, _)
Walk(a, i0, b, j0) ==
    LET i  == SkipSep(a, i0)
        j  == SkipSep(b, j0)
        ea == i > Len(a)                      \* one is at the end
        eb == j > Len(b)                      \* two is at the end
        ca == IF ea THEN 0 ELSE a[i]
        cb == IF eb THEN 0 ELSE b[j]
    IN
    IF ca = Tilde \/ cb = Tilde THEN
         IF ca # Tilde THEN D(1, "tilde") ELSE IF cb # Tilde THEN D(-1, "tilde")
         ELSE Walk(a, i + 1, b, j + 1)
    ELSE IF ca = Caret \/ cb = Caret THEN
         IF ea THEN D(-1, "caret-vs-end") ELSE IF eb THEN D(1, "caret-vs-end")
         ELSE IF ca # Caret THEN D(1, "caret-vs-segment") ELSE IF cb # Caret THEN D(-1, "caret-vs-segment")
         ELSE Walk(a, i + 1, b, j + 1)
    ELSE IF ea \/ eb THEN                     \* loop left: leftovers decide
         IF ea /\ eb THEN D(0, "equal") ELSE IF ea THEN D(-1, "leftover") ELSE D(1, "leftover")
    ELSE
         LET num == IsDigit(ca)
             si  == SegEnd(a, i, num)
             sj  == SegEnd(b, j, num)
         IN
         IF sj = j THEN (IF num THEN D(1, "num-vs-alpha") ELSE D(-1, "num-vs-alpha"))
         ELSE IF num THEN
              LET zi == SkipZero(a, i, si)
                  zj == SkipZero(b, j, sj)
                  z  == IF zi > i \/ zj > j THEN "-zeros" ELSE ""
              IN
              IF (si - zi) > (sj - zj) THEN D(1, "num-length" \o z)
              ELSE IF (sj - zj) > (si - zi) THEN D(-1, "num-length" \o z)
              ELSE LET c == Lex(a, zi, si, b, zj, sj) IN
                   IF c # 0 THEN D(c, "num-digits" \o z) ELSE Walk(a, si, b, sj)
         ELSE LET c == Lex(a, i, si, b, j, sj) IN
              IF c # 0 THEN D(c, "alpha") ELSE Walk(a, si, b, sj)

(* rpmvercmp: "easy comparison to see if versions are identical" first      *)
VerCmpD(a, b) == IF a = b THEN D(0, "identical") ELSE Walk(a, 1, b, 1)
VerCmp(a, b)  == VerCmpD(a, b).r

(* ---- epoch : version - release ---------------------------------------- *)
NoneStr == <<40, 110, 111, 110, 101, 41>>                  \* "(none)": rpm prints it for a missing epoch

RECURSIVE DecFrom(_, _, _)
DecFrom(s, i, acc) == IF i > Len(s) THEN acc ELSE DecFrom(s, i + 1, acc * 10 + (s[i] - 48))
IsDecimal(s) == Len(s) > 0 /\ \A i \in DOMAIN s : IsDigit(s[i])
(* a missing epoch is epoch 0 *)
EpochVal(s) == IF s = <<>> \/ s = NoneStr THEN 0 ELSE DecFrom(s, 1, 0)
EpochOK(s)  == s = <<>> \/ s = NoneStr \/ (IsDecimal(s) /\ Len(s) <= 9)

EvrCmpD(x, y) ==
    LET ex == EpochVal(x.e)
        ey == EpochVal(y.e)
    IN IF ex < ey THEN D(-1, "epoch") ELSE IF ex > ey THEN D(1, "epoch")
       ELSE LET v == VerCmpD(x.v, y.v) IN
            IF v.r # 0 THEN D(v.r, "version." \o v.why)
            ELSE LET r == VerCmpD(x.r, y.r) IN D(r.r, "release." \o r.why)
EvrCmp(x, y) == EvrCmpD(x, y).r

(* the six rich comparisons, as a tuple <, ==, >, <=, >=, != *)
OpsOf(c) == <<c < 0, c = 0, c > 0, c <= 0, c >= 0, c # 0>>
OpNames  == <<"lt", "eq", "gt", "le", "ge", "ne">>

(* newest / oldest: the result is a member that no member exceeds / precedes *)
IsMaxAt(pk, m) == m \in DOMAIN pk /\ \A i \in DOMAIN pk : EvrCmp(pk[i], pk[m]) <= 0
IsMinAt(pk, m) == m \in DOMAIN pk /\ \A i \in DOMAIN pk : EvrCmp(pk[i], pk[m]) >= 0

(* ---- laws, over a list X of items and a comparison C(_,_) -------------- *)
Reflexive(X, C(_, _))     == \A i \in DOMAIN X : C(X[i], X[i]) = 0
Antisymmetric(X, C(_, _)) == \A i, j \in DOMAIN X : C(X[i], X[j]) = -C(X[j], X[i])
(* as a relation a <= b  ==  C(a,b) <= 0 *)
Transitive(X, C(_, _))    == \A i, j, k \in DOMAIN X :
                                (C(X[i], X[j]) <= 0 /\ C(X[j], X[k]) <= 0) => C(X[i], X[k]) <= 0
EqIsCongruence(X, C(_, _)) == \A i, j \in DOMAIN X : C(X[i], X[j]) = 0 =>
                                \A k \in DOMAIN X : C(X[i], X[k]) = C(X[j], X[k])
(* O(n^2) characterisation of "total preorder whose strict part and          *)
(* equivalence are given by the sign of C": C is the sign of a rank           *)
(* difference.  RankOf is computed once (a constant of the MC module).        *)
RankOf(X, C(_, _)) == [i \in DOMAIN X |-> Cardinality({j \in DOMAIN X : C(X[j], X[i]) < 0})]
RankRow(X, C(_, _), rank, i) == \A j \in DOMAIN X : C(X[i], X[j]) = Sign(rank[i] - rank[j])

=============================================================================
