SPECIFICATION TraceSpec
CONSTANTS
  MaxLen = 0
  MaxDots = 0
  MaxHops = 40
  L1Set = {"none"}
  L2Set = {"none"}
  ViaSet = {"direct"}
  OutSet = {"t"}
  SaveAsSet = {"none"}
  ContainMode = "ancestry"
  DestMode = "normalised"
  CopyMode = "content"
  CollectOrder = "configs-then-denylist"
  ObserverMode = "copied"
  DenyFactories = {}
  DenyMax = 0
POSTCONDITION Post
CHECK_DEADLOCK FALSE
