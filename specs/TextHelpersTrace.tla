--------------------------- MODULE TextHelpersTrace ---------------------------
(***************************************************************************)
(* Trace validation for TextHelpers (C15).  An event records one call of a  *)
(* real helper: the abstract document that harness/drive_texthelpers.py     *)
(* rendered to text, and the parsed result abstracted back to pairs / rows  *)
(* / sections.  It is accepted iff the document is one the format admits    *)
(* and the result is its normal form (RoundTrip), resp. the reference       *)
(* result of the search / of get_active_lines on the text.  Verdicts are    *)
(* total: a rejected trace is recorded with the failing clause and the      *)
(* abstract features of the failing document.                               *)
(***************************************************************************)
EXTENDS TextHelpers, Json, IOUtils, TLCExt

Batch == JsonDeserialize(IOEnv.TRACE_FILE)

VARIABLES tid, l
tvars == <<vars, tid, l>>

T    == Batch[tid]
Ev   == T.events[l + 1]
More == l < Len(T.events)

PairsEq(res, norm, ordered) ==
    /\ Len(res) = Len(norm) /\ Rng(res) = Rng(norm)
    /\ ordered => res = norm

IniSecsOK(secs, norm) ==
    /\ Len(secs) = Len(norm)
    /\ \A n \in DOMAIN secs :
         /\ secs[n].name = norm[n].name                                   \* sections exactly and in order
         /\ Len(secs[n].opts) = Len(norm[n].opts) /\ Rng(secs[n].opts) = Rng(norm[n].opts)
IniGetsOK(gets, norm) ==
    \A g \in DOMAIN gets : LET r == IniLookup(norm, gets[g].sec, gets[g].opt) IN
        gets[g].err = "" /\ gets[g].found = r.found /\ (r.found => gets[g].v = r.v)

AdmittedEv ==
    CASE Ev.ev = "kv" -> AdmitsKv(Ev.doc)
      [] Ev.ev = "fixed" -> AdmitsFixed(Ev.tab)
      [] Ev.ev = "delim" -> AdmitsDelim(Ev.tab)
      [] Ev.ev = "search" -> AdmitsSearch(Ev.inp)
      [] Ev.ev = "ini" -> AdmitsIni(Ev.doc)
      [] OTHER -> TRUE

RoundTrip ==
    CASE Ev.ev = "kv" -> PairsEq(Ev.res, NormalKv(Ev.doc), Ev.ordered /\ NoDupKeys(KvSeq(Ev.doc)))
      [] Ev.ev = "active" -> Ev.res = ActiveLines(Ev.lines, Ev.cc)
      [] Ev.ev = "fixed" -> RowsEq(Ev.res, NormalFixed(Ev.tab))
      [] Ev.ev = "delim" -> RowsEq(Ev.res, NormalDelim(Ev.tab))
      [] Ev.ev = "search" -> Ev.res = SearchRef(Ev.inp)
      [] Ev.ev = "ini" -> IniSecsOK(Ev.secs, NormalIni(Ev.doc)) /\ IniGetsOK(Ev.gets, NormalIni(Ev.doc))
      [] OTHER -> FALSE

Accepts == Ev.ev \in {"kv", "active", "fixed", "delim", "search", "ini"} /\ AdmittedEv /\ Ev.exc = "" /\ RoundTrip

(* ---- failing clause + the abstract features of the failing document ---- *)
B(b, yes) == IF b THEN yes ELSE ""

PairDiff(res, norm) ==
    IF \E p \in Rng(norm) : ~\E q \in Rng(res) : q.k = p.k THEN "missing-key"
    ELSE IF \E q \in Rng(res) : ~\E p \in Rng(norm) : p.k = q.k THEN "extra-key"
    ELSE IF Rng(res) # Rng(norm) THEN "value-differs"
    ELSE IF Len(res) # Len(norm) THEN "repeated-key" ELSE "order"

DiagKv ==
    LET d == Ev.doc  norm == NormalKv(d)
        bad == {p \in Rng(norm) : p \notin Rng(Ev.res)}
        ls == IF bad = {} THEN {} ELSE LET p == CHOOSE p \in bad : TRUE IN
                 {i \in DOMAIN d.lines : d.lines[i].t \in {"pair", "bare"} /\ d.lines[i].k = p.k} IN
    "RoundTrip:kv:" \o PairDiff(Ev.res, norm)
      \o B(Cardinality(ls) > 1, ":duplicate-key")
      \o B(\E i \in ls : d.lines[i].t = "pair" /\ Contains(d.lines[i].v, d.sep), ":separator-in-value")
      \o B(\E i \in ls : d.lines[i].c, ":inline-comment")
      \o B(\E i \in ls : d.lines[i].t = "bare", ":no-separator")
      \o B(\E i \in ls : d.lines[i].t = "pair" /\ d.lines[i].v = <<>>, ":empty-value")
      \o B(d.filt # <<>>, ":filter") \o B(d.cc = <<>>, ":no-comment-char")

RowDiff(res, norm) ==
    IF Len(res) # Len(norm) THEN "row-count"
    ELSE IF \E n \in DOMAIN res : {p.k : p \in Rng(res[n])} # {p.k : p \in Rng(norm[n])} THEN "columns-differ"
    ELSE "cell-differs"
CellKind(c, w) == IF c = <<>> THEN "empty-cell" ELSE IF Len(c) = w THEN "full-width-cell"
                  ELSE IF \E i \in DOMAIN c : Blank(c[i]) THEN "inner-space-cell" ELSE "word-cell"

BlanksOnly(ls) == \E i \in DOMAIN ls : ls[i] # <<>> /\ Strip(ls[i]) = <<>>

DiagFixed ==
    LET t == Ev.tab  norm == NormalFixed(t) IN
    "RoundTrip:fixed:" \o (IF Ev.exc # "" THEN "exception" ELSE RowDiff(Ev.res, norm))
      \o (IF HeaderInsidePrev(t) THEN ":header-inside-previous"
          ELSE B(Ev.exc = "" /\ RowDiff(Ev.res, norm) = "cell-differs",
                 LET n == CHOOSE n \in DOMAIN norm : Rng(Ev.res[n]) # Rng(norm[n])
                     i == CHOOSE i \in DOMAIN norm[n] : norm[n][i] \notin Rng(Ev.res[n]) IN
                 ":" \o CellKind(norm[n][i].v, t.cols[i].w) \o B(i = Len(t.cols), "-last-column"))
             \o B(t.margin > 0, ":margin") \o B(t.hi, ":leading-junk") \o B(t.ti # <<>>, ":footer")
             \o B(BlanksOnly(t.foot), ":blanks-only-footer-line"))

DiagDelim ==
    LET t == Ev.tab  norm == NormalDelim(t) IN
    "RoundTrip:delim:" \o (IF Ev.exc # "" THEN "exception" ELSE RowDiff(Ev.res, norm))
      \o B(t.delim = <<>>, ":whitespace") \o B(t.hi, ":leading-junk") \o B(t.ti # <<>>, ":footer")
      \o B(BlanksOnly(t.foot), ":blanks-only-footer-line")
      \o B(\E r \in DOMAIN t.rows : Len(t.rows[r]) < Len(t.names), ":short-row")
      \o B(\E r \in DOMAIN t.rows : \E i \in DOMAIN t.rows[r] : t.rows[r][i] = <<>>, ":empty-cell")

DiagSearch ==
    LET in == Ev.inp  ref == SearchRef(in)
        ms == {QMatcher(in.q[t].kw) : t \in DOMAIN in.q} IN
    "SearchExact:" \o (IF Ev.exc # "" THEN "exception"
                       ELSE IF \E x \in Rng(ref) : x \notin Rng(Ev.res) THEN "missing-row"
                       ELSE IF \E x \in Rng(Ev.res) : x \notin Rng(ref) THEN "extra-row" ELSE "order")
      \o B(<<>> \in ms, ":equals") \o B(MContains \in ms, ":contains") \o B(MStarts \in ms, ":startswith")
      \o B(MEnds \in ms, ":endswith") \o B(MLower \in ms, ":lower_value")
      \o B(\E t \in DOMAIN in.q : Resolves(in.rows, in.rkc, in.q[t].kw) /\ Resolve(in.rows, in.rkc, in.q[t].kw) # QKey(in.q[t].kw),
           ":normalised-key")
      \o B(\E t \in DOMAIN in.q : ~Resolves(in.rows, in.rkc, in.q[t].kw), ":unknown-key")
      \o B(Len(in.q) > 1, ":several-conditions")

DiagIni ==
    LET d == Ev.doc  norm == NormalIni(d) IN
    IF Ev.exc # "" THEN "RoundTrip:ini:exception" \o B(IndentedCommentAfterOption(d), ":indented-comment-after-option")
    ELSE IF IndentedCommentAfterOption(d) /\ ~IniSecsOK(Ev.secs, norm)
      THEN "RoundTrip:ini:indented-comment-after-option"
    ELSE IF ~IniSecsOK(Ev.secs, norm) THEN
        "RoundTrip:ini:" \o
        (IF Len(Ev.secs) # Len(norm) \/ \E n \in DOMAIN norm : Ev.secs[n].name # norm[n].name THEN "sections-differ"
         ELSE LET n == CHOOSE n \in DOMAIN norm : Rng(Ev.secs[n].opts) # Rng(norm[n].opts) \/ Len(Ev.secs[n].opts) # Len(norm[n].opts)
              IN "options:" \o PairDiff(Ev.secs[n].opts, norm[n].opts))
        \o B(\E i \in DOMAIN d.items : d.items[i].t = "opt" /\ Lower(d.items[i].k) # d.items[i].k, ":mixed-case-option")
        \o B(\E i, j \in DOMAIN d.items : i < j /\ d.items[i].t = "sec" /\ d.items[j].t = "sec" /\ d.items[i].k = d.items[j].k,
             ":repeated-section")
        \o B(\E i \in DOMAIN d.items : d.items[i].t = "comment", ":comments")
    ELSE "CaseInsensitive:ini:get"
        \o (LET g == CHOOSE g \in DOMAIN Ev.gets : LET r == IniLookup(norm, Ev.gets[g].sec, Ev.gets[g].opt) IN
                        ~(Ev.gets[g].err = "" /\ Ev.gets[g].found = r.found /\ (r.found => Ev.gets[g].v = r.v))
            IN B(Lower(Ev.gets[g].opt) # Ev.gets[g].opt, ":upper-case-query") \o B(Strip(Ev.gets[g].sec) # Ev.gets[g].sec, ":padded-section")
               \o (IF IniLookup(norm, Ev.gets[g].sec, Ev.gets[g].opt).found THEN ":present" ELSE ":absent"))

Diagnose ==
    IF Ev.ev \notin {"kv", "active", "fixed", "delim", "search", "ini"} THEN "unknown-event"
    ELSE IF ~AdmittedEv THEN "not-admitted:" \o Ev.ev
    ELSE CASE Ev.ev = "kv" -> IF Ev.exc # "" THEN "RoundTrip:kv:exception" ELSE DiagKv
           [] Ev.ev = "active" -> IF Ev.exc # "" THEN "ActiveLines:exception"
                                  ELSE "ActiveLines:" \o (IF Len(Ev.res) # Len(ActiveLines(Ev.lines, Ev.cc)) THEN "line-count" ELSE "line-differs")
           [] Ev.ev = "fixed" -> DiagFixed
           [] Ev.ev = "delim" -> DiagDelim
           [] Ev.ev = "search" -> DiagSearch
           [] OTHER -> DiagIni

Advance == tid' = tid + 1 /\ l' = 0 /\ UNCHANGED vars

TraceInit == tid = 1 /\ l = 0 /\ inp = 0 /\ out = <<>> /\ done = FALSE

TraceNext ==
    /\ tid <= Len(Batch)
    /\ IF ~More
         THEN TLCSet(2, TLCGet(2) + l) /\ Advance
         ELSE IF Accepts
           THEN l' = l + 1 /\ tid' = tid /\ UNCHANGED vars
           ELSE /\ TLCSet(1, TLCGet(1) \cup {[id |-> T.id, line |-> l + 1, clause |-> Diagnose]})
                /\ TLCSet(2, TLCGet(2) + l)
                /\ Advance
TraceSpec == TraceInit /\ [][TraceNext]_tvars

ASSUME TLCSet(1, {}) /\ TLCSet(2, 0)

Post ==
    /\ \A r \in TLCGet(1) : PrintT(<<"REJ", ToJson(r)>>)
    /\ PrintT(<<"STAT", ToJson([traces |-> Len(Batch), events |-> TLCGet(2)])>>)

=============================================================================
