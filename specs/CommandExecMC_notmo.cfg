SPECIFICATION Spec
CONSTANTS
  MaxN = 2
  Rd1 = {"no"}
  RdK = {"pass"}
  Outs = {"p"}
  Rcs = {"0"}
  Slows = {FALSE, TRUE}
  Errs = {FALSE}
  MaxOdd = 3
  Apis = {"call", "connect"}
  Keeps = {FALSE}
  Tmos = {"none"}
  Sigs = {"KILL"}
  Splits = {TRUE}
  Forms = {"list"}
  Metas = {FALSE}
  Envs = {"none"}
  Bares = {FALSE}
  Flts = {"none"}
  Mechs = {"code", "intended"}
  Admit = {}
INVARIANT TypeOK
INVARIANT ResultIsLastStageOutput
INVARIANT RcPolicy
INVARIANT NotFoundIsAnError
INVARIANT ExceptionCarriesOutput
INVARIANT TimeoutTerminates
INVARIANT Terminates
INVARIANT NoneRunningAtReturn
INVARIANT NothingStuck
INVARIANT AllReapedButKnown
INVARIANT NeverReadsCallerStdin
INVARIANT NoShell
INVARIANT EnvIsControlled
INVARIANT StreamEqualsCall
CONSTRAINT EmitCase
CHECK_DEADLOCK FALSE
