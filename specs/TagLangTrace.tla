---------------------------- MODULE TagLangTrace ----------------------------
(***************************************************************************)
(* Trace validation for the tag-expression part of C19.  A trace carries    *)
(* the tag sets every expression was evaluated on.  Events:                 *)
(*   tag  : chars |-> the text given to insights.core.taglang.parse, as     *)
(*          characters, ok |-> whether it accepted the text, vals |-> the   *)
(*          predicate's result on every tag set                             *)
(*   retab: rows |-> <<[body, tag, m]>>: what re.search really says (R4)    *)
(* A tag event is accepted iff the real parser accepted the text exactly    *)
(* when the reference reader of the text (ReadText) does, and then every    *)
(* result equals Eval of the expression the reference read.                 *)
(***************************************************************************)
EXTENDS TagLang, TLC, Json, IOUtils, TLCExt

Batch == JsonDeserialize(IOEnv.TRACE_FILE)

VARIABLES tid, l
tvars == <<tid, l>>

T    == Batch[tid]
Ev   == T.events[l + 1]
More == l < Len(T.events)
Rng(s) == {s[i] : i \in DOMAIN s}

(* the reference reads the TEXT that was given to the parser *)
R == ReadText(Ev.chars)

Valid   == Ev.ev = "tag" /\ (\A i \in DOMAIN Ev.chars : Len(Ev.chars[i]) = 1)
           /\ (Ev.ok => Len(Ev.vals) = Len(T.sets))
TruthOK == \A j \in DOMAIN T.sets : Ev.vals[j] = Eval(R.x, Rng(T.sets[j]))
(* exactly the well-formed expressions are accepted, and they mean what the grammar says; nothing is   *)
(* demanded where the reading leaves the text open or a regex is used whose matches the model does not *)
(* know                                                                                                *)
TagOK   == IF R.ok THEN (KnownRegexes(R.x) => Ev.ok /\ TruthOK)
           ELSE R.why = "unspecified" \/ ~Ev.ok
RetabOK == \A i \in DOMAIN Ev.rows : Ev.rows[i].body \in Bodies /\ Ev.rows[i].tag \in Universe
                                     /\ Matches(Ev.rows[i].body, Ev.rows[i].tag) = Ev.rows[i].m

Accepts == IF Ev.ev = "retab" THEN RetabOK ELSE Valid /\ TagOK

Features == (IF UsesKind(R.x, "not") THEN "not+" ELSE "") \o (IF UsesKind(R.x, "and") THEN "and+" ELSE "")
            \o (IF UsesKind(R.x, "or") THEN "or+" ELSE "")
            \o (IF UsesOpRegex(R.x) THEN "regex-with-operator-characters+" ELSE IF UsesKind(R.x, "re") THEN "regex+" ELSE "")
            \o (IF UsesQuote(R.x) THEN "quoted+" ELSE "") \o "tag"

Diagnose ==
    IF Ev.ev = "retab" THEN [clause |-> "malformed:regex-table", size |-> 0]
    ELSE IF ~Valid THEN [clause |-> "malformed-event", size |-> 0]
    ELSE IF ~R.ok THEN [clause |-> "TagEval:accepts-ill-formed-expression:" \o R.why, size |-> Len(Ev.chars)]
    ELSE IF ~Ev.ok THEN [clause |-> "TagEval:rejects-valid-expression:" \o Features, size |-> Len(Ev.chars)]
    ELSE [clause |-> "TagEval:wrong-truth-value:" \o Features, size |-> Len(Ev.chars)]

Advance == IF tid < Len(Batch) THEN tid' = tid + 1 /\ l' = 0 ELSE tid' = Len(Batch) + 1 /\ l' = 0
TraceInit == tid = 1 /\ l = 0
TraceNext ==
    /\ tid <= Len(Batch)
    /\ IF ~More THEN Advance
       ELSE /\ IF Accepts THEN TRUE
               ELSE LET d == Diagnose IN
                    TLCSet(1, TLCGet(1) \cup {[id |-> T.id, line |-> l + 1, clause |-> d.clause, size |-> d.size]})
            /\ TLCSet(2, TLCGet(2) + 1)
            /\ l' = l + 1 /\ tid' = tid
TraceSpec == TraceInit /\ [][TraceNext]_tvars

ASSUME TLCSet(1, {}) /\ TLCSet(2, 0)

Post ==
    /\ \A r \in TLCGet(1) : PrintT(<<"REJ", ToJson(r)>>)
    /\ PrintT(<<"STAT", ToJson([traces |-> Len(Batch), events |-> TLCGet(2)])>>)

=============================================================================
