---------------------------- MODULE TagLangTrace ----------------------------
(***************************************************************************)
(* Trace validation for the tag-expression part of C19.  A trace carries    *)
(* the tag sets every expression was evaluated on.  Events:                 *)
(*   tag  : toks |-> the expression as tokens (the driver wrote them out as *)
(*          text under the lexical contract of TagLang), ok |-> whether     *)
(*          insights.core.taglang.parse accepted the text, vals |-> the     *)
(*          predicate's result on every tag set                             *)
(*   retab: rows |-> <<[body, tag, m]>>: what re.search really says (R4)    *)
(* A tag event is accepted iff the reference reader accepts the tokens, the *)
(* real parser accepted the text and every result equals Eval of the read   *)
(* expression.                                                              *)
(***************************************************************************)
EXTENDS TagLang, TLC, Json, IOUtils, TLCExt

Batch == JsonDeserialize(IOEnv.TRACE_FILE)

VARIABLES tid, l
tvars == <<tid, l>>

T    == Batch[tid]
Ev   == T.events[l + 1]
More == l < Len(T.events)
Rng(s) == {s[i] : i \in DOMAIN s}

Valid   == Ev.ev = "tag" /\ (\A i \in DOMAIN Ev.toks : TokOK(Ev.toks[i])) /\ Read(Ev.toks).ok
           /\ (Ev.ok => Len(Ev.vals) = Len(T.sets))
TagOK   == Ev.ok /\ \A j \in DOMAIN T.sets : Ev.vals[j] = Eval(Read(Ev.toks).x, Rng(T.sets[j]))
RetabOK == \A i \in DOMAIN Ev.rows : Ev.rows[i].body \in Bodies /\ Ev.rows[i].tag \in Universe
                                     /\ Matches(Ev.rows[i].body, Ev.rows[i].tag) = Ev.rows[i].m

Accepts == IF Ev.ev = "retab" THEN RetabOK ELSE Valid /\ TagOK

Has(t) == \E i \in DOMAIN Ev.toks : Ev.toks[i].t = t
Features == (IF Has("!") THEN "not+" ELSE "") \o (IF Has("&") THEN "and+" ELSE "")
            \o (IF Has("|") THEN "or+" ELSE "") \o (IF Has(",") THEN "comma+" ELSE "")
            \o (IF Has("(") THEN "paren+" ELSE "") \o (IF Has("re") THEN "regex+" ELSE "")
            \o (IF \E i \in DOMAIN Ev.toks : Ev.toks[i].t \in {"tag", "re"} /\ Ev.toks[i].q > 0 THEN "quoted+" ELSE "")
            \o "tag"

Diagnose ==
    IF Ev.ev = "retab" THEN [clause |-> "malformed:regex-table", size |-> 0]
    ELSE IF ~Valid THEN [clause |-> "malformed-event", size |-> 0]
    ELSE IF ~Ev.ok THEN [clause |-> "TagEval:rejects-valid-expression:" \o Features, size |-> Len(Ev.toks)]
    ELSE [clause |-> "TagEval:wrong-truth-value:" \o Features, size |-> Len(Ev.toks)]

Advance == IF tid < Len(Batch) THEN tid' = tid + 1 /\ l' = 0 ELSE tid' = Len(Batch) + 1 /\ l' = 0
TraceInit == tid = 1 /\ l = 0
TraceNext ==
    /\ tid <= Len(Batch)
    /\ IF ~More THEN Advance
       ELSE /\ IF Accepts THEN TRUE
               ELSE LET d == Diagnose IN
                    TLCSet(1, TLCGet(1) \cup {[id |-> T.id, line |-> l + 1, clause |-> d.clause, size |-> d.size]})
            /\ TLCSet(2, TLCGet(2) + 1)
            /\ l' = l + 1 /\ tid' = tid
TraceSpec == TraceInit /\ [][TraceNext]_tvars

ASSUME TLCSet(1, {}) /\ TLCSet(2, 0)

Post ==
    /\ \A r \in TLCGet(1) : PrintT(<<"REJ", ToJson(r)>>)
    /\ PrintT(<<"STAT", ToJson([traces |-> Len(Batch), events |-> TLCGet(2)])>>)

=============================================================================
