---------------------------- MODULE RpmVercmpMC ----------------------------
(***************************************************************************)
(* Model-checking wrapper for RpmVercmp: enumerates every string over the   *)
(* symbol list Sym up to length L (Mode = "ver"), or every                  *)
(* epoch:version-release triple of Epochs x strings(VSym, VL) x             *)
(* strings(RSym, RL) (Mode = "evr"), in a canonical order; checks the laws  *)
(* of C13 on the reference; emits one CASE per item with its full row of    *)
(* the comparison table.                                                    *)
(*                                                                         *)
(* State: k, the index of the item whose row is being checked.  The state   *)
(* graph is a binary tree over 1..N so that TLC's workers share the rows.   *)
(***************************************************************************)
EXTENDS RpmVercmp, TLC, Json

CONSTANTS Mode,        \* "ver" | "evr"
          SymSet, L,   \* ver: set of symbols (code points), maximal length
          TL,          \* ver: explicit triple laws on strings up to this length
          EpochNums,   \* evr: set of epoch numbers; the missing epoch (absent, "(none)") and a
                       \*      zero-padded spelling of the largest are always added
          VSymSet, VL, RSymSet, RL

(* cfg files cannot write sequences: symbol sets are listed in ascending code order *)
RECURSIVE Sorted(_)
Sorted(S) == IF S = {} THEN <<>> ELSE LET m == CHOOSE x \in S : \A y \in S : x <= y IN <<m>> \o Sorted(S \ {m})
RECURSIVE Digits(_)
Digits(n) == IF n < 10 THEN <<48 + n>> ELSE Append(Digits(n \div 10), 48 + (n % 10))
Sym  == Sorted(SymSet)
VSym == Sorted(VSymSet)
RSym == Sorted(RSymSet)
EpochSorted == Sorted(EpochNums)
Epochs == IF EpochNums = {} THEN <<>>
          ELSE << <<>>, NoneStr >> \o [i \in DOMAIN EpochSorted |-> Digits(EpochSorted[i])]
               \o << <<48, 48>> \o Digits(EpochSorted[Len(EpochSorted)]) >>

(* all strings over the list S of exactly length n, in lexicographic order of S *)
RECURSIVE Level(_, _)
Level(S, n) ==
    IF n = 0 THEN << <<>> >>
    ELSE LET P == Level(S, n - 1) IN
         [x \in 1..(Len(P) * Len(S)) |-> Append(P[((x - 1) \div Len(S)) + 1], S[((x - 1) % Len(S)) + 1])]
RECURSIVE UpTo(_, _)
UpTo(S, n) == IF n = 0 THEN Level(S, 0) ELSE UpTo(S, n - 1) \o Level(S, n)

StrList == UpTo(Sym, L)
VList   == UpTo(VSym, VL)
RList   == UpTo(RSym, RL)
EvrList ==
    [x \in 1..(Len(Epochs) * Len(VList) * Len(RList)) |->
        [e |-> Epochs[((x - 1) \div (Len(VList) * Len(RList))) + 1],
         v |-> VList[(((x - 1) \div Len(RList)) % Len(VList)) + 1],
         r |-> RList[((x - 1) % Len(RList)) + 1]]]

Items == IF Mode = "ver" THEN StrList ELSE EvrList
N     == Len(Items)
Cmp(x, y) == IF Mode = "ver" THEN VerCmp(x, y) ELSE EvrCmp(x, y)

Rank == RankOf(Items, Cmp)                    \* evaluated once by TLC (constant definition)

(* strings short enough for the explicit O(n^3) laws *)
Short == IF Mode = "ver" THEN UpTo(Sym, TL) ELSE << >>
ShortTable == [i \in DOMAIN Short |-> [j \in DOMAIN Short |-> VerCmp(Short[i], Short[j])]]
TC(i, j) == ShortTable[i][j]
TripleLaws ==
    /\ \A i, j, k \in DOMAIN Short : (TC(i, j) <= 0 /\ TC(j, k) <= 0) => TC(i, k) <= 0         \* Transitive
    /\ \A i, j \in DOMAIN Short : TC(i, j) = 0 => \A k \in DOMAIN Short : TC(i, k) = TC(j, k)  \* EqIsCongruence
    /\ \A i, j \in DOMAIN Short : TC(i, j) = -TC(j, i)
ASSUME TripleLaws
ASSUME Mode = "evr" => \A i \in DOMAIN Epochs : EpochOK(Epochs[i])

VARIABLE k
Init == k = 1
Next == \E n \in {2 * k, 2 * k + 1} : n <= N /\ k' = n
Spec == Init /\ [][Next]_k

(* ---- the laws, row by row ---- *)
Row == [j \in 1..N |-> Cmp(Items[k], Items[j])]
Col == [j \in 1..N |-> Cmp(Items[j], Items[k])]

ReflexiveRow(row)     == row[k] = 0
WalkReflexiveRow      == Mode = "ver" => Walk(Items[k], 1, Items[k], 1).r = 0  \* the "identical" shortcut is sound
AntisymmetricRow(row, col) == \A j \in 1..N : row[j] = -col[j]
(* with all rows: transitive, total, equality is a congruence *)
TotalPreorderRow(row) == \A j \in 1..N : row[j] = Sign(Rank[k] - Rank[j])
ThreeValuedRow(row)   == \A j \in 1..N : row[j] \in {-1, 0, 1}
(* exactly one of older / equal / newer, and the six operators agree *)
OpsRow(row) == \A j \in 1..N : LET o == OpsOf(row[j]) IN
                  /\ Cardinality({x \in 1..3 : o[x]}) = 1
                  /\ o[4] = (o[1] \/ o[2]) /\ o[5] = (o[3] \/ o[2]) /\ o[6] = ~o[2]
(* epoch dominates, then version, then release *)
EvrRow(row) == Mode = "evr" => \A j \in 1..N :
                  LET x == Items[k]  y == Items[j]  c == row[j]  v == VerCmp(x.v, y.v) IN
                  /\ EpochVal(x.e) < EpochVal(y.e) => c = -1
                  /\ (EpochVal(x.e) = EpochVal(y.e) /\ v # 0) => c = v
                  /\ (EpochVal(x.e) = EpochVal(y.e) /\ v = 0) => c = VerCmp(x.r, y.r)

RowLaws ==
    LET row == Row
        col == Col
    IN /\ ReflexiveRow(row) /\ WalkReflexiveRow /\ AntisymmetricRow(row, col) /\ TotalPreorderRow(row)
       /\ ThreeValuedRow(row) /\ OpsRow(row) /\ EvrRow(row)

(* one CASE per item: its row of the table and the set of branches of the reference that decided *)
(* somewhere in the row (vacuity control: the harness requires every branch to occur)           *)
CmpD(x, y) == IF Mode = "ver" THEN VerCmpD(x, y) ELSE EvrCmpD(x, y)
Emit == LET rd == [j \in 1..N |-> CmpD(Items[k], Items[j])] IN
        PrintT(<<"CASE", ToJson([k |-> k, x |-> Items[k], row |-> [j \in 1..N |-> rd[j].r],
                                 whys |-> {rd[j].why : j \in 1..N}])>>)

=============================================================================
