----------------------------- MODULE QueryTrace -----------------------------
(***************************************************************************)
(* Trace validation for C20.  A trace is one forest and the calls the      *)
(* driver made on the REAL Entry / Result objects built from it:           *)
(*                                                                         *)
(*  [ev |-> "select", via, recv |-> <<node ids>>, qs, deep, roots,         *)
(*   out |-> "ok" | "crash:<type>", res |-> <<node ids, 0 = foreign>>]     *)
(*      candidates = children of recv (a document, several documents under *)
(*      a Result, or the nodes of an earlier result); via = select | find  *)
(*      | getitem | chain is informative only                              *)
(*  [ev |-> "truth", term, vals, test |-> <<BOOLEAN>>, pyf |-> <<BOOLEAN>>,*)
(*   out]     term.test(v) and term.to_pyfunc()(v) for every v of vals     *)
(*                                                                         *)
(*  [ev |-> "new", term, out]           a predicate OBJECT is built from   *)
(*      fresh leaves as `term`; it is object number Len(store) + 1         *)
(*  [ev |-> "combine", op, a, b, out]   a new object ~a / a & b / a | b is *)
(*      built FROM THE OBJECTS a and b of the store                        *)
(*  [ev |-> "otruth", obj, vals, test, pyf, out]   the truth table of the  *)
(*      object `obj` of the store as it is now                             *)
(*  [ev |-> "oselect", obj, pos |-> "name" | "attr", via, recv, deep,      *)
(*   roots, out, res]    the object used as the name (attribute) predicate *)
(*      of a one-level query                                               *)
(*  [ev |-> "alphabet", c, lower, fold]   R4: the environment's str.lower  *)
(*      / str.casefold of a character the driver uses                      *)
(*                                                                         *)
(* The calls are independent (pure functions of the forest, the query as   *)
(* written and the terms the objects were built as): a rejected event is   *)
(* recorded and the next event of the same trace is examined.  `store` is  *)
(* the only state: the terms of the objects built so far in this trace.    *)
(***************************************************************************)
EXTENDS Query, Json, IOUtils, TLCExt

Batch == JsonDeserialize(IOEnv.TRACE_FILE)

VARIABLES tid, l, store
tvars == <<tid, l, store>>

T    == Batch[tid]
Ev   == T.events[l + 1]
More == l < Len(T.events)

(* cr = FALSE: the specification.  cr = TRUE: the deviating reading "a case-insensitive  *)
(* atom raises on a non-string value", evaluated only to NAME that deviation.            *)
SetOK(e, sem, cr) ==
    LET F   == T.forest
        sel == SelectSet(F, e.recv, e.qs, e.deep, sem, cr)
    IN Rng(e.res) = (IF e.roots THEN RootsOf(F, sel)      \* de-duplicated ultimate ancestors
                                ELSE sel)                 \* exactly the matching nodes; a raising predicate does not match
SelOK(e, cr) ==
    /\ e.out = "ok"
    /\ SetOK(e, "strict", cr)
    /\ Increasing(e.res)                                                              \* document order, no duplicate

TruthOK(e, cr) ==
    /\ e.out = "ok"
    /\ \A i \in DOMAIN e.vals :
         /\ e.test[i] \in Allowed(e.term, e.vals[i], FALSE)
         /\ e.pyf[i]  \in Allowed(e.term, e.vals[i], cr)         \* CompiledEqualsInterpreted when nothing raises

(* Caselessness: the statement does not say which normalisation "case-insensitive" means for text on   *)
(* which lower-casing and case folding differ.  An observation is accepted if ONE reading explains it   *)
(* (for a truth event: the interpreted and the compiled table under the same reading, which is what      *)
(* CompiledEqualsInterpreted asks for); on text without special-casing characters the readings coincide. *)
FoldEv(e) == IF e.ev = "select" THEN [e EXCEPT !.qs = FoldQs(@)] ELSE [e EXCEPT !.term = FoldTerm(@)]
SelAcc(e)   == SelOK(e, FALSE) \/ SelOK(FoldEv(e), FALSE)
TruthAcc(e) == TruthOK(e, FALSE) \/ TruthOK(FoldEv(e), FALSE)

(* events on objects of the store are judged as the corresponding event on the term the object was built as *)
Known(i) == i \in DOMAIN store
AsTruthT(e, term) == [ev |-> "truth", term |-> term, vals |-> e.vals, test |-> e.test, pyf |-> e.pyf, out |-> e.out]
AsTruth(e) == AsTruthT(e, store[e.obj])
NoT == <<>>
ObjLevel(pos, term) == IF pos = "name" THEN [nk |-> "term", nlit |-> <<>>, nterm |-> term, am |-> "none", aq |-> <<>>]
                       ELSE [nk |-> "any", nlit |-> <<>>, nterm |-> NoT, am |-> "any",
                             aq |-> << [k |-> "term", lit |-> IV(0), term |-> term] >>]
AsSelectT(e, term) == [ev |-> "select", via |-> e.via, recv |-> e.recv, qs |-> << ObjLevel(e.pos, term) >>, deep |-> e.deep,
                       roots |-> e.roots, out |-> e.out, res |-> e.res]
AsSelect(e) == AsSelectT(e, store[e.obj])
AlphaOK(e) == e.lower = LowerC(e.c) /\ e.fold = FoldC(e.c)

WellFormed ==
    CASE Ev.ev = "combine" -> Known(Ev.a) /\ Known(Ev.b) /\ Ev.op \in {"not", "and", "or"}
      [] Ev.ev \in {"otruth", "oselect"} -> Known(Ev.obj)
      [] OTHER -> TRUE

Accepts ==
    WellFormed /\
    CASE Ev.ev = "select" -> SelAcc(Ev)
      [] Ev.ev = "truth"  -> TruthAcc(Ev)
      [] Ev.ev \in {"new", "combine"} -> Ev.out = "ok"
      [] Ev.ev = "otruth"  -> TruthAcc(AsTruth(Ev))
      [] Ev.ev = "oselect" -> SelAcc(AsSelect(Ev))
      [] Ev.ev = "alphabet" -> AlphaOK(Ev)
      [] OTHER -> FALSE

StoreNext ==
    CASE Ev.ev = "new" -> Append(store, Ev.term)
      [] Ev.ev = "combine" /\ WellFormed -> Combine(store, Ev.op, Ev.a, Ev.b)
      [] OTHER -> store

(* ---- diagnosis: failing clause + abstract features of the failing case ---- *)
RECURSIVE JoinStr(_)
JoinStr(S) == IF S = {} THEN "" ELSE LET x == CHOOSE x \in S : TRUE IN
              x \o (IF S \ {x} = {} THEN "" ELSE "+") \o JoinStr(S \ {x})

Shape(e) ==
    (IF e.deep THEN "deep" ELSE "children") \o ":" \o (IF Len(e.qs) = 1 THEN "one-level" ELSE "multi-level")
QueryKinds(e) ==
    "name=" \o JoinStr({e.qs[j].nk : j \in DOMAIN e.qs}) \o ":attr=" \o JoinStr({e.qs[j].am : j \in DOMAIN e.qs})

DiagSel(e) ==
    LET F  == T.forest
        S  == Rng(e.res)
        X  == LET sel == SelectSet(F, e.recv, e.qs, e.deep, "strict", FALSE) IN IF e.roots THEN RootsOf(F, sel) ELSE sel
        order == IF Len(e.res) # Cardinality(S) THEN (IF e.roots THEN "RootsDedup.duplicate" ELSE "Exact.duplicate:" \o Shape(e))
                 ELSE "DocumentOrder:" \o Shape(e) \o
                      (IF Nested(F, e.recv, e.qs, e.deep) THEN ":nested-matches" ELSE "") \o (IF e.roots THEN ":roots" ELSE "")
    IN IF e.out # "ok" THEN "Select.crash:" \o Shape(e) \o ":" \o QueryKinds(e)
       ELSE IF SetOK(e, "strict", FALSE) THEN order
       ELSE IF SetOK(e, "interp", FALSE) THEN      \* explained by: a raising atom is false and the algebra goes on
            "RaisingCountsAsNotMatching:" \o (IF S \subseteq X THEN "missing" ELSE "raising-predicate-matched") \o ":" \o QueryKinds(e)
       ELSE IF SetOK(e, "strict", TRUE) THEN (IF Increasing(e.res) THEN "Exact:caseless-on-nonstring-value" ELSE order)
       ELSE IF ~(S \subseteq X) THEN
            (IF e.roots /\ \E m \in S : m \in DOMAIN F /\ F[m].d # 0 THEN "Roots.not-ultimate-ancestor"
             ELSE "Exact.extra:" \o Shape(e) \o ":" \o QueryKinds(e) \o (IF e.roots THEN ":roots" ELSE ""))
       ELSE "Exact.missing:" \o Shape(e) \o ":" \o QueryKinds(e) \o (IF e.roots THEN ":roots" ELSE "")

Ops(term) == {term[i].op : i \in DOMAIN term} \ {"atom"}
DiagTruth(e) ==
    IF e.out # "ok" THEN "Truth.crash"
    ELSE IF \E i \in DOMAIN e.vals : e.test[i] \notin Allowed(e.term, e.vals[i], FALSE) THEN
         "Truth.interpreted:ops=" \o JoinStr(Ops(e.term))
    ELSE IF TruthOK(e, TRUE) THEN "CompiledEqualsInterpreted:caseless-on-nonstring-value"
    ELSE "CompiledEqualsInterpreted:ops=" \o JoinStr(Ops(e.term)) \o
         (IF \E i \in DOMAIN e.vals : e.pyf[i] \notin Allowed(e.term, e.vals[i], FALSE) /\ Eval(e.term, e.vals[i], FALSE).r
            THEN ":raising" ELSE "")

(* text with special-casing characters takes part and no single reading of caselessness explains the event *)
EvSpecial(e) ==
    IF e.ev = "truth" THEN TermSpecial(e.term) \/ \E i \in DOMAIN e.vals : e.vals[i].t = "s" /\ SpecialCasing(e.vals[i].s)
    ELSE \/ \E j \in DOMAIN e.qs : \/ TermSpecial(e.qs[j].nterm)
                                    \/ \E m \in DOMAIN e.qs[j].aq : TermSpecial(e.qs[j].aq[m].term)
         \/ \E i \in DOMAIN T.forest : \/ SpecialCasing(T.forest[i].n)
                                       \/ \E m \in DOMAIN T.forest[i].a : T.forest[i].a[m].t = "s" /\ SpecialCasing(T.forest[i].a[m].s)
CaselessTerm(term) == \E i \in DOMAIN term : term[i].op = "atom" /\ term[i].ci
EvCaseless(e) ==
    IF e.ev = "truth" THEN CaselessTerm(e.term)
    ELSE \E j \in DOMAIN e.qs : CaselessTerm(e.qs[j].nterm) \/ \E m \in DOMAIN e.qs[j].aq : CaselessTerm(e.qs[j].aq[m].term)
\* one evaluator follows one reading, the other one the other (or none): named as such
Readings(e) ==
    IF e.ev = "truth" /\ e.out = "ok" /\ EvCaseless(e) /\ EvSpecial(e)
       /\ ((\A i \in DOMAIN e.vals : e.test[i] \in Allowed(e.term, e.vals[i], FALSE))
           \/ (\A k \in DOMAIN e.vals : e.test[k] \in Allowed(FoldTerm(e.term), e.vals[k], FALSE)))
    THEN "CompiledEqualsInterpreted:caseless:special-casing-text"
    ELSE IF e.ev = "select" /\ e.out = "ok" /\ EvCaseless(e) /\ EvSpecial(e) /\ ~SetOK(e, "interp", FALSE) /\ ~SetOK(e, "strict", TRUE)
            /\ Increasing(e.res)
    THEN "Exact:caseless:special-casing-text:" \o QueryKinds(e)
    ELSE ""
DiagBase(e) ==
    LET r == Readings(e) IN
    IF r # "" THEN r ELSE IF e.ev = "select" THEN DiagSel(e) ELSE DiagTruth(e)

(* an object that has served as an operand of a combination built earlier in this trace: does it now *)
(* evaluate as one of the objects built after it?                                                    *)
UsedAs(e) ==
    LET used  == \E m \in 1..l : T.events[m].ev = "combine" /\ (T.events[m].a = e.obj \/ T.events[m].b = e.obj)
        later == {d \in DOMAIN store : d > e.obj}
        EvalAs(d) == IF e.ev = "otruth" THEN TruthAcc(AsTruthT(e, store[d])) ELSE SelAcc(AsSelectT(e, store[d]))
    IN IF ~used THEN ""
       ELSE IF \E d \in later : EvalAs(d) THEN "OperandUnchanged:evaluates-as-a-later-combination:"
       ELSE "OperandUnchanged:after-serving-as-operand:"
DiagObj(e) == UsedAs(e) \o (IF e.ev = "otruth" THEN "truth:" \o DiagBase(AsTruth(e)) ELSE e.pos \o ":" \o DiagBase(AsSelect(e)))

Diagnose ==
    IF ~WellFormed THEN "machinery:unknown-object" ELSE
    CASE Ev.ev = "select" -> DiagBase(Ev)
      [] Ev.ev = "truth"  -> DiagBase(Ev)
      [] Ev.ev \in {"new", "combine"} -> "Object.crash:" \o Ev.ev
      [] Ev.ev \in {"otruth", "oselect"} -> DiagObj(Ev)
      [] Ev.ev = "alphabet" -> "machinery:alphabet:model-and-environment-disagree"
      [] OTHER -> "machinery:unknown-event"

TraceInit == tid = 1 /\ l = 0 /\ store = <<>>

TraceNext ==
    /\ tid <= Len(Batch)
    /\ IF ~More
         THEN /\ TLCSet(2, TLCGet(2) + l)
              /\ tid' = tid + 1 /\ l' = 0 /\ store' = <<>>
         ELSE /\ IF Accepts THEN TRUE
                 ELSE TLCSet(1, TLCGet(1) \cup {[id |-> T.id, line |-> l + 1, clause |-> Diagnose]})
              /\ l' = l + 1 /\ tid' = tid /\ store' = StoreNext
TraceSpec == TraceInit /\ [][TraceNext]_tvars

ASSUME TLCSet(1, {}) /\ TLCSet(2, 0)

Post ==
    /\ \A r \in TLCGet(1) : PrintT(<<"REJ", ToJson(r)>>)
    /\ PrintT(<<"STAT", ToJson([traces |-> Len(Batch), events |-> TLCGet(2)])>>)
=============================================================================
