----------------------------- MODULE QueryTrace -----------------------------
(***************************************************************************)
(* Trace validation for C20.  A trace is one forest and the calls the      *)
(* driver made on the REAL Entry / Result objects built from it:           *)
(*                                                                         *)
(*  [ev |-> "select", via, recv |-> <<node ids>>, qs, deep, roots,         *)
(*   out |-> "ok" | "crash:<type>", res |-> <<node ids, 0 = foreign>>]     *)
(*      candidates = children of recv (a document, several documents under *)
(*      a Result, or the nodes of an earlier result); via = select | find  *)
(*      | getitem | chain is informative only                              *)
(*  [ev |-> "truth", term, vals, test |-> <<BOOLEAN>>, pyf |-> <<BOOLEAN>>,*)
(*   out]     term.test(v) and term.to_pyfunc()(v) for every v of vals     *)
(*                                                                         *)
(* The calls are independent (pure functions): a rejected event is         *)
(* recorded and the next event of the same trace is examined.              *)
(***************************************************************************)
EXTENDS Query, Json, IOUtils, TLCExt

Batch == JsonDeserialize(IOEnv.TRACE_FILE)

VARIABLES tid, l
tvars == <<tid, l>>

T    == Batch[tid]
Ev   == T.events[l + 1]
More == l < Len(T.events)

(* cr = FALSE: the specification.  cr = TRUE: the deviating reading "a case-insensitive  *)
(* atom raises on a non-string value", evaluated only to NAME that deviation.            *)
SetOK(e, sem, cr) ==
    LET F   == T.forest
        sel == SelectSet(F, e.recv, e.qs, e.deep, sem, cr)
    IN Rng(e.res) = (IF e.roots THEN RootsOf(F, sel)      \* de-duplicated ultimate ancestors
                                ELSE sel)                 \* exactly the matching nodes; a raising predicate does not match
SelOK(e, cr) ==
    /\ e.out = "ok"
    /\ SetOK(e, "strict", cr)
    /\ Increasing(e.res)                                                              \* document order, no duplicate

TruthOK(e, cr) ==
    /\ e.out = "ok"
    /\ \A i \in DOMAIN e.vals :
         /\ e.test[i] \in Allowed(e.term, e.vals[i], FALSE)
         /\ e.pyf[i]  \in Allowed(e.term, e.vals[i], cr)         \* CompiledEqualsInterpreted when nothing raises

Accepts ==
    CASE Ev.ev = "select" -> SelOK(Ev, FALSE)
      [] Ev.ev = "truth"  -> TruthOK(Ev, FALSE)
      [] OTHER -> FALSE

(* ---- diagnosis: failing clause + abstract features of the failing case ---- *)
RECURSIVE JoinStr(_)
JoinStr(S) == IF S = {} THEN "" ELSE LET x == CHOOSE x \in S : TRUE IN
              x \o (IF S \ {x} = {} THEN "" ELSE "+") \o JoinStr(S \ {x})

Shape(e) ==
    (IF e.deep THEN "deep" ELSE "children") \o ":" \o (IF Len(e.qs) = 1 THEN "one-level" ELSE "multi-level")
QueryKinds(e) ==
    "name=" \o JoinStr({e.qs[j].nk : j \in DOMAIN e.qs}) \o ":attr=" \o JoinStr({e.qs[j].am : j \in DOMAIN e.qs})

DiagSel(e) ==
    LET F  == T.forest
        S  == Rng(e.res)
        X  == LET sel == SelectSet(F, e.recv, e.qs, e.deep, "strict", FALSE) IN IF e.roots THEN RootsOf(F, sel) ELSE sel
        order == IF Len(e.res) # Cardinality(S) THEN (IF e.roots THEN "RootsDedup.duplicate" ELSE "Exact.duplicate:" \o Shape(e))
                 ELSE "DocumentOrder:" \o Shape(e) \o
                      (IF Nested(F, e.recv, e.qs, e.deep) THEN ":nested-matches" ELSE "") \o (IF e.roots THEN ":roots" ELSE "")
    IN IF e.out # "ok" THEN "Select.crash:" \o Shape(e) \o ":" \o QueryKinds(e)
       ELSE IF SetOK(e, "strict", FALSE) THEN order
       ELSE IF SetOK(e, "interp", FALSE) THEN      \* explained by: a raising atom is false and the algebra goes on
            "RaisingCountsAsNotMatching:" \o (IF S \subseteq X THEN "missing" ELSE "raising-predicate-matched") \o ":" \o QueryKinds(e)
       ELSE IF SetOK(e, "strict", TRUE) THEN (IF Increasing(e.res) THEN "Exact:caseless-on-nonstring-value" ELSE order)
       ELSE IF ~(S \subseteq X) THEN
            (IF e.roots /\ \E m \in S : m \in DOMAIN F /\ F[m].d # 0 THEN "Roots.not-ultimate-ancestor"
             ELSE "Exact.extra:" \o Shape(e) \o ":" \o QueryKinds(e) \o (IF e.roots THEN ":roots" ELSE ""))
       ELSE "Exact.missing:" \o Shape(e) \o ":" \o QueryKinds(e) \o (IF e.roots THEN ":roots" ELSE "")

Ops(term) == {term[i].op : i \in DOMAIN term} \ {"atom"}
DiagTruth(e) ==
    IF e.out # "ok" THEN "Truth.crash"
    ELSE IF \E i \in DOMAIN e.vals : e.test[i] \notin Allowed(e.term, e.vals[i], FALSE) THEN
         "Truth.interpreted:ops=" \o JoinStr(Ops(e.term))
    ELSE IF TruthOK(e, TRUE) THEN "CompiledEqualsInterpreted:caseless-on-nonstring-value"
    ELSE "CompiledEqualsInterpreted:ops=" \o JoinStr(Ops(e.term)) \o
         (IF \E i \in DOMAIN e.vals : e.pyf[i] \notin Allowed(e.term, e.vals[i], FALSE) /\ Eval(e.term, e.vals[i], FALSE).r
            THEN ":raising" ELSE "")

Diagnose ==
    CASE Ev.ev = "select" -> DiagSel(Ev)
      [] Ev.ev = "truth"  -> DiagTruth(Ev)
      [] OTHER -> "machinery:unknown-event"

TraceInit == tid = 1 /\ l = 0

TraceNext ==
    /\ tid <= Len(Batch)
    /\ IF ~More
         THEN /\ TLCSet(2, TLCGet(2) + l)
              /\ tid' = tid + 1 /\ l' = 0
         ELSE /\ IF Accepts THEN TRUE
                 ELSE TLCSet(1, TLCGet(1) \cup {[id |-> T.id, line |-> l + 1, clause |-> Diagnose]})
              /\ l' = l + 1 /\ tid' = tid
TraceSpec == TraceInit /\ [][TraceNext]_tvars

ASSUME TLCSet(1, {}) /\ TLCSet(2, 0)

Post ==
    /\ \A r \in TLCGet(1) : PrintT(<<"REJ", ToJson(r)>>)
    /\ PrintT(<<"STAT", ToJson([traces |-> Len(Batch), events |-> TLCGet(2)])>>)
=============================================================================
