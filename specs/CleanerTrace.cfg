SPECIFICATION TraceSpec
CONSTANTS
  Kinds = {"text"}
  NIp = 1
  NDom = 1
  NMac = 1
  NKw = 1
  NPat = 1
  NIp6 = 1
  NAk = 1
  V6Set = {FALSE}
  NoFqdnSet = {FALSE}
  DnameSet = {FALSE}
  DelSet = {"space"}
  MaxTok = 1
  MaxLines = 1
  MaxSpecs = 1
  TotLines = 1
  ObfSet = {TRUE}
  HostSet = {TRUE}
  MacSet = {TRUE}
  KwSets = {{}}
  PatSets = {{}}
  RegexSet = {FALSE}
  SysDomSet = {TRUE}
  NoRedSet = {FALSE}
  NoObfSets = {{}}
  WidthSet = {FALSE}
  AllowSet = {0}
  FamSet = {"plain"}
  AllowBlank = FALSE
  Runs = 1
  AllOrders = FALSE
  FreeOrder = FALSE
POSTCONDITION Post
CHECK_DEADLOCK FALSE
