\* the transcription of the code with the class admitted: TLC is EXPECTED to refute EnvIsControlled
SPECIFICATION Spec
CONSTANTS
  MaxN = 2
  Rd1 = {"no", "drain"}
  RdK = {"no", "pass"}
  Outs = {"p", "L", "pb"}
  Rcs = {"0", "1", "nf"}
  Slows = {FALSE, TRUE}
  Errs = {FALSE}
  MaxOdd = 3
  Apis = {"call", "connect"}
  Keeps = {FALSE}
  Tmos = {"none", "arg"}
  Sigs = {"KILL"}
  Splits = {TRUE}
  Forms = {"list"}
  Metas = {FALSE}
  Envs = {"given"}
  Bares = {FALSE, TRUE}
  Flts = {"none"}
  Mechs = {"code"}
  Admit = {"streampath"}
INVARIANT F_Env
CHECK_DEADLOCK FALSE
