SPECIFICATION Spec
CONSTANTS
  Fam = "search"
  N = 2
  Deep = FALSE
INVARIANT Admitted
INVARIANT NormalIdempotent
INVARIANT CommentsInert
INVARIANT LaterWins
INVARIANT SearchExact
CONSTRAINT Emit
CHECK_DEADLOCK FALSE
