SPECIFICATION Spec
CONSTANTS
  N = 3
  Kinds = {"text", "command"}
  Atoms = {"p"}
  MinLines = 1
  MaxLines = 1
  MaxElems = 0
  SaveAsSet = {"none"}
  Modes = {"deleted", "truncated", "unknown", "shape", "datagone"}
  MayFail = TRUE
  OutcomeSet = {"crash"}
  BackedSet = {FALSE}
  FilterSet = {FALSE}
  Budget = 2
  BudgetMode = "per-load"
  RecordMode = "component"
  PoolSet = {FALSE}
  AssembleMode = "index"
  LateSet = {FALSE}
  LookupMode = "live"
  MaxFaults = 3
INVARIANT RoundTrip
INVARIANT ErrorsPersisted
INVARIANT FaultIsolation
VIEW View
CHECK_DEADLOCK FALSE
