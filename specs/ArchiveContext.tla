--------------------------- MODULE ArchiveContext ---------------------------
(***************************************************************************)
(* Analysis input handling of insights-core: how a path given for analysis *)
(* becomes an execution context and a seeded broker                        *)
(*   insights/core/archives.py   extract, TarExtractor, ZipExtractor       *)
(*   insights/core/hydration.py  get_all_files, identify, create_context,  *)
(*                               initialize_broker                         *)
(*   insights/core/context.py    ExecutionContextMeta.registry / identify, *)
(*                               ExecutionContext.handles (marker search)  *)
(*   insights/__init__.py        _run / process_dir                        *)
(*                                                                         *)
(* An INPUT is a small tree of files (paths of at most MaxDepth segments   *)
(* over Dirs x Leaves) given as a directory or packed as tar / tar.gz /    *)
(* tar.bz2 / tar.xz / zip, optionally below one top-level directory, with  *)
(* an optional member whose name points outside the extraction directory   *)
(* (".." / absolute / through a symbolic link), an optional explicit       *)
(* context, optionally located below a directory whose NAME is a marker,   *)
(* optionally extracted into a directory whose name contains a blank.      *)
(*                                                                         *)
(* Two layers.                                                             *)
(*  REFERENCE   what the docstrings, comments and tests state, on path     *)
(*              SEGMENTS: a file carries marker m iff one of its segments  *)
(*              below the analysed directory IS m; the root implied is the *)
(*              directory holding the first such segment; of several roots *)
(*              the one closest to the top wins (no other root is an       *)
(*              ancestor of it); classes are tried in reverse registration *)
(*              order; without any marker: HostArchiveContext at the       *)
(*              deepest common directory; an explicit context replaces the *)
(*              class, not the root; nested archives at the top make a     *)
(*              ClusterArchiveContext; the broker receives exactly the     *)
(*              context (plus the hydrated components of a serialized      *)
(*              archive); nothing is ever created outside the extraction   *)
(*              directory, which is gone afterwards.                       *)
(*  MECHANISM   the state machine below.  With Mech = "code" it is a       *)
(*              transcription of what the code does (substring search over *)
(*              the ABSOLUTE path, first occurrence only; set.pop + string *)
(*              length to choose between roots; unquoted command lines in  *)
(*              the clean-up); with Mech = "intended" it is the specified  *)
(*              behaviour.  TLC checks MECHANISM |= REFERENCE on every     *)
(*              input of the bound.  The classes of inputs on which the    *)
(*              transcription is known NOT to satisfy the reference        *)
(*              (Admit) are refuted in separate configurations, so that    *)
(*              the invariants are seen to be able to fail.                *)
(* ArchiveContextTrace.tla judges recorded executions of the REAL code     *)
(* with the REFERENCE operators only.                                      *)
(***************************************************************************)
EXTENDS Naturals, Sequences, FiniteSets, TLC

CONSTANTS
    Dirs,        \* directory names a tree may use
    Leaves,      \* file names a tree may use
    MaxFiles,    \* files per tree
    MaxDepth,    \* segments per path (1..3)
    Packs,       \* "dir" "tar" "tgz" "tbz" "txz" "zip" | "text" (not an archive) "badgz" (gzip of something else)
    Wraps,       \* BOOLEAN: everything below one top-level directory "top"
    Evils,       \* "none" | "dotdot" | "abs" | "link": one extra member aimed outside the extraction directory
    Overrides,   \* "none" | a context class name (explicit context= argument)
    Wheres,      \* "plain" | "under": the analysed directory lives below a directory named sos_commands
    Injects,     \* "none" | "raise": an exception is raised inside the with block after seeding
    Plugs,       \* "none" | "on": two plugin contexts are registered after the built-in ones
    Modes,       \* "api" (extract / create_context / initialize_broker) | "run" (insights._run)
    Spaces,      \* "none" | "exdir": the extraction directory's parent has a blank in its name ("ex d");
                 \* "exdirx": and a directory named like the text before the blank ("ex") exists beside it
    Mech,        \* "code" | "intended"
    Admit        \* subset of {"tie","shadow","under","blank"}: known-defect input classes admitted

-----------------------------------------------------------------------------
(* names *)
IC   == "insights_commands"
IA   == "insights_archive.txt"
SOS  == "sos_commands"
JB   == "JBOSS_HOME"
PM   == "plug_marker"
META == "meta_data"
ARC  == "n.tar.gz"              \* a nested archive (its name ends with a compression type)
LNF  == "lnf"                   \* symbolic link to a regular file outside the input
LND  == "lnd"                   \* symbolic link to a directory outside the input that holds JBOSS_HOME/x
TOP  == "top"
Comps == {"c1", "c2"}           \* hydratable components (documents below meta_data/)
NearMiss(m) == m \o "_not"      \* a name that merely STARTS with the marker text
Markers == {IC, IA, SOS, JB, PM}
LinkLeaves == {LNF, LND}

HostArchive == "HostArchiveContext"
Serialized  == "SerializedArchiveContext"
Cluster     == "ClusterArchiveContext"

(* registration order of the built-in contexts (insights/core/context.py),  *)
(* m = "" for classes without marker                                        *)
Ctx(n, m) == [n |-> n, m |-> m]
BuiltinRegistry ==
    << Ctx("HostContext", ""), Ctx(HostArchive, IC), Ctx(Serialized, IA), Ctx("SosArchiveContext", SOS),
       Ctx(Cluster, ""), Ctx("DockerImageContext", ""), Ctx("JBossContext", ""), Ctx("JDRContext", JB),
       Ctx("OpenStackContext", "") >>
(* the built-in classes that carry a marker, in registration order: what     *)
(* decides between competing markers of existing archives                   *)
PinnedMarked == SelectSeq(BuiltinRegistry, LAMBDA c : c.m # "")
(* plugin contexts the driver registers later: one re-uses a built-in       *)
(* marker (it must override the built-in class), one has its own            *)
PluginRegistry == << Ctx("PlugSosContext", SOS), Ctx("PlugOwnContext", PM) >>
RegistryOf(plug) == IF plug = "on" THEN BuiltinRegistry \o PluginRegistry ELSE BuiltinRegistry

(* length of the text of a name (only differences between names matter)     *)
NameLen(n) ==
    CASE n = "a" -> 1 [] n = "b" -> 1 [] n = "cc" -> 2 [] n = "dddd" -> 4 [] n = "f" -> 1 [] n = "g" -> 1
      [] n = IC -> 17 [] n = IA -> 20 [] n = SOS -> 12 [] n = JB -> 10 [] n = PM -> 11 [] n = META -> 9
      [] n = ARC -> 8 [] n = LNF -> 3 [] n = LND -> 3 [] n = TOP -> 3 [] n = "c1" -> 2 [] n = "c2" -> 2
      [] n = NearMiss(IC) -> 21 [] n = NearMiss(SOS) -> 16 [] n = NearMiss(JB) -> 14 [] n = NearMiss(IA) -> 24
      [] n = "W" -> 1 [] n = "x" -> 1 [] n = "in" -> 2
      [] OTHER -> 5

-----------------------------------------------------------------------------
(* sequences *)
Range(s)          == {s[i] : i \in DOMAIN s}
IsPrefix(a, b)    == Len(a) <= Len(b) /\ SubSeq(b, 1, Len(a)) = a
ProperPrefix(a, b) == Len(a) < Len(b) /\ SubSeq(b, 1, Len(a)) = a
Front(p)          == SubSeq(p, 1, Len(p) - 1)
Min(S)            == CHOOSE x \in S : \A y \in S : x <= y
Max(S)            == CHOOSE x \in S : \A y \in S : x >= y
RECURSIVE StrLen(_)
StrLen(r)         == IF r = <<>> THEN 0 ELSE 1 + NameLen(r[1]) + StrLen(Tail(r))

-----------------------------------------------------------------------------
(* REFERENCE: identification on path segments.                              *)
(* A: set of absolute paths (sequences of names) of the regular files;      *)
(* X: the analysed directory (a prefix of every element of A);              *)
(* reg: the registry (registration order).                                  *)

(* positions below the analysed directory whose segment IS the marker       *)
Idx(P, X, m)      == {i \in (Len(X) + 1)..Len(P) : P[i] = m}
RefRootOf(P, X, m) == SubSeq(P, 1, Min(Idx(P, X, m)) - 1)
RefRoots(A, X, m) == {RefRootOf(P, X, m) : P \in {Q \in A : Idx(Q, X, m) # {}}}
(* "when more marker found, return the one which is closest to root":       *)
(* reading (R2) - no other marker root is an ancestor of the chosen one     *)
Closest(R)        == {r \in R : \A r2 \in R : ~ProperPrefix(r2, r)}
(* "contexts are tried *in reverse order* so that they may be overridden by *)
(* just loading a plugin"                                                   *)
TryOrder(reg)     == [i \in 1..Len(reg) |-> reg[Len(reg) + 1 - i]]
RefHits(A, X, reg) ==
    {i \in 1..Len(reg) : TryOrder(reg)[i].m # "" /\ RefRoots(A, X, TryOrder(reg)[i].m) # {}}
(* the deepest directory common to all files (identify's fall-back:         *)
(* dirname(commonprefix(files)))                                            *)
CommonDir(A) ==
    LET d0 == Front(CHOOSE P \in A : TRUE)
        C  == {k \in 0..Len(d0) : \A P \in A : IsPrefix(SubSeq(d0, 1, k), Front(P))}
    IN SubSeq(d0, 1, Max(C))

Choice(c, r)  == [cls |-> c, root |-> r]
NoChoice      == Choice("none", <<>>)
(* the results identification may have (a set: the reference does not say   *)
(* which of several equally close roots is taken, only that it is always    *)
(* the same one - ContextDeterministic)                                     *)
RefIdent(A, X, reg) ==
    IF RefHits(A, X, reg) # {}
      THEN LET c == TryOrder(reg)[Min(RefHits(A, X, reg))]
           IN {Choice(c.n, r) : r \in Closest(RefRoots(A, X, c.m))}
      ELSE {Choice(HostArchive, CommonDir(A))}

IsArcName(n)      == n = ARC
(* L: the listing relative to the analysed directory *)
IsClusterDir(L)   == \E p \in L : Len(p) = 1 /\ IsArcName(p[1])
AbsOf(X, L)       == {X \o p : p \in L}
(* contexts create_context may return *)
RefCreate(L, X, reg, override) ==
    IF IsClusterDir(L) THEN {Choice(Cluster, X)}
    ELSE {Choice(IF override = "none" THEN o.cls ELSE override, o.root) : o \in RefIdent(AbsOf(X, L), X, reg)}
(* components a serialized archive hydrates: documents in <root>/meta_data  *)
Hydrated(A, root) == {c \in Comps : (root \o <<META, c>>) \in A}
RefBroker(A, ctx) ==
    IF ctx.cls = Cluster THEN {}
    ELSE {ctx.cls} \cup (IF ctx.cls = Serialized THEN Hydrated(A, ctx.root) ELSE {})

-----------------------------------------------------------------------------
(* MECHANISM "code": ExecutionContext.handles on the text of the absolute   *)
(* path.  m' = "/" + marker; i = f.find(m') is the FIRST segment that       *)
(* starts with the marker text, anywhere in the absolute path; the file     *)
(* counts if f.endswith(m') or the character after the occurrence is "/".   *)
StartsWith(seg, m) == seg = m \/ seg = NearMiss(m)
MIdx(P, m)        == {i \in 2..Len(P) : StartsWith(P[i], m)}
MechRootOf(P, m)  ==
    IF MIdx(P, m) = {} THEN {}
    ELSE LET i == Min(MIdx(P, m))
         IN IF P[Len(P)] = m \/ (P[i] = m /\ i < Len(P)) THEN {SubSeq(P, 1, i - 1)} ELSE {}
MechRoots(A, m)   == UNION {MechRootOf(P, m) : P \in A}
(* marker_root.pop(), then "if len(left_one) < len(closest_root)": any of   *)
(* the textually shortest roots, depending on the iteration order of a set  *)
(* of strings (hash seed, insertion order)                                  *)
MechPick(R)       == {r \in R : \A r2 \in R : StrLen(r) <= StrLen(r2)}
MechHits(A, reg)  == {i \in 1..Len(reg) : TryOrder(reg)[i].m # "" /\ MechRoots(A, TryOrder(reg)[i].m) # {}}

(* MECHANISM "intended": segments below the analysed directory; one fixed   *)
(* choice among the closest roots                                           *)
Fixed(S)          == {CHOOSE r \in S : TRUE}

RootsM(A, X, m)   == IF Mech = "code" THEN MechRoots(A, m) ELSE RefRoots(A, X, m)
PickM(R)          == IF Mech = "code" THEN MechPick(R) ELSE Fixed(Closest(R))

-----------------------------------------------------------------------------
(* inputs *)
PathsOfLen(n) ==
    CASE n = 1 -> {<<l>> : l \in Leaves}
      [] n = 2 -> {<<d, l>> : d \in Dirs, l \in Leaves}
      [] n = 3 -> {<<d1, d2, l>> : d1 \in Dirs, d2 \in Dirs, l \in Leaves}
(* component documents live directly below meta_data, nothing else does;   *)
(* meta_data is the last directory of a path; nested archives and links at  *)
(* most one level down (deeper ones add nothing)                            *)
Sensible(p) ==
    LET n == Len(p) IN
    /\ (p[n] \in Comps) <=> (n >= 2 /\ p[n - 1] = META)
    /\ \A i \in 1..(n - 2) : p[i] # META
    /\ (p[n] = ARC \/ p[n] \in LinkLeaves) => n <= 2
    /\ \A i \in 1..(n - 1) : p[i] \in {JB, PM} => i = n - 1
Universe == {p \in UNION {PathsOfLen(n) : n \in 1..MaxDepth} : Sensible(p)}
(* no path is a directory of another one *)
WF(t) == \A p \in t, q \in t : p # q => ~IsPrefix(p, q)
RECURSIVE TreesUpTo(_)
TreesUpTo(n) ==
    IF n = 0 THEN {{}}
    ELSE LET S == TreesUpTo(n - 1)
         IN S \cup {t \cup {p} : t \in {s \in S : Cardinality(s) = n - 1}, p \in Universe}
Trees == {t \in TreesUpTo(MaxFiles) : WF(t)}

IsArchive(pk)  == pk \in {"tar", "tgz", "tbz", "txz", "zip"}
Wrapped(i, p)  == IF i.wrap THEN <<TOP>> \o p ELSE p
(* where the analysed directory is: W = the scratch world, x = the input's  *)
(* or the extraction directory's parent, in = the directory itself          *)
AnalysedDir(i) == <<"W">> \o (IF i.where = "under" THEN <<SOS>> ELSE <<>>) \o <<"x", "in">>
HasLink(p)     == \E k \in DOMAIN p : p[k] \in LinkLeaves
(* what get_all_files yields for the tree (relative to the analysed         *)
(* directory): regular files, symbolic links neither listed nor followed    *)
TreeListing(i) == {Wrapped(i, p) : p \in {q \in i.files : ~HasLink(q)}}
Members(i)     == {Wrapped(i, p) : p \in i.files}

Valid(i) ==
    /\ (\E p \in i.files : HasLink(p)) => i.pack = "dir"
    /\ i.evil # "none" => (IsArchive(i.pack) /\ i.mode = "api")
    /\ i.pack \in {"text", "badgz"} => (i.files = {} /\ ~i.wrap /\ i.override = "none")
    /\ i.inject = "raise" => (i.mode = "api" /\ i.pack \notin {"text", "badgz"})
    /\ i.space # "none" => (IsArchive(i.pack) /\ i.mode = "api" /\ i.evil = "none")
    /\ i.mode = "run" => ~IsClusterDir(TreeListing(i))       \* cluster processing needs pandas / ansible
    /\ i.files = {} => ~i.wrap

(* classes of inputs on which the transcription of the code is known not to *)
(* satisfy the reference                                                    *)
Tie(i) ==      \* the class that wins has two closest roots of equal textual length
    LET X == AnalysedDir(i)  A == AbsOf(X, TreeListing(i))  reg == RegistryOf(i.plug) IN
    /\ A # {} /\ ~IsClusterDir(TreeListing(i)) /\ RefHits(A, X, reg) # {}
    /\ LET R == RefRoots(A, X, TryOrder(reg)[Min(RefHits(A, X, reg))].m)
       IN Cardinality(MechPick(R)) > 1
Shadow(i) ==   \* a segment that merely starts with a marker text precedes a real marker segment
    \E p \in TreeListing(i), m \in Markers :
        \E k \in DOMAIN p : p[k] = NearMiss(m) /\ (\A j \in 1..(k - 1) : p[j] # m) /\ (\E j \in (k + 1)..Len(p) : p[j] = m)
Classes(i) ==
    (IF Tie(i) THEN {"tie"} ELSE {}) \cup (IF Shadow(i) THEN {"shadow"} ELSE {}) \cup
    (IF i.where = "under" THEN {"under"} ELSE {}) \cup (IF i.space # "none" THEN {"blank"} ELSE {})

Inputs ==
    {i \in [files : Trees, pack : Packs, wrap : Wraps, evil : Evils, override : Overrides, where : Wheres,
            inject : Injects, plug : Plugs, mode : Modes, space : Spaces] :
        Valid(i) /\ (Mech = "code" => Classes(i) \subseteq Admit)}

-----------------------------------------------------------------------------
(* The state machine (one analysis of one input).                           *)
VARIABLES
    inp,       \* the input (never changes)
    phase,     \* "start" "extracted" "listed" "identified" "created" "seeded" "failed" "done"
    tmp,       \* the extraction directory: "none" | "present" | "removed"
    placed,    \* files in the analysed directory (relative paths), links included
    outside,   \* locations created outside the extraction directory
    lst,       \* the listing (relative paths)
    tried,     \* names of the classes whose handles() ran and found nothing
    found,     \* result of identify
    ctx,       \* the context created
    broker,    \* keys of the broker
    err        \* "none" | kind of the exception that leaves the analysis
vars == <<inp, phase, tmp, placed, outside, lst, tried, found, ctx, broker, err>>

X0   == AnalysedDir(inp)
Reg  == RegistryOf(inp.plug)
A0   == AbsOf(X0, lst)

(* a member aimed outside: the tool either drops the offending part of the  *)
(* name (the file lands inside) or refuses; it never honours it             *)
Sanitised(e) ==
    CASE e = "dotdot" -> <<"sib", "x">>
      [] e = "abs"    -> <<"abs_target", "x">>
      [] e = "link"   -> <<"ln", "x">>

Init ==
    /\ inp \in Inputs
    /\ phase = "start" /\ tmp = "none" /\ placed = {} /\ outside = {} /\ lst = {} /\ tried = <<>>
    /\ found = NoChoice /\ ctx = NoChoice /\ broker = {} /\ err = "none"

(* _run: a directory is analysed in place *)
UseDirectory ==
    /\ phase = "start" /\ inp.pack = "dir"
    /\ placed' = Members(inp) /\ phase' = "extracted"
    /\ UNCHANGED <<inp, tmp, outside, lst, tried, found, ctx, broker, err>>

(* extract(): mkdtemp below extract_dir, tar / unzip into it *)
ExtractOK ==
    /\ phase = "start" /\ IsArchive(inp.pack) /\ inp.space = "none"
    /\ \E extra \in (IF inp.evil = "none" THEN {{}} ELSE {{}, {Sanitised(inp.evil)}}) :
           placed' = Members(inp) \cup extra
    /\ tmp' = "present" /\ phase' = "extracted"
    /\ UNCHANGED <<inp, outside, lst, tried, found, ctx, broker, err>>
(* the tool fails (unsafe member refused, not the announced format, command *)
(* line broken by a blank): the exception leaves extract() through finally  *)
ExtractFails ==
    /\ phase = "start"
    /\ \/ IsArchive(inp.pack) /\ (inp.evil # "none" \/ inp.space # "none")
       \/ inp.pack = "badgz"
    /\ tmp' = "present" /\ err' = "CalledProcessError" /\ phase' = "failed"
    /\ UNCHANGED <<inp, placed, outside, lst, tried, found, ctx, broker>>
(* not an archive type: refused before any directory is made *)
ExtractRejectsType ==
    /\ phase = "start" /\ inp.pack = "text"
    /\ err' = "InvalidContentType" /\ phase' = "failed"
    /\ UNCHANGED <<inp, tmp, placed, outside, lst, tried, found, ctx, broker>>

(* get_all_files: regular files only, links neither listed nor followed *)
ListFiles ==
    /\ phase = "extracted"
    /\ lst' = {p \in placed : ~HasLink(p)}
    /\ phase' = "listed"
    /\ UNCHANGED <<inp, tmp, placed, outside, tried, found, ctx, broker, err>>

(* create_context: nested archives at the top level make a cluster *)
ClusterDetected ==
    /\ phase = "listed" /\ IsClusterDir(lst)
    /\ ctx' = Choice(Cluster, X0) /\ phase' = "created"
    /\ UNCHANGED <<inp, tmp, placed, outside, lst, tried, found, broker, err>>
NoFiles ==
    /\ phase = "listed" /\ ~IsClusterDir(lst) /\ lst = {}
    /\ err' = "InvalidArchive" /\ phase' = "failed"
    /\ UNCHANGED <<inp, tmp, placed, outside, lst, tried, found, ctx, broker>>
(* ExecutionContextMeta.identify: one class per step, reverse registration  *)
(* order, the first class that handles the files wins                       *)
IdentifyStep ==
    /\ phase = "listed" /\ ~IsClusterDir(lst) /\ lst # {} /\ Len(tried) < Len(Reg)
    /\ LET c == TryOrder(Reg)[Len(tried) + 1]
           R == IF c.m = "" THEN {} ELSE RootsM(A0, X0, c.m)
       IN IF R = {}
            THEN tried' = Append(tried, c.n) /\ UNCHANGED <<found, phase>>
            ELSE \E r \in PickM(R) : found' = Choice(c.n, r) /\ phase' = "identified" /\ UNCHANGED tried
    /\ UNCHANGED <<inp, tmp, placed, outside, lst, ctx, broker, err>>
(* hydration.identify: no class handles the files *)
LocateDefault ==
    /\ phase = "listed" /\ ~IsClusterDir(lst) /\ lst # {} /\ Len(tried) = Len(Reg)
    /\ found' = Choice(HostArchive, CommonDir(A0)) /\ phase' = "identified"
    /\ UNCHANGED <<inp, tmp, placed, outside, lst, tried, ctx, broker, err>>
(* context = context or ctx; context(common_path, all_files=...) *)
CreateContext ==
    /\ phase = "identified"
    /\ ctx' = Choice(IF inp.override = "none" THEN found.cls ELSE inp.override, found.root)
    /\ phase' = "created"
    /\ UNCHANGED <<inp, tmp, placed, outside, lst, tried, found, broker, err>>
(* initialize_broker *)
InitializeBroker ==
    /\ phase = "created"
    /\ broker' = IF ctx.cls = Cluster THEN {}
                 ELSE {ctx.cls} \cup (IF ctx.cls = Serialized THEN Hydrated(A0, ctx.root) ELSE {})
    /\ phase' = "seeded"
    /\ UNCHANGED <<inp, tmp, placed, outside, lst, tried, found, ctx, err>>
(* the caller's code inside the with block raises *)
RaiseInBlock ==
    /\ phase = "seeded" /\ inp.inject = "raise"
    /\ err' = "Injected" /\ phase' = "failed"
    /\ UNCHANGED <<inp, tmp, placed, outside, lst, tried, found, ctx, broker>>
(* finally: fs.remove(tmp_dir, chmod=True) - "chmod -R 755 %s" is split at  *)
(* a blank: it is applied to whatever the text before the blank names,      *)
(* fails on the rest, and "rm -rf" is never reached                         *)
Cleanup ==
    /\ \/ phase = "seeded" /\ inp.inject = "none"
       \/ phase = "failed"
    /\ tmp' = IF tmp = "present" /\ ~(Mech = "code" /\ inp.space # "none") THEN "removed" ELSE tmp
    /\ outside' = IF tmp = "present" /\ Mech = "code" /\ inp.space = "exdirx" THEN outside \cup {<<"W", "ex">>} ELSE outside
    /\ phase' = "done"
    /\ UNCHANGED <<inp, placed, lst, tried, found, ctx, broker, err>>

Next == UseDirectory \/ ExtractOK \/ ExtractFails \/ ExtractRejectsType \/ ListFiles \/ ClusterDetected
        \/ NoFiles \/ IdentifyStep \/ LocateDefault \/ CreateContext \/ InitializeBroker \/ RaiseInBlock \/ Cleanup
Spec == Init /\ [][Next]_vars

-----------------------------------------------------------------------------
(* What TLC checks: MECHANISM |= REFERENCE.                                 *)
Phases == {"start", "extracted", "listed", "identified", "created", "seeded", "failed", "done"}
TypeOK ==
    /\ phase \in Phases /\ tmp \in {"none", "present", "removed"}
    /\ err \in {"none", "CalledProcessError", "InvalidContentType", "InvalidArchive", "Injected"}
    /\ (phase = "failed") => err # "none"
    /\ tmp = "present" => IsArchive(inp.pack) \/ inp.pack = "badgz"

Identified == found # NoChoice
Created    == ctx # NoChoice

(* which context wins when several markers are present, and its root        *)
MarkerPriority ==
    Identified => found \in RefIdent(A0, X0, Reg)
(* the classes passed over are exactly the ones before the winner           *)
TriedInOrder ==
    /\ \A k \in DOMAIN tried : tried[k] = TryOrder(Reg)[k].n
    /\ Identified => (IF RefHits(A0, X0, Reg) = {} THEN Len(tried) = Len(Reg)
                      ELSE Len(tried) = Min(RefHits(A0, X0, Reg)) - 1)
(* without any marker: HostArchiveContext at the deepest common directory   *)
DefaultWhenNoMarker ==
    (Identified /\ RefHits(A0, X0, Reg) = {}) => found = Choice(HostArchive, CommonDir(A0))
(* the root never lies above the analysed directory                         *)
RootInsideInput ==
    /\ Identified => IsPrefix(X0, found.root)
    /\ Created => IsPrefix(X0, ctx.root)
(* an explicit context replaces the class and nothing else                  *)
OverrideWins ==
    (Created /\ ctx.cls # Cluster /\ inp.override # "none") => (ctx.cls = inp.override /\ ctx.root = found.root)
CreateAllowed ==
    Created => ctx \in RefCreate(lst, X0, Reg, inp.override)
(* the listing is the set of regular files of the input                     *)
ListedExactly ==
    (phase \in {"listed", "identified", "created", "seeded"} /\ inp.evil = "none") => lst = TreeListing(inp)
(* the broker holds exactly the context - and the hydrated components       *)
BrokerSeededExactly ==
    /\ phase = "seeded" => broker = RefBroker(A0, ctx)
    /\ phase \notin {"seeded", "failed", "done"} => broker = {}
(* nothing is created outside the extraction directory                      *)
ExtractionStaysInTempDir == outside = {}
(* after the with block, however it is left, the directory is gone; a       *)
(* directory given for analysis is not an extraction directory              *)
TempDirRemoved ==
    /\ phase = "done" => tmp # "present"
    /\ inp.pack = "dir" => tmp = "none"
(* the same input always gives the same context: the set of results the     *)
(* mechanism can produce over all listing orders / hash seeds               *)
Outcomes(i) ==
    LET X == AnalysedDir(i)  L == TreeListing(i)  A == AbsOf(X, L)  reg == RegistryOf(i.plug)
        H == {k \in 1..Len(reg) : TryOrder(reg)[k].m # "" /\ RootsM(A, X, TryOrder(reg)[k].m) # {}}
    IN IF L = {} \/ IsClusterDir(L) THEN {}
       ELSE IF H = {} THEN {Choice(HostArchive, CommonDir(A))}
       ELSE {Choice(TryOrder(reg)[Min(H)].n, r) : r \in PickM(RootsM(A, X, TryOrder(reg)[Min(H)].m))}
ContextDeterministic ==
    phase = "start" => Cardinality(Outcomes(inp)) <= 1
(* every analysis ends, with a context or with one of the documented errors *)
Ends ==
    phase = "done" =>
        \/ err = "none" /\ Created
        \/ err = "InvalidArchive" /\ lst = {}
        \/ err = "Injected" /\ inp.inject = "raise"
        \/ err = "CalledProcessError" /\ (inp.evil # "none" \/ inp.pack = "badgz" \/ inp.space # "none")
        \/ err = "InvalidContentType" /\ inp.pack = "text"

=============================================================================
