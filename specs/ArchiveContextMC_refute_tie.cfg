\* the transcription of the code on the 'tie' inputs: TLC is EXPECTED to refute F_Deterministic
SPECIFICATION Spec
CONSTANTS
  Dirs = {"a", "b"}
  Leaves = {"f", "insights_archive.txt"}
  MaxFiles = 2
  MaxDepth = 2
  Packs = {"dir"}
  Wraps = {FALSE}
  Evils = {"none"}
  Overrides = {"none"}
  Wheres = {"plain"}
  Injects = {"none"}
  Plugs = {"none"}
  Modes = {"api"}
  Spaces = {"none"}
  Mech = "code"
  Admit = {"tie"}
INVARIANT F_Deterministic
CHECK_DEADLOCK FALSE
