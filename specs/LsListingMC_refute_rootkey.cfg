\* the transcription of the code on the 'rootkey' inputs: TLC is EXPECTED to refute F_CodeMeetsReference
SPECIFICATION Spec
CONSTANTS
  Fam = "root"
  N = 1
  Admit = {"rootkey"}
INVARIANT F_CodeMeetsReference
CHECK_DEADLOCK FALSE
