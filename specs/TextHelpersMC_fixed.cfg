SPECIFICATION Spec
CONSTANTS
  Fam = "fixed"
  N = 2
  Deep = FALSE
INVARIANT Admitted
INVARIANT NormalIdempotent
INVARIANT CommentsInert
INVARIANT LaterWins
INVARIANT SearchExact
CONSTRAINT Emit
CHECK_DEADLOCK FALSE
