-------------------------------- MODULE Peg --------------------------------
(***************************************************************************)
(* C19 - reference (denotational) semantics of the parser combinators of    *)
(* insights.parsr as a parsing expression grammar.                          *)
(*                                                                         *)
(* A term is a tree of nodes; every node is a record of ONE shape           *)
(*     [k, s, e, n, d, ts]                                                  *)
(*   k  kind            "char" "inset" "any" "str" "lit" "eof" "seq"        *)
(*                      "choice" "many" "until" "opt" "kl" "kr" "fb" "nfb"  *)
(*                      "map" "lift"                                        *)
(*   s  characters      char: <<c>>; inset / str: the set, listed; lit: the *)
(*                      literal text                                        *)
(*   e  escapable characters of str (after a backslash)                     *)
(*   n  number          str: minimal length; many: lower bound; lit: 1 =    *)
(*                      ignore case; map / lift: the function (see Fn)      *)
(*   d  value           opt: the default; lit: replacement value (<<>> =    *)
(*                      none given)                                         *)
(*   ts children        sequence of nodes                                   *)
(*                                                                         *)
(* An input w is a sequence of one-character strings; positions are         *)
(* 1..Len(w)+1.  A value (what a parser returns) is a flat sequence of      *)
(* tokens, so that any two values are comparable:                           *)
(*    "$text" a string, "N" None, "T"/"F" booleans, "[" .. "]" a list.      *)
(* Parse(t, w, i) is Fail or Ok(j, v): standard PEG - sequences left to     *)
(* right, ordered choice committing to the first success, greedy repetition *)
(* with a lower bound, option, look-ahead that consumes nothing.            *)
(***************************************************************************)
EXTENDS Integers, Sequences

Nd(k, s, e, n, d, ts) == [k |-> k, s |-> s, e |-> e, n |-> n, d |-> d, ts |-> ts]
CharT(c)        == Nd("char", <<c>>, <<>>, 0, <<>>, <<>>)
InSetT(s)       == Nd("inset", s, <<>>, 0, <<>>, <<>>)
AnyT            == Nd("any", <<>>, <<>>, 0, <<>>, <<>>)
StrT(s, e, mn)  == Nd("str", s, e, mn, <<>>, <<>>)
LitT(s, ci, d)  == Nd("lit", s, <<>>, ci, d, <<>>)
EofT            == Nd("eof", <<>>, <<>>, 0, <<>>, <<>>)
SeqT(ts)        == Nd("seq", <<>>, <<>>, 0, <<>>, ts)
ChoiceT(ts)     == Nd("choice", <<>>, <<>>, 0, <<>>, ts)
ManyT(t, lo)    == Nd("many", <<>>, <<>>, lo, <<>>, <<t>>)
UntilT(t, p)    == Nd("until", <<>>, <<>>, 0, <<>>, <<t, p>>)
OptT(t, d)      == Nd("opt", <<>>, <<>>, 0, d, <<t>>)
KLT(a, b)       == Nd("kl", <<>>, <<>>, 0, <<>>, <<a, b>>)
KRT(a, b)       == Nd("kr", <<>>, <<>>, 0, <<>>, <<a, b>>)
FBT(a, p)       == Nd("fb", <<>>, <<>>, 0, <<>>, <<a, p>>)
NFBT(a, p)      == Nd("nfb", <<>>, <<>>, 0, <<>>, <<a, p>>)
MapT(f, t)      == Nd("map", <<>>, <<>>, f, <<>>, <<t>>)
LiftT(f, ts)    == Nd("lift", <<>>, <<>>, f, <<>>, ts)

Kinds == {"char", "inset", "any", "str", "lit", "eof", "seq", "choice", "many", "until", "opt",
          "kl", "kr", "fb", "nfb", "map", "lift"}
Arity(k) == CASE k \in {"char", "inset", "any", "str", "lit", "eof"} -> {0}
              [] k \in {"many", "opt", "map"} -> {1}
              [] k \in {"until", "kl", "kr", "fb", "nfb"} -> {2}
              [] OTHER -> 0..8

(* ---- values ---- *)
None   == <<"N">>
SV(x)  == <<"$" \o x>>                         \* the string x
LV(v)  == <<"[">> \o v \o <<"]">>              \* the list whose elements are flattened in v

Fail      == [ok |-> FALSE, pos |-> 0, v |-> <<>>]
Ok(j, v)  == [ok |-> TRUE, pos |-> j, v |-> v]

(* Functions used with Map (one argument) and Lift (the children's values). *)
(*  1 wrap   x |-> [x]            / args |-> list of the args               *)
(*  2 const  x |-> "k"            / args |-> "k"                            *)
(*  3 no_b   backtracks when the string "b" occurs anywhere in the          *)
(*           argument(s), else identity / list of the args                  *)
(*  4 rev    (Lift only) list of the args in reverse order                  *)
(* Result: the value, or <<>> for "backtrack" (no value is the empty        *)
(* token sequence).                                                         *)
FnIds == 1..4
HasB(v) == \E i \in DOMAIN v : v[i] = "$b"
MapFn(f, v) == CASE f = 1 -> LV(v)
                 [] f = 2 -> SV("k")
                 [] f = 3 -> IF HasB(v) THEN <<>> ELSE v
                 [] OTHER -> <<>>
RECURSIVE CatRev(_, _)
CatRev(vs, i) == IF i = 0 THEN <<>> ELSE vs[i] \o CatRev(vs, i - 1)
RECURSIVE Cat(_, _)
Cat(vs, i) == IF i > Len(vs) THEN <<>> ELSE vs[i] \o Cat(vs, i + 1)
LiftFn(f, vs) == CASE f = 1 -> LV(Cat(vs, 1))
                   [] f = 2 -> SV("k")
                   [] f = 3 -> IF HasB(Cat(vs, 1)) THEN <<>> ELSE LV(Cat(vs, 1))
                   [] f = 4 -> LV(CatRev(vs, Len(vs)))
                   [] OTHER -> <<>>

(* ---- characters ---- *)
In(c, s) == \E i \in DOMAIN s : s[i] = c
UpperS == <<"A","B","C","D","E","F","G","H","I","J","K","L","M","N","O","P","Q","R","S","T","U","V","W","X","Y","Z">>
LowerS == <<"a","b","c","d","e","f","g","h","i","j","k","l","m","n","o","p","q","r","s","t","u","v","w","x","y","z">>
Lower(c) == IF In(c, UpperS) THEN LowerS[CHOOSE i \in DOMAIN UpperS : UpperS[i] = c] ELSE c
Backslash == "\\"

(* ---- well-formedness: repetition only over consuming sub-terms ---- *)
(* Consumes(t): a success of t always advances the position (syntactic,     *)
(* conservative).                                                           *)
RECURSIVE Consumes(_)
Consumes(t) ==
    CASE t.k \in {"char", "inset", "any"} -> TRUE
      [] t.k = "str"    -> t.n >= 1
      [] t.k = "lit"    -> Len(t.s) >= 1
      [] t.k \in {"eof", "until", "opt"} -> FALSE
      [] t.k \in {"seq", "lift", "kl", "kr"} -> \E i \in DOMAIN t.ts : Consumes(t.ts[i])
      [] t.k = "choice" -> \A i \in DOMAIN t.ts : Consumes(t.ts[i])
      [] t.k = "many"   -> t.n >= 1 /\ Consumes(t.ts[1])
      [] t.k \in {"fb", "nfb", "map"} -> Consumes(t.ts[1])
      [] OTHER -> FALSE

RECURSIVE WF(_)
WF(t) ==
    /\ t.k \in Kinds
    /\ Len(t.ts) \in Arity(t.k)
    /\ t.k = "char" => Len(t.s) = 1
    /\ \A i \in DOMAIN t.s : Len(t.s[i]) = 1          \* characters, not strings
    /\ \A i \in DOMAIN t.e : Len(t.e[i]) = 1
    /\ t.k \in {"many", "until"} => Consumes(t.ts[1])
    /\ t.k = "map"  => t.n \in 1..3
    /\ t.k = "lift" => t.n \in FnIds
    /\ t.k \in {"str", "many"} => t.n >= 0
    /\ t.k = "opt" => t.d # <<>>
    /\ \A i \in DOMAIN t.ts : WF(t.ts[i])

RECURSIVE Size(_)
RECURSIVE SizeSum(_, _)
SizeSum(ts, i) == IF i > Len(ts) THEN 0 ELSE Size(ts[i]) + SizeSum(ts, i + 1)
Size(t) == 1 + SizeSum(t.ts, 1)

(* ---- the semantics ---- *)
(* String(chars, echars, min): greedy run of characters of the set; a       *)
(* backslash followed by an escapable character yields that character.      *)
RECURSIVE StrRun(_, _, _, _, _)
StrRun(t, w, i, acc, n) ==
    IF i + 1 <= Len(w) /\ w[i] = Backslash /\ In(w[i + 1], t.e) THEN StrRun(t, w, i + 2, acc \o w[i + 1], n + 1)
    ELSE IF i <= Len(w) /\ In(w[i], t.s) THEN StrRun(t, w, i + 1, acc \o w[i], n + 1)
    ELSE [pos |-> i, acc |-> acc, n |-> n]

(* Literal: position after the literal and the matched text, or pos 0 *)
RECURSIVE LitRun(_, _, _, _, _)
LitRun(t, w, i, x, acc) ==
    IF x > Len(t.s) THEN [pos |-> i, acc |-> acc]
    ELSE IF i > Len(w) THEN [pos |-> 0, acc |-> acc]
    ELSE IF t.n = 1 /\ Lower(w[i]) = Lower(t.s[x]) THEN LitRun(t, w, i + 1, x + 1, acc \o w[i])
    ELSE IF t.n # 1 /\ w[i] = t.s[x] THEN LitRun(t, w, i + 1, x + 1, acc \o w[i])
    ELSE [pos |-> 0, acc |-> acc]

RECURSIVE Parse(_, _, _), SeqRun(_, _, _, _, _), FirstOk(_, _, _, _), Greedy(_, _, _, _, _), UntilRun(_, _, _, _)

(* children x.. of ts left to right from i; vs = values so far (sequence of values) *)
SeqRun(ts, x, w, i, vs) ==
    IF x > Len(ts) THEN [ok |-> TRUE, pos |-> i, vs |-> vs]
    ELSE LET r == Parse(ts[x], w, i) IN
         IF r.ok THEN SeqRun(ts, x + 1, w, r.pos, Append(vs, r.v)) ELSE [ok |-> FALSE, pos |-> 0, vs |-> <<>>]

(* ordered choice: the first alternative that succeeds, nothing else *)
FirstOk(ts, x, w, i) ==
    IF x > Len(ts) THEN Fail
    ELSE LET r == Parse(ts[x], w, i) IN IF r.ok THEN r ELSE FirstOk(ts, x + 1, w, i)

(* as many t as possible *)
Greedy(t, w, i, v, n) ==
    LET r == Parse(t, w, i) IN
    IF r.ok /\ r.pos > i THEN Greedy(t, w, r.pos, v \o r.v, n + 1) ELSE [pos |-> i, v |-> v, n |-> n]

(* t until p succeeds (p is not consumed) or t fails *)
UntilRun(ts, w, i, v) ==
    IF Parse(ts[2], w, i).ok THEN [pos |-> i, v |-> v]
    ELSE LET r == Parse(ts[1], w, i) IN
         IF r.ok /\ r.pos > i THEN UntilRun(ts, w, r.pos, v \o r.v) ELSE [pos |-> i, v |-> v]

Parse(t, w, i) ==
    CASE t.k = "char"   -> IF i <= Len(w) /\ w[i] = t.s[1] THEN Ok(i + 1, SV(w[i])) ELSE Fail
      [] t.k = "inset"  -> IF i <= Len(w) /\ In(w[i], t.s) THEN Ok(i + 1, SV(w[i])) ELSE Fail
      [] t.k = "any"    -> IF i <= Len(w) THEN Ok(i + 1, SV(w[i])) ELSE Fail
      [] t.k = "eof"    -> IF i = Len(w) + 1 THEN Ok(i, None) ELSE Fail
      [] t.k = "str"    -> LET r == StrRun(t, w, i, "", 0) IN IF r.n >= t.n THEN Ok(r.pos, SV(r.acc)) ELSE Fail
      [] t.k = "lit"    -> LET r == LitRun(t, w, i, 1, "") IN
                           IF r.pos = 0 THEN Fail ELSE Ok(r.pos, IF t.d # <<>> THEN t.d ELSE SV(r.acc))
      [] t.k = "seq"    -> LET r == SeqRun(t.ts, 1, w, i, <<>>) IN IF r.ok THEN Ok(r.pos, LV(Cat(r.vs, 1))) ELSE Fail
      [] t.k = "choice" -> FirstOk(t.ts, 1, w, i)
      [] t.k = "many"   -> LET r == Greedy(t.ts[1], w, i, <<>>, 0) IN IF r.n >= t.n THEN Ok(r.pos, LV(r.v)) ELSE Fail
      [] t.k = "until"  -> LET r == UntilRun(t.ts, w, i, <<>>) IN Ok(r.pos, LV(r.v))
      [] t.k = "opt"    -> LET r == Parse(t.ts[1], w, i) IN IF r.ok THEN r ELSE Ok(i, t.d)
      [] t.k = "kl"     -> LET r == SeqRun(t.ts, 1, w, i, <<>>) IN IF r.ok THEN Ok(r.pos, r.vs[1]) ELSE Fail
      [] t.k = "kr"     -> LET r == SeqRun(t.ts, 1, w, i, <<>>) IN IF r.ok THEN Ok(r.pos, r.vs[2]) ELSE Fail
      [] t.k = "fb"     -> LET r == Parse(t.ts[1], w, i) IN
                           IF r.ok /\ Parse(t.ts[2], w, r.pos).ok THEN r ELSE Fail
      [] t.k = "nfb"    -> LET r == Parse(t.ts[1], w, i) IN
                           IF r.ok /\ ~Parse(t.ts[2], w, r.pos).ok THEN r ELSE Fail
      [] t.k = "map"    -> LET r == Parse(t.ts[1], w, i) IN
                           IF r.ok /\ MapFn(t.n, r.v) # <<>> THEN Ok(r.pos, MapFn(t.n, r.v)) ELSE Fail
      [] t.k = "lift"   -> LET r == SeqRun(t.ts, 1, w, i, <<>>) IN
                           IF r.ok /\ LiftFn(t.n, r.vs) # <<>> THEN Ok(r.pos, LiftFn(t.n, r.vs)) ELSE Fail
      [] OTHER          -> Fail

(* ---- laws of the semantics (instantiated by PegMC on every enumerated    *)
(* term whose top node is of the kind concerned) --------------------------- *)
P(t, w) == Parse(t, w, 1)

SequenceLeftToRight(t, w) ==
    t.k = "seq" /\ Len(t.ts) = 2 =>
        LET a == P(t.ts[1], w) IN
        IF ~a.ok THEN ~P(t, w).ok
        ELSE LET b == Parse(t.ts[2], w, a.pos) IN
             IF b.ok THEN P(t, w) = Ok(b.pos, LV(a.v \o b.v)) ELSE ~P(t, w).ok
ChoiceCommits(t, w) ==
    t.k = "choice" /\ Len(t.ts) >= 1 => (P(t.ts[1], w).ok => P(t, w) = P(t.ts[1], w))
FailedAlternativeInvisible(t, w) ==
    t.k = "choice" /\ Len(t.ts) >= 1 =>
        (~P(t.ts[1], w).ok => P(t, w) = P(ChoiceT(Tail(t.ts)), w))
LookaheadConsumesNothing(t, w) ==
    t.k \in {"fb", "nfb"} => (P(t, w).ok => P(t, w) = P(t.ts[1], w))
LookaheadDecides(t, w) ==
    t.k \in {"fb", "nfb"} =>
        LET a == P(t.ts[1], w) IN
        P(t, w).ok = (a.ok /\ (Parse(t.ts[2], w, a.pos).ok = (t.k = "fb")))
ManyGreedy(t, w) ==
    t.k = "many" =>
        LET r == P(t, w)
            g == Greedy(t.ts[1], w, 1, <<>>, 0)
        IN /\ r.ok = (g.n >= t.n)                                \* lower bound respected
           /\ r.ok => r.pos = g.pos /\ ~Parse(t.ts[1], w, r.pos).ok     \* stops only where one more does not fit
OptNeverFails(t, w) ==
    t.k = "opt" => /\ P(t, w).ok
                   /\ P(t.ts[1], w).ok  => P(t, w) = P(t.ts[1], w)
                   /\ ~P(t.ts[1], w).ok => P(t, w) = Ok(1, t.d)            \* consumes nothing on failure
KeepSides(t, w) ==
    t.k \in {"kl", "kr"} =>
        LET s == P(SeqT(t.ts), w) IN
        /\ P(t, w).ok = s.ok
        /\ s.ok => P(t, w).pos = s.pos
UntilStops(t, w) ==
    t.k = "until" => LET r == P(t, w) IN
        /\ r.ok
        /\ Parse(t.ts[2], w, r.pos).ok \/ ~Parse(t.ts[1], w, r.pos).ok
Laws(t, w) ==
    /\ SequenceLeftToRight(t, w) /\ ChoiceCommits(t, w) /\ FailedAlternativeInvisible(t, w)
    /\ LookaheadConsumesNothing(t, w) /\ LookaheadDecides(t, w) /\ ManyGreedy(t, w)
    /\ OptNeverFails(t, w) /\ KeepSides(t, w) /\ UntilStops(t, w)
    /\ P(t, w).ok => P(t, w).pos \in 1..(Len(w) + 1)
    /\ (Consumes(t) /\ P(t, w).ok) => P(t, w).pos > 1                      \* Consumes is sound

=============================================================================
