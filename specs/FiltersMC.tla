------------------------------ MODULE FiltersMC ------------------------------
(* Model-checking wrapper: keeps the operation history (so that TLC          *)
(* enumerates paths, not states) and emits one CASE record per complete      *)
(* history / per content for the replay driver; randomised steps for         *)
(* -simulate.                                                                *)
EXTENDS Filters, Json

VARIABLE hist
mvars == <<vars, hist>>

OpAdd(k, pats, mx) == [op |-> "add", k |-> k, pats |-> pats, mx |-> mx]
OpGet(c)           == [op |-> "get", k |-> c, pats |-> {}, mx |-> 0]

AddOne(k, pats, mx) == AddFilter(k, pats, mx) /\ hist' = Append(hist, OpAdd(k, pats, mx))
GetOne(c)           == GetFilters(c) /\ hist' = Append(hist, OpGet(c))
AddH == \E k \in AddSet, pats \in PatSets, mx \in BudSet : AddOne(k, pats, mx)
GetH == \E c \in GetSet : GetOne(c)
InitH == InitHist /\ hist = <<>>
SpecH == InitH /\ [][AddH \/ GetH]_mvars

Pick(S) == {RandomElement(S)}
AddS == \E k \in Pick(AddSet), pats \in Pick(PatSets), mx \in Pick(BudSet) :
            AddFilter(k, pats, mx) /\ hist' = Append(hist, OpAdd(k, pats, mx))
GetS == \E c \in Pick(GetSet) : GetFilters(c) /\ hist' = Append(hist, OpGet(c))
InitS == InitHistWith(RandomElement(Graphs)) /\ hist = <<>>
SpecS == InitS /\ [][IF RandomElement(1..5) <= 3 THEN AddS ELSE GetS]_mvars

EmitHist == nops = Depth => PrintT(<<"CASE", ToJson([g |-> g, hist |-> hist])>>)

InitC == InitContent /\ hist = <<>>
StartC    == Start /\ UNCHANGED hist
KeepLineC == KeepLine /\ UNCHANGED hist
FinishC   == Finish /\ UNCHANGED hist
SpecC == InitC /\ [][StartC \/ KeepLineC \/ FinishC]_mvars
EmitContent == (cphase = "start" /\ path = CHOOSE p \in PathSet : TRUE) =>
                   PrintT(<<"CASE", ToJson([lines |-> lines, allow |-> allow0])>>)
=============================================================================
