SPECIFICATION TraceSpec
CONSTANTS
  N = 1
  Kinds = {}
  Atoms = {}
  MinLines = 0
  MaxLines = 0
  MaxElems = 0
  SaveAsSet = {}
  Modes = {}
  MayFail = FALSE
  OutcomeSet = {}
  BackedSet = {FALSE}
  FilterSet = {FALSE}
  Budget = 2
  BudgetMode = "per-load"
  RecordMode = "component"
  PoolSet = {FALSE}
  AssembleMode = "index"
  LateSet = {FALSE}
  LookupMode = "live"
  MaxFaults = 0
POSTCONDITION Post
CHECK_DEADLOCK FALSE
