SPECIFICATION TraceSpec
CONSTANTS
  Mech = "intent"
  Focus = {"version", "validate", "enable_schedule", "disable_schedule", "test_connection", "support", "diagnosis", "checkin", "status", "unregister", "register", "offline", "no_upload", "keep_archive", "list_specs", "show_results", "check_results", "force", "compliance", "legacy", "payload"}
  MaxOn = 0
  SrvSel = "small"
POSTCONDITION PostCond
CHECK_DEADLOCK FALSE
