---------------------------- MODULE JsonDocTrace ----------------------------
(***************************************************************************)
(* Trace validation for the JSON part of C19.  Event:                       *)
(*   json : v |-> the value, mode |-> how json.dumps wrote it,              *)
(*          std |-> [ok, toks] what the standard decoder json.loads         *)
(*          returned for the text, got |-> [ok, toks] what                  *)
(*          insights.parsr.examples.json_parser.loads returned              *)
(* (toks: the decoded value in the canonical token form of JsonDoc).        *)
(* std must equal Flat(v) - otherwise the machinery (renderer / projection) *)
(* is broken, not the code; the event is accepted iff got.ok and got.toks = *)
(* Flat(v).                                                                 *)
(***************************************************************************)
EXTENDS JsonDoc, TLC, Json, IOUtils, TLCExt

Batch == JsonDeserialize(IOEnv.TRACE_FILE)

VARIABLES tid, l
tvars == <<tid, l>>

T    == Batch[tid]
Ev   == T.events[l + 1]
More == l < Len(T.events)

Valid   == Ev.ev = "json" /\ WFJ(Ev.v) /\ Ev.std.ok /\ Ev.std.toks = Flat(Ev.v)
Accepts == Valid /\ Ev.got.ok /\ Ev.got.toks = Flat(Ev.v)

Diagnose ==
    IF ~Valid THEN "malformed-event"
    ELSE IF ~Ev.got.ok THEN "JsonAgrees:rejects-valid-document:" \o Ev.v.k
    ELSE IF Ev.got.toks = FlatD(Ev.v) THEN "JsonAgrees:array-drops-falsy-first-element"
    ELSE "JsonAgrees:different-value:" \o Ev.v.k

Advance == IF tid < Len(Batch) THEN tid' = tid + 1 /\ l' = 0 ELSE tid' = Len(Batch) + 1 /\ l' = 0
TraceInit == tid = 1 /\ l = 0
TraceNext ==
    /\ tid <= Len(Batch)
    /\ IF ~More THEN Advance
       ELSE /\ IF Accepts THEN TRUE
               ELSE TLCSet(1, TLCGet(1) \cup {[id |-> T.id, line |-> l + 1, clause |-> Diagnose,
                                              size |-> IF Ev.ev = "json" THEN JSize(Ev.v) ELSE 0]})
            /\ TLCSet(2, TLCGet(2) + 1)
            /\ l' = l + 1 /\ tid' = tid
TraceSpec == TraceInit /\ [][TraceNext]_tvars

ASSUME TLCSet(1, {}) /\ TLCSet(2, 0)

Post ==
    /\ \A r \in TLCGet(1) : PrintT(<<"REJ", ToJson(r)>>)
    /\ PrintT(<<"STAT", ToJson([traces |-> Len(Batch), events |-> TLCGet(2)])>>)

=============================================================================
