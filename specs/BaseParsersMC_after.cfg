SPECIFICATION Spec
CONSTANTS
  Fam = "after"
  N = 4
  Deep = FALSE
INVARIANT Totality
INVARIANT SearchExact
INVARIANT SearchMonotone
INVARIANT AfterExact
INVARIANT YearNear
CONSTRAINT Emit
CHECK_DEADLOCK FALSE
