------------------------------ MODULE JsonDoc ------------------------------
(***************************************************************************)
(* C19 - JSON values of the subset that insights.parsr.examples.json_parser *)
(* documents ("primitive json parsing ... doesn't handle unicode or numbers *)
(* in scientific notation"), and their reference meaning: the value itself, *)
(* as the standard decoder returns it.                                      *)
(*                                                                         *)
(* A value is a tree of nodes of one shape [k, a, ks, ts]:                  *)
(*   k   "int" "dec" "str" "true" "false" "null" "arr" "obj"                *)
(*   a   int / dec: the canonical numeral (as Python prints it: "-3",       *)
(*       "1.5"); str: the text                                              *)
(*   ks  obj: the keys, pairwise different, in ascending order              *)
(*   ts  arr: the elements; obj: the values, aligned with ks                *)
(* Documented subset (DESIGN, C19 Reading): integers and plain decimals, no *)
(* exponent; non-empty ASCII strings whose rendering needs no backslash     *)
(* escape other than \"; true / false / null; arrays; objects; a rendering  *)
(* never has a blank-only interior of an empty container (json.dumps never  *)
(* writes one).  The texts are produced by json.dumps (compact, default,    *)
(* indented) - that is the renderer.                                        *)
(*                                                                         *)
(* Flat(v) is the canonical token form in which decoded values are          *)
(* compared: "i:<numeral>" "d:<numeral>" "s:<text>" "T" "F" "N", "[" .. "]" *)
(* and "{" "k:<key>" <value> .. "}" with keys in ascending order.           *)
(***************************************************************************)
EXTENDS Integers, Sequences

JN(k, a, ks, ts) == [k |-> k, a |-> a, ks |-> ks, ts |-> ts]
JInt(a)   == JN("int", a, <<>>, <<>>)
JDec(a)   == JN("dec", a, <<>>, <<>>)
JStr(a)   == JN("str", a, <<>>, <<>>)
JTrue    == JN("true", "", <<>>, <<>>)
JFalse   == JN("false", "", <<>>, <<>>)
JNull    == JN("null", "", <<>>, <<>>)
JArr(ts)  == JN("arr", "", <<>>, ts)
JObj(ks, ts) == JN("obj", "", ks, ts)

RECURSIVE WFJ(_)
WFJ(v) ==
    /\ v.k \in {"int", "dec", "str", "true", "false", "null", "arr", "obj"}
    /\ v.k = "str" => v.a # ""
    /\ v.k \in {"int", "dec"} => v.a # ""
    /\ v.k # "obj" => v.ks = <<>>
    /\ v.k = "obj" => Len(v.ks) = Len(v.ts) /\ \A i, j \in DOMAIN v.ks : (i # j => v.ks[i] # v.ks[j]) /\ v.ks[i] # ""
    /\ v.k \notin {"arr", "obj"} => v.ts = <<>>
    /\ \A i \in DOMAIN v.ts : WFJ(v.ts[i])

RECURSIVE Flat(_), FlatSeq(_, _), FlatObj(_, _)
FlatSeq(ts, i) == IF i > Len(ts) THEN <<>> ELSE Flat(ts[i]) \o FlatSeq(ts, i + 1)
FlatObj(v, i)  == IF i > Len(v.ts) THEN <<>> ELSE <<"k:" \o v.ks[i]>> \o Flat(v.ts[i]) \o FlatObj(v, i + 1)
Flat(v) ==
    CASE v.k = "int"   -> <<"i:" \o v.a>>
      [] v.k = "dec"   -> <<"d:" \o v.a>>
      [] v.k = "str"   -> <<"s:" \o v.a>>
      [] v.k = "true"  -> <<"T">>
      [] v.k = "false" -> <<"F">>
      [] v.k = "null"  -> <<"N">>
      [] v.k = "arr"   -> <<"[">> \o FlatSeq(v.ts, 1) \o <<"]">>
      [] v.k = "obj"   -> <<"{">> \o FlatObj(v, 1) \o <<"}">>

RECURSIVE JSize(_), JSizeSum(_, _)
JSizeSum(ts, i) == IF i > Len(ts) THEN 0 ELSE JSize(ts[i]) + JSizeSum(ts, i + 1)
JSize(v) == 1 + JSizeSum(v.ts, 1)

(* ---- classification of a disagreement (used only to name a rejection) -- *)
(* What a decoder would return that drops the first element of an array     *)
(* when that element is "falsy" in Python (0, 0.0, false, null, [], {}).    *)
RECURSIVE FlatD(_), FlatSeqD(_, _), FlatObjD(_, _), Falsy(_)
Elems(v) == IF v.ts # <<>> /\ Falsy(v.ts[1]) THEN Tail(v.ts) ELSE v.ts
Falsy(v) ==
    CASE v.k = "int"   -> v.a \in {"0", "-0"}
      [] v.k = "dec"   -> v.a \in {"0.0", "-0.0"}
      [] v.k \in {"false", "null"} -> TRUE
      [] v.k = "arr"   -> Elems(v) = <<>>
      [] v.k = "obj"   -> v.ts = <<>>
      [] OTHER -> FALSE
FlatSeqD(ts, i) == IF i > Len(ts) THEN <<>> ELSE FlatD(ts[i]) \o FlatSeqD(ts, i + 1)
FlatObjD(v, i)  == IF i > Len(v.ts) THEN <<>> ELSE <<"k:" \o v.ks[i]>> \o FlatD(v.ts[i]) \o FlatObjD(v, i + 1)
FlatD(v) ==
    CASE v.k = "arr" -> <<"[">> \o FlatSeqD(Elems(v), 1) \o <<"]">>
      [] v.k = "obj" -> <<"{">> \o FlatObjD(v, 1) \o <<"}">>
      [] OTHER -> Flat(v)

(* ---- laws ---- *)
RECURSIVE Balanced(_, _, _)
Balanced(ts, i, d) == IF i > Len(ts) THEN d = 0
                      ELSE IF ts[i] \in {"[", "{"} THEN Balanced(ts, i + 1, d + 1)
                      ELSE IF ts[i] \in {"]", "}"} THEN d > 0 /\ Balanced(ts, i + 1, d - 1)
                      ELSE Balanced(ts, i + 1, d)
FlatWellFormed(v) == Balanced(Flat(v), 1, 0) /\ Len(Flat(v)) >= 1
(* different values have different token forms (checked pairwise by JsonDocMC on small sets) *)
FlatInjectiveOn(S) == \A v, w \in S : Flat(v) = Flat(w) => v = w

=============================================================================
