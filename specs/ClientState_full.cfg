SPECIFICATION Spec
CONSTANTS
  MaxFresh = 3
INVARIANT TypeOK
INVARIANT I_MarkersExclusive
INVARIANT I_TargetsUntouched
INVARIANT I_IdPersisted
PROPERTY P_MarkersExclusive
PROPERTY P_LinkReplacedNotFollowed
PROPERTY P_IdCanonical
PROPERTY P_IdStable
PROPERTY P_ReadDoesNotRewrite
PROPERTY P_CurTracked
CHECK_DEADLOCK FALSE
