SPECIFICATION TraceSpec
CONSTANTS
  R = 4
  RetSet = {"fail"}
  DepSet = {"met"}
  EnSet = {TRUE}
  NKeys = 1
  NMods = 1
POSTCONDITION Post
CHECK_DEADLOCK FALSE
