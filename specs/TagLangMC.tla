----------------------------- MODULE TagLangMC -----------------------------
(***************************************************************************)
(* Model-checking wrapper for TagLang: enumerates every expression AST of   *)
(* nesting depth <= Depth over a selectable set of atoms, checks the laws   *)
(* (renderer contract readable and faithful under the stated precedence,    *)
(* boolean algebra) and emits one CASE per expression: its tokens and its   *)
(* truth value on every subset of the tag universe.                         *)
(* State: x, the expression; tree "x is the first operand of its            *)
(* successors" (see PegMC).                                                 *)
(***************************************************************************)
EXTENDS TagLang, TLC, Json, FiniteSets, SequencesExt

CONSTANTS AtomIds,    \* subset of DOMAIN AtomTable
          Depth

AtomTable == <<Tag("a", 0), Tag("b", 0), Tag("ab", 1), Re("a", 0), Re("b$", 2),      \* 1-5
               Tag("ab", 0), Tag("a", 2), Tag("b", 1), Re("^a", 1), Re("b", 0)>>     \* 6-10
A0 == {AtomTable[i] : i \in AtomIds}
Grow(S) == S \cup {Not(y) : y \in S} \cup {Par(y) : y \in S}
             \cup {And(y, z) : y \in S, z \in S} \cup {Or("|", y, z) : y \in S, z \in S}
             \cup {Or(",", y, z) : y \in S, z \in S}
Right == IF Depth <= 1 THEN A0 ELSE Grow(A0)

RECURSIVE Dp(_)
Dp(x) == IF x.ts = <<>> THEN 0
         ELSE IF Len(x.ts) = 1 THEN 1 + Dp(x.ts[1])
         ELSE 1 + (IF Dp(x.ts[1]) > Dp(x.ts[2]) THEN Dp(x.ts[1]) ELSE Dp(x.ts[2]))

Succ(x) == {Not(x), Par(x)} \cup {And(x, y) : y \in Right} \cup {Or("|", x, y) : y \in Right}
             \cup {Or(",", x, y) : y \in Right}

SubsetList == SetToSeq(SUBSET Universe)

ASSUME DocExample
ASSUME PrintT(<<"CASE", ToJson([first |-> TRUE, sets |-> [j \in DOMAIN SubsetList |-> SetToSeq(SubsetList[j])]])>>)

VARIABLE x
Init == x \in A0
Next == Depth >= 1 /\ Dp(x) < Depth /\ x' \in Succ(x)
Spec == Init /\ [][Next]_x

ExprLaws == WFX(x) /\ RenderReadable(x) /\ RenderFaithful(x) /\ BooleanAlgebra(x)
            /\ \A i \in DOMAIN Render(x) : TokOK(Render(x)[i])

Emit == PrintT(<<"CASE", ToJson([first |-> FALSE, x |-> x, toks |-> Render(x),
                                 vals |-> [j \in DOMAIN SubsetList |-> Eval(x, SubsetList[j])]])>>)

=============================================================================
