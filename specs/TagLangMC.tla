----------------------------- MODULE TagLangMC -----------------------------
(***************************************************************************)
(* Model-checking wrapper for TagLang: enumerates every expression AST of   *)
(* nesting depth <= Depth over a selectable set of atoms, checks the laws   *)
(* (renderer contract readable and faithful under the stated precedence,    *)
(* boolean algebra) and emits one CASE per expression: its tokens and its   *)
(* truth value on every subset of the tag universe.                         *)
(* State: x, the expression; tree "x is the first operand of its            *)
(* successors" (see PegMC).                                                 *)
(***************************************************************************)
EXTENDS TagLang, TLC, Json, FiniteSets, SequencesExt

CONSTANTS AtomIds,    \* subset of DOMAIN AtomTable
          Depth,
          MutLen      \* neighbours (ill-formed family) are emitted for renderings of at most this many tokens

AtomTable == <<Tag("a", 0), Tag("b", 0), Tag("ab", 1), Re("a", 0), Re("b$", 2),      \* 1-5
               Tag("ab", 0), Tag("a", 2), Tag("b", 1), Re("^a", 1), Re("b", 0),      \* 6-10
               Re("b|a$", 0), Re("a,b", 0), Re("a&b", 0), Re("^(a|b)$", 0),          \* 11-14: bare regexes that
               Re("b|a$", 1), Re("b.a", 0)>>                                                       \* swallow operator characters; 15-16
A0 == {AtomTable[i] : i \in AtomIds}
Grow(S) == S \cup {Not(y) : y \in S} \cup {Par(y) : y \in S}
             \cup {And(y, z) : y \in S, z \in S} \cup {Or("|", y, z) : y \in S, z \in S}
             \cup {Or(",", y, z) : y \in S, z \in S}
Right == IF Depth <= 1 THEN A0 ELSE Grow(A0)

RECURSIVE Dp(_)
Dp(x) == IF x.ts = <<>> THEN 0
         ELSE IF Len(x.ts) = 1 THEN 1 + Dp(x.ts[1])
         ELSE 1 + (IF Dp(x.ts[1]) > Dp(x.ts[2]) THEN Dp(x.ts[1]) ELSE Dp(x.ts[2]))

Succ(x) == {Not(x), Par(x)} \cup {And(x, y) : y \in Right} \cup {Or("|", x, y) : y \in Right}
             \cup {Or(",", x, y) : y \in Right}

SubsetList == SetToSeq(SUBSET Universe)

ASSUME DocExample
ASSUME PrintT(<<"CASE", ToJson([first |-> TRUE, sets |-> [j \in DOMAIN SubsetList |-> SetToSeq(SubsetList[j])]])>>)

VARIABLE x
Init == x \in A0
Next == Depth >= 1 /\ Dp(x) < Depth /\ x' \in Succ(x)
Spec == Init /\ [][Next]_x

ExprLaws == WFX(x) /\ RenderReadable(x) /\ RenderFaithful(x) /\ TextFaithful(x) /\ BooleanAlgebra(x)
            /\ \A i \in DOMAIN Render(x) : TokOK(Render(x)[i])

(* Neighbours of a short rendered expression: one token deleted or doubled.  Most are ill-formed   *)
(* (operator where an operand is expected, doubled operators, unbalanced parentheses, a bare regex *)
(* that swallows what follows); the reference reader of the text says which, and why.             *)
DelAt(ts, i) == SubSeq(ts, 1, i - 1) \o SubSeq(ts, i + 1, Len(ts))
DupAt(ts, i) == SubSeq(ts, 1, i) \o SubSeq(ts, i, Len(ts))
Judged(m) == LET r == ReadText(Write(m))
                 known == r.ok /\ KnownRegexes(r.x)
             IN [toks |-> m, ok |-> r.ok, why |-> r.why, known |-> known,
                 vals |-> IF known THEN [j \in DOMAIN SubsetList |-> Eval(r.x, SubsetList[j])] ELSE <<>>]
Neighbours(ts) == IF Len(ts) > MutLen THEN <<>>
                  ELSE [n \in 1..(2 * Len(ts)) |-> Judged(IF n <= Len(ts) THEN DelAt(ts, n) ELSE DupAt(ts, n - Len(ts)))]

Emit == PrintT(<<"CASE", ToJson([first |-> FALSE, x |-> x, toks |-> Render(x),
                                 vals |-> [j \in DOMAIN SubsetList |-> Eval(x, SubsetList[j])],
                                 bad |-> Neighbours(Render(x))])>>)

=============================================================================
