SPECIFICATION TraceSpec
CONSTANTS
  CopyArgs = {"f1", "f2", "missing", "glob"}
  DirArgs = {"dir", "missing"}
  PathForms = {"plain", "slash", "dslash"}
  PlantSets = {{}}
POSTCONDITION PostCond
CHECK_DEADLOCK FALSE
