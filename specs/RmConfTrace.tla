---------------------------- MODULE RmConfTrace ----------------------------
(***************************************************************************)
(* Trace validation for RmConf (X07).  A trace is one abstract world and   *)
(* what harness/drive_rmconf.py observed when the REAL InsightsUploadConf  *)
(* loaded its concretisation and the result was followed into the real     *)
(* collect() / apply_blacklist / Cleaner.  The observation is judged with  *)
(* the REFERENCE of RmConf (RefSet, EffOf), clause by clause; every failing *)
(* clause is recorded with the abstract features of the world that matter   *)
(* for it.                                                                  *)
(***************************************************************************)
EXTENDS RmConf, Json, IOUtils, TLCExt

Batch == JsonDeserialize(IOEnv.TRACE_FILE)

VARIABLES tid, l
tvars == <<vars, tid, l>>

T    == Batch[tid]
Ev   == T.events[l + 1]
More == l < Len(T.events)
ToSet(q) == {q[i] : i \in DOMAIN q}

FileOf(x) == FileRec(x.path, x.kind, x.perm, x.form, [k \in Secs |-> x.s[k]])
W == [validate |-> T.w.validate, obf |-> T.w.obf, red |-> FileOf(T.w.red), con |-> FileOf(T.w.con), leg |-> FileOf(T.w.leg)]

ObsItems(k) == ToSet(Ev.conf[k])
ObsFmt      == Ev.conf.fmt

(* the reference result the observation is compared with: the one it fits,   *)
(* else the one of the same kind and source                                  *)
Cands == RefSet(W)
R == IF Cardinality(Cands) = 1 THEN CHOOSE r \in Cands : TRUE
     ELSE IF ObsFmt = "old" \/ Ev.k = "error" THEN LegOut("intent", W)     \* remove.conf was consulted
     ELSE Ok(NoConf)

FromLeg   == ~Lists(YamlConf("intent", W)) /\ R = LegOut("intent", W) /\ (YamlPresent(W) => (ObsFmt = "old" \/ Ev.k = "error"))
SrcOf(k)  == IF FromLeg THEN "leg" ELSE IF k \in {"patterns", "keywords"} THEN "con" ELSE "red"
ValOf(k)  == Body(W[SrcOf(k)])[k]
Tol(k)    == IF HasBlank(Body(W.leg)[k]) \/ HasBlank(Body(W.red)[k]) \/ HasBlank(Body(W.con)[k]) THEN 1 ELSE 0
Judged    == R.k = "ok" /\ Ev.k = "ok"
RanOK     == Judged /\ ~W.validate /\ Ev.eff.ran
E         == EffOf(R.conf, W.obf)

SetStr(S) == IF S = {} THEN "none" ELSE
             LET q == CHOOSE q \in [1..Cardinality(S) -> S] : \A i, j \in 1..Cardinality(S) : i # j => q[i] # q[j]
                 RECURSIVE cat(_)
                 cat(i) == IF i > Cardinality(S) THEN "" ELSE (IF i > 1 THEN "+" ELSE "") \o q[i] \o cat(i + 1)
             IN cat(1)
Sorted(S) == SetStr(S)

(* ---- the clauses; each yields the set of signatures of its failures ---- *)
C_Verdict ==
    IF R.k = "error" /\ Ev.k # "error" THEN {"Loud:" \o R.why \o ":accepted"}
    ELSE IF R.k = "ok" /\ Ev.k = "error"
         THEN {"Spurious:" \o (IF FromLeg THEN "leg" ELSE "yaml") \o ":rejected:" \o
               "red=" \o (IF Pres(W.red) THEN W.red.form ELSE "absent") \o ":con=" \o (IF Pres(W.con) THEN W.con.form ELSE "absent") \o
               ":leg=" \o (IF Pres(W.leg) THEN W.leg.form ELSE "absent")}
    ELSE {}
C_Conf ==
    IF ~Judged THEN {} ELSE
    {"Conf:" \o SrcOf(k) \o ":" \o k \o "=" \o ValOf(k) \o ":missing=" \o Sorted(R.conf[k] \ ObsItems(k)) \o
     ":extra=" \o Sorted((ObsItems(k) \ {"empty"}) \ R.conf[k]) : k \in {k \in ItemSecs : ObsItems(k) \ {"empty"} # R.conf[k]}} \cup
    (IF Lists(R.conf) /\ ObsFmt # R.conf.fmt THEN {"Conf:format:" \o R.conf.fmt \o "->" \o ObsFmt} ELSE {}) \cup
    (IF R.conf.patterns # {} /\ Ev.conf.pmode # R.conf.pmode THEN {"Conf:pattern-mode:" \o R.conf.pmode \o "->" \o Ev.conf.pmode} ELSE {}) \cup
    (IF Len(Ev.conf.extra) > 0 THEN {"Conf:unexpected:" \o Ev.conf.extra[1]} ELSE {})
C_Validate ==
    IF ~(W.validate /\ R.k = "ok" /\ Ev.k = "ok") THEN {} ELSE
    IF Lists(R.conf) /\ Ev.vk # "true" THEN {"Validate:configured:answer=" \o Ev.vk}
    ELSE IF Ev.vk \notin {"true", "none"} THEN {"Validate:nothing-configured:answer=" \o Ev.vk}
    ELSE {}
C_PermWarn ==
    IF Ev.k # "ok" THEN {} ELSE
    {"PermWarn:" \o f \o ":perm=" \o W[f].perm \o ":no-warning" :
        f \in {f \in FileIds : PermWarn(W.validate, W[f]) /\ ~Ev.warned[f] /\ (f = "leg" => ~YamlPresent(W))}}
C_Stable ==
    IF ~(Judged /\ ~W.validate) THEN {} ELSE
    (IF Ev.again # "same" THEN {"Stable:second-call:" \o Ev.again} ELSE {}) \cup
    (IF Ev.attr # "same" THEN {"Stable:rm_conf-attribute:" \o Ev.attr} ELSE {}) \cup
    (IF Ev.fresh # "same" THEN {"Stable:fresh-object:" \o Ev.fresh} ELSE {})
C_HandOver ==
    IF Judged /\ ~W.validate /\ ~Ev.eff.ran THEN {"HandOver:collect-raised:" \o Ev.collect_exc \o ":patterns=" \o ValOf("patterns")} ELSE {}
DenyDiff(name, k, exp, got) ==
    IF exp = got THEN {} ELSE
    {"DenyExact:" \o name \o ":" \o SrcOf(k) \o ":" \o k \o "=" \o ValOf(k) \o ":missing=" \o Sorted(exp \ got) \o ":extra=" \o Sorted(got \ exp)}
C_Deny ==
    IF ~RanOK THEN {} ELSE
    DenyDiff("files", "files", E.denyF, ToSet(Ev.eff.denyF)) \cup
    DenyDiff("commands", "commands", E.denyC, ToSet(Ev.eff.denyC)) \cup
    (IF E.disabled # ToSet(Ev.eff.disabled)
       THEN {"DenyExact:components:missing=" \o Sorted(E.disabled \ ToSet(Ev.eff.disabled)) \o ":extra=" \o Sorted(ToSet(Ev.eff.disabled) \ E.disabled)}
       ELSE {}) \cup
    (IF ToSet(Ev.eff.listed) # ToSet(Ev.eff.disabled)
       THEN {"DenyExact:blacklisted_specs:missing=" \o Sorted(ToSet(Ev.eff.disabled) \ ToSet(Ev.eff.listed)) \o
             ":extra=" \o Sorted(ToSet(Ev.eff.listed) \ ToSet(Ev.eff.disabled))}
       ELSE {})
LineBad(p) ==
    IF "bad" \in R.conf.patterns
    THEN p \in Removed(R.conf) /\ Ev.eff.lines[p] \notin {"removed", "error"}
    ELSE Ev.eff.lines[p] # E.lines[p]
LineSig(p) ==
    LET exp == E.lines[p]  got == Ev.eff.lines[p] IN
    IF exp = "removed" THEN "patterns=" \o ValOf("patterns") \o ":listed-pattern-not-applied:" \o p \o ":" \o got
    ELSE IF exp = "changed" /\ got \in {"kept", "partly"} THEN "keywords=" \o ValOf("keywords") \o ":listed-keyword-not-applied:" \o got
    ELSE IF got \in {"removed", "error"} THEN "patterns=" \o ValOf("patterns") \o ":unlisted-line-" \o got
    ELSE "keywords=" \o ValOf("keywords") \o ":unlisted-line-" \o got
C_Clean ==
    IF ~RanOK THEN {} ELSE
    LET bad == {p \in Probes : LineBad(p)} IN
    IF bad = {} THEN {}
    ELSE IF "neutral" \in bad THEN {"CleanExact:" \o SrcOf("patterns") \o ":" \o LineSig("neutral")}
    ELSE {"CleanExact:" \o SrcOf("patterns") \o ":" \o LineSig(p) : p \in bad}
C_Switches ==
    IF ~RanOK \/ ToSet(Ev.eff.sw) = E.sw THEN {} ELSE
    {"Switches:keywords=" \o ValOf("keywords") \o ":missing=" \o Sorted(E.sw \ ToSet(Ev.eff.sw)) \o
     ":extra=" \o Sorted(ToSet(Ev.eff.sw) \ E.sw)}
RepBad(name, r, rk) ==
    IF rk # "ok" THEN {"Report:" \o name \o ":raised:" \o rk \o ":patterns=" \o
                       (IF ValOf("patterns") \in {"none", "null", "elist"} THEN "not-configured" ELSE ValOf("patterns"))}
    ELSE {"Report:" \o name \o ":" \o k \o "=" \o ValOf(k) \o ":listed=" \o ToString(Cardinality(R.conf[k])) \o ":reported=" \o ToString(r.n[k]) :
            k \in {k \in ItemSecs : r.n[k] < Cardinality(R.conf[k]) \/ r.n[k] > Cardinality(R.conf[k]) + Tol(k)}} \cup
         (IF Lists(R.conf) /\ r.fmt # R.conf.fmt THEN {"Report:" \o name \o ":format:" \o R.conf.fmt \o "->" \o r.fmt} ELSE {}) \cup
         (IF R.conf.patterns # {} /\ r.rx # (R.conf.pmode = "regex") THEN {"Report:" \o name \o ":regex-flag:" \o R.conf.pmode} ELSE {})
C_Report ==
    IF ~(Judged /\ ~W.validate) THEN {} ELSE
    RepBad("create_report", Ev.cr, Ev.crk) \cup (IF Ev.eff.ran THEN RepBad("blacklist_report", Ev.br, Ev.brk) ELSE {})

Failures == C_Verdict \cup C_Conf \cup C_Validate \cup C_PermWarn \cup C_Stable \cup C_HandOver \cup C_Deny \cup C_Clean \cup
            C_Switches \cup C_Report
KnownEvent == Ev.ev = "load"

Advance ==
    IF tid < Len(Batch) THEN tid' = tid + 1 /\ l' = 0
    ELSE tid' = Len(Batch) + 1 /\ l' = 0

(* the pipeline variables of RmConf are not used here: the reference is evaluated on the recorded world *)
Idle == w = 0 /\ ph = "done" /\ cur = 1 /\ step = "locate" /\ ld = 0 /\ res = 0 /\ eff = 0 /\ rep = 0
TraceInit == tid = 1 /\ l = 0 /\ Idle
Record(S) == TLCSet(1, TLCGet(1) \cup {[id |-> T.id, line |-> l + 1, clause |-> c] : c \in S})

TraceNext ==
    /\ tid <= Len(Batch)
    /\ IF ~More
         THEN TLCSet(2, TLCGet(2) + l) /\ Advance
         ELSE /\ IF KnownEvent THEN Record(Failures) ELSE Record({"ENV:unknown-event"})
              /\ l' = l + 1 /\ tid' = tid
    /\ UNCHANGED vars
TraceSpec == TraceInit /\ [][TraceNext]_tvars

ASSUME TLCSet(1, {}) /\ TLCSet(2, 0)

PostCond ==
    /\ \A r \in TLCGet(1) : PrintT(<<"REJ", ToJson(r)>>)
    /\ PrintT(<<"STAT", ToJson([traces |-> Len(Batch), events |-> TLCGet(2)])>>)
=============================================================================
