---------------------------- MODULE ArchiveLifeMC ----------------------------
(* Model-checking wrapper of ArchiveLife: keeps the history of calls,        *)
(* restricts the histories to a plan (OpsSel: a set of calls per position,   *)
(* Depth) and a family of configurations / initial worlds (InitSel), checks  *)
(* the same step relation and invariants, and emits one CASE record per      *)
(* complete history for the replay driver (harness/drive_archivelife.py).    *)
(* With -simulate ("sim") the same module yields random longer histories     *)
(* over all calls, all configurations and all worlds; the constructor's      *)
(* variant is then drawn with RandomElement.                                 *)
EXTENDS ArchiveLife, Json

CONSTANTS Depth,      \* number of calls of an emitted history (the constructor is the first)
          OpsSel,     \* "life", "fill", "prev", "fail", "twice", "name", "sim"
          InitSel     \* "bare", "keepon", "prev", "fail", "all"

VARIABLES hist, w0
mcvars == <<vars, hist, w0>>

AllCalls == Calls
One(op)  == Call(op, "-", "-")
NewFor(c) == Call("New", IF c.keep THEN "obf" ELSE "plain", IF c.comp \in {"gz", "xz"} THEN "fqdn" ELSE "short")

Core    == {One("CreateArchiveDir"), Call("CopyFile", "f1", "-"), Call("AddMetadata", "slash", "c1"),
            One("CreateTarFile"), One("DeleteArchiveDir"), One("DeleteTmpDir"), One("CleanupTmp"),
            Call("Exit", "normal", "-"), One("StoringArchive")}
Content == {c \in AllCalls : c.op \in EnsureOps \cup AddOps} \cup {One("DeleteArchiveDir")}
Finish  == {One("CleanupTmp"), Call("Exit", "normal", "-"), Call("Exit", "sigterm", "-")}
PrevOps == {One("CleanupPrevious"), One("CreateArchiveDir"), One("CreateTarFile"), One("CleanupTmp")}
FailOps == {One("CreateTarFile"), One("ToolFix"), One("ToolBreak"), One("CleanupTmp"), One("CreateArchiveDir"),
            One("StoringArchive")}

OpsAt(i) ==
    IF i = 1 THEN (IF OpsSel = "name" THEN {c \in AllCalls : c.op = "New"}
                   ELSE IF OpsSel = "sim" THEN {RandomElement({c \in AllCalls : c.op = "New"})}
                   ELSE {NewFor(cfg)})
    ELSE CASE OpsSel = "life"  -> Core
           [] OpsSel = "fill"  -> IF i = Depth THEN Finish ELSE IF i = Depth - 1 THEN {One("CreateTarFile")} ELSE Content
           [] OpsSel = "prev"  -> PrevOps
           [] OpsSel = "fail"  -> IF i = 2 THEN {Call("CopyFile", "f1", "-")}
                                  ELSE IF i = Depth THEN {One("CleanupTmp")} ELSE FailOps
           [] OpsSel = "twice" -> IF i = 2 THEN {Call("CopyFile", "f1", "-"), One("DeleteTmpDir")}
                                  ELSE IF i = 4 THEN {hist[3]} ELSE AllCalls
           [] OpsSel = "name"  -> IF i = 2 THEN {One("CreateArchiveDir")} ELSE {One("CreateTarFile")}
           [] OpsSel = "sim"   -> AllCalls
           [] OTHER            -> {}

W(p, kd, tl) == [planted |-> p, keepdir |-> kd, tool |-> tl]
WorldSel ==
    CASE InitSel = "bare"   -> {W({}, "absent", TRUE)}
      [] InitSel = "keepon" -> {W({}, "absent", TRUE), W({}, "present", TRUE), W({"keptold"}, "present", TRUE)}
      [] InitSel = "prev"   -> {W(p, IF "keptold" \in p THEN "present" ELSE "absent", TRUE) : p \in SUBSET Plantable}
      [] InitSel = "fail"   -> {W({}, kd, tl) : kd \in KeepDirs, tl \in BOOLEAN}
      [] InitSel = "all"    -> {W(p, kd, tl) : p \in PlantSets, kd \in KeepDirs, tl \in BOOLEAN}
      [] OTHER              -> {}
CfgSel ==
    CASE InitSel = "keepon" -> {c \in Cfgs : c.keep}
      [] InitSel = "prev"   -> {c \in Cfgs : c.comp = "gz"}
      [] OTHER              -> Cfgs

MCInit ==
    /\ cfg \in CfgSel
    /\ w0 \in {w \in WorldSel : "keptold" \in w.planted => w.keepdir = "present"}
    /\ st = World(w0.planted, w0.keepdir, w0.tool)
    /\ g = Ghost0(st)
    /\ hist = <<>>
MCNext ==
    /\ Len(hist) < Depth
    /\ \E c \in OpsAt(Len(hist) + 1) :
          /\ Step(c)
          /\ hist' = Append(hist, c)
    /\ UNCHANGED w0
MCSpec == MCInit /\ [][MCNext]_mcvars

Emit ==
    Len(hist) = Depth =>
        PrintT(<<"CASE", ToJson([cfg |-> cfg, init |-> w0, steps |-> hist])>>)
=============================================================================
