--------------------------- MODULE ArchiveLifeTrace ---------------------------
(***************************************************************************)
(* Trace validation for ArchiveLife (X06).  A trace is the projection of a  *)
(* sandbox before a history of calls and after each call that               *)
(* harness/drive_archivelife.py made on the REAL InsightsArchive (or, for   *)
(* ToolBreak / ToolFix, performed itself as the environment).               *)
(*                                                                         *)
(* Each observed step (state before, call with its answer, state after)     *)
(* must satisfy StepOK of ArchiveLife, i.e. every clause.  A failing step   *)
(* is recorded with the clause and the abstract features of the step;       *)
(* validation then continues FROM THE OBSERVED STATE, so one rejection      *)
(* never hides later steps of the same history.  Steps that satisfy the     *)
(* property but differ from the design function are reported as NOTE        *)
(* (model precision, not a verdict); environment steps must match the       *)
(* model exactly (ENV = harness failure).                                   *)
(***************************************************************************)
EXTENDS ArchiveLife, Json, IOUtils, TLCExt

Batch == JsonDeserialize(IOEnv.TRACE_FILE)

VARIABLES tid, l
tvars == <<vars, tid, l>>

T    == Batch[tid]
Ev   == T.events[l + 1]
More == l < Len(T.events)

ToSet(q)  == {q[i] : i \in DOMAIN q}
TarOf(p)  == [ex |-> p.ex, fmt |-> p.fmt, mem |-> ToSet(p.mem), top |-> p.top]
PrevRec(p) == [k \in PrevKinds |-> p[k]]
StateOf(p, rt) ==
    [obj |-> p.obj, tmp |-> p.tmp, adir |-> [ex |-> p.adir.ex, mem |-> ToSet(p.adir.mem)],
     tar |-> TarOf(p.tar), kept |-> TarOf(p.kept), keepdir |-> p.keepdir, prev |-> PrevRec(p.prev),
     tool |-> p.tool, rt |-> rt,
     clean |-> (Len(p.stray) = 0 /\ Len(p.esc) = 0 /\ p.src)]
CfgOf(t) == [comp |-> t.cfg.comp, keep |-> t.cfg.keep]
A(e)  == [op |-> e.op, x |-> e.x, y |-> e.y, ret |-> [k |-> e.ret.k, loc |-> e.ret.loc, rel |-> e.ret.rel],
          nw |-> IF e.op = "New" THEN [dirs |-> e.nw.dirs, attr |-> e.nw.attr, shape |-> e.nw.shape,
                                        hashost |-> e.nw.hashost, atexit |-> e.nw.atexit]
                 ELSE NoNw]
Post  == StateOf(Ev.post, RtAfter(st, A(Ev)))
C(e)  == Call(e.op, e.x, e.y)

KnownCall == Ev.op \in ClientOps \cup EnvOps /\ (Ev.op = "New") = ~st.obj
EnvOK == Post = Design(cfg, st, C(Ev)).st

Accepts ==
    IF ~KnownCall THEN FALSE
    ELSE IF Ev.op \in EnvOps THEN EnvOK
    ELSE StepOK(cfg, st, A(Ev), Post)

(* the design's prediction for an accepted client step                       *)
Diverges ==
    /\ Ev.op \in ClientOps
    /\ LET d == Design(cfg, st, C(Ev)) IN d.st # Post \/ d.ret.k # Ev.ret.k

(* ---- naming the failing clause and the abstract features of the step ---- *)
B(b)     == IF b THEN "yes" ELSE "no"
OpTag(a) == a.op \o (IF a.x = "-" THEN "" ELSE ":" \o a.x)
ToolTag(s) == IF s.tool THEN "tools=present" ELSE "tools=missing"
KeepTag  == IF cfg.keep THEN "keep=on" ELSE "keep=off"
TarTag(r) == IF ~r.ex THEN "absent" ELSE IF r.fmt = "bad" THEN "unreadable" ELSE "readable"
Ex(r)    == IF r.ex THEN "present" ELSE "absent"
First(q, dflt) == IF Len(q) > 0 THEN q[1] ELSE dflt

Diagnose ==
    LET a == A(Ev)  t == Post  s == st IN
    IF ~(Ev.op \in ClientOps \cup EnvOps) THEN "ENV:unknown-operation"
    ELSE IF (Ev.op = "New") # ~st.obj THEN "ENV:call-without-object"
    ELSE IF Ev.op \in EnvOps THEN "ENV:tool-mismatch"
    ELSE IF ~Confined(cfg, s, a, t) THEN
        "Confined:" \o OpTag(a) \o ":" \o
        (IF Len(Ev.post.esc) > 0 THEN "write-refused=" \o Ev.post.esc[1]
         ELSE IF Len(Ev.post.stray) > 0 THEN "created=" \o Ev.post.stray[1]
         ELSE "source-files-changed")
    ELSE IF ~Bystanders(cfg, s, a, t) THEN
        (LET k == CHOOSE k \in PrevKinds : s.prev[k] # t.prev[k] IN
         "Bystanders:" \o OpTag(a) \o ":" \o k \o (IF s.prev[k] THEN ":removed" ELSE ":appeared"))
    ELSE IF ~PreviousCleaned(cfg, s, a, t) THEN
        "PreviousCleaned:" \o a.op \o ":" \o (CHOOSE k \in MustGo : t.prev[k]) \o ":left"
    ELSE IF ~KeptFaithful(cfg, s, a, t) THEN
        "KeptFaithful:" \o OpTag(a) \o ":" \o KeepTag \o ":tar_file-set=" \o B(s.rt) \o ":tar=" \o TarTag(s.tar) \o
        (IF t.kept # s.kept THEN ":kept=" \o TarTag(t.kept) ELSE ":keepdir=" \o s.keepdir \o "->" \o t.keepdir)
    ELSE IF ~Frame(cfg, s, a, t) THEN
        "Frame:" \o OpTag(a) \o ":" \o
        (IF t.tmp /\ ~s.tmp THEN "tmp-created" ELSE IF ~t.tmp /\ s.tmp THEN "tmp-removed"
         ELSE IF t.tar # s.tar THEN "tar-changed:" \o TarTag(s.tar) \o "->" \o TarTag(t.tar)
         ELSE IF t.adir # s.adir THEN "adir-changed:" \o Ex(s.adir) \o "->" \o Ex(t.adir)
         ELSE "tools-changed")
    ELSE IF ~NewMakesTmp(cfg, s, a, t) THEN
        "NewMakesTmp:answer=" \o a.ret.k \o ":new-directories=" \o ToString(a.nw.dirs) \o ":tmp_dir-is-it=" \o B(a.nw.attr)
    ELSE IF ~ExitRegistered(cfg, s, a, t) THEN "ExitRegistered:nothing-registered"
    ELSE IF ~NameShape(cfg, s, a, t) THEN
        "NameShape:" \o a.x \o ":shape=" \o a.nw.shape \o ":host-in-name=" \o B(a.nw.hashost)
    ELSE IF ~ArchiveDirEnsured(cfg, s, a, t) THEN
        "ArchiveDirEnsured:" \o OpTag(a) \o ":tmp=" \o B(s.tmp) \o ":adir=" \o Ex(s.adir) \o ":" \o
        (IF ~t.adir.ex THEN "not-there-afterwards"
         ELSE IF t.adir.mem # Base(s) THEN "content-changed"
         ELSE "answer=" \o a.ret.k \o "/" \o a.ret.loc \o "/" \o a.ret.rel)
    ELSE IF ~Added(cfg, s, a, t) THEN
        "Added:" \o OpTag(a) \o ":" \o
        (IF ~(Base(s) \ AllMeta \subseteq t.adir.mem) THEN "lost-members"
         ELSE IF ~(Adds(a) \subseteq t.adir.mem) THEN "not-added"
         ELSE IF ~(t.adir.mem \subseteq Upd(Base(s), a)) THEN "extra-members"
         ELSE "directory-missing") \o ":answer=" \o a.ret.k
    ELSE IF ~TarWhere(cfg, s, a, t) THEN "TarWhere:comp=" \o cfg.comp \o ":answered=" \o a.ret.loc
    ELSE IF ~TarReadable(cfg, s, a, t) THEN
        "TarReadable:comp=" \o cfg.comp \o ":" \o ToolTag(s) \o ":" \o
        (IF ~t.tar.ex THEN "no-file" ELSE IF t.tar.fmt # cfg.comp THEN "is=" \o t.tar.fmt ELSE "members-outside-archive-name")
    ELSE IF ~TarFaithful(cfg, s, a, t) THEN
        "TarFaithful:comp=" \o cfg.comp \o ":" \o
        (IF ~(s.adir.mem \subseteq t.tar.mem) THEN "members-missing" ELSE "members-extra")
    ELSE IF ~TarSucceeds(cfg, s, a, t) THEN
        "TarSucceeds:comp=" \o cfg.comp \o ":" \o ToolTag(s) \o ":tmp=" \o B(s.tmp) \o ":adir=" \o Ex(s.adir) \o
        ":answer=" \o a.ret.k
    ELSE IF ~TarNoLoss(cfg, s, a, t) THEN
        "TarNoLoss:comp=" \o cfg.comp \o ":" \o ToolTag(s) \o ":answer=" \o a.ret.k \o ":tar=" \o TarTag(t.tar)
    ELSE IF ~Deleted(cfg, s, a, t) THEN
        "Deleted:" \o a.op \o ":" \o (IF a.op = "DeleteTmpDir" /\ t.tmp THEN "tmp-remains" ELSE
                                      IF t.adir.ex THEN "adir-remains" ELSE "tar-remains")
    ELSE IF ~Cleanup(cfg, s, a, t) THEN
        "Cleanup:" \o OpTag(a) \o ":" \o KeepTag \o ":tar_file-set=" \o B(s.rt) \o ":tar=" \o TarTag(s.tar) \o
        ":keepdir=" \o s.keepdir \o ":" \o
        (IF Wanted(cfg, s) /\ t.kept # s.tar THEN (IF t.tar = s.tar THEN "not-kept" ELSE "archive-lost")
         ELSE IF t.tmp THEN "tmp-remains" ELSE "keepdir=" \o t.keepdir) \o ":answer=" \o a.ret.k
    ELSE IF ~Stored(cfg, s, a, t) THEN
        "Stored:keepdir=" \o s.keepdir \o ":tar=" \o TarTag(s.tar) \o ":kept=" \o TarTag(t.kept) \o ":answer=" \o a.ret.k
    ELSE "unknown"

NoteClause == "NOTE:design-divergence:" \o Ev.op \o ":answer=" \o Ev.ret.k

Load(t) == cfg' = CfgOf(t) /\ st' = StateOf(t.init, FALSE) /\ g' = Ghost0(StateOf(t.init, FALSE))

Advance ==
    IF tid < Len(Batch)
      THEN tid' = tid + 1 /\ l' = 0 /\ Load(Batch[tid + 1])
      ELSE tid' = Len(Batch) + 1 /\ l' = 0 /\ UNCHANGED vars

TraceInit ==
    /\ tid = 1 /\ l = 0
    /\ cfg = CfgOf(Batch[1]) /\ st = StateOf(Batch[1].init, FALSE) /\ g = Ghost0(StateOf(Batch[1].init, FALSE))

Record(c) == TLCSet(1, TLCGet(1) \cup {[id |-> T.id, line |-> l + 1, clause |-> c]})

(* One total action: judge the observed step, then continue from what was    *)
(* observed.                                                                 *)
TraceNext ==
    /\ tid <= Len(Batch)
    /\ IF ~More
         THEN TLCSet(2, TLCGet(2) + l) /\ Advance
         ELSE /\ IF Accepts THEN (IF Diverges THEN Record(NoteClause) ELSE TRUE)
                            ELSE Record(Diagnose)
              /\ st' = Post /\ UNCHANGED <<cfg, g>>
              /\ l' = l + 1 /\ tid' = tid
TraceSpec == TraceInit /\ [][TraceNext]_tvars

ASSUME TLCSet(1, {}) /\ TLCSet(2, 0)

PostCond ==
    /\ \A r \in TLCGet(1) : PrintT(<<"REJ", ToJson(r)>>)
    /\ PrintT(<<"STAT", ToJson([traces |-> Len(Batch), events |-> TLCGet(2)])>>)
=============================================================================
