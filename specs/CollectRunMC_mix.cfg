SPECIFICATION Spec
CONSTANTS
  MaxCfg = 1
  CfgNames = {"x01", "impl", "plugins"}
  CfgFlags = {"on", "off"}
  CfgPreset = "free"
  MaxPersist = 1
  PersistNames = {"x01", "specs", "plugins"}
  PersistFlags = {"on", "off"}
  PersistPreset = "free"
  DefaultSet = {FALSE, TRUE}
  PreSet = {"none"}
  FileDeny = {"f_b1"}
  CmdDeny = {}
  CompDeny = {"k_ig"}
  MaxDeny = 1
  ViaSet = {"manifest"}
  StrategySet = {"serial", "parallel"}
  WorkerSet = {"default"}
  CompressSet = {FALSE, TRUE}
  AlphaSet = {"present"}
  GammaSet = {"val", "oserr"}
  Interleave = FALSE
  CfgMode = "documented"
  PersistMode = "documented"
  PersisterMode = "documented"
INVARIANT DefaultApplied
INVARIANT EnabledIsLastMatch
INVARIANT PersistSetIsLastMatch
INVARIANT BlacklistExact
INVARIANT DisabledNeverRuns
INVARIANT DeniedNeverCollected
INVARIANT PersistExact
INVARIANT ParallelEqualsSerial
INVARIANT LoadBackExact
INVARIANT ErrorsReported
INVARIANT Terminates
CONSTRAINT Emit
CHECK_DEADLOCK FALSE
