--------------------------- MODULE CollectRunTrace ---------------------------
(***************************************************************************)
(* Trace validation for CollectRun: every recorded execution of the real    *)
(* insights.collect.collect() (+ load of what it wrote) must be a behaviour *)
(* of the specification, phase by phase.                                    *)
(*                                                                         *)
(* A case is recorded as THREE traces: "cfg" (apply_default_enabled,        *)
(* apply_configs from the manifest), "bl" (apply_blacklist, create_context, *)
(* get_to_persist, started from the ENABLED table observed after            *)
(* apply_configs) and "run" (the component run, the archive, the load,      *)
(* started from the configuration observed at the end of "bl") - so a       *)
(* deviation in one part does not hide the others from the validation.      *)
(* The deny configuration AS WRITTEN in the manifest is still what          *)
(* DeniedNeverCollected is judged against.                                  *)
(***************************************************************************)
EXTENDS CollectRun, Json, IOUtils, TLCExt

Batch == JsonDeserialize(IOEnv.TRACE_FILE)

VARIABLES tid, l
tvars == <<s, tid, l>>

T    == Batch[tid]
Ev   == T.events[l + 1]
More == l < Len(T.events)

Tbl(rec) == [c \in Comp |-> rec[c]]
Kind(c)  == IF c \in Points THEN "point" ELSE IF c \in Impls THEN "impl" ELSE IF c = "PR" THEN "parser" ELSE "combiner"
OnOff(b) == IF b THEN "on" ELSE "off"

Base(t)  == S0(t.case.mf, t.case.env, t.case.pre)
CfgS0(t) == LoadManifest(Base(t))
RunS0(t) == [Base(t) EXCEPT !.pc = "run", !.enabled = Tbl(t.obs.enabled), !.denyF = Rng(t.obs.files),
                            !.denyC = Rng(t.obs.commands), !.bl = Rng(t.obs.specs), !.bl0 = Rng(t.obs.specs),
                            !.ctx = "host", !.toPersist = Rng(t.obs.set)]
BlS0(t)  == [Base(t) EXCEPT !.pc = "blacklist", !.enabled = Tbl(t.obs.enabled)]
StartOf(t) == IF t.seg = "cfg" THEN CfgS0(t) ELSE IF t.seg = "bl" THEN BlS0(t) ELSE RunS0(t)
EndPc(t)   == IF t.seg = "cfg" THEN "blacklist" ELSE IF t.seg = "bl" THEN "run" ELSE "done"

---------------------------------------------------------------------------
(* cfg segment *)
DefaultOK == s.pc = "default" /\ Tbl(Ev.enabled) = ApplyDefaultEnabled(s).enabled
ConfigsOK == s.pc = "configs" /\ \A c \in Comp : Ev.enabled[c] = LastMatchEnabled(s.mf.configs, c, s.mf.default)
BlacklistOK ==
    /\ s.pc = "blacklist"
    /\ LET n == ApplyBlacklist(s) IN
       /\ Tbl(Ev.enabled) = n.enabled
       /\ Rng(Ev.files) = n.denyF /\ Rng(Ev.commands) = n.denyC
       /\ Rng(Ev.specs) = n.bl
ContextOK == s.pc = "context" /\ Ev.cls = "HostContext" /\ Ev.root_ok
ToPersistOK ==
    /\ s.pc = "topersist" /\ Ev.foreign = 0
    /\ \A c \in Comp : (c \in Rng(Ev.set)) = LastMatchPersisted(s.mf.persist, c)

(* run segment *)
AfterAtt(c) == Persist(Attempt(s, c), c)
(* R1: the engine's scheduling is C01-C04's subject; here only "not twice" and "dependencies first" (without    *)
(* which the effect of an attempt is not defined) are demanded, not the one-at-a-time order of the serial      *)
(* strategy, and not that a component without any observable effect is attempted at all (see RanOK)            *)
Guard(c) == c \notin s.att /\ Deps(c) \subseteq s.obs
AttOK ==
    /\ s.pc = "run" /\ Ev.c \in Comp
    /\ Guard(Ev.c)
    /\ LET n == AfterAtt(Ev.c) IN
       /\ Ev.has = HasV(n, Ev.c)
       /\ Rng(Ev.errs) = ErrKinds(n, Ev.c)
       /\ Ev.pers = (Ev.c \in n.dehy)

UserAllows(i) == ~ItemDeniedByUser(s.mf, i)
MayTouch == {i \in Items : UserAllows(i) /\ \E c \in Impls : s.enabled[c] /\ c \notin SkipSet(s.mf) /\ i \in Rng(ItemsOfImpl(c))}
(* the run is over: components that were never attempted are completed by the model in canonical order - the  *)
(* bodies that ran, the deny bookkeeping and (at "finish") the archive must be those of the COMPLETE run        *)
Full == Complete(s, 1)
RanOK ==
    /\ s.pc = "run"
    /\ Rng(Ev.bodies) = Full.ran
    /\ Rng(Ev.opened) \subseteq MayTouch /\ Rng(Ev.execd) \subseteq MayTouch
    /\ Rng(Ev.dehy) \subseteq s.toPersist /\ Ev.foreign_dehy = 0
    /\ Rng(Ev.specs) = Full.bl

DocSet  == {[c |-> d.c, n |-> d.n, err |-> d.err] : d \in Rng(Ev.docs)}
DataSet == {[path |-> d.path, lines |-> d.lines] : d \in Rng(Ev.data)}
Reported == {e[2] : e \in Rng(Ev.errors)}
Raisers  == {c \in Impls : "oserr" \in ErrKinds(s, c)}
FinishOK ==
    /\ s.pc = "finish"
    /\ Ev.form = Finish(s).result.form /\ Ev.where_ok /\ Ev.workdir_gone
    /\ Ev.marker /\ Ev.extras = <<>>
    /\ DocSet = s.docs
    /\ DataSet = s.data
    /\ \A d \in DataSet : \A i \in Items : d.path = ItemPath(i) => UserAllows(i)
    /\ \A e \in Rng(Ev.errors) : e[1] = "OSError"
    /\ Raisers \subseteq Reported /\ Reported \subseteq RaisedOS(s)

LoadedSet == {[c |-> x.c, elems |-> x.elems] : x \in Rng(Ev.loaded)}
LoadOK == s.pc = "loadback" /\ Ev.foreign = 0 /\ LoadedSet = LoadBack(s).loaded

Accepts ==
    CASE Ev.ev = "default"   -> DefaultOK
      [] Ev.ev = "configs"   -> ConfigsOK
      [] Ev.ev = "blacklist" -> BlacklistOK
      [] Ev.ev = "context"   -> ContextOK
      [] Ev.ev = "topersist" -> ToPersistOK
      [] Ev.ev = "att"       -> AttOK
      [] Ev.ev = "ran"       -> RanOK
      [] Ev.ev = "finish"    -> FinishOK
      [] Ev.ev = "load"      -> LoadOK
      [] Ev.ev = "end"       -> s.pc = EndPc(T)     \* every phase was recorded
      [] OTHER               -> FALSE

Apply ==
    CASE Ev.ev = "default"   -> s' = ApplyDefaultEnabled(s)
      [] Ev.ev = "configs"   -> s' = ApplyConfigsMode(s, "documented")
      [] Ev.ev = "blacklist" -> s' = ApplyBlacklist(s)
      [] Ev.ev = "context"   -> s' = CreateContext(s)
      [] Ev.ev = "topersist" -> s' = GetToPersist(s)
      [] Ev.ev = "att"       -> s' = AfterAtt(Ev.c)
      [] Ev.ev = "ran"       -> s' = EndRun(Full)
      [] Ev.ev = "finish"    -> s' = Finish(s)
      [] Ev.ev = "end"       -> UNCHANGED s
      [] OTHER               -> s' = LoadBack(s)

---------------------------------------------------------------------------
(* total verdicts: the failing clause + the abstract features of the failing case *)
Strat == ":" \o s.mf.strategy

DiagDefault ==
    IF s.pc # "default" THEN "Phases:order"
    ELSE IF PreOf(s.pre).c # "none" /\ Ev.enabled[PreOf(s.pre).c] # s.mf.default
           THEN "DefaultApplied:already-known-component-keeps-its-value:default-" \o OnOff(s.mf.default)
    ELSE "DefaultApplied:other:default-" \o OnOff(s.mf.default)

NMatch(entries, c) == LET k == Cardinality(MatchIdx(entries, c)) IN
                      IF k = 0 THEN "no-matching-entry" ELSE IF k = 1 THEN "one-matching-entry" ELSE "several-matching-entries"
DiagConfigs ==
    IF s.pc # "configs" THEN "Phases:order"
    ELSE IF Tbl(Ev.enabled) = ApplyConfigsMode(s, "break").enabled
           THEN "EnabledIsLastMatch:entry-naming-a-component-exactly-does-not-reach-longer-names"
    ELSE IF Tbl(Ev.enabled) = ApplyConfigsMode(s, "omitdefault").enabled
           THEN "EnabledIsLastMatch:entry-without-enabled-key-takes-the-default-not-true"
    ELSE IF Tbl(Ev.enabled) = ApplyConfigsMode(s, "code").enabled
           THEN "EnabledIsLastMatch:entry-naming-a-component-exactly-does-not-reach-longer-names+entry-without-enabled-key-takes-the-default-not-true"
    ELSE LET c == CHOOSE c \in Comp : Ev.enabled[c] # LastMatchEnabled(s.mf.configs, c, s.mf.default) IN
         "EnabledIsLastMatch:" \o NMatch(s.mf.configs, c) \o ":expected-" \o
         OnOff(LastMatchEnabled(s.mf.configs, c, s.mf.default)) \o ":default-" \o OnOff(s.mf.default)

DiagBlacklist ==
    IF s.pc # "blacklist" THEN "Phases:order"
    ELSE LET n == ApplyBlacklist(s) IN
         IF Tbl(Ev.enabled) # n.enabled THEN
             (LET c == CHOOSE c \in Comp : Ev.enabled[c] # n.enabled[c] IN
              IF c \in SkipSet(s.mf)
                THEN "Blacklist:denied-component-stays-enabled:" \o
                     (IF c \in {SymComp(e) : e \in Rng(s.mf.deny.files) \cup Rng(s.mf.deny.commands)} THEN "symbolic-name" ELSE "full-name")
                ELSE "Blacklist:component-switched-that-was-not-named")
         ELSE IF Rng(Ev.files) # n.denyF THEN "Blacklist:files"
         ELSE IF Rng(Ev.commands) # n.denyC THEN "Blacklist:commands"
         ELSE "Blacklist:blacklisted-specs"

DiagToPersist ==
    IF s.pc # "topersist" THEN "Phases:order"
    ELSE IF Ev.foreign # 0 THEN "PersistSetIsLastMatch:component-outside-the-universe"
    ELSE LET c  == CHOOSE c \in Comp : (c \in Rng(Ev.set)) # LastMatchPersisted(s.mf.persist, c)
             mi == MatchIdx(s.mf.persist, c)
         IN "PersistSetIsLastMatch:" \o (IF c \in Rng(Ev.set) THEN "in-set" ELSE "not-in-set") \o ":" \o
            NMatch(s.mf.persist, c) \o ":last-" \o (IF mi = {} THEN "none" ELSE s.mf.persist[MaxOf(mi)].en)

DiagAtt ==
    LET c == Ev.c IN
    IF s.pc # "run" \/ c \notin Comp THEN "Phases:order"
    ELSE IF "signal" \in Rng(Ev.errs) THEN "ParallelEqualsSerial:datasource-fails-outside-the-main-thread:signal.signal"
    ELSE IF "race" \in Rng(Ev.errs) THEN "ParallelEqualsSerial:shared-broker-iterated-while-another-thread-stores-a-result:RuntimeError"
    ELSE IF c \in s.att THEN "RunOnce:attempted-twice" \o Strat
    ELSE IF ~(Deps(c) \subseteq s.obs) THEN "RunOrder:dependency-not-attempted-first" \o Strat
    ELSE LET n == AfterAtt(c) IN
         IF Ev.has /\ ~HasV(n, c) THEN
             (IF ~s.enabled[c] THEN "DisabledNeverRuns:" \o Kind(c) \o Strat
              ELSE IF c \in Impls /\ \E i \in Rng(ItemsOfImpl(c)) : ~UserAllows(i) THEN "DeniedNeverCollected:value:" \o Kind(c) \o Strat
              ELSE "RunExact:unexpected-value:" \o Kind(c) \o Strat)
         ELSE IF ~Ev.has /\ HasV(n, c) THEN
             "RunExact:no-value:" \o Kind(c) \o Strat
         ELSE IF Rng(Ev.errs) # ErrKinds(n, c) THEN
             (IF Rng(Ev.errs) \ ErrKinds(n, c) # {}
                THEN "ErrorsRecorded:unexpected:" \o Kind(c) \o ":" \o (CHOOSE k \in Rng(Ev.errs) \ ErrKinds(n, c) : TRUE) \o Strat
                ELSE "ErrorsRecorded:missing:" \o Kind(c) \o ":" \o (CHOOSE k \in ErrKinds(n, c) \ Rng(Ev.errs) : TRUE) \o Strat)
         ELSE IF Ev.pers THEN "PersistExact:dehydrated-outside-the-persist-set:" \o Kind(c) \o Strat
         ELSE "PersistExact:not-dehydrated:" \o Kind(c) \o Strat

DiagRan ==
    IF s.pc # "run" THEN "Phases:order"
    ELSE IF Rng(Ev.bodies) # Full.ran THEN
        (IF \E c \in Rng(Ev.bodies) \ Full.ran : c \in Comp /\ ~s.enabled[c] THEN "DisabledNeverRuns:body-ran" \o Strat
         ELSE IF Rng(Ev.bodies) \ Full.ran # {} THEN "RunExact:body-ran-unexpectedly" \o Strat
         ELSE "RunExact:body-not-run" \o (IF s.obs # Comp THEN ":component-never-attempted" ELSE "") \o Strat)
    ELSE IF ~(Rng(Ev.opened) \subseteq MayTouch) THEN
        (IF \E i \in Rng(Ev.opened) : i \in Items /\ ~UserAllows(i) THEN "DeniedNeverCollected:file-opened" \o Strat
         ELSE IF \E i \in Rng(Ev.opened) \ MayTouch : \E c \in SkipSet(s.mf) : c \in Impls /\ i \in Rng(ItemsOfImpl(c))
           THEN "DeniedNeverCollected:file-of-a-denied-component-opened" \o Strat
         ELSE "DisabledNeverRuns:file-opened" \o Strat)
    ELSE IF ~(Rng(Ev.execd) \subseteq MayTouch) THEN
        (IF \E i \in Rng(Ev.execd) : i \in Items /\ ~UserAllows(i) THEN "DeniedNeverCollected:command-executed" \o Strat
         ELSE "DisabledNeverRuns:command-executed" \o Strat)
    ELSE IF ~(Rng(Ev.dehy) \subseteq s.toPersist) \/ Ev.foreign_dehy # 0 THEN "PersistExact:dehydrated-outside-the-persist-set" \o Strat
    ELSE "Blacklist:blacklisted-specs-after-run" \o Strat

DiagFinish ==
    IF s.pc # "finish" THEN "Phases:order"
    ELSE IF Ev.form # Finish(s).result.form \/ ~Ev.where_ok \/ ~Ev.workdir_gone
           THEN "Finish:" \o (IF s.mf.compress THEN "compress" ELSE "directory") \o ":" \o Ev.form
    ELSE IF ~Ev.marker THEN "PersistExact:archive-marker-missing"
    ELSE IF Ev.extras # <<>> THEN "PersistExact:file-that-is-neither-data-nor-metadata"
    ELSE IF \E d \in DataSet : \E i \in Items : d.path = ItemPath(i) /\ ~UserAllows(i)
           THEN "DeniedNeverCollected:data-written" \o Strat
    ELSE IF DocSet # s.docs THEN
        (IF \E d \in DocSet : d.c \notin Comp THEN "PersistExact:document-of-a-component-outside-the-universe" \o Strat
         ELSE IF \E d \in DocSet : d.c \notin s.toPersist THEN "PersistExact:document-outside-the-persist-set" \o Strat
         ELSE IF \E d \in s.docs : ~\E x \in DocSet : x.c = d.c THEN
             (LET d == CHOOSE d \in s.docs : ~\E x \in DocSet : x.c = d.c IN
              "PersistExact:document-missing:" \o Kind(d.c) \o (IF d.n > 0 THEN ":results" ELSE ":errors-only") \o Strat)
         ELSE IF \E d \in DocSet : ~\E x \in s.docs : x.c = d.c THEN "PersistExact:document-unexpected" \o Strat
         ELSE LET d == CHOOSE d \in DocSet : d \notin s.docs IN
              "PersistExact:document-differs:" \o Kind(d.c) \o
              (IF \E x \in s.docs : x.c = d.c /\ x.n # d.n THEN ":results" ELSE ":errors") \o Strat)
    ELSE IF DataSet # s.data THEN
        (IF \E d \in DataSet : ~\E x \in s.data : x.path = d.path THEN "PersistExact:data-outside-the-persist-set" \o Strat
         ELSE IF \E d \in s.data : ~\E x \in DataSet : x.path = d.path THEN "PersistExact:data-missing" \o Strat
         ELSE "PersistExact:data-content" \o Strat)
    ELSE IF \E e \in Rng(Ev.errors) : e[1] # "OSError" THEN "ErrorsReported:foreign-exception-type"
    ELSE IF ~(Raisers \subseteq Reported) THEN "ErrorsReported:oserror-not-returned" \o Strat
    ELSE "ErrorsReported:component-without-oserror-returned" \o Strat

DiagLoad ==
    IF s.pc # "loadback" THEN "Phases:order"
    ELSE LET want == LoadBack(s).loaded IN
         IF Ev.foreign # 0 THEN "LoadBackExact:component-outside-the-universe"
         ELSE IF \E x \in want : ~\E y \in LoadedSet : y.c = x.c THEN
             "LoadBackExact:persisted-but-not-loaded:" \o Kind((CHOOSE x \in want : ~\E y \in LoadedSet : y.c = x.c).c)
         ELSE IF \E y \in LoadedSet : ~\E x \in want : x.c = y.c THEN "LoadBackExact:loaded-but-not-persisted"
         ELSE "LoadBackExact:content-differs:" \o Kind((CHOOSE y \in LoadedSet : y \notin want).c)

Diagnose ==
    CASE Ev.ev = "default"   -> DiagDefault
      [] Ev.ev = "configs"   -> DiagConfigs
      [] Ev.ev = "blacklist" -> DiagBlacklist
      [] Ev.ev = "context"   -> IF s.pc # "context" THEN "Phases:order" ELSE "Context:" \o Ev.cls \o (IF Ev.root_ok THEN "" ELSE ":root")
      [] Ev.ev = "topersist" -> DiagToPersist
      [] Ev.ev = "att"       -> DiagAtt
      [] Ev.ev = "ran"       -> DiagRan
      [] Ev.ev = "finish"    -> DiagFinish
      [] Ev.ev = "load"      -> DiagLoad
      [] Ev.ev = "foreign_enabled" -> "EnabledIsLastMatch:component-outside-the-universe-left-enabled:default-" \o OnOff(s.mf.default)
      [] Ev.ev = "foreign_exec"    -> "DisabledNeverRuns:command-of-a-component-outside-the-universe" \o Strat
      [] Ev.ev = "escaped"   -> "NoEscape:" \o Ev.exc \o ":in-phase-" \o s.pc
      [] Ev.ev = "hung"      -> "Terminates:collect-does-not-return:" \o s.mf.strategy \o ":max_workers-" \o s.mf.workers \o
                                (IF \E c \in s.toPersist : s.enabled[c] /\ c \in {"IB", "PB"} THEN ":multi-output-component-persisted" ELSE "")
      [] Ev.ev = "end"       -> "Phases:recording-ends-in-phase-" \o s.pc
      [] OTHER               -> "unknown-event"

Advance ==
    IF tid < Len(Batch)
      THEN /\ tid' = tid + 1 /\ l' = 0
           /\ s' = StartOf(Batch[tid + 1])
      ELSE /\ tid' = Len(Batch) + 1 /\ l' = 0
           /\ UNCHANGED s

TraceInit == tid = 1 /\ l = 0 /\ s = StartOf(Batch[1])

TraceNext ==
    /\ tid <= Len(Batch)
    /\ IF ~More
         THEN TLCSet(2, TLCGet(2) + l) /\ Advance
         ELSE IF Accepts
           THEN Apply /\ l' = l + 1 /\ tid' = tid
           ELSE /\ TLCSet(1, TLCGet(1) \cup {[id |-> T.id, line |-> l + 1, clause |-> Diagnose]})
                /\ TLCSet(2, TLCGet(2) + l)
                /\ Advance
TraceSpec == TraceInit /\ [][TraceNext]_tvars

ASSUME TLCSet(1, {}) /\ TLCSet(2, 0)

Post ==
    /\ \A r \in TLCGet(1) : PrintT(<<"REJ", ToJson(r)>>)
    /\ PrintT(<<"STAT", ToJson([traces |-> Len(Batch), events |-> TLCGet(2)])>>)
=============================================================================
