SPECIFICATION Spec
CONSTANTS
  MaxCfg = 0
  CfgNames = {"x01", "specs", "impl", "alpha", "ibeta", "plugins", "po", "io", "nomatch"}
  CfgFlags = {"on", "off", "omit"}
  CfgPreset = "allon"
  MaxPersist = 2
  PersistNames = {"x01", "specs", "impl", "alpha", "ibeta", "plugins", "po", "io", "nomatch"}
  PersistFlags = {"on", "off", "str"}
  PersistPreset = "free"
  DefaultSet = {FALSE}
  PreSet = {"none"}
  FileDeny = {}
  CmdDeny = {}
  CompDeny = {}
  MaxDeny = 0
  ViaSet = {"manifest"}
  StrategySet = {"serial"}
  WorkerSet = {"default"}
  CompressSet = {FALSE}
  AlphaSet = {"present", "absent"}
  GammaSet = {"val"}
  Interleave = FALSE
  CfgMode = "documented"
  PersistMode = "documented"
  PersisterMode = "documented"
INVARIANT DefaultApplied
INVARIANT EnabledIsLastMatch
INVARIANT PersistSetIsLastMatch
INVARIANT BlacklistExact
INVARIANT DisabledNeverRuns
INVARIANT DeniedNeverCollected
INVARIANT PersistExact
INVARIANT ParallelEqualsSerial
INVARIANT LoadBackExact
INVARIANT ErrorsReported
INVARIANT Terminates
CONSTRAINT Emit
CHECK_DEADLOCK FALSE
