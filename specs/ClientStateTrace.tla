-------------------------- MODULE ClientStateTrace --------------------------
(***************************************************************************)
(* Trace validation for ClientState (C17).  A trace is the projection of a  *)
(* temp configuration world before a history and after each operation that  *)
(* harness/drive_clientstate.py performed with the REAL helpers             *)
(* (generate_machine_id, write_registered_file, write_unregistered_file,    *)
(* delete_registered_file / delete_unregistered_file) or, for PlantSymlink, *)
(* performed itself as the environment.                                     *)
(*                                                                         *)
(* Each observed step (state before, operation with its result, state       *)
(* after) must satisfy StepOK of ClientState, i.e. every clause of C17.     *)
(* A failing step is recorded with the clause and the abstract features of  *)
(* the step; validation then continues FROM THE OBSERVED STATE, so one      *)
(* rejection never hides later steps of the same history.                   *)
(* Steps that satisfy C17 but differ from the design function of            *)
(* ClientState are reported as NOTE (model precision, not a verdict);       *)
(* environment steps must match the model exactly (ENV = harness failure).  *)
(***************************************************************************)
EXTENDS ClientState, Json, IOUtils, TLCExt

Batch == JsonDeserialize(IOEnv.TRACE_FILE)

VARIABLES tid, l,
          raw,      \* text of the identifier file as last observed
          curBy     \* what established st.cur: "none", "file", "ReadId", "NewId"
tvars == <<vars, tid, l, raw, curBy>>

T    == Batch[tid]
Ev   == T.events[l + 1]
More == l < Len(T.events)

HexLow == {"0", "1", "2", "3", "4", "5", "6", "7", "8", "9", "a", "b", "c", "d", "e", "f"}
IsCanonical(cs) ==
    /\ Len(cs) = 36
    /\ \A i \in 1..36 : IF i \in {9, 14, 19, 24} THEN cs[i] = "-" ELSE cs[i] \in HexLow

StateOf(p, rhsm, cur) ==
    [dir |-> p.dir, reg |-> p.reg, unreg |-> p.unreg, idf |-> p.idf, tgt |-> p.tgt, rhsm |-> rhsm, cur |-> cur]
S0(t)  == StateOf(t.init, t.init.rhsm, IF HasId(t.init.idf) THEN t.init.idf.id ELSE "none")
A(e)   == Act(e.op, e.d, e.m, e.k, [k |-> e.ret.k, s |-> e.ret.s, canon |-> IsCanonical(e.ret.chars)])
Post   == StateOf(Ev.post, st.rhsm, CurAfter(st, A(Ev)))
Files(s) == <<s.dir, s.reg, s.unreg, s.idf, s.tgt>>

(* "rewritten" is observed as: bytes differ, or the file was opened for      *)
(* writing / replaced (sentinel mtime or inode changed)                      *)
RawKept == (Ev.op = "ReadId" /\ HasId(st.idf)) => (Ev.raw = raw /\ ~Ev.touched)

EnvOK == Files(Post) = Files(PlantF(st, Ev.d, Ev.m, Ev.k)) /\ Exists(st, Ev.d)

Accepts ==
    IF Ev.op = "PlantSymlink" THEN EnvOK
    ELSE Ev.op \in ClientOps /\ StepOK(st, A(Ev), Post) /\ RawKept

(* the design's prediction for an accepted client step (fresh identifiers    *)
(* are whatever the code produced)                                           *)
Design ==
    LET a == A(Ev) IN
    CASE a.op = "ReadId"       -> ReadIdF(st, a.ret.s)
      [] a.op = "NewId"        -> NewIdF(st, a.ret.s)
      [] a.op = "Register"     -> WriteMarkerF(st, "reg")
      [] a.op = "Unregister"   -> WriteMarkerF(st, "unreg")
      [] a.op = "DeleteMarker" -> DeleteMarkerF(st, a.m)
      [] OTHER                 -> st
Diverges == Ev.op \in ClientOps /\ (Design # Post \/ Ev.ret.k \in {"raise", "exit"})

(* ---- naming the failing clause and the abstract features of the step ---- *)
BadDir(P(_)) == CHOOSE d \in Dirs : P(d)
RhsmTag(s)   == IF HasRhsm(s) THEN s.rhsm ELSE "absent"
DirTag(s)    == IF Exists(s, "main") THEN "maindir=present" ELSE "maindir=absent"
(* Unregister has two entry points: write_unregistered_file() and            *)
(* write_unregistered_file(date) (event field k = "dated"); same requirement *)
OpTag(a) == a.op \o (IF a.op = "Unregister" /\ a.k = "dated" THEN "(date)" ELSE "")
Diagnose ==
    LET a == A(Ev)  t == Post IN
    IF Ev.op = "PlantSymlink" THEN "ENV:plant-mismatch"
    ELSE IF Ev.op \notin ClientOps THEN "ENV:unknown-operation"
    ELSE IF ~MarkersExclusive(st, a, t) THEN
        (LET d == IF a.op \in {"Register", "Unregister"} THEN BadDir(LAMBDA x : Exists(t, x) /\ Both(t, x))
                  ELSE BadDir(LAMBDA x : Both(t, x) /\ ~Both(st, x))
         IN "MarkersExclusive:" \o OpTag(a) \o ":before-reg=" \o st.reg[d] \o ":before-unreg=" \o st.unreg[d])
    ELSE IF ~LinkReplaced(st, a, t) THEN
        (LET mine == IF a.op = "Register" THEN "reg" ELSE "unreg"
             d == BadDir(LAMBDA x : Exists(st, x) /\ IsLink(MarkOf(st, mine)[x]) /\ MarkOf(t, mine)[x] # "file")
         IN "LinkReplaced:" \o OpTag(a) \o ":before=" \o MarkOf(st, mine)[d] \o ":after=" \o MarkOf(t, mine)[d])
    ELSE IF ~NotFollowed(st, a, t) THEN
        (LET d == BadDir(LAMBDA x : t.tgt[x] # st.tgt[x])
             m == CHOOSE m \in Marks : t.tgt[d][m] # st.tgt[d][m]
         IN "NotFollowed:" \o OpTag(a) \o ":" \o m \o "=" \o MarkOf(st, m)[d] \o
            ":target-live=" \o t.tgt[d][m].live \o ":target-dead=" \o t.tgt[d][m].dead)
    ELSE IF ~IdCanonical(st, a, t) THEN
        "IdCanonical:" \o a.op \o ":returned=" \o a.ret.k \o ":file=" \o st.idf.form \o ":rhsm=" \o RhsmTag(st)
    ELSE IF ~IdStable(st, a, t) THEN
        "IdStable:" \o DirTag(st) \o ":rhsm=" \o RhsmTag(st) \o
        ":file=" \o st.idf.form \o ":established-by=" \o curBy
    ELSE IF ~ReadDoesNotRewrite(st, a, t) THEN
        "ReadDoesNotRewrite:file=" \o st.idf.form \o ":after=" \o t.idf.form
    ELSE IF ~RawKept THEN
        "ReadDoesNotRewrite:file=" \o st.idf.form \o (IF Ev.raw # raw THEN ":bytes-changed" ELSE ":written-same-bytes")
    ELSE "unknown"

NoteClause == "NOTE:design-divergence:" \o Ev.op \o (IF Ev.ret.k \in {"raise", "exit"} THEN ":" \o Ev.ret.k ELSE "")

Load(t) ==
    /\ st' = S0(t) /\ act' = NoAct /\ nf' = 0
    /\ raw' = t.init.raw
    /\ curBy' = IF HasId(t.init.idf) THEN "file" ELSE "none"

Advance ==
    IF tid < Len(Batch)
      THEN tid' = tid + 1 /\ l' = 0 /\ Load(Batch[tid + 1])
      ELSE tid' = Len(Batch) + 1 /\ l' = 0 /\ UNCHANGED <<vars, raw, curBy>>

TraceInit ==
    /\ tid = 1 /\ l = 0
    /\ st = S0(Batch[1]) /\ act = NoAct /\ nf = 0
    /\ raw = Batch[1].init.raw
    /\ curBy = IF HasId(Batch[1].init.idf) THEN "file" ELSE "none"

Record(c) == TLCSet(1, TLCGet(1) \cup {[id |-> T.id, line |-> l + 1, clause |-> c]})

(* One total action: judge the observed step, then continue from what was    *)
(* observed.                                                                 *)
TraceNext ==
    /\ tid <= Len(Batch)
    /\ IF ~More
         THEN TLCSet(2, TLCGet(2) + l) /\ Advance
         ELSE /\ IF Accepts THEN (IF Diverges THEN Record(NoteClause) ELSE TRUE)
                            ELSE Record(Diagnose)
              /\ st' = Post /\ act' = A(Ev) /\ nf' = nf
              /\ raw' = Ev.raw
              /\ curBy' = IF Ev.op \in {"ReadId", "NewId"} /\ Ev.ret.k = "id" THEN Ev.op ELSE curBy
              /\ l' = l + 1 /\ tid' = tid
TraceSpec == TraceInit /\ [][TraceNext]_tvars

ASSUME TLCSet(1, {}) /\ TLCSet(2, 0)

PostCond ==
    /\ \A r \in TLCGet(1) : PrintT(<<"REJ", ToJson(r)>>)
    /\ PrintT(<<"STAT", ToJson([traces |-> Len(Batch), events |-> TLCGet(2)])>>)
=============================================================================
