------------------------------ MODULE RmConfMC ------------------------------
(* Model-checking wrapper of RmConf: restricts the worlds to a family (Fam),  *)
(* checks the same invariants along the pipeline and emits one CASE record    *)
(* per world for the replay driver (harness/drive_rmconf.py).  With -simulate *)
(* (Fam = "sim") every field of the world is drawn with RandomElement.        *)
EXTENDS RmConf, Json

CONSTANTS Fam       \* "red", "con", "leg", "prec", "sim"

S(c, f, k, p, kw, b) == [commands |-> c, files |-> f, components |-> k, patterns |-> p, keywords |-> kw, bogus |-> b]
YFile(form, s) == FileRec("set", "file", "600", form, s)
SimpleRed == YFile("map", S("none", "one", "none", "none", "none", "none"))
SimpleCon == YFile("map", S("none", "none", "none", "one", "one", "none"))
SimpleLeg == YFile("remove", S("none", "two", "none", "none", "one", "none"))
Unset     == FileRec("unset", "absent", "600", "empty", NoSecs)
Perm(x, p) == [x EXCEPT !.perm = p]

OtherForms(forms) == {YFile(fo, NoSecs) : fo \in forms \ {"map", "remove"}}

RedDocs ==
    {YFile("map", S(c, f, k, "none", "none", "none")) : c \in ListVals, f \in ListVals, k \in ListVals} \cup
    {YFile("map", S("one", f, "none", p, kw, b)) : f \in {"none", "two"}, p \in {"none", "one"}, kw \in {"none", "null"},
                                                     b \in {"none", "one"}} \cup
    OtherForms(YForms)
ConDocs ==
    {YFile("map", S("none", "none", "none", p, kw, "none")) : p \in PatVals, kw \in ListVals} \cup
    {YFile("map", S(c, f, "none", p, "one", b)) : c \in {"none", "one"}, f \in {"none", "null"}, p \in {"none", "rx1"},
                                                   b \in {"none", "one"}} \cup
    OtherForms(YForms)
LegDocs ==
    {YFile("remove", S(c, f, "none", p, kw, "none")) : c \in LegVals \ {"nonascii"}, f \in LegVals \ {"nonascii"},
                                                         p \in LegVals, kw \in LegVals} \cup
    {YFile("remove", S("one", f, k, p, "none", b)) : f \in {"none", "two"}, k \in {"none", "one"}, p \in {"none", "trail"},
                                                      b \in {"none", "one"}} \cup
    OtherForms(LForms)
PrecDocs(f) ==
    LET simple == CASE f = "red" -> SimpleRed [] f = "con" -> SimpleCon [] f = "leg" -> SimpleLeg
        nulls  == IF f = "leg" THEN YFile("remove", S("none", "empty", "none", "none", "none", "none"))
                  ELSE IF f = "red" THEN YFile("map", S("null", "elist", "none", "none", "none", "none"))
                  ELSE YFile("map", S("none", "none", "none", "null", "elist", "none"))
        bare   == YFile(IF f = "leg" THEN "remove" ELSE "map", NoSecs)
        bad    == YFile(IF f = "leg" THEN "wrongsec" ELSE "garbage", NoSecs)
    IN {Absent, Unset, YFile("empty", NoSecs), YFile("comment", NoSecs), nulls, bare, simple, bad,
        Perm(simple, "644"), Perm(bad, "644"), Perm(simple, "400")}

W(v, o, r, c, l) == [validate |-> v, obf |-> o, red |-> r, con |-> c, leg |-> l]
WorldSel ==
    CASE Fam = "red"  -> {W(v, "off", r, c, l) : v \in BOOLEAN, r \in RedDocs, c \in {Absent, SimpleCon}, l \in {Absent, SimpleLeg}}
      [] Fam = "con"  -> {W(v, o, r, c, l) : v \in BOOLEAN, o \in Obfs, r \in {Absent, SimpleRed}, c \in ConDocs,
                                             l \in {Absent, SimpleLeg}}
      [] Fam = "leg"  -> {W(v, o, r, Absent, l) : v \in BOOLEAN, o \in {"off", "host"}, r \in {Absent, YFile("empty", NoSecs)},
                                                  l \in LegDocs}
      [] Fam = "prec" -> {W(v, "ip", r, c, l) : v \in BOOLEAN, r \in PrecDocs("red"), c \in PrecDocs("con"), l \in PrecDocs("leg")}
      [] Fam = "sim"  -> {W(FALSE, "off", Absent, Absent, Absent)}
      [] OTHER        -> {}

RandomWorld(d) ==      \* (a parameter, so that TLC does not evaluate it once as a constant)
    W(RandomElement(BOOLEAN), RandomElement(Obfs),
      Perm(RandomElement(RedDocs \cup PrecDocs("red")), RandomElement({"600", "600", "644"})),
      Perm(RandomElement(ConDocs \cup PrecDocs("con")), RandomElement({"600", "600", "640"})),
      Perm(RandomElement(LegDocs \cup PrecDocs("leg")), RandomElement({"600", "600", "666"})))
(* -simulate: the world is drawn in the first step of each behaviour *)
Pick == /\ ph = "pick"
        /\ \E x \in {RandomWorld(cur)} : w' = x /\ eff' = NoEff(x.obf)
        /\ ph' = "file" /\ UNCHANGED <<cur, step, ld, res, rep>>
MCInit == /\ w \in WorldSel /\ InitRest
MCInitSim == /\ w \in WorldSel /\ cur = 1 /\ step = "locate" /\ ph = "pick"
             /\ ld = [f \in FileIds |-> [st |-> "pending", s |-> NoSecs]]
             /\ res = Undecided /\ eff = NoEff(w.obf) /\ rep = NoRep
MCSpec == (IF Fam = "sim" THEN MCInitSim ELSE MCInit) /\ [][Pick \/ Next]_vars

Emit == Done => PrintT(<<"CASE", ToJson([w |-> w, k |-> res.k, why |-> res.why, lists |-> Lists(res.conf)])>>)
=============================================================================
