-------------------------- MODULE ClientConfigTrace --------------------------
(***************************************************************************)
(* Trace validation for ClientConfig (C16).  A trace is one real            *)
(* InsightsConfig().load_all() under controlled argv / environ / file:      *)
(*   lay    : the raw layers the driver set up (file state and texts,       *)
(*            INSIGHTS_* texts, command-line occurrences)                   *)
(*   events : "loaded"  option values on entry of _imply_options            *)
(*            "implied" option values on entry of _validate_options         *)
(*            "final"   values of the returned configuration, or            *)
(*            "error"   the exception (stage, kind)                         *)
(* Snapshots are sparse: options not listed hold their default.             *)
(* Judged here (property level, nothing else):                              *)
(*   loaded : Precedence for every option of the table (`conf` included:    *)
(*            the trace carries the --conf occurrence the driver put on the  *)
(*            command line; texts are taken as written, see LiteralWords)    *)
(*   final  : OfflineConsistent, OutputConsistent, ObfuscationConsistent,   *)
(*            RejectedNotResolved (no listed conflict among the loaded      *)
(*            values), UnknownIgnored                                       *)
(*   error  : UnknownIgnored                                                *)
(* Differences between the observation and the DESIGN functions (ImplyF,    *)
(* Refusal) that do not break the property are reported as NOTE.            *)
(* A rejected event does not end the trace: validation continues from what  *)
(* was observed.                                                            *)
(***************************************************************************)
EXTENDS ClientConfig, Json, IOUtils, TLCExt

Batch == JsonDeserialize(IOEnv.TRACE_FILE)

VARIABLES tid, l
tvars == <<vars, tid, l>>

Rng(q) == {q[i] : i \in DOMAIN q}
Tr     == Batch[tid]
Ev     == Tr.events[l + 1]
More   == l < Len(Tr.events)

LayOf(t) == [fstate |-> t.lay.fstate, file |-> Rng(t.lay.file), env |-> Rng(t.lay.env), cli |-> Rng(t.lay.cli)]
Full(sp) == [n \in OptNames |->
               IF \E i \in DOMAIN sp : sp[i].name = n THEN sp[CHOOSE i \in DOMAIN sp : sp[i].name = n].v
               ELSE Default(n)]

UnknownOK(u) == \A i \in DOMAIN u : u[i].state # "injected"
ObsOf(e) == IF e.ev \in {"loaded", "implied", "final"} THEN Full(e.cfg) ELSE Defaults

Accepts(Obs) ==
    CASE Ev.ev = "loaded"  -> Precedence(lay, Obs)
      [] Ev.ev = "implied" -> TRUE
      [] Ev.ev = "final"   -> /\ OfflineConsistent(Obs) /\ OutputConsistent(Obs) /\ ObfuscationConsistent(Obs)
                              /\ Conflicts(loaded) = {}
                              /\ UnknownOK(Ev.unknown)
      [] Ev.ev = "error"   -> UnknownOK(Ev.unknown)
      [] OTHER             -> FALSE

(* ---- naming the failing clause ---- *)
RawSources(n) == (IF n \in Names(lay.file) THEN "f" ELSE "") \o (IF n \in Names(lay.env) THEN "e" ELSE "") \o
                 (IF n \in Names(lay.cli) THEN "c" ELSE "")
ObservedFrom(n, v) ==
    IF n \in DOMAIN CliLayer(lay) /\ CliLayer(lay)[n] = v THEN "cli"
    ELSE IF n \in DOMAIN EnvLayer(lay) /\ EnvLayer(lay)[n] = v THEN "env"
    ELSE IF n \in DOMAIN FileLayer(lay) /\ FileLayer(lay)[n] = v THEN "file"
    ELSE IF v = Default(n) THEN "default" ELSE "other:" \o v.t
Pick1(Sx) == CHOOSE x \in Sx : TRUE
(* the sources whose raw texts hold one of LiteralWords ("" if none): a feature of the failing case *)
LiteralIn == (IF \E r \in lay.file : r.text \in LiteralWords THEN "f" ELSE "") \o
             (IF \E r \in lay.env : r.text \in LiteralWords THEN "e" ELSE "") \o
             (IF \E r \in lay.cli : r.arg \in LiteralWords THEN "c" ELSE "")
Diagnose(Obs) ==
    CASE Ev.ev = "loaded" ->
           (LET L == Layers(lay)
                n == Pick1({m \in OptNames : Obs[m] # ResolveIn(L, m)}) IN
            "Precedence:type=" \o TypeOf(n) \o ":cli=" \o CliKind(n) \o ":given-in=" \o RawSources(n) \o
            ":file=" \o (IF FileUsable(lay) THEN "used" ELSE "dropped") \o
            ":expected-from=" \o Source(lay, n) \o ":observed-from=" \o ObservedFrom(n, Obs[n]) \o
            (IF LiteralIn = "" THEN "" ELSE ":literal-text-in=" \o LiteralIn))
      [] Ev.ev = "final" ->
           IF ~OfflineConsistent(Obs) THEN "OfflineConsistent:offline+" \o Pick1(OfflineBreaks(Obs))
           ELSE IF ~OutputConsistent(Obs) THEN
                "OutputConsistent:" \o (IF Has(Obs, "output_dir") THEN "output_dir" ELSE "output_file") \o "+" \o Pick1(OutputBreaks(Obs))
           ELSE IF ~ObfuscationConsistent(Obs) THEN "ObfuscationConsistent:obfuscate_hostname-without-obfuscate"
           ELSE IF Conflicts(loaded) # {} THEN
                (LET x == Pick1(Conflicts(loaded)) IN
                 "RejectedNotResolved:" \o (IF x = "obfuscate_hostname" THEN x ELSE "offline+" \o x))
           ELSE "UnknownIgnored:" \o Ev.unknown[CHOOSE i \in DOMAIN Ev.unknown : Ev.unknown[i].state = "injected"].name
      [] Ev.ev = "error" ->
           "UnknownIgnored:" \o Ev.unknown[CHOOSE i \in DOMAIN Ev.unknown : Ev.unknown[i].state = "injected"].name
      [] OTHER -> "unknown-event"

(* ---- design notes (never verdicts) ---- *)
NoteOpts == TableOpts \cup ({"legacy_upload", "net_debug", "analyze_container"} \cap OptNames)
Note(Obs) ==
    CASE Ev.ev = "implied" ->
           (LET d == ImplyF(cfg, "ansible_host" \in Names(lay.cli))
                bad == {n \in NoteOpts : T(d[n]) # T(Obs[n])} IN
            IF bad = {} THEN "" ELSE "NOTE:imply-differs:" \o Pick1(bad))
      [] Ev.ev = "final" ->
           IF phase = "implied" /\ Refusal(cfg) # "" THEN "NOTE:validate-differs:design=" \o Refusal(cfg) \o ":observed=ok" ELSE ""
      [] Ev.ev = "error" ->
           IF Ev.kind # "ValueError" THEN "NOTE:crash:" \o Ev.kind \o ":" \o Ev.stage
           ELSE IF Ev.stage = "validate" /\ phase = "implied" /\ Refusal(cfg) = ""
                THEN "NOTE:validate-differs:design=ok:observed=error"
           ELSE IF Ev.stage = "load" /\ EnvUsable(lay) THEN "NOTE:load-differs:design=ok:observed=error"
           ELSE ""
      [] OTHER -> ""

Load0(t) == /\ lay' = LayOf(t) /\ cfg' = Defaults /\ loaded' = Defaults /\ phase' = "start"
Advance ==
    IF tid < Len(Batch) THEN tid' = tid + 1 /\ l' = 0 /\ Load0(Batch[tid + 1])
    ELSE tid' = Len(Batch) + 1 /\ l' = 0 /\ UNCHANGED vars

TraceInit == /\ tid = 1 /\ l = 0
             /\ lay = LayOf(Batch[1]) /\ cfg = Defaults /\ loaded = Defaults /\ phase = "start"

Record(c) == TLCSet(1, TLCGet(1) \cup {[id |-> Tr.id, line |-> l + 1, clause |-> c]})

TraceNext ==
    /\ tid <= Len(Batch)
    /\ IF ~More
         THEN TLCSet(2, TLCGet(2) + l) /\ Advance
         ELSE LET o == ObsOf(Ev) IN      \* the observed configuration, built once per event
              /\ IF Accepts(o) THEN (LET nt == Note(o) IN IF nt # "" THEN Record(nt) ELSE TRUE)
                               ELSE Record(Diagnose(o))
              /\ lay' = lay
              /\ cfg' = IF Ev.ev \in {"loaded", "implied", "final"} THEN o ELSE cfg
              /\ loaded' = IF Ev.ev = "loaded" THEN o ELSE loaded
              /\ phase' = CASE Ev.ev = "loaded" -> "loaded" [] Ev.ev = "implied" -> "implied"
                            [] Ev.ev = "final" -> "ok" [] OTHER -> "error"
              /\ l' = l + 1 /\ tid' = tid
TraceSpec == TraceInit /\ [][TraceNext]_tvars

ASSUME TLCSet(1, {}) /\ TLCSet(2, 0)

PostCond ==
    /\ \A r \in TLCGet(1) : PrintT(<<"REJ", ToJson(r)>>)
    /\ PrintT(<<"STAT", ToJson([traces |-> Len(Batch), events |-> TLCGet(2)])>>)
=============================================================================
