-------------------------- MODULE ArchiveContextMC --------------------------
(* Model-checking wrapper of ArchiveContext: emits one CASE record per input *)
(* of the bound (from the initial state, so an input with several extraction *)
(* outcomes is emitted once) for harness/drive_archivectx.py.  `lens` is the *)
(* model's table of name lengths for the names the input uses; the driver    *)
(* compares it with the real strings (R4).                                   *)
EXTENDS ArchiveContext, Json

NamesOf(i) == UNION {Range(p) : p \in i.files}

Emit ==
    phase = "start" =>
        PrintT(<<"CASE", ToJson([files |-> inp.files, pack |-> inp.pack, wrap |-> inp.wrap, evil |-> inp.evil,
                                 override |-> inp.override, where |-> inp.where, inject |-> inp.inject,
                                 plug |-> inp.plug, mode |-> inp.mode, space |-> inp.space,
                                 lens |-> [n \in NamesOf(inp) |-> NameLen(n)],
                                 classes |-> Classes(inp)])>>)

(* the refutation configurations: the unguarded statements *)
F_Deterministic == ContextDeterministic
F_MarkerSeen    == MarkerPriority
F_RootInside    == RootInsideInput
F_TempRemoved   == TempDirRemoved
F_StaysInside   == ExtractionStaysInTempDir
=============================================================================
