SPECIFICATION Spec
CONSTANTS
  Fam = "prog"
  MinN = 3
  N = 3
  KindSet = {"comp", "ds", "point"}
  TypSet = {"base"}
  GrpSet = {1}
  LabelSet = {"none", "req"}
  PrioSet = {0, 1, 2}
  MaxAdds = 2
  AskSet = {"basic", "sub", "walk"}
  KeyMode = "any"
  WalkMech = "bfs"
  Prefix <- NoPrefix
INVARIANT TypeOK
INVARIANT RegistryInverse
INVARIANT RegistryIsDeclared
INVARIANT ClosureLaws
INVARIANT PointLaws
INVARIANT GrowLaws
INVARIANT PeelLaws
INVARIANT BfsLaws
INVARIANT HelperLaws
INVARIANT SpecLaws
INVARIANT CodeFormDeviatesOnlyInClasses
CONSTRAINT Emit
CHECK_DEADLOCK FALSE
