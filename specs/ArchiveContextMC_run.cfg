SPECIFICATION Spec
CONSTANTS
  Dirs = {"a", "insights_commands"}
  Leaves = {"f", "insights_archive.txt"}
  MaxFiles = 2
  MaxDepth = 2
  Packs = {"dir", "tar", "zip"}
  Wraps = {FALSE, TRUE}
  Evils = {"none"}
  Overrides = {"none", "SosArchiveContext"}
  Wheres = {"plain"}
  Injects = {"none"}
  Plugs = {"none"}
  Modes = {"run"}
  Spaces = {"none"}
  Mech = "code"
  Admit = {}
INVARIANT TypeOK
INVARIANT MarkerPriority
INVARIANT TriedInOrder
INVARIANT DefaultWhenNoMarker
INVARIANT RootInsideInput
INVARIANT OverrideWins
INVARIANT CreateAllowed
INVARIANT ListedExactly
INVARIANT BrokerSeededExactly
INVARIANT ExtractionStaysInTempDir
INVARIANT TempDirRemoved
INVARIANT ContextDeterministic
INVARIANT Ends
CONSTRAINT Emit
CHECK_DEADLOCK FALSE
