\* every add/get history of depth 3 over the 18 graphs, emitted for replay (quick-tier configuration)
SPECIFICATION SpecH
CONSTANTS
  NP = 1
  BudSet = {1}
  Depth = 3
  CacheRule = "none"
  AddSet = {"I1", "I2", "P", "I3", "P2", "Q1", "Q2", "K"}
  GetSet = {"I1", "I2", "P", "D1", "D0"}
  PatSets = {{1}}
  MaxLines = 0
  CBudSet = {0}
  PathSet = {"archive"}
INVARIANT LookupIsUnionInv
INVARIANT TableIsUnion
INVARIANT LookupBudgetsInv
CONSTRAINT EmitHist
CHECK_DEADLOCK FALSE
