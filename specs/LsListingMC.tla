----------------------------- MODULE LsListingMC -----------------------------
(* Model-checking wrapper of LsListing: emits one CASE record per enumerated *)
(* abstract listing (from its final state) for the replay driver.            *)
EXTENDS LsListing, Json

RECURSIVE SetToSeq(_)
SetToSeq(S) == IF S = {} THEN <<>> ELSE LET x == CHOOSE x \in S : TRUE IN <<x>> \o SetToSeq(S \ {x})

Emit == done => PrintT(<<"CASE", ToJson([fam |-> Fam, inp |-> inp, classes |-> SetToSeq(Classes(inp)),
                                         lines |-> Len(LinesOf(inp))])>>)
=============================================================================
