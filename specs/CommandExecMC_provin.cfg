SPECIFICATION Spec
CONSTANTS
  MaxN = 1
  Rd1 = {"no", "drain", "pass"}
  RdK = {"pass"}
  Outs = {"p"}
  Rcs = {"0"}
  Slows = {FALSE}
  Errs = {FALSE, TRUE}
  MaxOdd = 3
  Apis = {"prov", "provs"}
  Keeps = {FALSE}
  Tmos = {"none"}
  Sigs = {"KILL"}
  Splits = {TRUE}
  Forms = {"str"}
  Metas = {FALSE}
  Envs = {"safe"}
  Bares = {FALSE}
  Flts = {"none", "hit"}
  Mechs = {"code", "intended"}
  Admit = {}
INVARIANT TypeOK
INVARIANT ResultIsLastStageOutput
INVARIANT RcPolicy
INVARIANT NotFoundIsAnError
INVARIANT ExceptionCarriesOutput
INVARIANT TimeoutTerminates
INVARIANT Terminates
INVARIANT NoneRunningAtReturn
INVARIANT NothingStuck
INVARIANT AllReapedButKnown
INVARIANT NeverReadsCallerStdin
INVARIANT NoShell
INVARIANT EnvIsControlled
INVARIANT StreamEqualsCall
CONSTRAINT EmitCase
CHECK_DEADLOCK FALSE
