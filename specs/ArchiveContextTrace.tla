------------------------ MODULE ArchiveContextTrace ------------------------
(***************************************************************************)
(* Trace validation for ArchiveContext (X02).  A trace is what              *)
(* harness/drive_archivectx.py observed when it ran the REAL extract /      *)
(* get_all_files / identify / create_context / initialize_broker /          *)
(* insights._run on one materialised input: one event per phase             *)
(*   extract  list  identify  create  seed  cleanup  same                   *)
(* Every event is judged with the REFERENCE operators of ArchiveContext     *)
(* (path segments, closest root, reverse registration order, deepest common *)
(* directory, exact broker contents, nothing outside the extraction         *)
(* directory, directory gone afterwards) - never with the transcription of  *)
(* the code's mechanism.  The listing that identification is judged on is   *)
(* the OBSERVED one (so a tool that strips an unsafe member name does not   *)
(* cascade into later events).  The first rejected event of a trace is      *)
(* recorded with the failing clause and the abstract features of the input; *)
(* validation continues with the next trace.                                *)
(***************************************************************************)
EXTENDS ArchiveContext, Json, IOUtils, TLCExt

Batch == JsonDeserialize(IOEnv.TRACE_FILE)

VARIABLES tid, l,
          seen      \* the listing observed in this trace (relative paths), or the tree's if none was observed
tvars == <<vars, tid, l, seen>>

(* the state machine of ArchiveContext is not stepped here: its variables are parked *)
Parked == /\ inp = "trace" /\ phase = "trace" /\ tmp = "none" /\ placed = {} /\ outside = {} /\ lst = {}
          /\ tried = <<>> /\ found = NoChoice /\ ctx = NoChoice /\ broker = {} /\ err = "none"

T    == Batch[tid]
Ev   == T.events[l + 1]
More == l < Len(T.events)

(* the input as the specification's record (JSON arrays -> sets) *)
InpOf(t) == [files |-> Range(t.inp.files), pack |-> t.inp.pack, wrap |-> t.inp.wrap, evil |-> t.inp.evil,
             override |-> t.inp.override, where |-> t.inp.where, inject |-> t.inp.inject, plug |-> t.inp.plug,
             mode |-> t.inp.mode, space |-> t.inp.space]
I    == InpOf(T)
X    == AnalysedDir(I)
RegT == T.registry                       \* the registry as observed in the driver process
A    == AbsOf(X, seen)

(* a root observed as "up levels above the analysed directory, then down" *)
AbsRoot(up, down) == IF up < Len(X) THEN SubSeq(X, 1, Len(X) - up) \o down ELSE <<"?">> \o down
Obs(e)            == Choice(e.cls, AbsRoot(e.up, e.down))

CTypes(pk) ==
    CASE pk = "tar" -> {"application/x-tar"}
      [] pk = "tgz" -> {"application/gzip", "application/x-gzip"}
      [] pk = "tbz" -> {"application/x-bzip2"}
      [] pk = "txz" -> {"application/x-xz"}
      [] pk = "zip" -> {"application/zip"}
      [] OTHER      -> {}

(* ---- the registry: the marker classes of context.py keep their order ---- *)
RegistryOK ==
    /\ SelectSeq(RegT, LAMBDA c : c.m # "" /\ \E k \in DOMAIN PinnedMarked : PinnedMarked[k].n = c.n) = PinnedMarked
    /\ I.plug = "on" => \E k \in DOMAIN RegT : RegT[k] = PluginRegistry[1]

(* ---- extract ---- *)
Safe == I.evil = "none" /\ I.space = "none"
ExtractAccepts ==
    /\ Ev.outside = <<>>
    /\ IsArchive(I.pack) /\ Safe => (Ev.ok /\ Ev.made /\ Ev.under /\ Ev.ctype \in CTypes(I.pack))
    /\ IsArchive(I.pack) /\ Ev.ok => (Ev.made /\ Ev.under)
    /\ I.pack = "badgz" => ~Ev.ok
    /\ I.pack = "text"  => (~Ev.ok /\ ~Ev.made /\ Ev.err = "InvalidContentType")

(* ---- list ---- *)
ListAccepts ==
    IF I.evil = "none" THEN Range(Ev.files) = TreeListing(I)
    ELSE TreeListing(I) \subseteq Range(Ev.files)

(* ---- identify: one try per class, reverse registration order, stop at the first hit ---- *)
TryOK(k) ==
    LET t == Ev.tries[k]
        c == TryOrder(RegT)[k]
        R == IF c.m = "" THEN {} ELSE RefRoots(A, X, c.m)
    IN /\ t.n = c.n
       /\ t.hit <=> (R # {})
       /\ t.hit => AbsRoot(t.up, t.down) \in Closest(R)
       /\ t.hit => k = Len(Ev.tries)
IdentifyAccepts ==
    /\ RegistryOK
    /\ Len(Ev.tries) <= Len(RegT)
    /\ \A k \in DOMAIN Ev.tries : TryOK(k)
    /\ Len(Ev.tries) < Len(RegT) => (Len(Ev.tries) > 0 /\ Ev.tries[Len(Ev.tries)].hit)
    /\ Ev.ret.ok
    /\ Obs(Ev.ret) \in RefIdent(A, X, RegT)

(* ---- create ---- *)
CreateAccepts ==
    IF seen = {} THEN ~Ev.ok /\ Ev.err = "InvalidArchive"
    ELSE /\ Ev.ok
         /\ Obs(Ev) \in RefCreate(seen, X, RegT, I.override)
         /\ IF IsClusterDir(seen) THEN Ev.af_archives ELSE Ev.af_listing

(* ---- seed ---- *)
SeedAccepts ==
    IF seen = {} THEN ~Ev.ok /\ Ev.err = "InvalidArchive"
    ELSE /\ Ev.ok
         /\ Obs(Ev) \in RefCreate(seen, X, RegT, I.override)
         /\ Range(Ev.keys) = RefBroker(A, Obs(Ev))
         /\ Ev.same_ctx /\ Ev.same_broker /\ Ev.kept /\ Ev.vals_ok

(* ---- cleanup ---- *)
CleanupAccepts ==
    /\ ~Ev.tmp_exists
    /\ Ev.outside = <<>>
    /\ Ev.made = (IF I.pack = "dir" \/ I.pack = "text" THEN 0 ELSE 1)
    /\ (I.inject = "raise" /\ Ev.left = "none") => FALSE
    /\ Ev.left \in {"none", "Injected", "InvalidArchive", "CalledProcessError", "InvalidContentType"}
    /\ Ev.left = "Injected" => I.inject = "raise"
    /\ Ev.left = "InvalidArchive" => seen = {}
    /\ Ev.left \in {"CalledProcessError", "InvalidContentType"} => (~Safe \/ I.pack \in {"badgz", "text"})

(* ---- same: the (class, root) results of all runs of this input (hash seeds x listing orders) ---- *)
SameAccepts == Len(Ev.results) <= 1

Accepts ==
    CASE Ev.ev = "extract"  -> ExtractAccepts
      [] Ev.ev = "list"     -> ListAccepts
      [] Ev.ev = "identify" -> IdentifyAccepts
      [] Ev.ev = "create"   -> CreateAccepts
      [] Ev.ev = "seed"     -> SeedAccepts
      [] Ev.ev = "cleanup"  -> CleanupAccepts
      [] Ev.ev = "same"     -> SameAccepts
      [] OTHER -> FALSE

(* ---- naming the failing clause and the abstract features of the input ---- *)
B(b, s) == IF b THEN s ELSE ""
PackTag == ":pack=" \o I.pack
EvilTag == B(I.evil # "none", ":member=" \o I.evil) \o B(I.space # "none", ":blank-in-extraction-path")
BlankTag == B(I.space = "exdirx", ":directory-named-by-the-text-before-the-blank")
(* a segment that merely starts with marker m precedes a real m segment in some listed file *)
ShadowedBy(m) ==
    \E p \in seen : \E k \in DOMAIN p : p[k] = NearMiss(m) /\ (\A j \in 1..(k - 1) : p[j] # m)
                                         /\ (\E j \in (k + 1)..Len(p) : p[j] = m)
Above(up) == up > 0
(* the known way to get a root above the analysed directory is a marker in the directory's own path *)
AboveTag  == IF I.where = "under" THEN "RootInsideInput:marker-in-path-of-analysed-directory"
             ELSE "RootInsideInput:root-above-analysed-directory"
RootDiag(cls, up, down, R) ==
    IF Above(up) THEN AboveTag
    ELSE IF AbsRoot(up, down) \in R THEN "MarkerPriority:root-not-closest"
    ELSE "MarkerPriority:wrong-root" \o B(\E m \in Markers : ShadowedBy(m), ":near-miss-before-marker")

DiagTry ==
    LET k == CHOOSE k \in DOMAIN Ev.tries : ~TryOK(k)
        t == Ev.tries[k]
        c == TryOrder(RegT)[k]
        R == IF c.m = "" THEN {} ELSE RefRoots(A, X, c.m)
    IN IF t.n # c.n THEN "MarkerPriority:classes-not-tried-in-reverse-registration-order"
       ELSE IF t.hit /\ R = {} THEN
            (IF Above(t.up) THEN AboveTag ELSE "MarkerPriority:handles-without-marker:" \o t.n)
       ELSE IF ~t.hit THEN "MarkerPriority:marker-missed" \o B(ShadowedBy(c.m), ":near-miss-before-marker")
       ELSE IF AbsRoot(t.up, t.down) \notin Closest(R) THEN RootDiag(t.n, t.up, t.down, R)
       ELSE "MarkerPriority:search-continues-after-hit"

ChoiceDiag(e, S) ==      \* e: observed [cls, up, down]; S: allowed choices
    LET o == Obs(e) IN
    IF Above(e.up) THEN AboveTag
    ELSE IF \A s \in S : s.cls # o.cls THEN
        (IF I.override # "none" /\ ~IsClusterDir(seen) THEN "OverrideWins:class"
         ELSE IF RefHits(A, X, RegT) = {} /\ ~IsClusterDir(seen) THEN "DefaultWhenNoMarker:class"
         ELSE "MarkerPriority:wrong-class" \o B(\E m \in Markers : ShadowedBy(m), ":near-miss-before-marker"))
    ELSE IF IsClusterDir(seen) THEN "ClusterRoot"
    ELSE IF RefHits(A, X, RegT) = {} THEN "DefaultWhenNoMarker:root"
    ELSE RootDiag(o.cls, e.up, e.down, RefRoots(A, X, TryOrder(RegT)[Min(RefHits(A, X, RegT))].m))

Diagnose ==
    CASE Ev.ev = "extract" ->
            IF Ev.outside # <<>> THEN "ExtractionStaysInTempDir:during-extraction" \o EvilTag \o BlankTag
            ELSE IF ~Ev.ok THEN "Extract:failed" \o PackTag \o EvilTag
            ELSE IF ~(Ev.made /\ Ev.under) THEN "Extract:not-a-fresh-directory-below-extract_dir" \o PackTag
            ELSE IF I.pack \in {"badgz", "text"} THEN "Extract:accepted-what-is-no-archive" \o PackTag
            ELSE "Extract:content-type" \o PackTag
      [] Ev.ev = "list" ->
            IF TreeListing(I) \ Range(Ev.files) # {} THEN "ListedExactly:file-missing" \o PackTag
            ELSE "ListedExactly:extra-file" \o PackTag \o B(\E p \in I.files : HasLink(p), ":link-followed-or-listed")
      [] Ev.ev = "identify" ->
            IF ~RegistryOK THEN "MarkerPriority:registration-order-of-built-in-contexts"
            ELSE IF Len(Ev.tries) > Len(RegT) THEN "MarkerPriority:classes-not-tried-in-reverse-registration-order"
            ELSE IF \E k \in DOMAIN Ev.tries : ~TryOK(k) THEN DiagTry
            ELSE IF ~(Len(Ev.tries) < Len(RegT) => (Len(Ev.tries) > 0 /\ Ev.tries[Len(Ev.tries)].hit))
                 THEN "MarkerPriority:classes-not-tried-in-reverse-registration-order"
            ELSE IF ~Ev.ret.ok THEN "Identify:raised:" \o Ev.ret.err
            ELSE ChoiceDiag(Ev.ret, RefIdent(A, X, RegT))
      [] Ev.ev = "create" ->
            IF seen = {} THEN "EmptyInput:no-InvalidArchive"
            ELSE IF ~Ev.ok THEN "Create:raised:" \o Ev.err
            ELSE IF Obs(Ev) \notin RefCreate(seen, X, RegT, I.override)
                 THEN ChoiceDiag(Ev, RefCreate(seen, X, RegT, I.override))
            ELSE "Create:all_files"
      [] Ev.ev = "seed" ->
            IF seen = {} THEN "EmptyInput:no-InvalidArchive"
            ELSE IF ~Ev.ok THEN "Seed:raised:" \o Ev.err
            ELSE IF Obs(Ev) \notin RefCreate(seen, X, RegT, I.override)
                 THEN ChoiceDiag(Ev, RefCreate(seen, X, RegT, I.override))
            ELSE IF Range(Ev.keys) # RefBroker(A, Obs(Ev)) THEN
                 (LET want == RefBroker(A, Obs(Ev))  got == Range(Ev.keys) IN
                  "BrokerSeededExactly:" \o
                  (IF Ev.cls \in want \ got THEN "context-missing"
                   ELSE IF want \ got # {} THEN "component-not-hydrated"
                   ELSE IF (got \ want) \cap Comps # {} THEN "component-of-another-directory-hydrated"
                   ELSE "extra-key") \o ":" \o (IF Ev.cls = Serialized THEN "serialized" ELSE
                                                  IF Ev.cls = Cluster THEN "cluster" ELSE "plain") \o ":mode=" \o I.mode)
            ELSE IF ~Ev.same_ctx THEN "BrokerSeededExactly:not-the-returned-context"
            ELSE IF ~Ev.same_broker \/ ~Ev.kept THEN "BrokerSeededExactly:given-broker-not-used"
            ELSE "BrokerSeededExactly:hydrated-value"
      [] Ev.ev = "cleanup" ->
            IF Ev.tmp_exists THEN
                "TempDirRemoved:" \o (IF Ev.left = "none" THEN "after-normal-exit"
                                      ELSE IF Ev.left \in {"Injected", "InvalidArchive"} THEN "after-error-in-block"
                                      ELSE "after-failed-extraction") \o EvilTag
            ELSE IF Ev.outside # <<>> THEN "ExtractionStaysInTempDir:after-cleanup" \o EvilTag \o BlankTag
            ELSE IF Ev.made # (IF I.pack = "dir" \/ I.pack = "text" THEN 0 ELSE 1) THEN "TempDir:directories-made" \o PackTag
            ELSE "Cleanup:exception-leaving-the-block:" \o Ev.left
      [] Ev.ev = "same" ->
            LET r1 == Ev.results[1]
                d  == CHOOSE k \in DOMAIN Ev.results : Ev.results[k] # r1
                r2 == Ev.results[d]
            IN "ContextDeterministic:" \o
               (IF r1[1] # r2[1] THEN "class-differs"
                ELSE "root-differs:" \o (IF r1[4] = r2[4] THEN "equal-length-roots" ELSE "different-length-roots"))
      [] OTHER -> "unknown-event"

SeenOf(t) == TreeListing(InpOf(t))

Advance ==
    IF tid < Len(Batch)
      THEN tid' = tid + 1 /\ l' = 0 /\ seen' = SeenOf(Batch[tid + 1])
      ELSE tid' = Len(Batch) + 1 /\ l' = 0 /\ UNCHANGED seen

TraceInit == tid = 1 /\ l = 0 /\ seen = SeenOf(Batch[1]) /\ Parked

TraceNext ==
    /\ tid <= Len(Batch)
    /\ UNCHANGED vars
    /\ IF ~More
         THEN TLCSet(2, TLCGet(2) + l) /\ Advance
         ELSE IF Accepts
           THEN /\ seen' = IF Ev.ev = "list" THEN Range(Ev.files)
                           ELSE IF Ev.ev = "extract" /\ ~Ev.ok THEN {} ELSE seen
                /\ l' = l + 1 /\ tid' = tid
           ELSE /\ TLCSet(1, TLCGet(1) \cup {[id |-> T.id, line |-> l + 1, clause |-> Diagnose]})
                /\ TLCSet(2, TLCGet(2) + l + 1)
                /\ Advance
TraceSpec == TraceInit /\ [][TraceNext]_tvars

ASSUME TLCSet(1, {}) /\ TLCSet(2, 0)

Post ==
    /\ \A r \in TLCGet(1) : PrintT(<<"REJ", ToJson(r)>>)
    /\ PrintT(<<"STAT", ToJson([traces |-> Len(Batch), events |-> TLCGet(2)])>>)
=============================================================================
