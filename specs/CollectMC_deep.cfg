SPECIFICATION SpecPath
CONSTANTS
  MaxLen = 7
  MaxDots = 3
  MaxHops = 40
  L1Set = {"none", "dirpre"}
  L2Set = {"none"}
  ViaSet = {"direct", "link", "deep"}
  OutSet = {"t", "w"}
  SaveAsSet = {"none", "file", "dir"}
  ContainMode = "ancestry"
  DestMode = "normalised"
  CopyMode = "content"
  CollectOrder = "configs-then-denylist"
  ObserverMode = "copied"
  DenyFactories = {}
  DenyMax = 0
INVARIANT Contained
INVARIANT WritesUnderOut
INVARIANT StepAgreesWithRun
INVARIANT RealpathIsFixpoint
INVARIANT NormalIsLexical
CONSTRAINT Emit
CHECK_DEADLOCK FALSE
