------------------------- MODULE CommandExecTrace -------------------------
(***************************************************************************)
(* Trace validation for CommandExec (X03).  A trace is what                 *)
(* harness/drive_commandexec.py observed when it ran ONE abstract call      *)
(* (every stage a generated script) through the REAL subproc.call /         *)
(* Pipeline / Pipeline.write / HostContext.shell_out / connect / a          *)
(* simple_command spec: one event per phase                                 *)
(*   timing  spawn  stdin  time  result  after                              *)
(* Every event is judged with the REFERENCE operators of CommandExec        *)
(* (RefOut, Fail, CertainFail, AllowedKeepRc, FailStatuses, RefEnv,         *)
(* RefWhich ...) - never with the transcription of the code's mechanism.    *)
(* The first rejected event of a trace is recorded with the failing clause  *)
(* and the abstract features of the case; validation continues with the     *)
(* next trace.                                                              *)
(***************************************************************************)
EXTENDS CommandExec, Json, IOUtils, TLCExt

Batch == JsonDeserialize(IOEnv.TRACE_FILE)

VARIABLES tid, l
tvars == <<vars, tid, l>>

T    == Batch[tid]
Ev   == T.events[l + 1]
More == l < Len(T.events)
K    == T.case                 \* the case, in the specification's record shape
NS   == Len(K.st)              \* the stages the driver wrote (the grep stage is the code's)

Strip(t) == [s |-> t.s, k |-> t.k, i |-> t.i]
Toks(q)  == [j \in 1..Len(q) |-> Strip(q[j])]
(* how a line that is not UTF-8 may come back: bytes as they are, text with *)
(* the offending bytes dropped, replaced or escaped (the docstring names    *)
(* only the encoding) - never an exception                                  *)
DecodeOK(q, forms) == \A j \in 1..Len(q) : IF q[j].k = "b" THEN q[j].d \in forms ELSE q[j].d = "-"
TextForms == {"ign", "rep", "esc"}
FormsOf(api) == IF TextApi(api) THEN TextForms ELSE {"raw"}

ApiGroup == CASE K.api \in {"call", "pipe", "write", "shell"} -> ":pipeline"
              [] K.api = "connect" -> ":stream"
              [] K.api = "prov"    -> ":spec"
              [] OTHER             -> ":spec-stream"
B(b, s) == IF b THEN s ELSE ""

(* ---- timing: the harness' own assumption.  Time is three instants in the model: whatever does not sleep is ---- *)
(* over long before a timeout strikes, and a call whose processes all finish is not ended by the watchdog.  On *)
(* a loaded machine a process may need longer than the (short) timeout just to start.  A first-round trace in  *)
(* which a stage that certainly runs to its end did not is not judged: the case is run again with longer times *)
(* (round 2), where every clause applies as it stands.                                                          *)
MustEnd(i) ==
    /\ ~Unstartable(K) /\ ~K.st[i].slow /\ ~Shielded(K, i)
    /\ \A j \in 1..(i - 1) : ~K.st[j].slow
TimingAccepts ==
    \/ T.round >= 2
    \/ /\ Tmo(K) => \A i \in 1..NS : MustEnd(i) => Ev.ended[i]
       /\ Ev.watchdog => (Unread(K) \/ Unstartable(K))
TimingDiag == "Assumption:" \o (IF Ev.watchdog THEN "watchdog-ended-a-call-that-should-finish" ELSE "stage-cut-short-by-a-timeout")

(* ---- spawn: what every stage saw ---- *)
RefLc == CASE K.env = "none" -> "other" [] K.env = "given" -> "unset" [] OTHER -> "C"
EnvOK(e) == LET r == RefEnv(K) IN
    /\ e.leak = r.leak /\ e.mark = r.mark /\ e.inh = r.inh /\ e.ovr = r.ovr /\ e.path = r.path /\ e.lc = RefLc
WhichOK(v) == v.which = RefWhich(K)
ViewOK(v)  == v.argv = "exact" /\ WhichOK(v) /\ EnvOK(v.env)
SpawnAccepts ==
    /\ Len(Ev.stages) = NS
    /\ \A i \in 1..NS : Ev.stages[i].started => ViewOK(Ev.stages[i])
    /\ ~Unstartable(K) => \A i \in 1..NS : Ev.stages[i].started
SpawnDiag ==
    IF Len(Ev.stages) # NS THEN "Spawn:stage-count"
    ELSE IF \E i \in 1..NS : Ev.stages[i].started /\ ~ViewOK(Ev.stages[i]) THEN
        LET i == CHOOSE i \in 1..NS : Ev.stages[i].started /\ ~ViewOK(Ev.stages[i])
            v == Ev.stages[i]  e == v.env  r == RefEnv(K) IN
        IF v.argv # "exact" THEN "NoShell:argv-" \o v.argv \o ":form=" \o K.form \o B(K.meta, ":metacharacters") \o ApiGroup
        ELSE IF ~WhichOK(v) THEN "EnvIsControlled:command-looked-up-on-PATH-of:" \o v.which \o ":env=" \o K.env \o ApiGroup
        ELSE "EnvIsControlled:" \o
             (IF e.leak # r.leak THEN "caller-variable-" \o (IF e.leak THEN "visible" ELSE "hidden")
              ELSE IF e.mark # r.mark THEN "given-variable-" \o (IF e.mark THEN "invented" ELSE "missing")
              ELSE IF e.inh # r.inh THEN "inherit_env-" \o (IF e.inh THEN "not-asked-for" ELSE "ignored")
              ELSE IF e.ovr # r.ovr THEN "override_env-" \o (IF e.ovr THEN "not-asked-for" ELSE "ignored")
              ELSE IF e.path # r.path THEN "PATH-is-" \o e.path
              ELSE "LC_ALL-is-" \o e.lc) \o ":env=" \o K.env \o ApiGroup
    ELSE "Spawn:stage-not-started" \o ApiGroup

(* ---- stdin: what every stage read ---- *)
Connected(i) ==
    (K.st[i].rd # "no" /\ ~Unstartable(K) /\ ~Racy(K) /\ ~Shielded(K, i)) =>
        /\ Toks(Ev.stages[i].toks) = (IF i = 1 THEN <<>> ELSE OutOf(K, i - 1))
        /\ DecodeOK(Ev.stages[i].toks, {"raw"})
StdinAccepts ==
    /\ Len(Ev.stages) = NS
    /\ \A i \in 1..NS : Ev.stages[i].read # "caller" /\ Connected(i)
StdinDiag ==
    IF Len(Ev.stages) # NS THEN "Stdin:stage-count"
    ELSE IF \E i \in 1..NS : Ev.stages[i].read = "caller" THEN
        LET i == CHOOSE i \in 1..NS : Ev.stages[i].read = "caller" /\ \A j \in 1..(i - 1) : Ev.stages[j].read # "caller"
        IN "NeverReadsCallerStdin:" \o (IF i = 1 THEN "first-stage" ELSE "later-stage") \o ApiGroup
    ELSE "Connected:stage-input-is-not-the-predecessors-output" \o ApiGroup

(* ---- result ---- *)
Shape == CASE K.api = "call" -> "str" [] K.api = "pipe" -> "bytes" [] K.api = "write" -> "file"
           [] K.api \in {"shell", "prov"} -> (IF K.split THEN "list" ELSE "str")
           [] OTHER -> "list"
OutMatch(q) == OutOK(K, Toks(q)) /\ DecodeOK(q, FormsOf(K.api))
CpeOK ==
    /\ Ev.xrc \in FailStatuses(K)
    /\ Ev.xcmd \in {"first", "stage", "all"}
    /\ IF K.api = "write"
         THEN /\ Ev.file = "absent"            \* "the file will be removed if an exception is raised"
              /\ \/ Ev.xout = "none"
                 \/ Ev.xout = "data" /\ (Ev.xtoks = <<>> \/ (OutOK(K, Toks(Ev.xtoks)) /\ DecodeOK(Ev.xtoks, {"raw"} \cup TextForms)))
         ELSE Ev.xout = "data" /\ OutOK(K, Toks(Ev.xtoks)) /\ DecodeOK(Ev.xtoks, {"raw"} \cup TextForms)
RetOK == Ev.shape = Shape /\ OutMatch(Ev.out) /\ (K.api = "write" => Ev.file = "present")
ResultAccepts ==
    IF Unstartable(K) THEN Ev.kind \notin {"ret", "hang"} /\ (ProvApi(K.api) => Ev.kind = "content")
    ELSE IF Ev.kind = "hang" THEN FALSE
    ELSE IF StreamApi(K.api) THEN
        /\ Ev.kind \in {"ret", "cpe", "content"}
        /\ ~Fail(K) => Ev.kind = "ret"
        /\ Ev.kind = "ret" => RetOK
    ELSE IF Ev.kind = "content" THEN K.api = "prov" /\ RefOut(K) = <<>>      \* "Do not collect empty spec"
    ELSE /\ Ev.kind \in {"ret", "cpe"}
         /\ K.keep => (Ev.kind = "ret" /\ Ev.rc \in AllowedKeepRc(K))
         /\ ~K.keep => /\ CertainFail(K) => Ev.kind = "cpe"
                       /\ Ev.kind = "cpe" => Fail(K)
                       /\ Ev.kind = "ret" => Ev.rc = "none"
         /\ Ev.kind = "ret" => RetOK
         /\ Ev.kind = "cpe" => CpeOK

HasBinRef == \E k \in DOMAIN RefOut(K) : RefOut(K)[k].k = "b"
HangTag == B(~Unstartable(K) /\ Unread(K), ":a-later-stage-never-reads") \o B(Unstartable(K), ":a-later-command-does-not-exist") \o ApiGroup
OutDiag(q, forms) ==
    IF ~OutOK(K, Toks(q)) THEN
        (IF \E j \in 1..Len(q) : q[j].k = "C" THEN "lines-from-the-callers-stdin"
         ELSE IF \E j \in 1..Len(q) : q[j].k = "?" THEN "unknown-line"
         ELSE IF Len(q) < Len(RefOut(K)) THEN "lines-missing"
         ELSE IF Len(q) > Len(RefOut(K)) THEN "extra-lines" ELSE "order-or-origin")
    ELSE "decoding:" \o (LET j == CHOOSE j \in 1..Len(q) : ~(IF q[j].k = "b" THEN q[j].d \in forms ELSE q[j].d = "-") IN q[j].d)
FailWhere ==       \* which certain failure went unnoticed
    IF DeclRc(K, N(K)) # "0" THEN "last-stage-failed"
    ELSE IF Tmo(K) /\ Stages(K)[N(K)].slow THEN "last-stage-timed-out"
    ELSE IF TimedOut(K) THEN "earlier-stage-timed-out" ELSE "earlier-stage-failed"
ResultDiag ==
    IF Unstartable(K) THEN "NotFoundIsAnError:" \o Ev.kind \o ApiGroup
    ELSE IF Ev.kind = "hang" THEN "Terminates:call-never-returns" \o HangTag
    ELSE IF StreamApi(K.api) THEN
        (IF Ev.kind \notin {"ret", "cpe", "content"} \/ (~Fail(K) /\ Ev.kind # "ret")
           THEN "StreamEqualsCall:raises:" \o Ev.kind \o B(HasBinRef, ":output-not-utf8") \o ApiGroup
         ELSE IF Ev.shape # Shape THEN "StreamEqualsCall:shape:" \o Ev.shape \o ApiGroup
         ELSE "StreamEqualsCall:" \o OutDiag(Ev.out, FormsOf(K.api)) \o ApiGroup)
    ELSE IF Ev.kind = "content" THEN "RcPolicy:content-exception-for-nonempty-output" \o ApiGroup
    ELSE IF Ev.kind \notin {"ret", "cpe"} THEN "Result:unexpected-exception:" \o Ev.kind \o B(HasBinRef, ":output-not-utf8") \o ApiGroup
    ELSE IF K.keep /\ Ev.kind # "ret" THEN "RcPolicy:keep_rc:raised" \o ApiGroup
    ELSE IF K.keep /\ Ev.rc \notin AllowedKeepRc(K) THEN
        "RcPolicy:keep_rc:status-" \o Ev.rc \o ":" \o (IF Fail(K) THEN FailWhere ELSE "nothing-failed") \o ApiGroup
    ELSE IF ~K.keep /\ CertainFail(K) /\ Ev.kind # "cpe" THEN "RcPolicy:failure-not-raised:" \o FailWhere \o ApiGroup
    ELSE IF ~K.keep /\ Ev.kind = "cpe" /\ ~Fail(K) THEN "RcPolicy:raised-without-failure" \o ApiGroup
    ELSE IF ~K.keep /\ Ev.kind = "ret" /\ Ev.rc # "none" THEN "RcPolicy:status-returned-without-keep_rc" \o ApiGroup
    ELSE IF Ev.kind = "ret" THEN
        (IF Ev.shape # Shape THEN "Result:shape:" \o Ev.shape \o ":split=" \o ToString(K.split) \o ApiGroup
         ELSE IF ~OutMatch(Ev.out) THEN "ResultIsLastStageOutput:" \o OutDiag(Ev.out, FormsOf(K.api)) \o ApiGroup
         ELSE "WriteTarget:file-" \o Ev.file)
    ELSE (IF Ev.xrc \notin FailStatuses(K) THEN "ExceptionCarriesOutput:returncode-" \o Ev.xrc \o ":" \o FailWhere \o ApiGroup
          ELSE IF Ev.xcmd \notin {"first", "stage", "all"} THEN "ExceptionCarriesOutput:cmd-" \o Ev.xcmd \o ApiGroup
          ELSE IF K.api = "write" /\ Ev.file # "absent" THEN "WriteTarget:file-left-after-exception"
          ELSE "ExceptionCarriesOutput:output-" \o (IF Ev.xout # "data" THEN Ev.xout ELSE OutDiag(Ev.xtoks, {"raw"} \cup TextForms)) \o ApiGroup)

(* ---- time ---- *)
SlowEnded == {i \in 1..NS : K.st[i].slow /\ Ev.ended[i]}
TimeAccepts ==
    /\ ~Ev.watchdog
    /\ (Tmo(K) /\ ~Unstartable(K)) => (~Ev.overran /\ SlowEnded = {})
TimeDiag ==
    IF Ev.watchdog THEN "Terminates:ended-by-the-watchdog" \o HangTag
    ELSE "TimeoutTerminates:" \o
         (IF SlowEnded = {} THEN "call-outlives-timeout"
          ELSE IF \E i \in SlowEnded : i > 1 THEN "later-stage-not-killed" ELSE "first-stage-not-killed")
         \o B(SlowEnded = {} \/ \A i \in SlowEnded : i = 1, ":tmo=" \o K.tmo) \o ApiGroup

(* ---- after: nothing is left behind ---- *)
Zero(r) == r.running = 0 /\ r.zombies = 0 /\ r.fds = 0
AfterAccepts == Zero(Ev.now) /\ Zero(Ev.settled) /\ Ev.unrestored = 0
AfterDiag ==
    IF Ev.settled.running > 0 THEN "NoLeftovers:process-still-running" \o HangTag
    ELSE IF Ev.settled.fds > 0 THEN "NoLeftovers:descriptor-left-open" \o ApiGroup
    ELSE IF Ev.settled.zombies > 0 THEN "NoLeftovers:child-never-waited-for" \o ApiGroup
    ELSE IF Ev.unrestored > 0 THEN "NoLeftovers:not-recoverable" \o ApiGroup
    ELSE "NoLeftovers:until-the-next-Popen:" \o
         (IF N(K) = 1 THEN "single-command-not-waited-for" ELSE "earlier-stages-not-waited-for") \o ApiGroup

Accepts ==
    CASE Ev.ev = "timing" -> TimingAccepts
      [] Ev.ev = "spawn"  -> SpawnAccepts
      [] Ev.ev = "stdin"  -> StdinAccepts
      [] Ev.ev = "result" -> ResultAccepts
      [] Ev.ev = "time"   -> TimeAccepts
      [] Ev.ev = "after"  -> AfterAccepts
      [] OTHER -> FALSE
Diagnose ==
    CASE Ev.ev = "timing" -> TimingDiag
      [] Ev.ev = "spawn"  -> SpawnDiag
      [] Ev.ev = "stdin"  -> StdinDiag
      [] Ev.ev = "result" -> ResultDiag
      [] Ev.ev = "time"   -> TimeDiag
      [] Ev.ev = "after"  -> AfterDiag
      [] OTHER -> "unknown-event"

(* the state machine of CommandExec is not stepped here: its variables are parked *)
Parked == /\ c = "trace" /\ mech = "trace" /\ pc = "done" /\ nsp = 0 /\ sp = <<>> /\ kx = <<>> /\ stt = <<>> /\ pipe = <<>> /\ got = <<>>
          /\ clock = 0 /\ res = NoRes /\ fin = <<>> /\ sawc = <<>> /\ view = <<>> /\ reaped = {} /\ left = {}

Advance ==
    IF tid < Len(Batch) THEN tid' = tid + 1 /\ l' = 0 ELSE tid' = Len(Batch) + 1 /\ l' = 0

TraceInit == tid = 1 /\ l = 0 /\ Parked

TraceNext ==
    /\ tid <= Len(Batch)
    /\ UNCHANGED vars
    /\ IF ~More
         THEN TLCSet(2, TLCGet(2) + l) /\ Advance
         ELSE IF Accepts
           THEN l' = l + 1 /\ tid' = tid
           ELSE /\ TLCSet(1, TLCGet(1) \cup {[id |-> T.id, line |-> l + 1, clause |-> Diagnose]})
                /\ TLCSet(2, TLCGet(2) + l + 1)
                /\ Advance
TraceSpec == TraceInit /\ [][TraceNext]_tvars

ASSUME TLCSet(1, {}) /\ TLCSet(2, 0)

Post ==
    /\ \A r \in TLCGet(1) : PrintT(<<"REJ", ToJson(r)>>)
    /\ PrintT(<<"STAT", ToJson([traces |-> Len(Batch), events |-> TLCGet(2)])>>)
=============================================================================
