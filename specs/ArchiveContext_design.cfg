SPECIFICATION Spec
CONSTANTS
  Dirs = {"a", "b", "insights_commands", "insights_commands_not"}
  Leaves = {"f", "insights_archive.txt", "n.tar.gz"}
  MaxFiles = 2
  MaxDepth = 2
  Packs = {"dir", "tar", "text", "badgz"}
  Wraps = {FALSE, TRUE}
  Evils = {"none", "dotdot"}
  Overrides = {"none", "SosArchiveContext"}
  Wheres = {"plain", "under"}
  Injects = {"none", "raise"}
  Plugs = {"none"}
  Modes = {"api"}
  Spaces = {"none", "exdir", "exdirx"}
  Mech = "intended"
  Admit = {}
INVARIANT TypeOK
INVARIANT MarkerPriority
INVARIANT TriedInOrder
INVARIANT DefaultWhenNoMarker
INVARIANT RootInsideInput
INVARIANT OverrideWins
INVARIANT CreateAllowed
INVARIANT ListedExactly
INVARIANT BrokerSeededExactly
INVARIANT ExtractionStaysInTempDir
INVARIANT TempDirRemoved
INVARIANT ContextDeterministic
INVARIANT Ends
CHECK_DEADLOCK FALSE
