SPECIFICATION Spec
CONSTANTS
  Dirs = {"a", "insights_commands_not"}
  Leaves = {"f", "n.tar.gz", "lnf", "lnd", "insights_commands", "insights_archive.txt"}
  MaxFiles = 2
  MaxDepth = 3
  Packs = {"dir"}
  Wraps = {FALSE, TRUE}
  Evils = {"none"}
  Overrides = {"none", "SosArchiveContext"}
  Wheres = {"plain"}
  Injects = {"none"}
  Plugs = {"none"}
  Modes = {"api"}
  Spaces = {"none"}
  Mech = "code"
  Admit = {}
INVARIANT TypeOK
INVARIANT MarkerPriority
INVARIANT TriedInOrder
INVARIANT DefaultWhenNoMarker
INVARIANT RootInsideInput
INVARIANT OverrideWins
INVARIANT CreateAllowed
INVARIANT ListedExactly
INVARIANT BrokerSeededExactly
INVARIANT ExtractionStaysInTempDir
INVARIANT TempDirRemoved
INVARIANT ContextDeterministic
INVARIANT Ends
CONSTRAINT Emit
CHECK_DEADLOCK FALSE
