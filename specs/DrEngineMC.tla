----------------------------- MODULE DrEngineMC -----------------------------
(* Model-checking wrapper: emits one CASE record per explored complete      *)
(* behaviour (program + schedule) for the replay driver, and provides a     *)
(* randomised Define step for -simulate (the exhaustive Define has too many *)
(* successors for TLC's simulator once all kinds/outcomes are allowed).     *)
EXTENDS DrEngine, Json

Emit ==
    phase = "done" =>
        PrintT(<<"CASE", ToJson([prog |-> prog, ss |-> ss, mode |-> mode, arch |-> arch, att |-> att])>>)

NonOpt(L) == {it \in Items(L) : it.t # "opt"}
OptIt(L)  == {it \in Items(L) : it.t = "opt"}
RandSeq(S, n) == [i \in 1..n |-> RandomElement(S)]
Pick(S)   == {RandomElement(S)}          \* a singleton: the choice is made once, then bound

DefineSim ==
    /\ phase = "define" /\ Len(prog) < N
    /\ \E k \in Pick(IF Defined = {} THEN KindSet \ {"parser"} ELSE KindSet) :
       \E o \in Pick(OutsOf(k) \cap OutSet) :
       \E n1 \in Pick(IF Defined = {} THEN {0} ELSE 0..(IF k = "parser" THEN MaxItems - 1 ELSE MaxItems)) :
       \E n2 \in Pick(IF Defined = {} \/ k = "parser" THEN {0} ELSE 0..(MaxItems - n1)) :
       \E d \in {IF k = "point" THEN <<[t |-> "grp", ds |-> RandomElement(InjSeqs(FreeDs, 0, MaxGrp))]>>
                 ELSE (IF k = "parser" THEN <<[t |-> "req", ds |-> <<RandomElement(Defined)>>]>> ELSE <<>>)
                      \o RandSeq(NonOpt(Defined), n1) \o RandSeq(OptIt(Defined), n2)} :
       \E en \in {IF AllowDisabled THEN RandomElement(1..5) # 1 ELSE TRUE},
          sd \in {IF AllowSeeded THEN RandomElement(1..5) = 1 ELSE FALSE},
          ig \in {IF AllowOutOfGraph THEN RandomElement(1..5) # 1 ELSE TRUE},
          coe \in Pick(BOOLEAN),
          ign \in Pick(IF AllowIgnore THEN {{}} \cup {{x} : x \in Seeded} ELSE {{}}) :
       \E eo \in {IF ListFed(k, d) THEN RandSeq(ElemOutSet, ListLen) ELSE <<>>} :
          DefineWith(k, o, d, en, sd, ig, IF ListFed(k, d) THEN coe ELSE TRUE, ign, eo)

NextSim == DefineSim \/ StartRun \/ (\E w \in DOMAIN cur : Take(w) \/ \E c \in Comp : Attempt(w, c)) \/ Finish
SpecSim == Init /\ [][NextSim]_vars

=============================================================================
