----------------------------- MODULE ClientState -----------------------------
(***************************************************************************)
(* Identity and registration markers of the insights client                *)
(* (insights/client/utilities.py:48-182, constants.py:44-61).              *)
(*                                                                         *)
(* State: two configuration directories ("main" = constants.default_conf_  *)
(* dir, "legacy" = /etc/redhat-access-insights), each absent / empty /     *)
(* populated; in each a ".registered" and an ".unregistered" marker that   *)
(* is absent, a regular file, a symlink to an existing file, or a dangling *)
(* symlink; the machine-id file of the main directory; the files the       *)
(* planted links point to; whether a subscription-manager identity exists; *)
(* and `cur`, the identifier the system currently has (the last one a      *)
(* client run returned, or the one stored in the identifier file).         *)
(*                                                                         *)
(* Two layers:                                                             *)
(*  - the PROPERTY (C17) is the step relation StepOK(s, a, t): five named  *)
(*    clauses over a state s, an operation a (with its returned value) and *)
(*    the next state t.  It constrains only what C17 states.               *)
(*  - the DESIGN is a deterministic transition function per operation      *)
(*    (what utilities.py is meant to do).  TLC checks that every design    *)
(*    step from every reachable state satisfies StepOK (all finite         *)
(*    histories: the state space is finite and explored completely).       *)
(* ClientStateTrace.tla checks recorded steps of the REAL code against     *)
(* StepOK.                                                                 *)
(***************************************************************************)
EXTENDS Naturals, Sequences, FiniteSets, TLC

CONSTANTS MaxFresh      \* fresh identifiers a history may consume (bounds NewId)

Dirs     == {"main", "legacy"}
Marks    == {"reg", "unreg"}
Marker   == {"absent", "file", "link", "dangling"}
DirKind  == {"absent", "empty", "populated"}
InitForms == {"canonical", "legacy", "newline", "spaced"}   \* renderings of an identifier found in a pre-existing file
                                                    \* ("spaced": white space before and after it)
(* spelling of the subscription-manager identity the host offers: none, or  *)
(* a UUID written canonically (version 4), without hyphens, in upper case,  *)
(* as a canonical-looking UUID that is not version 4 (the canonicalisation  *)
(* on return rewrites its version / variant bits), or with white space      *)
(* around it.  The code persists the identity AS SPELLED, so these are also *)
(* renderings an identifier file can end up with.                           *)
RhsmKinds == {"none", "canonical", "unhyphenated", "upper", "nonv4", "spaced"}
RhsmForm(k) == CASE k = "unhyphenated" -> "legacy" [] k = "upper" -> "upper" [] k = "nonv4" -> "nonv4"
                 [] k = "spaced" -> "spaced" [] OTHER -> "canonical"
Forms    == InitForms \cup {"upper", "nonv4", "spaced"}   \* renderings of an identifier in the file
NoFile   == [form |-> "absent", id |-> "none"]
EmptyF   == [form |-> "empty",  id |-> "none"]
Tgt0     == [live |-> "intact", dead |-> "absent"]  \* link targets: an existing file, a missing path
TgtAll0  == [d \in Dirs |-> [m \in Marks |-> Tgt0]]

ClientOps == {"ReadId", "NewId", "Register", "Unregister", "DeleteMarker"}
NoRet     == [k |-> "none", s |-> "", canon |-> TRUE]
IdRet(i)  == [k |-> "id", s |-> i, canon |-> TRUE]

Exists(s, d)  == s.dir[d] # "absent"
Present(m)    == m # "absent"                       \* os.path.lexists
IsLink(m)     == m \in {"link", "dangling"}
HasId(f)      == f.form \in Forms                   \* the file holds an identifier (is not empty)
HasRhsm(s)    == s.rhsm # "none"
MarkOf(s, m)  == IF m = "reg" THEN s.reg ELSE s.unreg
Both(s, d)    == Present(s.reg[d]) /\ Present(s.unreg[d])

(***************************************************************************)
(* C17 as a step relation.  s, t: states; a: [op, d, m, k, ret].           *)
(***************************************************************************)

(* the two markers never exist together in a directory after a register /  *)
(* unregister; no other client operation makes them coexist                *)
MarkersExclusive(s, a, t) ==
    /\ a.op \in {"Register", "Unregister"} =>
          \A d \in Dirs : Exists(t, d) => ~Both(t, d)
    /\ a.op \in ClientOps \ {"Register", "Unregister"} =>
          \A d \in Dirs : Both(t, d) => Both(s, d)

(* a symlink at a marker location is replaced by a regular file, and what   *)
(* it pointed to is neither modified, created nor removed                   *)
LinkReplaced(s, a, t) ==
    /\ a.op = "Register"   => \A d \in Dirs : (Exists(s, d) /\ IsLink(s.reg[d]))   => t.reg[d]   = "file"
    /\ a.op = "Unregister" => \A d \in Dirs : (Exists(s, d) /\ IsLink(s.unreg[d])) => t.unreg[d] = "file"
NotFollowed(s, a, t) ==
    a.op \in ClientOps => t.tgt = s.tgt
LinkReplacedNotFollowed(s, a, t) == LinkReplaced(s, a, t) /\ NotFollowed(s, a, t)

(* the identifier returned is a canonical UUID                              *)
IdCanonical(s, a, t) ==
    a.op \in {"ReadId", "NewId"} => a.ret.k = "id" /\ a.ret.canon

(* a read returns the identifier the system already has                     *)
IdStable(s, a, t) ==
    (a.op = "ReadId" /\ s.cur # "none") => (a.ret.k = "id" /\ a.ret.s = s.cur)

(* a read leaves a file that holds an identifier as it is                   *)
ReadDoesNotRewrite(s, a, t) ==
    (a.op = "ReadId" /\ HasId(s.idf)) => t.idf = s.idf

(* how the specification tracks the current identifier                      *)
CurAfter(s, a) ==
    IF a.op \in {"ReadId", "NewId"} /\ a.ret.k = "id" THEN a.ret.s ELSE s.cur

Clauses == <<"MarkersExclusive", "LinkReplacedNotFollowed", "IdCanonical", "IdStable", "ReadDoesNotRewrite">>
Holds(c, s, a, t) ==
    CASE c = "MarkersExclusive"        -> MarkersExclusive(s, a, t)
      [] c = "LinkReplacedNotFollowed" -> LinkReplacedNotFollowed(s, a, t)
      [] c = "IdCanonical"             -> IdCanonical(s, a, t)
      [] c = "IdStable"                -> IdStable(s, a, t)
      [] c = "ReadDoesNotRewrite"      -> ReadDoesNotRewrite(s, a, t)
StepOK(s, a, t) == \A i \in DOMAIN Clauses : Holds(Clauses[i], s, a, t)

(***************************************************************************)
(* Design: one deterministic function per operation.                        *)
(***************************************************************************)
Act(op, d, m, k, ret) == [op |-> op, d |-> d, m |-> m, k |-> k, ret |-> ret]

(* write_registered_file / write_unregistered_file: the opposite marker is  *)
(* deleted (the link itself, never its target), then the own marker is      *)
(* written unless a regular file is already there; links are removed first. *)
(* write_to_disk does nothing when the directory does not exist.            *)
WriteMarkerF(s, m) ==
    LET own == [d \in Dirs |-> IF Exists(s, d) /\ MarkOf(s, m)[d] # "file" THEN "file" ELSE MarkOf(s, m)[d]]
        opp == [d \in Dirs |-> "absent"]
    IN IF m = "reg" THEN [s EXCEPT !.reg = own, !.unreg = opp]
                    ELSE [s EXCEPT !.unreg = own, !.reg = opp]

DeleteMarkerF(s, m) ==
    IF m = "reg" THEN [s EXCEPT !.reg = [d \in Dirs |-> "absent"]]
                 ELSE [s EXCEPT !.unreg = [d \in Dirs |-> "absent"]]

(* environment: somebody plants a symlink (to an existing file, or dangling)*)
PlantF(s, d, m, k) ==
    IF m = "reg" THEN [s EXCEPT !.reg[d] = k] ELSE [s EXCEPT !.unreg[d] = k]

(* generate_machine_id(): reuse the file, else the identity the system      *)
(* already has, else the subscription identity, else a fresh UUID; persist  *)
(* what was chosen when there was no identifier in the file (a subscription *)
(* identity is stored as the host spells it; what is RETURNED is always the *)
(* canonical identifier, here the token).                                   *)
ReadIdent(s, fresh) ==
    IF HasId(s.idf) THEN s.idf.id
    ELSE IF s.cur # "none" THEN s.cur
    ELSE IF HasRhsm(s) THEN "rhsm" ELSE fresh
NewIdent(s, fresh) == IF HasRhsm(s) THEN "rhsm" ELSE fresh
Persist(s, i) == IF Exists(s, "main") THEN [form |-> RhsmForm(s.rhsm), id |-> i] ELSE s.idf

ReadIdF(s, fresh) ==
    LET i == ReadIdent(s, fresh) IN
    [s EXCEPT !.cur = i, !.idf = IF HasId(s.idf) THEN s.idf ELSE Persist(s, i)]
NewIdF(s, fresh) ==
    LET i == NewIdent(s, fresh) IN [s EXCEPT !.cur = i, !.idf = Persist(s, i)]

(***************************************************************************)
(* The state machine explored by TLC.                                       *)
(***************************************************************************)
VARIABLES st,       \* the state record
          act,      \* the operation that led here (with its returned value)
          nf        \* fresh identifiers consumed
vars == <<st, act, nf>>

Fresh == "f" \o ToString(nf + 1)
UsesFresh(s, op) ==
    \/ op = "NewId"  /\ ~HasRhsm(s)
    \/ op = "ReadId" /\ ~HasId(s.idf) /\ s.cur = "none" /\ ~HasRhsm(s)

IdFiles == {NoFile, EmptyF} \cup [form : InitForms, id : {"u0"}]

(* every initial state: absent / empty directories hold nothing, populated  *)
(* ones hold every combination of markers (and identifier file)             *)
InitStates ==
    { [dir |-> dk, reg |-> r, unreg |-> u, idf |-> f, tgt |-> TgtAll0, rhsm |-> h,
       cur |-> IF HasId(f) THEN f.id ELSE "none"] :
        dk \in [Dirs -> DirKind], r \in [Dirs -> Marker], u \in [Dirs -> Marker],
        f \in IdFiles, h \in RhsmKinds }
WellFormed(s) ==
    /\ \A d \in Dirs : s.dir[d] # "populated" => (s.reg[d] = "absent" /\ s.unreg[d] = "absent")
    /\ s.dir["main"] # "populated" => s.idf = NoFile

NoAct == Act("Init", "-", "-", "-", NoRet)
Init == /\ st \in {s \in InitStates : WellFormed(s)}
        /\ act = NoAct
        /\ nf = 0

ReadId ==
    /\ UsesFresh(st, "ReadId") => nf < MaxFresh
    /\ st'  = ReadIdF(st, Fresh)
    /\ act' = Act("ReadId", "-", "-", "-", IdRet(ReadIdent(st, Fresh)))
    /\ nf'  = IF UsesFresh(st, "ReadId") THEN nf + 1 ELSE nf
NewId ==
    /\ UsesFresh(st, "NewId") => nf < MaxFresh
    /\ st'  = NewIdF(st, Fresh)
    /\ act' = Act("NewId", "-", "-", "-", IdRet(NewIdent(st, Fresh)))
    /\ nf'  = IF UsesFresh(st, "NewId") THEN nf + 1 ELSE nf
Register ==
    /\ st' = WriteMarkerF(st, "reg")
    /\ act' = Act("Register", "-", "-", "-", NoRet) /\ UNCHANGED nf
Unregister ==
    /\ st' = WriteMarkerF(st, "unreg")
    /\ act' = Act("Unregister", "-", "-", "-", NoRet) /\ UNCHANGED nf
DeleteMarker(m) ==
    /\ st' = DeleteMarkerF(st, m)
    /\ act' = Act("DeleteMarker", "-", m, "-", NoRet) /\ UNCHANGED nf
PlantSymlink(d, m, k) ==
    /\ Exists(st, d)
    /\ st' = PlantF(st, d, m, k)
    /\ act' = Act("PlantSymlink", d, m, k, NoRet) /\ UNCHANGED nf

ClientStep == ReadId \/ NewId \/ Register \/ Unregister \/ \E m \in Marks : DeleteMarker(m)
EnvStep    == \E d \in Dirs, m \in Marks, k \in {"link", "dangling"} : PlantSymlink(d, m, k)
Next == ClientStep \/ EnvStep
Spec == Init /\ [][Next]_vars

(***************************************************************************)
(* What TLC checks on the design.                                           *)
(***************************************************************************)
TypeOK ==
    /\ st.dir \in [Dirs -> DirKind] /\ st.reg \in [Dirs -> Marker] /\ st.unreg \in [Dirs -> Marker]
    /\ st.idf.form \in Forms \cup {"absent", "empty"} /\ st.rhsm \in RhsmKinds
    /\ \A d \in Dirs : ~Exists(st, d) => (st.reg[d] = "absent" /\ st.unreg[d] = "absent")
    /\ ~Exists(st, "main") => st.idf = NoFile

(* action properties: every design step satisfies every clause of C17       *)
P_MarkersExclusive        == [][MarkersExclusive(st, act', st')]_vars
P_LinkReplacedNotFollowed == [][LinkReplacedNotFollowed(st, act', st')]_vars
P_IdCanonical             == [][IdCanonical(st, act', st')]_vars
P_IdStable                == [][IdStable(st, act', st')]_vars
P_ReadDoesNotRewrite      == [][ReadDoesNotRewrite(st, act', st')]_vars
P_CurTracked              == [][st'.cur = CurAfter(st, act')]_vars

(* state forms of the same claims (also evaluated on initial states)        *)
I_MarkersExclusive ==
    act.op \in {"Register", "Unregister"} => \A d \in Dirs : ~Both(st, d)
I_TargetsUntouched == st.tgt = TgtAll0
I_IdPersisted == (Exists(st, "main") /\ st.cur # "none") => (HasId(st.idf) /\ st.idf.id = st.cur)

=============================================================================
