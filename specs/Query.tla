------------------------------- MODULE Query -------------------------------
(***************************************************************************)
(* C20 - configuration-tree queries return exactly the matching nodes.     *)
(*                                                                         *)
(* A FOREST is the flat pre-order sequence of its nodes                    *)
(*     [d |-> depth, n |-> name, a |-> <<attribute values>>]               *)
(* depth 0 = a document entry (no name, no attributes); the identity of a  *)
(* node is its index (= document order).  A VALUE is a tagged record       *)
(*     [t |-> "s", s |-> <<character codes>>, i |-> 0]   a string          *)
(*     [t |-> "i", s |-> <<>>, i |-> n]                  an integer        *)
(* so that TLC never compares values of different types.                   *)
(*                                                                         *)
(* A boolean TERM is a postfix (RPN) sequence of tokens                    *)
(*     [op |-> "atom" | "and" | "or" | "not", f, ci, arg]                  *)
(* atoms: f in eq lt le gt ge contains startswith endswith boom ("boom"    *)
(* always raises), ci = case-insensitive variant, arg = a value.           *)
(*                                                                         *)
(* A QUERY is 1-3 LEVELS                                                   *)
(*     [nk |-> "any" | "lit" | "term" | "fn", nlit, nterm,                 *)
(*      am |-> "none" | "any" | "all" | "nany" | "nall",                   *)
(*      aq |-> << [k |-> "lit" | "term" | "fn", lit, term], ... >>]        *)
(* ("a"), None, a predicate, ("a", x, lt(2)), (None, all_(..)), ~any_(..). *)
(*                                                                         *)
(* Reference: Eval (interpreted truth value: a raising atom is false, and  *)
(* whether any atom raised), EvalS / Strict (a predicate inside a query:   *)
(* short-circuit evaluation, raising = not matching), Select (declarative: *)
(* the nodes reached by a chain of matching nodes, in document order),     *)
(* Roots.                                                                  *)
(***************************************************************************)
EXTENDS Naturals, Sequences, FiniteSets, TLC

Rng(s) == {s[i] : i \in DOMAIN s}
Min(S) == CHOOSE x \in S : \A y \in S : x <= y

SV(s) == [t |-> "s", s |-> s, i |-> 0]
IV(n) == [t |-> "i", s |-> <<>>, i |-> n]

(* ---- text ---- *)
\* Case mappings per character (transcribed from str.lower / str.casefold for the alphabet the driver uses;
\* the driver records the environment's mappings of every character it uses and QueryTrace compares, R4).
\* LowerC: the lower-case mapping.  FoldC: the case-FOLDING mapping, which differs from it on a few
\* "special-casing" characters: sharp s (223, capital 7838) -> "ss", final sigma 962 -> 963, ligature fi 64257 -> "fi".
LowerC(c) == IF c \in 65..90 \/ (c \in 192..222 /\ c # 215) THEN <<c + 32>> ELSE IF c = 7838 THEN <<223>> ELSE <<c>>
FoldC(c)  == CASE c = 223 \/ c = 7838 -> <<115, 115>> [] c = 962 -> <<963>> [] c = 64257 -> <<102, 105>> [] OTHER -> LowerC(c)
SpecialCasing(s) == \E k \in DOMAIN s : FoldC(s[k]) # LowerC(s[k])
RECURSIVE NormR(_, _, _)
NormR(s, i, fold) == IF i > Len(s) THEN <<>> ELSE (IF fold THEN FoldC(s[i]) ELSE LowerC(s[i])) \o NormR(s, i + 1, fold)
Lower(s) == IF \A k \in DOMAIN s : s[k] < 128 THEN [k \in DOMAIN s |-> IF s[k] \in 65..90 THEN s[k] + 32 ELSE s[k]]
            ELSE NormR(s, 1, FALSE)
CaseFold(s) == IF \A k \in DOMAIN s : s[k] < 128 THEN Lower(s) ELSE NormR(s, 1, TRUE)
IsPrefix(a, b) == Len(a) <= Len(b) /\ SubSeq(b, 1, Len(a)) = a
IsSuffix(a, b) == Len(a) <= Len(b) /\ SubSeq(b, Len(b) - Len(a) + 1, Len(b)) = a
IsSub(a, b)    == Len(a) <= Len(b) /\ \E i \in 0..(Len(b) - Len(a)) : SubSeq(b, i + 1, i + Len(a)) = a
RECURSIVE LexLess(_, _, _)          \* a < b from position i on (code point order)
LexLess(a, b, i) ==
    IF i > Len(b) THEN FALSE
    ELSE IF i > Len(a) THEN TRUE
    ELSE IF a[i] # b[i] THEN a[i] < b[i]
    ELSE LexLess(a, b, i + 1)
Less(v, w) == IF v.t = "i" THEN v.i < w.i ELSE LexLess(v.s, w.s, 1)      \* same type only

(* ---- atoms: "T" | "F" | "R" (raises).  cr = TRUE is NOT the reference: it is the *)
(* deviating reading "a case-insensitive atom raises on a non-string value", used   *)
(* only to name that deviation in rejection signatures ---- *)
\* What "case-insensitive" does to the two operands: the statement does not say which normalisation; the
\* reference reading is the lower-case mapping.  A token that carries a field `fold` (see FoldTerm; never
\* emitted, only built by the trace specification) is evaluated under the other reading, case folding.
\* The two readings differ only on text with special-casing characters (law FoldLaw).
Caseless == {"eq", "contains", "startswith", "endswith"}
AtomEval(k, v0, cr) ==
    LET N(s) == IF "fold" \in DOMAIN k THEN CaseFold(s) ELSE Lower(s)
        v == IF k.ci /\ v0.t = "s" THEN SV(N(v0.s)) ELSE v0
        a == IF k.ci /\ k.arg.t = "s" THEN SV(N(k.arg.s)) ELSE k.arg
        B(x) == IF x THEN "T" ELSE "F"
        str == v.t = "s" /\ a.t = "s"
    IN IF cr /\ k.ci /\ v0.t # "s" THEN "R"
       ELSE CASE k.f = "boom"       -> "R"
              [] k.f = "eq"         -> B(v = a)
              [] k.f = "lt"         -> IF v.t # a.t THEN "R" ELSE B(Less(v, a))
              [] k.f = "le"         -> IF v.t # a.t THEN "R" ELSE B(~Less(a, v))
              [] k.f = "gt"         -> IF v.t # a.t THEN "R" ELSE B(Less(a, v))
              [] k.f = "ge"         -> IF v.t # a.t THEN "R" ELSE B(~Less(v, a))
              [] k.f = "contains"   -> IF str THEN B(IsSub(a.s, v.s)) ELSE "R"
              [] k.f = "startswith" -> IF str THEN B(IsPrefix(a.s, v.s)) ELSE "R"
              [] k.f = "endswith"   -> IF str THEN B(IsSuffix(a.s, v.s)) ELSE "R"

(* ---- terms: [t |-> interpreted truth value, r |-> some atom raised] ---- *)
RECURSIVE EvalR(_, _, _, _, _)
EvalR(toks, i, st, v, cr) ==
    IF i > Len(toks) THEN st[Len(st)]
    ELSE LET k == toks[i]
             n == Len(st)
         IN CASE k.op = "atom" -> LET e == AtomEval(k, v, cr) IN
                                  EvalR(toks, i + 1, Append(st, [t |-> e = "T", r |-> e = "R"]), v, cr)
              [] k.op = "not"  -> EvalR(toks, i + 1, [st EXCEPT ![n] = [t |-> ~@.t, r |-> @.r]], v, cr)
              [] k.op = "and"  -> EvalR(toks, i + 1, Append(SubSeq(st, 1, n - 2),
                                        [t |-> st[n - 1].t /\ st[n].t, r |-> st[n - 1].r \/ st[n].r]), v, cr)
              [] OTHER         -> EvalR(toks, i + 1, Append(SubSeq(st, 1, n - 2),
                                        [t |-> st[n - 1].t \/ st[n].t, r |-> st[n - 1].r \/ st[n].r]), v, cr)
Eval(term, v, cr) == EvalR(term, 1, <<>>, v, cr)
Truth(term, v) == Eval(term, v, FALSE).t

\* Strict evaluation, the semantics of a predicate INSIDE A QUERY: the term is evaluated left to right
\* with short-circuit `and` / `or`; if an atom that is actually evaluated raises, the whole predicate
\* "raises" and counts as NOT MATCHING for that node / attribute (whatever negations surround the atom).
\* [t |-> value, r |-> raised]; when r is TRUE, t is meaningless.
RECURSIVE EvalSR(_, _, _, _, _)
EvalSR(toks, i, st, v, cr) ==
    IF i > Len(toks) THEN st[Len(st)]
    ELSE LET k == toks[i]
             n == Len(st)
             a == st[n - 1]
             b == st[n]
             Push2(x) == Append(SubSeq(st, 1, n - 2), x)
         IN CASE k.op = "atom" -> LET e == AtomEval(k, v, cr) IN
                                  EvalSR(toks, i + 1, Append(st, [t |-> e = "T", r |-> e = "R"]), v, cr)
              [] k.op = "not"  -> EvalSR(toks, i + 1, [st EXCEPT ![n] = [t |-> ~@.t, r |-> @.r]], v, cr)
              [] k.op = "and"  -> EvalSR(toks, i + 1,
                                         Push2(IF a.r THEN a ELSE IF ~a.t THEN [t |-> FALSE, r |-> FALSE] ELSE b), v, cr)
              [] OTHER         -> EvalSR(toks, i + 1,
                                         Push2(IF a.r THEN a ELSE IF a.t THEN [t |-> TRUE, r |-> FALSE] ELSE b), v, cr)
EvalS(term, v, cr) == EvalSR(term, 1, <<>>, v, cr)
Raises(term, v)    == EvalS(term, v, FALSE).r
Strict(term, v, cr) == LET e == EvalS(term, v, cr) IN e.t /\ ~e.r

\* What a stand-alone evaluator (interpreted test() or compiled to_pyfunc()) may answer for a TERM: the
\* truth value when no atom raises (CompiledEqualsInterpreted); when some atom raises on the value the
\* statement is silent about the truth value of the term as such (it only speaks about queries, see
\* Strict): either the interpreted value or FALSE is accepted.
Allowed(term, v, cr) == LET e == Eval(term, v, cr) IN IF e.r THEN {e.t, FALSE} ELSE {e.t}

(* ---- one level of a query against one node.  sem = "strict": the specification (a raising   *)
(* predicate does not match); sem = "interp": the DEVIATING reading "a raising atom is false,  *)
(* then the boolean algebra applies" (a negated raising atom matches), evaluated only to NAME  *)
(* that deviation in rejection signatures ---- *)
TermM(term, v, sem, cr) == IF sem = "strict" THEN Strict(term, v, cr) ELSE Eval(term, v, cr).t

ElemM(e, v, sem, cr) == IF e.k = "lit" THEN v = e.lit ELSE TermM(e.term, v, sem, cr)

AttrM(q, nd, sem, cr) ==
    CASE q.am = "none" -> TRUE
      [] q.am = "any"  -> \E i \in DOMAIN nd.a : \E j \in DOMAIN q.aq : ElemM(q.aq[j], nd.a[i], sem, cr)
      [] q.am = "all"  -> \A i \in DOMAIN nd.a : ElemM(q.aq[1], nd.a[i], sem, cr)
      [] q.am = "nany" -> ~\E i \in DOMAIN nd.a : ElemM(q.aq[1], nd.a[i], sem, cr)
      [] OTHER         -> ~\A i \in DOMAIN nd.a : ElemM(q.aq[1], nd.a[i], sem, cr)

NameM(q, nd, sem, cr) ==
    CASE q.nk = "any" -> TRUE
      [] q.nk = "lit" -> nd.n = q.nlit
      [] OTHER        -> TermM(q.nterm, SV(nd.n), sem, cr)

Match(q, nd, sem, cr) == NameM(q, nd, sem, cr) /\ AttrM(q, nd, sem, cr)

(* ---- forests ---- *)
Span(F, i) ==
    LET later == {m \in (i + 1)..Len(F) : F[m].d <= F[i].d}
    IN IF later = {} THEN Len(F) ELSE Min(later) - 1
Children(F, i) == {m \in (i + 1)..Span(F, i) : F[m].d = F[i].d + 1}
Subtree(F, i)  == i..Span(F, i)
Parent(F, i)   == CHOOSE m \in 1..(i - 1) : i \in Children(F, m)          \* F[i].d > 0
RootOf(F, i)   == CHOOSE m \in 1..i : F[m].d = 0 /\ i \in Subtree(F, m)   \* ultimate ancestor

Sorted(S) ==          \* a finite set of naturals as an increasing sequence
    LET RECURSIVE Srt(_)
        Srt(X) == IF X = {} THEN <<>> ELSE <<Min(X)>> \o Srt(X \ {Min(X)})
    IN Srt(S)

(* ---- Select: the receiver's candidates are the children of the nodes `recv`   *)
(* (a document, several documents, or the nodes of an earlier result); `deep`    *)
(* adds all their descendants.  A node is selected iff it ends a chain           *)
(* m1, ..., mk (each the child of the previous one) with m1 a candidate and      *)
(* mj matching level j. ---- *)
Cands(F, recv, deep) ==
    LET top == UNION {Children(F, x) : x \in Rng(recv)}
    IN IF deep THEN UNION {Subtree(F, c) : c \in top} ELSE top

RECURSIVE Narrow(_, _, _, _, _, _)
Narrow(F, S, qs, j, sem, cr) ==       \* S: candidates of level j
    LET R == {m \in S : Match(qs[j], F[m], sem, cr)}
    IN IF j = Len(qs) THEN R
       ELSE Narrow(F, UNION {Children(F, m) : m \in R}, qs, j + 1, sem, cr)

SelectSet(F, recv, qs, deep, sem, cr) == Narrow(F, Cands(F, recv, deep), qs, 1, sem, cr)
Select(F, recv, qs, deep) == Sorted(SelectSet(F, recv, qs, deep, "strict", FALSE))      \* document order
RootsOf(F, S) == {RootOf(F, m) : m \in S}

\* the level-by-level formulation on LISTS (what "narrowing" literally does): matches of a
\* level in candidate order, then their children in that order
RECURSIVE NarrowSeq(_, _, _, _)
CatKids(F, ms) == LET RECURSIVE C(_)
                      C(i) == IF i > Len(ms) THEN <<>> ELSE Sorted(Children(F, ms[i])) \o C(i + 1)
                  IN C(1)
NarrowSeq(F, cs, qs, j) ==
    LET R == SelectSeq(cs, LAMBDA m : Match(qs[j], F[m], "strict", FALSE))
    IN IF j = Len(qs) THEN R ELSE NarrowSeq(F, CatKids(F, R), qs, j + 1)
SelectOp(F, recv, qs, deep) == NarrowSeq(F, Sorted(Cands(F, recv, deep)), qs, 1)

\* some level's matches contain a node and one of its descendants (only possible when deep)
RECURSIVE NestedAt(_, _, _, _)
NestedAt(F, S, qs, j) ==
    LET R == {m \in S : Match(qs[j], F[m], "strict", FALSE)}
    IN IF j = Len(qs) THEN FALSE
       ELSE (\E m1, m2 \in R : m1 # m2 /\ m2 \in Subtree(F, m1))
            \/ NestedAt(F, UNION {Children(F, m) : m \in R}, qs, j + 1)
Nested(F, recv, qs, deep) == NestedAt(F, Cands(F, recv, deep), qs, 1)

(* ---- laws on the reference ---- *)
Increasing(s) == \A i, j \in DOMAIN s : i < j => s[i] < s[j]

\* the literal level-by-level narrowing yields document order, except for a deep query of
\* two or more levels whose intermediate matches are nested (there it is grouped by parent)
DocumentOrder(F, recv, qs, deep) ==
    LET op == SelectOp(F, recv, qs, deep) IN
    /\ Rng(op) = SelectSet(F, recv, qs, deep, "strict", FALSE)
    /\ Len(op) = Cardinality(Rng(op))
    /\ ~Nested(F, recv, qs, deep) => op = Select(F, recv, qs, deep)

RootsDedup(F, recv, qs, deep) ==
    LET S == SelectSet(F, recv, qs, deep, "strict", FALSE)
        R == RootsOf(F, S)
    IN /\ \A r \in R : F[r].d = 0 /\ \E m \in S : m \in Subtree(F, r)
       /\ \A m \in S : \E r \in R : m \in Subtree(F, r)
       /\ R \subseteq Rng(recv) \cup {RootOf(F, x) : x \in Rng(recv)}

\* a node on which a predicate of the query raises is never selected through that predicate: for a
\* one-level query made of ONE Boolean predicate (name position, or the only alternative of the
\* attribute position of a node with one attribute) raising means not selected
RaisingNeverMatches(F, recv, qs, deep) ==
    Len(qs) = 1 =>
        \A m \in SelectSet(F, recv, qs, deep, "strict", FALSE) :
            /\ qs[1].nk \in {"term", "fn"} => ~Raises(qs[1].nterm, SV(F[m].n))
            /\ (qs[1].am = "any" /\ Len(qs[1].aq) = 1 /\ qs[1].aq[1].k # "lit" /\ Len(F[m].a) = 1)
                   => ~Raises(qs[1].aq[1].term, F[m].a[1])
\* strict and interpreted evaluation agree when no atom raises; a strict raise needs a raising atom
StrictLaw(t, v) ==
    /\ ~Eval(t, v, FALSE).r => (Strict(t, v, FALSE) = Truth(t, v) /\ ~Raises(t, v))
    /\ Raises(t, v) => Eval(t, v, FALSE).r /\ ~Strict(t, v, FALSE)

\* boolean algebra of the interpreted truth value
Not(t)    == Append(t, [op |-> "not", f |-> "", ci |-> FALSE, arg |-> IV(0)])
And(t, u) == t \o Append(u, [op |-> "and", f |-> "", ci |-> FALSE, arg |-> IV(0)])
Or(t, u)  == t \o Append(u, [op |-> "or", f |-> "", ci |-> FALSE, arg |-> IV(0)])
Algebra(t, u, v) ==
    /\ Truth(Not(Not(t)), v) = Truth(t, v)
    /\ Truth(Not(And(t, u)), v) = Truth(Or(Not(t), Not(u)), v)
    /\ Truth(And(t, u), v) = Truth(And(u, t), v)
    /\ Truth(Or(t, u), v) = (Truth(t, v) \/ Truth(u, v))
    /\ Eval(And(t, u), v, FALSE).r = (Eval(t, v, FALSE).r \/ Eval(u, v, FALSE).r)
\* Boolean OBJECTS.  A program holds predicate objects and builds new ones from them (a & b, a | b, ~a); an
\* object may serve as an operand any number of times and be used as a query before and after.  A store is the
\* sequence of the terms the objects were built as: a combination is a NEW object, the operands stay what they
\* were (the truth value of a query is that of the term as written, whatever was built from it later).
Compose(op, x, y) == CASE op = "not" -> Not(x) [] op = "and" -> And(x, y) [] OTHER -> Or(x, y)
Combine(store, op, i, j) == Append(store, Compose(op, store[i], store[j]))
ReuseLaw(b, u, op, side, v) ==
    LET st0 == <<b, u>>
        st1 == IF side = "left" THEN Combine(st0, op, 1, 2) ELSE Combine(st0, op, 2, 1)
        x   == IF side = "left" THEN b ELSE u
        y   == IF side = "left" THEN u ELSE b
    IN /\ SubSeq(st1, 1, 2) = st0
       /\ Truth(st1[3], v) = (CASE op = "not" -> ~Truth(x, v)
                                [] op = "and" -> Truth(x, v) /\ Truth(y, v)
                                [] OTHER      -> Truth(x, v) \/ Truth(y, v))

\* the case-folding reading of a term / of the levels of a query
FoldTerm(term) == [i \in DOMAIN term |-> [op |-> term[i].op, f |-> term[i].f, ci |-> term[i].ci, arg |-> term[i].arg,
                                          fold |-> TRUE]]
FoldLevel(q) == [nk |-> q.nk, nlit |-> q.nlit, nterm |-> FoldTerm(q.nterm), am |-> q.am,
                 aq |-> [m \in DOMAIN q.aq |-> [k |-> q.aq[m].k, lit |-> q.aq[m].lit, term |-> FoldTerm(q.aq[m].term)]]]
FoldQs(qs) == [j \in DOMAIN qs |-> FoldLevel(qs[j])]
TermSpecial(term) == \E i \in DOMAIN term : term[i].op = "atom" /\ term[i].arg.t = "s" /\ SpecialCasing(term[i].arg.s)
\* the two readings of caselessness agree on text without special-casing characters
FoldLaw(t, v) == (~TermSpecial(t) /\ (v.t = "s" => ~SpecialCasing(v.s))) => Eval(FoldTerm(t), v, FALSE) = Eval(t, v, FALSE)

\* a case-insensitive atom is the plain atom on lower-cased operands; on a non-string value it
\* is the plain atom (requirement CompiledEqualsInterpreted: no evaluator may deviate from Truth
\* when Eval(..).r is FALSE)
CaselessLaw(k, v) ==
    k.ci => AtomEval(k, v, FALSE) =
            AtomEval([k EXCEPT !.ci = FALSE, !.arg = IF @.t = "s" THEN SV(Lower(@.s)) ELSE @],
                     IF v.t = "s" THEN SV(Lower(v.s)) ELSE v, FALSE)
=============================================================================
