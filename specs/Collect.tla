------------------------------- MODULE Collect -------------------------------
(***************************************************************************)
(* Host collection of insights-core: where file datasources may read, what  *)
(* the deny list forbids, where serialisation may write                      *)
(* (insights/core/spec_factory.py, insights/core/blacklist.py,               *)
(*  insights/collect.py apply_blacklist, insights/core/serde.py).            *)
(*                                                                         *)
(* Three sub-models share this module.                                      *)
(*                                                                         *)
(*  PathResolve   a small file-system tree (directories, regular files,     *)
(*                symbolic links with relative / absolute / dangling /      *)
(*                looping targets).  A path is a sequence over names and    *)
(*                "..".  ResolveStep consumes one segment with POSIX        *)
(*                semantics (a link is replaced by its target, a hop budget *)
(*                bounds link following, ".." is taken in the directory     *)
(*                REACHED, not in the text).  A behaviour extends a path    *)
(*                one segment at a time, so TLC enumerates every path of    *)
(*                the bounded length over every layout.                     *)
(*  Destinations  Persist: where the serialised copy of a yielded provider  *)
(*                is created: outdir/data (+) rel(save_as, path), resolved  *)
(*                by the same ResolveStep in "create" mode (mkdir -p).      *)
(*  DenyList      apply_blacklist (symbolic names disable components, every *)
(*                other entry becomes a path / command entry) and the       *)
(*                candidate items of the nine declarative factories.        *)
(*                                                                         *)
(* Properties (C06): Contained, WritesUnderOut, DenyRespected.              *)
(*                                                                         *)
(* ContainMode / DestMode select the SPECIFIED behaviour ("ancestry",       *)
(* "normalised") or a transcription of what a prefix comparison on rendered *)
(* paths / an un-normalised join does ("textual", "joined"); the latter two *)
(* exist so that TLC can show that the invariants are able to fail.         *)
(***************************************************************************)
EXTENDS Naturals, Sequences, FiniteSets, TLC, SequencesExt

CONSTANTS
    MaxLen,        \* path length (segments)
    MaxDots,       \* ".." segments per path
    MaxHops,       \* symbolic-link hop budget (ELOOP beyond)
    L1Set,         \* targets explored for link l1 (in root/), names of TargetOf
    L2Set,         \* targets explored for link l2 (in root/d/)
    ViaSet,        \* the context root: "direct" (t/root) | "link" (t/rl -> root) | "deep" (t/root/d)
    OutSet,        \* where the output directory lives: "t" (W/t/out) | "w" (W/out)
    SaveAsSet,     \* "none" | "file" | "dir"
    ContainMode,   \* "ancestry" | "textual"
    DestMode,      \* "normalised" | "joined" | "unstripped" (a leading '/' of save_as survives the factory)
                   \* | "mangle32" (only the first 32 '/' of a command line are turned into '.')
    CopyMode,      \* "content": a persisted raw file is a copy of the content (specified) | "preserve": the
                   \* object is copied as it is, so a path that ends in a symlink is persisted as a symlink
    CollectOrder,  \* insights.collect.collect(): "configs-then-denylist" (specified: the deny list is applied after
                   \* the manifest's component configuration) | "denylist-then-configs"
    ObserverMode,  \* "copied": every Broker has its own observer sets (specified) | "shared": a Broker shares them
                   \* with the process-wide table, so the persister of an earlier collect() run is still attached
    DenyFactories, \* factories explored by the DenyList sub-model
    DenyMax        \* entries per deny list

VARIABLES
    sub,       \* which sub-model this behaviour belongs to: "path" | "deny"
    lay,       \* layout: [fs, root, out]
    path,      \* segments chosen so far (relative to the context root)
    w,         \* walk state
    yielded,   \* the provider for `path` was yielded
    written,   \* set of locations (name sequences from Top) created by Persist
    dn         \* DenyList sub-model state

vars == <<sub, lay, path, w, yielded, written, dn>>

-----------------------------------------------------------------------------
(* File-system trees.  fs is a sequence of nodes, fs[i] =                    *)
(* [k : "dir"|"file"|"link"|"none", p : parent id, n : name, abs, segs].     *)
(* Node 1 is Top (its own parent).  Absolute link targets are relative to   *)
(* Top: the model does not look above the scratch directory W.              *)
Top == 1
N(k, p, n)          == [k |-> k, p |-> p, n |-> n, abs |-> FALSE, segs |-> <<>>]
Lnk(p, n, abs, sg)  == [k |-> "link", p |-> p, n |-> n, abs |-> abs, segs |-> sg]
Gone                == [k |-> "none", p |-> 1, n |-> "-", abs |-> FALSE, segs |-> <<>>]

Rel(sg) == [abs |-> FALSE, segs |-> sg]
Abs(sg) == [abs |-> TRUE, segs |-> sg]
TargetOf ==
    [ infile  |-> Rel(<<"d", "g">>),
      parent  |-> Rel(<<"..">>),
      absin   |-> Abs(<<"t", "root", "d", "g">>),
      absdir  |-> Abs(<<"t", "root", "d">>),
      abspre  |-> Abs(<<"t", "root2", "s">>),
      absoth  |-> Abs(<<"t", "other", "u">>),
      relpre  |-> Rel(<<"..", "root2", "s">>),
      reloth  |-> Rel(<<"..", "other", "u">>),
      dirpre  |-> Rel(<<"..", "root2">>),
      diroth  |-> Rel(<<"..", "other">>),
      dangling|-> Rel(<<"nx">>),
      loop    |-> Rel(<<"l1">>),
      chain   |-> Rel(<<"..", "l1">>),
      up2pre  |-> Rel(<<"..", "..", "root2", "s">>),
      uptf    |-> Rel(<<"..", "..", "tf">>),
      selfdir |-> Rel(<<".">>) ]

MkLink(p, n, tn) == IF tn = "none" THEN Gone ELSE Lnk(p, n, TargetOf[tn].abs, TargetOf[tn].segs)

(* The tree:  W/t/{root/{f, d/{g, l2}, l1}, root2/s, other/u, tf, rl -> root, out}   *)
Tree(t1, t2, out) ==
    << N("dir", 1, ""),        \*  1  W (Top)
       N("dir", 1, "t"),       \*  2  the directory holding the context root
       N("dir", 2, "root"),    \*  3  the context root R
       N("dir", 2, "root2"),   \*  4  sibling whose name has R's name as a prefix
       N("dir", 2, "other"),   \*  5  unrelated sibling
       N("file", 2, "tf"),     \*  6  file next to the root
       N("file", 3, "f"),      \*  7
       N("dir", 3, "d"),       \*  8
       N("file", 8, "g"),      \*  9
       N("file", 4, "s"),      \* 10
       N("file", 5, "u"),      \* 11
       N("dir", IF out = "t" THEN 2 ELSE 1, "out"),   \* 12  output directory
       MkLink(3, "l1", t1),    \* 13
       MkLink(8, "l2", t2),    \* 14
       Lnk(2, "rl", FALSE, <<"root">>) >>             \* 15
OutNode == 12

Layouts ==
    { [fs |-> Tree(t1, t2, o), root |-> CASE v = "link" -> <<"t", "rl">> [] v = "deep" -> <<"t", "root", "d">> [] OTHER -> <<"t", "root">>,
       out |-> OutNode, l1 |-> t1, l2 |-> t2, via |-> v, outat |-> o]
        : t1 \in L1Set, t2 \in L2Set, v \in ViaSet, o \in OutSet }

Child(fs, c, s) ==
    LET S == {i \in DOMAIN fs : i # Top /\ fs[i].k # "none" /\ fs[i].p = c /\ fs[i].n = s}
    IN IF S = {} THEN 0 ELSE CHOOSE i \in S : TRUE

RECURSIVE IsDesc(_, _, _)
IsDesc(fs, n, a) == n = a \/ (n # Top /\ IsDesc(fs, fs[n].p, a))     \* ancestry, never text

RECURSIVE Loc(_, _)
Loc(fs, n) == IF n = Top THEN <<>> ELSE Append(Loc(fs, fs[n].p), fs[n].n)

-----------------------------------------------------------------------------
(* The walk.  w = [cur, rest, hops, status, virt, create].                   *)
(* virt: names below cur that do not exist yet (create mode only).          *)
Walk(cur, rest, create) ==
    [cur |-> cur, rest |-> rest, hops |-> 0, status |-> "ok", virt |-> <<>>, create |-> create]

StepFn(fs, x) ==
    LET s  == Head(x.rest)
        tl == Tail(x.rest)
    IN
    IF x.virt # <<>> THEN
        IF s = ".." THEN [x EXCEPT !.virt = Front(@), !.rest = tl]
        ELSE IF s = "." THEN [x EXCEPT !.rest = tl]
        ELSE [x EXCEPT !.virt = Append(@, s), !.rest = tl]
    ELSE IF fs[x.cur].k = "file" THEN [x EXCEPT !.status = "enotdir"]
    ELSE IF s = "." THEN [x EXCEPT !.rest = tl]
    ELSE IF s = ".." THEN
        IF x.cur = Top THEN [x EXCEPT !.status = "abovetop"]
        ELSE [x EXCEPT !.cur = fs[x.cur].p, !.rest = tl]
    ELSE LET c == Child(fs, x.cur, s) IN
        IF c = 0 THEN
            IF x.create THEN [x EXCEPT !.virt = <<s>>, !.rest = tl]
            ELSE [x EXCEPT !.status = "enoent"]
        ELSE IF fs[c].k = "link" THEN
            IF x.hops >= MaxHops THEN [x EXCEPT !.status = "eloop"]
            ELSE [x EXCEPT !.hops = @ + 1, !.rest = fs[c].segs \o tl,
                           !.cur = IF fs[c].abs THEN Top ELSE @]
        ELSE [x EXCEPT !.cur = c, !.rest = tl]

Stopped(x) == x.rest = <<>> \/ x.status # "ok"

RECURSIVE Run(_, _)
Run(fs, x) == IF Stopped(x) THEN x ELSE Run(fs, StepFn(fs, x))

Resolve(l, p)   == Run(l.fs, Walk(Top, l.root \o p, FALSE))       \* real location of root (+) p
RootNode(l)     == Resolve(l, <<>>).cur
WalkLoc(fs, x)  == Loc(fs, x.cur) \o x.virt

-----------------------------------------------------------------------------
(* Containment.                                                             *)
Chars ==
    [ t |-> <<"t">>, root |-> <<"r", "o", "o", "t">>, root2 |-> <<"r", "o", "o", "t", "2">>,
      other |-> <<"o", "t", "h", "e", "r">>, tf |-> <<"t", "f">>, f |-> <<"f">>, d |-> <<"d">>,
      g |-> <<"g">>, s |-> <<"s">>, u |-> <<"u">>, out |-> <<"o", "u", "t">>,
      l1 |-> <<"l", "1">>, l2 |-> <<"l", "2">>, rl |-> <<"r", "l">> ]
RECURSIVE Render(_)
Render(loc) == IF loc = <<>> THEN <<>> ELSE Render(Front(loc)) \o <<"/">> \o Chars[Last(loc)]

Inside(l, n) ==
    IF ContainMode = "ancestry" THEN IsDesc(l.fs, n, RootNode(l))
    ELSE IsPrefix(Render(Loc(l.fs, RootNode(l))), Render(Loc(l.fs, n)))     \* a prefix test on text

(* Which region of the tree a node lies in (used in diagnoses).             *)
Region(l, n) ==
    IF IsDesc(l.fs, n, RootNode(l)) THEN "inside"
    ELSE IF IsDesc(l.fs, n, 4) THEN "prefix-sibling"
    ELSE IF IsDesc(l.fs, n, 5) THEN "unrelated-sibling"
    ELSE IF IsDesc(l.fs, n, l.out) THEN "output-dir"
    ELSE IF n = 6 THEN "parent-dir-file"
    ELSE "elsewhere-above-root"

-----------------------------------------------------------------------------
(* Destinations.                                                            *)
RECURSIVE Normal(_, _)
Normal(sg, acc) ==                     \* lexical normalisation of a RELATIVE location, clamped at its base
    IF sg = <<>> THEN acc
    ELSE IF Head(sg) = "." THEN Normal(Tail(sg), acc)
    ELSE IF Head(sg) = ".." THEN Normal(Tail(sg), IF acc = <<>> THEN acc ELSE Front(acc))
    ELSE Normal(Tail(sg), Append(acc, Head(sg)))

RelOf(sa, p) ==
    CASE sa = "none" -> p
      [] sa = "file" -> <<"sv", "x">>
      [] sa = "dir"  -> <<"sv", Last(p)>>

DstSegs(sa, p) == IF DestMode = "normalised" THEN Normal(RelOf(sa, p), <<>>) ELSE RelOf(sa, p)

DstWalk(l, sg) == Run(l.fs, [Walk(l.out, sg, TRUE) EXCEPT !.virt = <<"data">>])

(* Two specs may persist the SAME relative path (the same file collected    *)
(* raw by one spec and as text by another).  If the first one left a        *)
(* symlink at the destination, the second one's open(dst, "wb") writes      *)
(* through it: where that lands.                                            *)
LastNode(l, p) ==                      \* the object the last segment of the path names, links not followed
    LET pr == Resolve(l, Front(p)) IN
    IF pr.status = "ok" /\ l.fs[pr.cur].k = "dir" /\ Last(p) \notin {"..", "."} THEN Child(l.fs, pr.cur, Last(p)) ELSE 0
SecondWrite(l, sg, p) ==
    LET n == LastNode(l, p) IN
    IF CopyMode = "preserve" /\ n # 0 /\ l.fs[n].k = "link" /\ sg # <<>>
      THEN {IF l.fs[n].abs THEN WalkLoc(l.fs, Run(l.fs, Walk(Top, l.fs[n].segs, TRUE)))
            ELSE WalkLoc(l.fs, DstWalk(l, Front(sg) \o l.fs[n].segs))}
      ELSE {}
DstLoc(l, sg)  == WalkLoc(l.fs, DstWalk(l, sg))
UnderOut(l, loc) == IsPrefix(Loc(l.fs, l.out), loc)

-----------------------------------------------------------------------------
(* DenyList.  Strings are sequences of words (the documented match is       *)
(* "equal, or followed by a space", i.e. a word-wise prefix); a file entry  *)
(* matches by equality only (Reading in DESIGN.md section 5, C06).          *)
AllFactories == {"simple_file", "glob_file", "first_file", "foreach_collect", "simple_command",
                 "command_with_args", "foreach_execute", "container_execute", "container_collect"}
FileFactories == {"simple_file", "glob_file", "first_file", "foreach_collect"}
SingleItem    == {"simple_file", "simple_command", "command_with_args"}
NItems(f)     == IF f \in SingleItem THEN 1 ELSE IF f \in FileFactories THEN 4 ELSE 3

(* Candidate items.  Strings are opaque to the model; their CLASS is what   *)
(* the cases range over: plain, containing a blank, containing characters  *)
(* that are special in regular expressions, and -- for commands -- an       *)
(* argument that is a deep path (40 segments, then 12 ".." segments).       *)
FileWords == << <<"/x/ab">>, <<"/x/my", "b">>, <<"/x/c+(1).repo">>, <<"/x/sub/../nn">> >>   \* the 4th is not in shortest form
FileBase  == <<"ab", "my b", "c+(1).repo", "nn">>
DeepArg   == "/n/n/n/n/n/n/n/n/n/n/n/n/n/n/n/n/n/n/n/n/n/n/n/n/n/n/n/n/n/n/n/n/n/n/n/n/n/n/n/n" \o
             "/../../../../../../../../../../../../esc"
CmdArgs   == <<"ab", DeepArg, "a+b(c)">>
Classes   == <<"plain", "blank", "meta", "nonnormal">>
CmdClasses == <<"plain", "deep", "meta">>
CPaths    == <<"/x/ab", "/x/b", "/x/a+b(c)">>
Item(f, i) ==
    CASE f \in FileFactories        -> [t |-> "file", w |-> FileWords[i], cls |-> Classes[i]]
      [] f = "container_execute"   -> [t |-> "cmd", w |-> <<"/usr/bin/podman", "exec", "k" \o ToString(i), "ls", "-l", CmdArgs[i]>>,
                                       cls |-> CmdClasses[i]]
      [] f = "container_collect"   -> [t |-> "cmd", w |-> <<"/usr/bin/podman", "exec", "k" \o ToString(i), "cat", CPaths[i]>>,
                                       cls |-> Classes[IF i = 2 THEN 1 ELSE i]]
      [] OTHER                     -> [t |-> "cmd", w |-> <<"/bin/echo", CmdArgs[i]>>, cls |-> CmdClasses[i]]

(* Entries a user may write.  Distractors: a textual (not word-wise) prefix, *)
(* a longer command, an identifier that names no component.                 *)
FileEntries(f) == {Item(f, i).w : i \in 1..4} \cup {<<"/x/a">>, <<"/x/my">>, <<"/x/nn">>, <<"nosuchspec">>}
CmdEntries(f)  ==
    {Item(f, i).w : i \in 1..3} \cup
    {<<Item(f, 1).w[1]>>, SubSeq(Item(f, 1).w, 1, Len(Item(f, 1).w) - 1),
     Item(f, 1).w \o <<"z">>, <<"/bin/ech">>, <<"nosuchspec">>}

(* symbolic names (insights.specs.default.DefaultSpecs.<n>); three of them contain digits *)
KnownSpecs == {"hosts", "fstab", "date", "grub2_cfg", "x86_pti_enabled", "wc_proc_1_mountinfo"}
SpecItem(n) == CASE n = "hosts" -> [t |-> "file", w |-> <<"/etc/hosts">>, cls |-> "plain"]
                 [] n = "fstab" -> [t |-> "file", w |-> <<"/etc/fstab">>, cls |-> "plain"]
                 [] n = "date"  -> [t |-> "cmd",  w |-> <<"/bin/date">>, cls |-> "plain"]
                 [] n = "grub2_cfg" -> [t |-> "file", w |-> <<"/boot/grub2/grub.cfg">>, cls |-> "digit-name"]
                 [] n = "x86_pti_enabled" -> [t |-> "file", w |-> <<"/sys/kernel/debug/x86/pti_enabled">>, cls |-> "digit-name"]
                 [] n = "wc_proc_1_mountinfo" -> [t |-> "cmd", w |-> <<"/usr/bin/wc", "-l", "/proc/1/mountinfo">>, cls |-> "digit-name"]
OtherSpec(n) == CASE n = "hosts" -> "grub2_cfg" [] n = "grub2_cfg" -> "hosts" [] n = "fstab" -> "x86_pti_enabled"
                  [] n = "x86_pti_enabled" -> "wc_proc_1_mountinfo" [] n = "date" -> "fstab" [] OTHER -> "date"
FullName(n) == "insights.specs.default.DefaultSpecs." \o n

IsIdent(e) == Len(e) = 1 /\ e[1] \in KnownSpecs \cup {"nosuchspec"}

(* What the USER denied (the property): on the configuration as written.    *)
DeniedByUser(cfg, comp, it) ==
    \/ comp # "" /\ (<<comp>> \in cfg.files \cup cfg.commands \/ FullName(comp) \in cfg.comps)
    \/ it.t = "file" /\ it.w \in cfg.files
    \/ it.t = "cmd" /\ \E e \in cfg.commands : IsPrefix(e, it.w)

(* apply_blacklist: what the configuration is translated into.              *)
Translate(cfg) ==
    LET sym(E) == {e \in E : IsIdent(e) /\ e[1] \in KnownSpecs} IN
    [ files    |-> cfg.files \ sym(cfg.files),
      commands |-> cfg.commands \ sym(cfg.commands),
      disabled |-> {e[1] : e \in sym(cfg.files) \cup sym(cfg.commands)} \cup
                   {n \in KnownSpecs : FullName(n) \in cfg.comps} ]

DeniedInternal(tr, it) ==
    \/ it.t = "file" /\ it.w \in tr.files
    \/ it.t = "cmd" /\ \E e \in tr.commands : IsPrefix(e, it.w)

Small(S) == {X \in SUBSET S : Cardinality(X) <= 2}
Tiny(S)  == {X \in SUBSET S : Cardinality(X) <= 1}
Upto(S)  == {X \in SUBSET S : Cardinality(X) <= DenyMax}
(* save_as forms a spec author may write for each factory (documented: a    *)
(* relative path, "any starting '/' will be removed"; a trailing '/' means  *)
(* a directory for the file factories).                                     *)
SaveAsForms(f) ==
    CASE f \in {"simple_file", "first_file", "simple_command", "command_with_args"} -> {"file", "dir", "absfile", "absdir"}
      [] f \in {"glob_file", "foreach_collect"} -> {"dir", "absdir", "bare"}
      [] OTHER -> {}

Picks(f) == IF f = "simple_file" THEN {1, 2, 3, 4} ELSE IF f \in SingleItem THEN {1, 2, 3} ELSE {1}
DCase(f, pk, fe, ce, sa) == [factory |-> f, comp |-> "", pick |-> pk, files |-> fe, commands |-> ce, comps |-> {},
                            saveas |-> sa, entry |-> "apply"]
(* entry: "apply"   = apply_blacklist(cfg), then the datasource is evaluated;                      *)
(*        "collect" = the collection entry point collect(manifest, rm_conf = cfg): the manifest     *)
(*                    disables every component by default and enables a prefix covering the spec,  *)
(*                    the deny list must still win.                                                *)
DenyCases ==
    UNION { { DCase(f, pk, fe, {}, "none") : fe \in Upto(FileEntries(f)), pk \in Picks(f) }
                : f \in DenyFactories \cap FileFactories } \cup
    UNION { { DCase(f, pk, {}, ce, "none") : ce \in Upto(CmdEntries(f)), pk \in Picks(f) }
                : f \in DenyFactories \ FileFactories } \cup
    UNION { { DCase(f, pk, {}, {}, sa) : sa \in SaveAsForms(f), pk \in Picks(f) } : f \in DenyFactories } \cup
    UNION { { [factory |-> "spec", comp |-> n, pick |-> 1, files |-> fe, commands |-> ce, comps |-> cs, saveas |-> "none",
               entry |-> "collect"]
        : fe \in Tiny({<<n>>, SpecItem(n).w}), ce \in Tiny({<<n>>, SpecItem(n).w, <<OtherSpec(n)>>}),
          cs \in Tiny({FullName(n), FullName(OtherSpec(n))}) }
        : n \in (IF DenyFactories = {} THEN {} ELSE KnownSpecs) } \cup
    UNION { { [factory |-> "spec", comp |-> n, pick |-> 1, files |-> fe, commands |-> ce, comps |-> cs, saveas |-> "none",
               entry |-> "apply"]
        : fe \in Tiny({<<n>>, <<OtherSpec(n)>>, SpecItem(n).w, <<"/etc/fstab">>, <<"nosuchspec">>}),
          ce \in Tiny({<<n>>, <<OtherSpec(n)>>, SpecItem(n).w, <<"/bin">>}),
          cs \in Tiny({FullName(n), FullName(OtherSpec(n)), "insights.nosuch.component"}) }
        : n \in (IF DenyFactories = {} THEN {} ELSE KnownSpecs) }

CaseItems(c) == IF c.factory = "spec" THEN <<SpecItem(c.comp)>>
                ELSE IF c.factory \in SingleItem THEN <<Item(c.factory, c.pick)>>
                ELSE [i \in 1..NItems(c.factory) |-> Item(c.factory, i)]

(* Where the serialised copy of item i of a factory goes, in the deny-list  *)
(* world (W2/{root, out}): out/data (+) prefix (+) rel(save_as, item).      *)
ItemIdx(c, i) == IF c.factory \in SingleItem THEN c.pick ELSE i
ItemRel(c, i) ==
    IF c.factory = "spec" THEN (IF SpecItem(c.comp).t = "file" THEN <<"spec", c.comp>> ELSE <<c.comp>>)
    ELSE IF c.factory \in FileFactories THEN <<"x", FileBase[ItemIdx(c, i)]>>
    ELSE IF DestMode = "mangle32" /\ CaseItems(c)[i].cls = "deep"
         THEN <<"cmd" \o ToString(i), "n", "n", "n", "n", "n", "n", "n", "n", "..", "..", "..", "..", "..", "..", "..",
                "..", "..", "..", "..", "..", "esc">>               \* separators beyond the 32nd survive
    ELSE <<"cmd" \o ToString(i)>>                                   \* the mangled command line: ONE name
FPrefix(c) ==
    CASE c.factory \in {"container_execute", "container_collect"} -> <<"insights_containers">>
      [] c.factory \in FileFactories -> <<>>
      [] c.factory = "spec" /\ SpecItem(c.comp).t = "file" -> <<>>
      [] OTHER -> <<"insights_commands">>
(* what the factory hands to the provider after its own normalisation       *)
NormSaveAs(f, sa) ==
    LET abs == DestMode = "unstripped" /\ sa \in {"absfile", "absdir"} IN
    CASE f \in {"glob_file", "foreach_collect"} -> [abs |-> abs, dir |-> TRUE, segs |-> <<"sv">>]
      [] f \in {"simple_command", "command_with_args"} ->
            [abs |-> abs, dir |-> FALSE, segs |-> IF sa \in {"file", "absfile"} THEN <<"sv", "x">> ELSE <<"sv">>]
      [] OTHER -> [abs |-> abs, dir |-> sa \in {"dir", "absdir"},
                   segs |-> IF sa \in {"file", "absfile"} THEN <<"sv", "x">> ELSE <<"sv">>]
FactoryDst(c, i) ==
    IF c.saveas = "none" THEN <<"out", "data">> \o FPrefix(c) \o ItemRel(c, i)
    ELSE LET n == NormSaveAs(c.factory, c.saveas)
             rel == IF n.dir THEN Append(n.segs, Last(ItemRel(c, i))) ELSE n.segs
         IN IF n.abs THEN <<"/">> \o rel                            \* os.path.join drops everything before it
            ELSE <<"out", "data">> \o FPrefix(c) \o rel

NoDeny == [phase |-> "off"]

-----------------------------------------------------------------------------
(* Behaviours of the PathResolve / Destinations sub-model.                  *)
Dots(p) == Cardinality({i \in DOMAIN p : p[i] = ".."})
Names(l, c) == {l.fs[i].n : i \in {j \in DOMAIN l.fs : j # Top /\ l.fs[j].k # "none" /\ l.fs[j].p = c}}
                  \ {"out", "rl"}
NextSegs(l, x) ==                      \* next segments worth exploring at the directory reached
    IF l.fs[x.cur].k = "file" THEN {"..", "nx"} ELSE Names(l, x.cur) \cup {"..", "nx"}

InitPath ==
    /\ sub = "path" /\ lay \in Layouts /\ path = <<>>
    /\ w = Walk(Top, lay.root, FALSE)
    /\ yielded = FALSE /\ written = {} /\ dn = NoDeny

ResolveStep ==
    /\ sub = "path" /\ ~Stopped(w)
    /\ w' = StepFn(lay.fs, w)
    /\ UNCHANGED <<sub, lay, path, yielded, written, dn>>

Extend(s) ==
    /\ sub = "path" /\ w.rest = <<>> /\ w.status = "ok" /\ ~yielded
    /\ Len(path) < MaxLen /\ (s = ".." => Dots(path) < MaxDots)
    /\ path' = Append(path, s)
    /\ w' = [w EXCEPT !.rest = <<s>>]
    /\ UNCHANGED <<sub, lay, yielded, written, dn>>

(* validation on provider construction + Persist of the yielded provider   *)
Yield ==
    /\ sub = "path" /\ w.rest = <<>> /\ w.status = "ok" /\ path # <<>> /\ ~yielded
    /\ lay.fs[w.cur].k = "file"
    /\ Inside(lay, w.cur)
    /\ yielded' = TRUE
    /\ written' = {DstLoc(lay, DstSegs(sa, path)) : sa \in SaveAsSet} \cup
                  UNION {SecondWrite(lay, DstSegs(sa, path), path) : sa \in SaveAsSet}
    /\ UNCHANGED <<sub, lay, path, w, dn>>

ExtendAny == \E s \in NextSegs(lay, w) : Extend(s)
NextPath == ResolveStep \/ ExtendAny \/ Yield

(* Behaviours of the DenyList sub-model.                                    *)
InitDeny ==
    /\ sub = "deny" /\ lay = [fs |-> <<>>] /\ path = <<>> /\ w = Walk(Top, <<>>, FALSE)
    /\ yielded = FALSE /\ written = {}
    /\ \E c \in DenyCases :
         dn = [phase |-> "cfg", c |-> c, tr |-> [files |-> {}, commands |-> {}, disabled |-> {}],
               pos |-> 1, acc |-> {}, wr |-> {}]

Configure ==
    /\ sub = "deny" /\ dn.phase = "cfg"
    /\ LET tr == Translate([files |-> dn.c.files, commands |-> dn.c.commands, comps |-> dn.c.comps])
           \* collect(): apply_default_enabled + apply_configs (the manifest enables the spec) and apply_blacklist;
           \* whichever runs last decides whether the component is enabled
           en == IF dn.c.entry = "collect" /\ CollectOrder = "denylist-then-configs" THEN {dn.c.comp} ELSE {}
       IN dn' = [dn EXCEPT !.phase = "run", !.tr = [tr EXCEPT !.disabled = @ \ en]]
    /\ UNCHANGED <<sub, lay, path, w, yielded, written>>

Attempt ==
    /\ sub = "deny" /\ dn.phase = "run"
    /\ LET c == dn.c  its == CaseItems(c) IN
       IF dn.pos > Len(its) \/ (c.comp # "" /\ c.comp \in dn.tr.disabled)
         THEN dn' = [dn EXCEPT !.phase = "done"]
         ELSE IF DeniedInternal(dn.tr, its[dn.pos])
           THEN dn' = [dn EXCEPT !.pos = @ + 1]                       \* BlacklistedSpec: element skipped
           ELSE dn' = [dn EXCEPT !.pos = IF c.factory = "first_file" THEN Len(its) + 1 ELSE @ + 1,
                                  !.acc = @ \cup {dn.pos},           \* Open / Exec
                                  !.wr = @ \cup {FactoryDst(c, dn.pos)} \cup   \* Persist (the observer)
                                         (IF c.entry = "collect" /\ ObserverMode = "shared"
                                            THEN {<<"out0">> \o Tail(FactoryDst(c, dn.pos))}   \* ... and the earlier run's
                                            ELSE {})]
    /\ UNCHANGED <<sub, lay, path, w, yielded, written>>

NextDeny == Configure \/ Attempt

Init == InitPath \/ InitDeny
Next == NextPath \/ NextDeny
Spec == Init /\ [][Next]_vars
SpecPath == InitPath /\ [][NextPath]_vars
SpecDeny == InitDeny /\ [][NextDeny]_vars

-----------------------------------------------------------------------------
(* Properties.                                                              *)
Contained ==
    (sub = "path" /\ yielded) => IsDesc(lay.fs, w.cur, RootNode(lay))

WritesUnderOut ==
    sub = "path" => \A loc \in written : UnderOut(lay, loc)

DenyRespected ==
    sub = "deny" /\ dn.phase # "cfg" =>
        \A i \in dn.acc : ~DeniedByUser(dn.c, dn.c.comp, CaseItems(dn.c)[i])

FactoryWritesUnderOut ==             \* the kernel resolves ".." below the (fresh) output directory lexically
    sub = "deny" /\ dn.phase # "cfg" => \A loc \in dn.wr : IsPrefix(<<"out">>, Normal(loc, <<>>))

(* Sanity of the resolver itself.                                           *)
StepAgreesWithRun ==              \* the action system and the recursive function are the same walk
    (sub = "path" /\ Stopped(w)) =>
        LET r == Resolve(lay, path) IN r.cur = w.cur /\ r.status = w.status /\ r.hops = w.hops
RealpathIsFixpoint ==             \* the location reached is link-free and resolves to itself
    (sub = "path" /\ w.rest = <<>> /\ w.status = "ok") =>
        LET r == Run(lay.fs, Walk(Top, Loc(lay.fs, w.cur), FALSE)) IN r.cur = w.cur /\ r.hops = 0 /\ r.status = "ok"
NormalIsLexical ==                \* a normalised destination never contains ".."
    sub = "path" /\ path # <<>> => \A i \in DOMAIN Normal(path, <<>>) : Normal(path, <<>>)[i] \notin {"..", "."}

=============================================================================
