SPECIFICATION TraceSpec
CONSTANTS
  MECH = "intent"
  YV = {"none"}
  PV = {"none"}
  LV = {"none"}
POSTCONDITION PostCond
CHECK_DEADLOCK FALSE
