SPECIFICATION TraceSpec
CONSTANTS
  Fam = "trace"
  N = 0
  Admit = {}
POSTCONDITION Post
CHECK_DEADLOCK FALSE
