SPECIFICATION MCSpec
CONSTANTS
  MECH = "intent"
  YV = {"none"}
  PV = {"none"}
  LV = {"none"}
  Fam = "sim"
INVARIANT TypeOK
INVARIANT I_Function
INVARIANT I_Loud
INVARIANT I_Precedence
INVARIANT I_EmptyIsNone
INVARIANT I_DenyExact
INVARIANT I_CleanExact
INVARIANT I_Switches
INVARIANT I_ReportTotal
CONSTRAINT Emit
CHECK_DEADLOCK FALSE
