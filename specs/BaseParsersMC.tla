---------------------------- MODULE BaseParsersMC ----------------------------
(* Model-checking wrapper of BaseParsers: emits one CASE record per explored *)
(* abstract input, with the reference result, for the replay driver.         *)
EXTENDS BaseParsers, Json

Exp == CASE Fam = "cmd" -> CmdRef(inp)
         [] Fam = "doc" -> [allowed |-> DocRef(inp).allowed, cls |-> DocClass(inp.doc)]
         [] Fam = "search" -> [res |-> SearchRef(inp)]
         [] OTHER -> [res |-> AfterRef(inp)]

Emit == done => PrintT(<<"CASE", ToJson([fam |-> Fam, inp |-> inp, exp |-> Exp])>>)
=============================================================================
