SPECIFICATION Spec
CONSTANTS
  MaxN = 1
  Rd1 = {"no"}
  RdK = {"pass"}
  Outs = {"", "p", "pb", "bp"}
  Rcs = {"0", "1", "127", "nf"}
  Slows = {FALSE}
  Errs = {FALSE}
  MaxOdd = 3
  Apis = {"prov", "provs"}
  Keeps = {FALSE, TRUE}
  Tmos = {"none"}
  Sigs = {"KILL"}
  Splits = {FALSE, TRUE}
  Forms = {"str"}
  Metas = {TRUE}
  Envs = {"safe", "safep"}
  Bares = {FALSE}
  Flts = {"none", "hit", "miss"}
  Mechs = {"code", "intended"}
  Admit = {}
INVARIANT TypeOK
INVARIANT ResultIsLastStageOutput
INVARIANT RcPolicy
INVARIANT NotFoundIsAnError
INVARIANT ExceptionCarriesOutput
INVARIANT TimeoutTerminates
INVARIANT Terminates
INVARIANT NoneRunningAtReturn
INVARIANT NothingStuck
INVARIANT AllReapedButKnown
INVARIANT NeverReadsCallerStdin
INVARIANT NoShell
INVARIANT EnvIsControlled
INVARIANT StreamEqualsCall
CONSTRAINT EmitCase
CHECK_DEADLOCK FALSE
