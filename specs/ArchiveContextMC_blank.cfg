SPECIFICATION Spec
CONSTANTS
  Dirs = {"a"}
  Leaves = {"f", "insights_archive.txt"}
  MaxFiles = 1
  MaxDepth = 2
  Packs = {"tar", "zip"}
  Wraps = {FALSE}
  Evils = {"none"}
  Overrides = {"none"}
  Wheres = {"plain"}
  Injects = {"none", "raise"}
  Plugs = {"none"}
  Modes = {"api"}
  Spaces = {"exdir", "exdirx"}
  Mech = "intended"
  Admit = {}
INVARIANT TypeOK
INVARIANT MarkerPriority
INVARIANT TriedInOrder
INVARIANT DefaultWhenNoMarker
INVARIANT RootInsideInput
INVARIANT OverrideWins
INVARIANT CreateAllowed
INVARIANT ListedExactly
INVARIANT BrokerSeededExactly
INVARIANT ExtractionStaysInTempDir
INVARIANT TempDirRemoved
INVARIANT ContextDeterministic
INVARIANT Ends
CONSTRAINT Emit
CHECK_DEADLOCK FALSE
