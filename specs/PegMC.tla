------------------------------- MODULE PegMC -------------------------------
(***************************************************************************)
(* Model-checking wrapper for Peg: enumerates every term of nesting depth   *)
(* <= Depth over a selectable set of leaves / unary / binary constructors   *)
(* (only well-formed ones: repetition over consuming sub-terms), and every  *)
(* input over Alpha up to MaxLen; checks the laws of the semantics on every *)
(* (term, input); emits one CASE per term with the reference result on      *)
(* every input.                                                             *)
(* State: t, the term.  The state graph is the tree "x is the first child   *)
(* of its successors": from a term x of depth < Depth TLC steps to every    *)
(* unary construction over x and every binary construction with x on the    *)
(* left and any term of depth < Depth on the right, so every term is        *)
(* visited exactly once and TLC's workers share them.  (Large constant sets *)
(* are avoided on purpose: TLC keeps unions lazy and re-enumerates them on  *)
(* every reference.)                                                        *)
(***************************************************************************)
EXTENDS Peg, TLC, Json, FiniteSets, SequencesExt

CONSTANTS LeafIds,     \* subset of DOMAIN LeafTable
          UnIds,       \* subset of DOMAIN UnNames
          BinIds,      \* subset of BinNames
          Depth,       \* 0, 1 or 2
          Nary,        \* TRUE: also 0-, 1- and 3-ary seq / choice / lift over the leaves
          Alpha,       \* set of input characters ("BS" stands for the backslash)
          MaxLen

a == "a"
b == "b"
LeafTable == <<
    CharT(a), CharT(b), EofT, AnyT,                                          \* 1-4
    InSetT(<<a, b>>), InSetT(<<b>>),                                         \* 5-6
    StrT(<<a>>, <<>>, 1), StrT(<<a, b>>, <<>>, 1), StrT(<<a>>, <<>>, 0),     \* 7-9
    StrT(<<a>>, <<>>, 2), StrT(<<a>>, <<b>>, 1),                             \* 10-11
    LitT(<<a, b>>, 0, <<>>), LitT(<<a>>, 1, <<>>), LitT(<<"A", b>>, 1, <<>>),\* 12-14
    LitT(<<>>, 0, <<>>), LitT(<<a>>, 0, <<"T">>),                            \* 15-16
    StrT(<<a, Backslash>>, <<b, Backslash>>, 1), LitT(<<b, a>>, 0, None)     \* 17-18
>>

UnNames == <<"many0", "many1", "many2", "optN", "optX", "wrap", "const", "no_b">>
Un(u, t) == CASE u = 1 -> ManyT(t, 0) [] u = 2 -> ManyT(t, 1) [] u = 3 -> ManyT(t, 2)
              [] u = 4 -> OptT(t, None) [] u = 5 -> OptT(t, SV("x"))
              [] u = 6 -> MapT(1, t) [] u = 7 -> MapT(2, t) [] u = 8 -> MapT(3, t)

BinNames == {"seq", "choice", "until", "kl", "kr", "fb", "nfb", "lift1", "lift3", "lift4"}
Bin(n, x, y) == CASE n = "seq" -> SeqT(<<x, y>>) [] n = "choice" -> ChoiceT(<<x, y>>)
                  [] n = "until" -> UntilT(x, y) [] n = "kl" -> KLT(x, y) [] n = "kr" -> KRT(x, y)
                  [] n = "fb" -> FBT(x, y) [] n = "nfb" -> NFBT(x, y)
                  [] n = "lift1" -> LiftT(1, <<x, y>>) [] n = "lift3" -> LiftT(3, <<x, y>>)
                  [] n = "lift4" -> LiftT(4, <<x, y>>)

RepOK(x) == x.k \in {"many", "until"} => Consumes(x.ts[1])        \* the quantifier's restriction

RECURSIVE Dp(_)
RECURSIVE DpMax(_, _)
DpMax(ts, i) == IF i > Len(ts) THEN 0 ELSE LET d == Dp(ts[i]) m == DpMax(ts, i + 1) IN IF d > m THEN d ELSE m
Dp(x) == IF x.ts = <<>> THEN 0 ELSE 1 + DpMax(x.ts, 1)

T0 == {LeafTable[i] : i \in LeafIds}
Step(S) == S \cup {x \in {Un(u, y) : u \in UnIds, y \in S} : RepOK(x)}
             \cup {x \in {Bin(n, y, z) : n \in BinIds, y \in S, z \in S} : RepOK(x)}
(* right-hand operands: every term of depth < Depth *)
Right == IF Depth <= 1 THEN T0 ELSE Step(T0)
NaryTerms == IF ~Nary THEN {}
             ELSE {SeqT(<<>>), ChoiceT(<<>>), LiftT(1, <<>>), LiftT(4, <<>>)}
                  \cup {SeqT(<<x>>) : x \in T0} \cup {ChoiceT(<<x>>) : x \in T0} \cup {LiftT(4, <<x>>) : x \in T0}
                  \cup {SeqT(<<x, y, z>>) : x \in T0, y \in T0, z \in T0}
                  \cup {ChoiceT(<<x, y, z>>) : x \in T0, y \in T0, z \in T0}
                  \cup {LiftT(4, <<x, y, z>>) : x \in T0, y \in T0, z \in T0}
Succ(x) == {z \in {Un(u, x) : u \in UnIds} \cup {Bin(n, x, y) : n \in BinIds, y \in Right} : RepOK(z)}

RECURSIVE Level(_, _)
Level(S, n) ==
    IF n = 0 THEN << <<>> >>
    ELSE LET Q == Level(S, n - 1) IN
         [x \in 1..(Len(Q) * Len(S)) |-> Append(Q[((x - 1) \div Len(S)) + 1], S[((x - 1) % Len(S)) + 1])]
RECURSIVE UpTo(_, _)
UpTo(S, n) == IF n = 0 THEN Level(S, 0) ELSE UpTo(S, n - 1) \o Level(S, n)
(* cfg files do not unescape strings: the backslash is written "BS" there *)
AlphaSeq == LET A == SetToSeq(Alpha) IN [i \in DOMAIN A |-> IF A[i] = "BS" THEN Backslash ELSE A[i]]
InputList == UpTo(AlphaSeq, MaxLen)

ASSUME PrintT(<<"CASE", ToJson([first |-> TRUE, ws |-> InputList])>>)

VARIABLE t
Init == t \in T0 \cup NaryTerms
Next == /\ Depth >= 1 /\ Dp(t) < Depth /\ (Nary => t \notin NaryTerms)
        /\ t' \in Succ(t)
Spec == Init /\ [][Next]_t

TermLaws == WF(t) /\ Dp(t) <= Depth /\ \A j \in DOMAIN InputList : Laws(t, InputList[j])

Emit == PrintT(<<"CASE", ToJson([first |-> FALSE, t |-> t,
                                 res |-> [j \in DOMAIN InputList |-> P(t, InputList[j])]])>>)

=============================================================================
