------------------------------- MODULE PegMC -------------------------------
(***************************************************************************)
(* Model-checking wrapper for Peg: enumerates every term of nesting depth   *)
(* <= Depth over a selectable set of leaves / unary / binary constructors   *)
(* (only well-formed ones: repetition over consuming sub-terms), and every  *)
(* input over Alpha up to MaxLen; checks the laws of the semantics on every *)
(* (term, input); emits one CASE per term with the reference result on      *)
(* every input.                                                             *)
(* State: k, index into the list of terms (binary tree over 1..N so that    *)
(* TLC's workers share the terms).                                          *)
(***************************************************************************)
EXTENDS Peg, TLC, Json, FiniteSets, SequencesExt

CONSTANTS LeafIds,     \* subset of DOMAIN LeafTable
          UnIds,       \* subset of DOMAIN UnNames
          BinIds,      \* subset of BinNames
          Depth,       \* 0, 1 or 2
          Nary,        \* TRUE: also 0-, 1- and 3-ary seq / choice / lift over the leaves
          Alpha,       \* set of input characters
          MaxLen

a == "a"
b == "b"
LeafTable == <<
    CharT(a), CharT(b), EofT, AnyT,                                          \* 1-4
    InSetT(<<a, b>>), InSetT(<<b>>),                                         \* 5-6
    StrT(<<a>>, <<>>, 1), StrT(<<a, b>>, <<>>, 1), StrT(<<a>>, <<>>, 0),     \* 7-9
    StrT(<<a>>, <<>>, 2), StrT(<<a>>, <<b>>, 1),                             \* 10-11
    LitT(<<a, b>>, 0, <<>>), LitT(<<a>>, 1, <<>>), LitT(<<"A", b>>, 1, <<>>),\* 12-14
    LitT(<<>>, 0, <<>>), LitT(<<a>>, 0, <<"T">>),                            \* 15-16
    StrT(<<a, Backslash>>, <<b, Backslash>>, 1), LitT(<<b, a>>, 0, None)     \* 17-18
>>

UnNames == <<"many0", "many1", "many2", "optN", "optX", "wrap", "const", "no_b">>
Un(u, t) == CASE u = 1 -> ManyT(t, 0) [] u = 2 -> ManyT(t, 1) [] u = 3 -> ManyT(t, 2)
              [] u = 4 -> OptT(t, None) [] u = 5 -> OptT(t, SV("x"))
              [] u = 6 -> MapT(1, t) [] u = 7 -> MapT(2, t) [] u = 8 -> MapT(3, t)

BinNames == {"seq", "choice", "until", "kl", "kr", "fb", "nfb", "lift1", "lift3", "lift4"}
Bin(n, x, y) == CASE n = "seq" -> SeqT(<<x, y>>) [] n = "choice" -> ChoiceT(<<x, y>>)
                  [] n = "until" -> UntilT(x, y) [] n = "kl" -> KLT(x, y) [] n = "kr" -> KRT(x, y)
                  [] n = "fb" -> FBT(x, y) [] n = "nfb" -> NFBT(x, y)
                  [] n = "lift1" -> LiftT(1, <<x, y>>) [] n = "lift3" -> LiftT(3, <<x, y>>)
                  [] n = "lift4" -> LiftT(4, <<x, y>>)

RepOK(t) == t.k \in {"many", "until"} => Consumes(t.ts[1])        \* the quantifier's restriction

T0 == {LeafTable[i] : i \in LeafIds}
Step(S) == S \cup {t \in {Un(u, x) : u \in UnIds, x \in S} : RepOK(t)}
             \cup {t \in {Bin(n, x, y) : n \in BinIds, x \in S, y \in S} : RepOK(t)}
NaryTerms == IF ~Nary THEN {}
             ELSE {SeqT(<<>>), ChoiceT(<<>>), LiftT(1, <<>>), LiftT(4, <<>>)}
                  \cup {SeqT(<<x>>) : x \in T0} \cup {ChoiceT(<<x>>) : x \in T0} \cup {LiftT(4, <<x>>) : x \in T0}
                  \cup {SeqT(<<x, y, z>>) : x \in T0, y \in T0, z \in T0}
                  \cup {ChoiceT(<<x, y, z>>) : x \in T0, y \in T0, z \in T0}
                  \cup {LiftT(4, <<x, y, z>>) : x \in T0, y \in T0, z \in T0}
TermSet == (IF Depth = 0 THEN T0 ELSE IF Depth = 1 THEN Step(T0) ELSE Step(Step(T0))) \cup NaryTerms
TermList == SetToSeq(TermSet)
N == Len(TermList)

RECURSIVE Level(_, _)
Level(S, n) ==
    IF n = 0 THEN << <<>> >>
    ELSE LET Q == Level(S, n - 1) IN
         [x \in 1..(Len(Q) * Len(S)) |-> Append(Q[((x - 1) \div Len(S)) + 1], S[((x - 1) % Len(S)) + 1])]
RECURSIVE UpTo(_, _)
UpTo(S, n) == IF n = 0 THEN Level(S, 0) ELSE UpTo(S, n - 1) \o Level(S, n)
InputList == UpTo(SetToSeq(Alpha), MaxLen)

ASSUME \A i \in DOMAIN TermList : WF(TermList[i])
ASSUME PrintT(<<"CASE", ToJson([k |-> 0, ws |-> InputList, n |-> N])>>)

VARIABLE k
Init == k = 1
Next == \E n \in {2 * k, 2 * k + 1} : n <= N /\ k' = n
Spec == Init /\ [][Next]_k

TermLaws == \A j \in DOMAIN InputList : Laws(TermList[k], InputList[j])

Emit == PrintT(<<"CASE", ToJson([k |-> k, t |-> TermList[k],
                                 res |-> [j \in DOMAIN InputList |-> P(TermList[k], InputList[j])]])>>)

=============================================================================
