SPECIFICATION TraceSpec
CONSTANTS
  MaxCfg = 0
  CfgNames = {}
  CfgFlags = {}
  CfgPreset = "free"
  MaxPersist = 0
  PersistNames = {}
  PersistFlags = {}
  PersistPreset = "free"
  DefaultSet = {}
  PreSet = {}
  FileDeny = {}
  CmdDeny = {}
  CompDeny = {}
  MaxDeny = 0
  ViaSet = {}
  StrategySet = {}
  WorkerSet = {}
  CompressSet = {}
  AlphaSet = {}
  GammaSet = {}
  Interleave = FALSE
  CfgMode = "documented"
  PersistMode = "documented"
  PersisterMode = "documented"
POSTCONDITION Post
CHECK_DEADLOCK FALSE
