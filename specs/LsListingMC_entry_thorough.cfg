SPECIFICATION Spec
CONSTANTS
  Fam = "entry"
  N = 2
  Admit = {"total0", "rootkey", "arrow", "comma", "mlscat", "shortctx", "rootdir"}
INVARIANT Admitted
INVARIANT IntendedMeetsReference
INVARIANT CodeDeviatesExactlyOnClasses
INVARIANT NormalIdempotent
INVARIANT AccessorsConsistent
INVARIANT RoughTokensWellFormed
CONSTRAINT Emit
CHECK_DEADLOCK FALSE
