SPECIFICATION Spec
CONSTANTS
  N = 3
  KindSet = {"datasource", "parser", "point", "combiner"}
  OutSet = {"val", "list", "cmd", "skip"}
  ElemOutSet = {"val", "skip", "crash"}
  MaxItems = 1
  MaxGrp = 2
  ListLen = 2
  AllowDisabled = FALSE
  AllowSeeded = FALSE
  AllowOutOfGraph = FALSE
  AllowIgnore = FALSE
  SSSet = {FALSE, TRUE}
  ModeSet = {"single"}
  Workers = 1
  ArchSet = {FALSE}
INVARIANT AtMostOnce
INVARIANT DepsBefore
INVARIANT SeedsPreserved
INVARIANT OnlyGraphRuns
INVARIANT FiresIff
INVARIANT MissingExact
INVARIANT ArgBinding
INVARIANT DisabledNeverFires
INVARIANT NothingElsewhere
INVARIANT Accounted
INVARIANT NoPhantomExc
INVARIANT Isolation
INVARIANT Confluence
INVARIANT PartitionExact
INVARIANT OneWorkerPerSub
CHECK_DEADLOCK FALSE
