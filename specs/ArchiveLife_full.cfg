SPECIFICATION Spec
CONSTANTS
  CopyArgs = {"f1", "missing"}
  DirArgs = {"missing"}
  PathForms = {"plain", "slash"}
  PlantSets = {{}, {"old", "recent", "other", "link", "keptold"}}
INVARIANT TypeOK
INVARIANT I_Structure
INVARIANT I_Confined
INVARIANT I_PrevOnlyOld
INVARIANT I_AdirIsAdded
INVARIANT I_TarIsPacked
INVARIANT I_KeptIsPacked
INVARIANT I_AfterCleanup
INVARIANT I_GhostRt
CHECK_DEADLOCK FALSE
