----------------------------- MODULE TextHelpers -----------------------------
(***************************************************************************)
(* The shared text-format helpers of insights-core                         *)
(* (insights/parsers/__init__.py: get_active_lines, split_kv_pairs,        *)
(* parse_fixed_table, parse_delimited_table, keyword_search;               *)
(* insights/core/__init__.py IniConfigFile over insights/parsr/iniparser). *)
(*                                                                         *)
(* A document is ABSTRACT: a key/value document is a sequence of pair /    *)
(* bare / comment / blank lines, a table is columns (name, width) and rows *)
(* of cells plus leading junk and a footer, an INI document is a sequence  *)
(* of section / option / comment / blank items.  Text is a sequence of     *)
(* one-character strings, so the contract can take it apart.               *)
(*   Admits*  - what the format can carry (the quantifier of the property) *)
(*   Normal*  - the data a reader must get back: stripped, later duplicate *)
(*              wins, option names lower-cased, comments / blanks inert    *)
(*   RowMatches / SearchRef - keyword search reference                     *)
(* The round trip  Parse(Render(x)) = Normal(x)  is what recorded calls of *)
(* the real helpers are held to (TextHelpersTrace); here TLC enumerates    *)
(* every document of the bound and checks the internal laws of the         *)
(* contract.  Property C15 of /verif/properties.jsonl.                     *)
(***************************************************************************)
EXTENDS Integers, Sequences, FiniteSets, TLC

CONSTANTS
    Fam,        \* "kv" | "active" | "fixed" | "delim" | "search" | "ini"
    N,          \* bound (lines / rows / items)
    Deep        \* BOOLEAN: larger alphabets (thorough tier)

VARIABLES inp, out, done
vars == <<inp, out, done>>

Rng(s)         == {s[i] : i \in DOMAIN s}
Idx(s)         == [i \in 1..Len(s) |-> i]
SeqsUpTo(S, n) == UNION {[1..m -> S] : m \in 0..n}
SeqsOf(S, n)   == [1..n -> S]
InjSeqs(S, lo, hi) == {s \in UNION {[1..m -> S] : m \in lo..hi} : \A i, j \in DOMAIN s : s[i] = s[j] => i = j}
Distinct(s)    == \A i, j \in DOMAIN s : s[i] = s[j] => i = j

-----------------------------------------------------------------------------
(* Text = sequence of one-character strings                                 *)
Blank(c)      == c = " " \/ c = "\t"
IsStripped(s) == s = <<>> \/ (~Blank(s[1]) /\ ~Blank(s[Len(s)]))
NoBlank(s)    == \A i \in DOMAIN s : ~Blank(s[i])
FirstNB(s)    == CHOOSE i \in 1..(Len(s) + 1) : (i = Len(s) + 1 \/ ~Blank(s[i])) /\ \A j \in 1..(i - 1) : Blank(s[j])
LastNB(s)     == CHOOSE i \in 0..Len(s) : (i = 0 \/ ~Blank(s[i])) /\ \A j \in (i + 1)..Len(s) : Blank(s[j])
Strip(s)      == IF FirstNB(s) > Len(s) THEN <<>> ELSE SubSeq(s, FirstNB(s), LastNB(s))
OccursAt(sub, s, i) == i >= 1 /\ i + Len(sub) - 1 <= Len(s) /\ \A j \in 1..Len(sub) : s[i + j - 1] = sub[j]
Find(s, sub)  == LET c == {i \in 1..(Len(s) - Len(sub) + 1) : OccursAt(sub, s, i)} IN
                 IF c = {} THEN 0 ELSE CHOOSE i \in c : \A j \in c : i <= j
Contains(s, sub)   == Find(s, sub) > 0
StartsWith(s, sub) == OccursAt(sub, s, 1)
EndsWith(s, sub)   == Len(sub) <= Len(s) /\ OccursAt(sub, s, Len(s) - Len(sub) + 1)
BeforeFirst(s, sub) == IF Find(s, sub) = 0 THEN s ELSE SubSeq(s, 1, Find(s, sub) - 1)
AfterFirst(s, sub)  == SubSeq(s, Find(s, sub) + Len(sub), Len(s))
UpperCs == <<"A","B","C","D","E","F","G","H","I","J","K","L","M","N","O","P","Q","R","S","T","U","V","W","X","Y","Z">>
LowerCs == <<"a","b","c","d","e","f","g","h","i","j","k","l","m","n","o","p","q","r","s","t","u","v","w","x","y","z">>
LowerChar(c) == IF \E i \in 1..26 : UpperCs[i] = c THEN LowerCs[CHOOSE i \in 1..26 : UpperCs[i] = c] ELSE c
Lower(s)     == [i \in 1..Len(s) |-> LowerChar(s[i])]
Subst(s, from, to) == [i \in 1..Len(s) |-> IF s[i] \in from THEN to ELSE s[i]]

(* later duplicate wins, the key keeps the place of its first occurrence    *)
FirstIdx(ps, key) == CHOOSE i \in DOMAIN ps : ps[i].k = key /\ \A j \in DOMAIN ps : ps[j].k = key => i <= j
LastIdx(ps, key)  == CHOOSE i \in DOMAIN ps : ps[i].k = key /\ \A j \in DOMAIN ps : ps[j].k = key => j <= i
Dedup(ps) == LET f == SelectSeq(Idx(ps), LAMBDA i : FirstIdx(ps, ps[i].k) = i) IN
             [n \in 1..Len(f) |-> [k |-> ps[f[n]].k, v |-> ps[LastIdx(ps, ps[f[n]].k)].v]]
NoDupKeys(ps) == \A i, j \in DOMAIN ps : ps[i].k = ps[j].k => i = j

-----------------------------------------------------------------------------
(* get_active_lines: the parts of lines that are not commented out or       *)
(* empty, each stripped (a reference on the text itself)                    *)
ActiveLines(lines, cc) ==
    LET parts == [i \in 1..Len(lines) |-> Strip(BeforeFirst(lines[i], cc))] IN
    SelectSeq(parts, LAMBDA p : p # <<>>)

-----------------------------------------------------------------------------
(* Key/value documents (split_kv_pairs).                                    *)
(* line: [t : pair|bare|comment|blank, k, v, c : has an inline comment]     *)
(* doc : [lines, sep, cc (comment string; <<>> = comment_char None: the text  *)
(*        then has no comments and no blank lines), part (use_partition),     *)
(*        filt (filter_string; <<>> = none)]                                  *)
KvLine(t, key, v, c) == [t |-> t, k |-> key, v |-> v, c |-> c]
AdmitsKv(d) ==
    /\ d.sep # <<>> /\ NoBlank(d.sep) /\ NoBlank(d.cc)
    /\ d.cc = <<>> => \A i \in DOMAIN d.lines : d.lines[i].t \in {"pair", "bare"} /\ ~d.lines[i].c
    \* a filter is a word that can only be found inside a key or inside a value
    /\ NoBlank(d.filt) /\ \A i \in DOMAIN d.filt : d.filt[i] \notin Rng(d.sep) \cup Rng(d.cc)
    /\ \A i \in DOMAIN d.lines : LET ln == d.lines[i] IN
         /\ ln.t \in {"pair", "bare", "comment", "blank"}
         /\ ln.t \in {"pair", "bare"} =>
              /\ ln.k # <<>> /\ IsStripped(ln.k) /\ ~Contains(ln.k, d.sep) /\ (d.cc # <<>> => ~Contains(ln.k, d.cc))
         /\ ln.t = "pair" => IsStripped(ln.v) /\ (d.cc # <<>> => ~Contains(ln.v, d.cc))   \* the separator MAY occur in a value
         \* the comment string must not come about where key, separator and value meet
         /\ ln.t = "pair" => /\ d.cc # <<>> => ~Contains(ln.k \o d.sep \o ln.v, d.cc)
                             /\ Find(ln.k \o d.sep, d.sep) = Len(ln.k) + 1
(* filter_string: only lines whose ACTIVE part (comment removed) contains the *)
(* filter are processed - a comment never makes a line pass                   *)
KvPasses(d, ln) == d.filt = <<>> \/ Contains(ln.k, d.filt) \/ (ln.t = "pair" /\ Contains(ln.v, d.filt))
KvContrib(d, ln) ==                                  \* a line without separator counts only with use_partition
    /\ ln.t = "pair" \/ (ln.t = "bare" /\ d.part)
    /\ KvPasses(d, ln)
KvSeq(d) == LET ls == SelectSeq(d.lines, LAMBDA ln : KvContrib(d, ln)) IN
            [i \in 1..Len(ls) |-> [k |-> ls[i].k, v |-> IF ls[i].t = "pair" THEN ls[i].v ELSE <<>>]]
NormalKv(d) == Dedup(KvSeq(d))
KvDocOf(ps, d) == [d EXCEPT !.lines = [i \in 1..Len(ps) |-> KvLine("pair", ps[i].k, ps[i].v, FALSE)]]
KvNoComments(d) == [d EXCEPT !.lines = SelectSeq(
                        [i \in 1..Len(d.lines) |-> [d.lines[i] EXCEPT !.c = FALSE]],
                        LAMBDA ln : ln.t \notin {"comment", "blank"})]

-----------------------------------------------------------------------------
(* Tables.  junk = lines before the header (skipped with heading_ignore =   *)
(* [first column name]); foot = lines after the rows (cut with              *)
(* trailing_ignore = [ti]); both are text.                                  *)
EdgesOK(t, name1, firstcells) ==
    /\ ~t.hi => t.junk = <<>>
    /\ t.hi => \A j \in DOMAIN t.junk : ~StartsWith(Strip(t.junk[j]), name1)
    /\ t.ti = <<>> => t.foot = <<>>
    /\ t.ti # <<>> =>
         /\ IsStripped(t.ti)
         /\ \A f \in DOMAIN t.foot : Strip(t.foot[f]) = <<>> \/ StartsWith(Strip(t.foot[f]), t.ti)
         /\ name1[1] # t.ti[1]
         /\ \A c \in firstcells : c = <<>> \/ c[1] # t.ti[1]

(* fixed width: cols = <<[name, w]>>, the last column is unbounded          *)
AllCells(t) == UNION {Rng(t.rows[r]) : r \in DOMAIN t.rows}
AdmitsFixed(t) ==
    /\ Len(t.cols) >= 1
    /\ \A i \in DOMAIN t.cols :
         /\ t.cols[i].name # <<>> /\ NoBlank(t.cols[i].name)              \* "must not contain spaces within the column name"
         /\ i < Len(t.cols) => Len(t.cols[i].name) + 1 <= t.cols[i].w      \* headings are separated by blanks
    /\ Distinct([i \in DOMAIN t.cols |-> t.cols[i].name])
    /\ \A r \in DOMAIN t.rows :
         /\ Len(t.rows[r]) = Len(t.cols)
         /\ \A i \in DOMAIN t.cols : /\ IsStripped(t.rows[r][i])
                                     /\ i < Len(t.cols) => Len(t.rows[r][i]) <= t.cols[i].w   \* a cell fits its column
    /\ EdgesOK(t, t.cols[1].name, AllCells(t))
NormalFixed(t) ==
    LET rs == SelectSeq(t.rows, LAMBDA r : \E i \in DOMAIN r : r[i] # <<>>) IN          \* blank rows are removed
    [n \in 1..Len(rs) |-> [i \in 1..Len(t.cols) |-> [k |-> t.cols[i].name, v |-> rs[n][i]]]]
(* a heading that also occurs inside the heading before it (UUID ID)        *)
HeaderInsidePrev(t) ==
    \E i \in 2..Len(t.cols) : \E off \in 2..Len(t.cols[i - 1].name) : OccursAt(t.cols[i].name, t.cols[i - 1].name, off)
FixedOfRows(t, nrows) == [t EXCEPT !.rows = [n \in 1..Len(nrows) |-> [i \in 1..Len(nrows[n]) |-> nrows[n][i].v]]]

(* delimited: delim = <<>> means white space                                *)
AdmitsDelim(t) ==
    /\ Len(t.names) >= 1 /\ Len(t.delim) <= 1 /\ NoBlank(t.delim)
    /\ \A i \in DOMAIN t.names :
         /\ t.names[i] # <<>> /\ IsStripped(t.names[i])
         /\ IF t.delim = <<>> THEN NoBlank(t.names[i]) ELSE ~Contains(t.names[i], t.delim)
    /\ Distinct(t.names)
    /\ \A r \in DOMAIN t.rows :
         /\ Len(t.rows[r]) >= 1 /\ Len(t.rows[r]) <= Len(t.names)        \* "lines may contain less fields"
         /\ \A i \in DOMAIN t.rows[r] : LET c == t.rows[r][i] IN
              /\ IsStripped(c)
              /\ IF t.delim = <<>> THEN c # <<>> /\ NoBlank(c) ELSE ~Contains(c, t.delim)   \* blank fields need a printable delimiter
    /\ EdgesOK(t, t.names[1], AllCells(t))
NormalDelim(t) ==
    LET rs == SelectSeq(t.rows, LAMBDA r : ~(Len(r) = 1 /\ r[1] = <<>>)) IN              \* an empty line is no row
    [n \in 1..Len(rs) |-> [i \in 1..Len(rs[n]) |-> [k |-> t.names[i], v |-> rs[n][i]]]]

RowsEq(a, b) == Len(a) = Len(b) /\ \A n \in DOMAIN a : Len(a[n]) = Len(b[n]) /\ Rng(a[n]) = Rng(b[n])

-----------------------------------------------------------------------------
(* keyword_search(rows, **kwargs): rows = <<  <<[k, v]>>  >>, a query is a   *)
(* sequence of [kw (the keyword as written, possibly with a __suffix), v].  *)
Dunder     == <<"_", "_">>
MContains  == <<"c","o","n","t","a","i","n","s">>
MStarts    == <<"s","t","a","r","t","s","w","i","t","h">>
MEnds      == <<"e","n","d","s","w","i","t","h">>
MLower     == <<"l","o","w","e","r","_","v","a","l","u","e">>
Matchers   == {MContains, MStarts, MEnds, MLower}
HasSuffix(kw) == Contains(kw, Dunder) /\ AfterFirst(kw, Dunder) \in Matchers       \* partition at the first "__"
QKey(kw)     == IF HasSuffix(kw) THEN BeforeFirst(kw, Dunder) ELSE kw              \* unknown suffix: part of the key
QMatcher(kw) == IF HasSuffix(kw) THEN AfterFirst(kw, Dunder) ELSE <<>>
NormKey(key) == Subst(key, {" ", "-"}, "_")                                        \* "fix-up path" is found as fix_up_path
RowKeys(row) == {row[i].k : i \in DOMAIN row}
Universe(rows, rkc) == IF rows = <<>> THEN {}
                       ELSE IF rkc THEN UNION {RowKeys(rows[r]) : r \in DOMAIN rows} ELSE RowKeys(rows[1])
Resolves(rows, rkc, kw) == \E key \in Universe(rows, rkc) : NormKey(key) = QKey(kw)
Resolve(rows, rkc, kw)  == CHOOSE key \in Universe(rows, rkc) : NormKey(key) = QKey(kw)
Holds(m, s, v) ==
    CASE m = <<>> -> s = v
      [] m = MContains -> Contains(s, v)
      [] m = MStarts -> StartsWith(s, v)
      [] m = MEnds -> EndsWith(s, v)
      [] OTHER -> Lower(s) = Lower(v)
RowMatches(rows, rkc, row, q) ==
    \A t \in DOMAIN q : \E i \in DOMAIN row :
        row[i].k = Resolve(rows, rkc, q[t].kw) /\ Holds(QMatcher(q[t].kw), row[i].v, q[t].v)
AdmitsSearch(in) ==
    /\ \A r \in DOMAIN in.rows : Distinct([i \in DOMAIN in.rows[r] |-> in.rows[r][i].k])
    /\ in.rows # <<>> =>
         \A k1, k2 \in UNION {RowKeys(in.rows[r]) : r \in DOMAIN in.rows} :
             /\ NormKey(k1) = NormKey(k2) => k1 = k2                      \* keys stay apart after normalisation
             /\ ~Contains(k1, Dunder)
    /\ Distinct([t \in DOMAIN in.q |-> in.q[t].kw])                       \* keyword arguments are a dict
(* exactly the rows that satisfy all the given field conditions; no         *)
(* conditions or an unknown field -> no rows                                *)
SearchRef(in) ==
    IF in.q = <<>> \/ in.rows = <<>> THEN <<>>
    ELSE IF \E t \in DOMAIN in.q : ~Resolves(in.rows, in.rkc, in.q[t].kw) THEN <<>>
    ELSE SelectSeq(Idx(in.rows), LAMBDA r : RowMatches(in.rows, in.rkc, in.rows[r], in.q))

-----------------------------------------------------------------------------
(* INI documents.  item: [t : sec|opt|comment|blank, k, v, n]               *)
(*   sec: k = name; opt: k = name, v = value, n = 0 for "=", 1 for ":";     *)
(*   comment: k = the comment character (# or ;), v = its text, n = indent  *)
(* doc: [items, oi (indentation of every option line)]                      *)
Item(t, key, v, n) == [t |-> t, k |-> key, v |-> v, n |-> n]
DefaultWord == <<"D","E","F","A","U","L","T">>
Structural(d) == SelectSeq(d.items, LAMBDA it : it.t \in {"sec", "opt"})
AdmitsIni(d) ==
    /\ Structural(d) # <<>> => Structural(d)[1].t = "sec"          \* options live in sections
    /\ \A i \in DOMAIN d.items : LET it == d.items[i] IN
         /\ it.t \in {"sec", "opt", "comment", "blank"}
         /\ it.t = "sec" => /\ it.k # <<>> /\ IsStripped(it.k) /\ ~Contains(it.k, <<"[">>) /\ ~Contains(it.k, <<"]">>)
                            /\ ~Contains(it.k, <<"\t">>)
                            /\ ~Contains(it.k, DefaultWord)         \* Reading: no DEFAULT section
         /\ it.t = "opt" => /\ it.k # <<>> /\ IsStripped(it.k) /\ it.k[1] \notin {"#", ";"}
                            /\ \A c \in {"=", ":", "[", "]", "\t"} : ~Contains(it.k, <<c>>)
                            /\ IsStripped(it.v) /\ ~Contains(it.v, <<"#">>)
                            /\ (it.v # <<>> => it.v[1] # "[" /\ it.v[Len(it.v)] # "\\")
         /\ it.t = "comment" => it.k \in {<<"#">>, <<";">>}
SecNames(d) == LET s == SelectSeq(d.items, LAMBDA it : it.t = "sec") IN [i \in 1..Len(s) |-> s[i].k]
(* the section an item belongs to = the closest section header before it   *)
OwnerIdx(d, i) == LET c == {j \in 1..i : d.items[j].t = "sec"} IN CHOOSE j \in c : \A x \in c : x <= j
OptsOf(d, name) ==
    LET is == SelectSeq(Idx(d.items), LAMBDA i : d.items[i].t = "opt" /\ d.items[OwnerIdx(d, i)].k = name) IN
    Dedup([n \in 1..Len(is) |-> [k |-> Lower(d.items[is[n]].k), v |-> d.items[is[n]].v]])   \* case-insensitive names
NormalIni(d) ==
    LET names == SecNames(d)
        f == SelectSeq(Idx(names), LAMBDA i : \A j \in 1..(i - 1) : names[j] # names[i]) IN   \* a repeated section is merged
    [n \in 1..Len(f) |-> [name |-> names[f[n]], opts |-> OptsOf(d, names[f[n]])]]
IniLookup(norm, sec, opt) ==
    LET s == {i \in DOMAIN norm : norm[i].name = Strip(sec)}
        os == IF s = {} THEN <<>> ELSE norm[CHOOSE i \in s : TRUE].opts
        h == {j \in DOMAIN os : os[j].k = Lower(opt)} IN
    IF h = {} THEN [found |-> FALSE, v |-> <<>>] ELSE [found |-> TRUE, v |-> os[CHOOSE j \in h : TRUE].v]
(* a comment line indented deeper than the option line it follows           *)
IndentedCommentAfterOption(d) ==
    \E i \in DOMAIN d.items :
        /\ d.items[i].t = "comment" /\ d.items[i].n > d.oi
        /\ \E j \in 1..(i - 1) : d.items[j].t = "opt" /\ \A x \in (j + 1)..(i - 1) : d.items[x].t \in {"comment", "blank"}
IniNoComments(d) == [d EXCEPT !.items = SelectSeq(d.items, LAMBDA it : it.t \in {"sec", "opt"})]

-----------------------------------------------------------------------------
(* The documents TLC enumerates (tiny alphabets; the driver renames the     *)
(* letters and chooses spacings).                                           *)
A == <<"a">>   Bb == <<"b">>   X == <<"x">>   Y == <<"y">>
KvKeys   == {A, Bb} \cup (IF Deep THEN {<<"a", " ", "b">>} ELSE {})
KvVals   == {<<>>, X, <<"x", "=", "y">>} \cup (IF Deep THEN {<<"x", " ", "y">>, <<"=">>} ELSE {})
KvLines  == {KvLine("pair", key, v, c) : key \in KvKeys, v \in KvVals, c \in {FALSE}}
            \cup {KvLine("pair", key, v, TRUE) : key \in KvKeys, v \in (IF Deep THEN {X, <<"x", "=", "y">>} ELSE {X})}
            \cup {KvLine("bare", key, <<>>, c) : key \in KvKeys, c \in {FALSE}}
            \cup {KvLine("comment", <<>>, <<>>, FALSE), KvLine("blank", <<>>, <<>>, FALSE)}
KvInputs(nb) == [lines : SeqsUpTo(KvLines, nb), sep : {<<"=">>}, cc : {<<"#">>}, part : BOOLEAN, filt : {<<>>, A, X}]
                \cup   \* comment_char None: the lines reach the splitting as they are (indentation, trailing blanks)
                [lines : SeqsUpTo({ln \in KvLines : ln.t \in {"pair", "bare"} /\ ~ln.c}, nb), sep : {<<"=">>}, cc : {<<>>},
                 part : BOOLEAN, filt : {<<>>, A}]

ActChars  == {"a", " ", "#"}
ActInputs(nb) == [lines : SeqsUpTo(SeqsUpTo(ActChars, 4), 1) \cup SeqsOf(SeqsUpTo(ActChars, 2), 2), cc : {<<"#">>}]

Names    == {A, Bb, <<"a", "b">>, <<"b", "a">>, <<"b", "a", "b">>}
CellSet(col, last, rich) ==
    {<<>>, X} \cup (IF rich /\ col.w >= 3 THEN {<<"x", " ", "y">>} ELSE {})
    \cup (IF last THEN (IF rich THEN {<<"x", " ", " ", "y", "z">>} ELSE {}) ELSE {[i \in 1..col.w |-> "z"]})   \* fills the column
ColSeqs(m, pad) == {[i \in 1..m |-> [name |-> ns[i], w |-> Len(ns[i]) + pad]] : ns \in InjSeqs(Names, m, m)}
RowSet(cols, rich) ==
    {r \in [1..Len(cols) -> UNION {CellSet(cols[i], i = Len(cols), rich) : i \in DOMAIN cols}] :
        \A i \in DOMAIN cols : r[i] \in CellSet(cols[i], i = Len(cols), rich)}
RowSeqs(cols, nb) ==
    IF Len(cols) = 3 THEN SeqsUpTo(RowSet(cols, Deep), 1)
    ELSE IF Len(cols) = 2 THEN SeqsUpTo(RowSet(cols, TRUE), 1) \cup UNION {SeqsOf(RowSet(cols, Deep), m) : m \in 2..nb}
    ELSE SeqsUpTo(RowSet(cols, TRUE), nb)
Edge(hi, junk, ti, foot) == [hi |-> hi, junk |-> junk, ti |-> ti, foot |-> foot]
JunkLine == <<"#", " ", "j">>   FootLine == <<"-", "-", " ", "f">>   Ti == <<"-", "-">>
BlankLn  == <<" ", " ">>                       \* a line of blanks only (the driver also renders "", 1-4 blanks, a tab)
Edges    == {Edge(FALSE, <<>>, <<>>, <<>>), Edge(TRUE, <<JunkLine, BlankLn>>, Ti, <<FootLine, BlankLn>>)}
NoEdge == Edge(FALSE, <<>>, <<>>, <<>>)
FixedCols     == UNION {ColSeqs(m, pad) : m \in 1..3, pad \in (IF Deep THEN {1, 2, 3} ELSE {1, 2})}
(* junk / footer / margin variants: not for the two-row tables of the thorough tier (volume) *)
FixedEdges(cols, rows)   == IF (Len(cols) = 3 /\ ~Deep) \/ (Deep /\ Len(rows) > 1) THEN {NoEdge} ELSE Edges
FixedMargins(cols, rows) == IF Len(cols) = 2 /\ ~(Deep /\ Len(rows) > 1) THEN {0, 2} ELSE {0}
FixedTab(cols, rows, e, mg) ==
    [cols |-> cols, rows |-> rows, margin |-> mg, hi |-> e.hi, junk |-> e.junk, ti |-> e.ti, foot |-> e.foot]
FixedFor(cols, nb) ==
    UNION {{FixedTab(cols, rows, e, mg) : e \in FixedEdges(cols, rows), mg \in FixedMargins(cols, rows)} : rows \in RowSeqs(cols, nb)}
FixedInputs(nb) == UNION {FixedFor(cols, nb) : cols \in FixedCols}
(* the same set, chosen step by step (TLC need not build the union) *)
FixedChoice(nb) ==
    \E cols \in FixedCols : \E rows \in RowSeqs(cols, nb) :
    \E e \in FixedEdges(cols, rows) : \E mg \in FixedMargins(cols, rows) : inp = FixedTab(cols, rows, e, mg)

DNames   == {A, Bb, <<"a", " ", "b">>}
DCells(d) == IF d = <<>> THEN {X, <<"x", "y">>} ELSE {<<>>, X, <<"x", " ", "y">>}
DNameSeqs(d) == {ns \in InjSeqs(DNames, 1, 3) : d = <<>> => \A i \in DOMAIN ns : NoBlank(ns[i])}
DelimFor(d, ns, nb) ==
    {[delim |-> d, names |-> ns, rows |-> rows, hi |-> e.hi, junk |-> e.junk, ti |-> e.ti, foot |-> e.foot] :
       rows \in SeqsUpTo(UNION {[1..m -> DCells(d)] : m \in 1..Len(ns)}, IF Len(ns) = 3 THEN nb - 1 ELSE nb),
       e \in Edges}
DelimInputs(nb) == UNION {UNION {DelimFor(d, ns, nb) : ns \in DNameSeqs(d)} : d \in {<<>>, <<",">>}}

SKey2    == {<<"a", "-", "b">>, <<"a", " ", "b">>, <<"a", "_", "b">>}
SVals    == {<<>>, X, <<"x", "y">>, <<"y", "X">>}
SRow(k2) == {<<[k |-> A, v |-> v1], [k |-> k2, v |-> v2]>> : v1 \in SVals, v2 \in {X, Y}}
Kw(key, m) == IF m = <<>> THEN key ELSE key \o Dunder \o m
SKws     == {Kw(A, m) : m \in Matchers \cup {<<>>, <<"z">>}} \cup {Kw(<<"a", "_", "b">>, m) : m \in {<<>>, MStarts}}
            \cup {<<"c">>}
STerms   == {[kw |-> kw, v |-> v] : kw \in SKws, v \in {X, Y, <<"y", "x">>, <<>>}}
SQueries == {<<>>} \cup {<<t>> : t \in STerms}
            \cup {<<t1, t2>> : t1 \in {t \in STerms : QKey(t.kw) = A /\ t.v = X}, t2 \in {t \in STerms : QKey(t.kw) # A /\ t.v = X}}
            \* two conditions on the SAME field through different suffixes
            \cup {<<[kw |-> Kw(A, MStarts), v |-> v1], [kw |-> Kw(A, m), v |-> v2]>> :
                     v1 \in {X, Y}, m \in {MEnds, MContains, MLower}, v2 \in {X, Y}}
SearchInputs(nb) ==
    UNION {[rows : SeqsUpTo(SRow(k2), nb), q : SQueries, rkc : (IF k2[2] = "-" THEN BOOLEAN ELSE {FALSE})] : k2 \in SKey2}

SecNs    == {<<"s">>, <<"S">>}
OptNs    == {A, <<"A">>, Bb}
IniVals  == {X, <<>>} \cup (IF Deep THEN {<<"x", " ", ";", "y">>} ELSE {})
IniItems == {Item("sec", s, <<>>, 0) : s \in SecNs}
            \cup {Item("opt", o, v, 0) : o \in OptNs, v \in IniVals}
            \cup {Item("comment", <<c>>, <<"c">>, n) : c \in {"#", ";"}, n \in {0, 2, 4}}
            \cup {Item("blank", <<>>, <<>>, 0)}
IniInputs(nb) == {[items |-> <<Item("sec", <<"s">>, <<>>, 0)>> \o rest, oi |-> oi] : rest \in SeqsUpTo(IniItems, nb), oi \in {0, 2}}

Inputs == CASE Fam = "kv" -> KvInputs(N)
            [] Fam = "active" -> ActInputs(N)
            [] Fam = "fixed" -> FixedInputs(N)
            [] Fam = "delim" -> DelimInputs(N)
            [] Fam = "search" -> SearchInputs(N)
            [] Fam = "ini" -> IniInputs(N)

-----------------------------------------------------------------------------
(* One behaviour: choose a document, read it back.                          *)
Init == /\ IF Fam = "fixed" THEN FixedChoice(N) ELSE inp \in Inputs
        /\ out = <<>> /\ done = FALSE

ReadBack(nm) == /\ ~done /\ out' = nm /\ done' = TRUE /\ UNCHANGED inp
SplitKvPairs   == Fam = "kv" /\ ReadBack(NormalKv(inp))
GetActiveLines == Fam = "active" /\ ReadBack(ActiveLines(inp.lines, inp.cc))
ParseFixed     == Fam = "fixed" /\ ReadBack(NormalFixed(inp))
ParseDelimited == Fam = "delim" /\ ReadBack(NormalDelim(inp))
KeywordSearch  == Fam = "search" /\ ReadBack(SearchRef(inp))
ReadIni        == Fam = "ini" /\ ReadBack(NormalIni(inp))
Next == SplitKvPairs \/ GetActiveLines \/ ParseFixed \/ ParseDelimited \/ KeywordSearch \/ ReadIni
Spec == Init /\ [][Next]_vars

-----------------------------------------------------------------------------
(* Laws of the contract, checked on every enumerated document               *)
Admitted ==                      \* the enumeration stays inside what the formats admit
    CASE Fam = "kv" -> AdmitsKv(inp)
      [] Fam = "fixed" -> AdmitsFixed(inp)
      [] Fam = "delim" -> AdmitsDelim(inp)
      [] Fam = "search" -> AdmitsSearch(inp)
      [] Fam = "ini" -> AdmitsIni(inp)
      [] OTHER -> TRUE

NormalIdempotent ==
    done =>
      CASE Fam = "kv" -> NormalKv(KvDocOf(out, inp)) = out /\ NoDupKeys(out)
        [] Fam = "active" -> ActiveLines(out, inp.cc) = out
        [] Fam = "fixed" -> NormalFixed(FixedOfRows(inp, out)) = out
        [] Fam = "ini" -> \A n \in DOMAIN out : NoDupKeys(out[n].opts) /\ \A j \in DOMAIN out[n].opts : Lower(out[n].opts[j].k) = out[n].opts[j].k
        [] OTHER -> TRUE

CommentsInert ==                 \* commented and blank lines never contribute data
    done =>
      CASE Fam = "kv" -> NormalKv(KvNoComments(inp)) = out
        [] Fam = "ini" -> NormalIni(IniNoComments(inp)) = out
        [] Fam = "active" -> \A i \in DOMAIN out : out[i] # <<>> /\ IsStripped(out[i]) /\ ~Contains(out[i], inp.cc)
        [] OTHER -> TRUE

LaterWins ==
    done =>
      CASE Fam = "kv" -> LET ps == KvSeq(inp) IN
                         ps # <<>> => \E j \in DOMAIN out : out[j].k = ps[Len(ps)].k /\ out[j].v = ps[Len(ps)].v
        [] Fam = "ini" -> \A i \in DOMAIN inp.items :
                            (inp.items[i].t = "opt" /\ \A j \in (i + 1)..Len(inp.items) : inp.items[j].t # "opt") =>
                               IniLookup(out, inp.items[OwnerIdx(inp, i)].k, inp.items[i].k) = [found |-> TRUE, v |-> inp.items[i].v]
        [] OTHER -> TRUE

SearchExact ==
    (Fam = "search" /\ done) =>
        /\ \A r \in DOMAIN inp.rows :
             (r \in Rng(out)) <=> (/\ inp.q # <<>>
                                   /\ \A t \in DOMAIN inp.q : Resolves(inp.rows, inp.rkc, inp.q[t].kw)
                                   /\ RowMatches(inp.rows, inp.rkc, inp.rows[r], inp.q))
        /\ \A i, j \in DOMAIN out : i < j => out[i] < out[j]
        \* adding a condition never adds rows
        /\ Len(inp.q) = 2 => Rng(out) \subseteq Rng(SearchRef([inp EXCEPT !.q = <<inp.q[1]>>]))

=============================================================================
