\* the transcription of the code on the 'rootdir' inputs: TLC is EXPECTED to refute F_CodeMeetsReference
SPECIFICATION Spec
CONSTANTS
  Fam = "dirs"
  N = 1
  Admit = {"rootdir"}
INVARIANT F_CodeMeetsReference
CHECK_DEADLOCK FALSE
