SPECIFICATION Spec
CONSTANTS
  MaxN = 2
  Rd1 = {"no"}
  RdK = {"pass"}
  Outs = {"p"}
  Rcs = {"0"}
  Slows = {FALSE, TRUE}
  Errs = {FALSE}
  MaxOdd = 3
  Apis = {"shell", "prov"}
  Keeps = {FALSE, TRUE}
  Tmos = {"none", "arg", "ctx", "both"}
  Sigs = {"KILL"}
  Splits = {TRUE}
  Forms = {"list", "str"}
  Metas = {FALSE}
  Envs = {"none", "safe"}
  Bares = {FALSE}
  Flts = {"none", "hit"}
  Mechs = {"code", "intended"}
  Admit = {}
INVARIANT TypeOK
INVARIANT ResultIsLastStageOutput
INVARIANT RcPolicy
INVARIANT NotFoundIsAnError
INVARIANT ExceptionCarriesOutput
INVARIANT TimeoutTerminates
INVARIANT Terminates
INVARIANT NoneRunningAtReturn
INVARIANT NothingStuck
INVARIANT AllReapedButKnown
INVARIANT NeverReadsCallerStdin
INVARIANT NoShell
INVARIANT EnvIsControlled
INVARIANT StreamEqualsCall
CONSTRAINT EmitCase
CHECK_DEADLOCK FALSE
