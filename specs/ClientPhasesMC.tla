--------------------------- MODULE ClientPhasesMC ---------------------------
(* Model-checking wrapper of ClientPhases: chooses the family of runs        *)
(* (InitSel), checks the same invariants and emits one CASE record per       *)
(* complete run (options, server script, initial disk, and the phases the    *)
(* design goes through with their exit statuses and deciding points) for     *)
(* the replay driver harness/drive_clientphases.py.                          *)
(*   "bounded"  every set of at most MaxOn flags x every output x SrvSet x   *)
(*              every initial disk (exhaustive)                              *)
(*   "random"   NRandom runs with 3..7 random flags, a random script, disk   *)
(*              and output (for tlc -simulate, or exhaustively over the      *)
(*              drawn initial states)                                        *)
EXTENDS ClientPhases, Json, Randomization

CONSTANTS InitSel, NRandom

RandomInits ==
    {[S |-> RandomSubset(3 + (i % 5), BoolFlags), out |-> RandomElement(Outputs), srv |-> RandomElement(Srvs),
      d |-> RandomElement(InitDisks)] : i \in 1..NRandom}

MCInit ==
    /\ IF InitSel = "random"
         THEN \E r \in RandomInits : opt = OptOf(r.S, r.out) /\ srv = r.srv /\ disk0 = r.d
         ELSE /\ opt \in {OptOf(S, out) : S \in FlagSets, out \in Outputs}
              /\ srv \in SrvSet
              /\ disk0 \in InitDisks
    /\ disk = disk0
    /\ phase = "pre_update" /\ pc = "start" /\ code = Running /\ at = "-" /\ did = {} /\ calls = {}
    /\ hist = <<>>
MCSpec == MCInit /\ [][Next]_vars

Brief(h) == [phase |-> h.phase, code |-> h.code, at |-> h.at]
Emit ==
    phase = "end" =>
        PrintT(<<"CASE", ToJson([opt |-> opt, srv |-> srv, disk |-> disk0,
                                 exp |-> [i \in 1..Len(hist) |-> Brief(hist[i])]])>>)
=============================================================================
