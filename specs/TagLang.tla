------------------------------ MODULE TagLang ------------------------------
(***************************************************************************)
(* C19 - reference meaning of the tag-expression language of                *)
(* insights.core.taglang: boolean predicates over a set of tag strings.     *)
(*                                                                         *)
(*    expr   ::= term   { ("|" | ",") term }        low precedence: or      *)
(*    term   ::= factor { "&" factor }              medium: and             *)
(*    factor ::= ["!"] ( "(" expr ")" | atom )      high: not               *)
(*    atom   ::= tag | "/" regex                                            *)
(*                                                                         *)
(* An expression is handled in two forms:                                   *)
(*  - as an AST: nodes of one shape [k, a, q, ts], k in "tag" "re" "not"    *)
(*    "and" "or" "par"; a = tag name / regex body / the or-symbol ("|" or   *)
(*    ","); q = quoting of an atom (0 bare, 1 single, 2 double quotes);     *)
(*    "par" is a redundant pair of parentheses;                             *)
(*  - as a token sequence: tokens of one shape [t, a, q], t in "(" ")" "!"  *)
(*    "&" "|" "," "tag" "re" "sp" ("sp": a mandatory blank).                *)
(* Eval gives the truth value of an AST on a tag set; Render writes an AST  *)
(* as tokens with the fewest parentheses the precedence allows (the         *)
(* renderer contract); Read is the reference reader of token sequences      *)
(* under the stated precedence.  The lexical contract of the concrete       *)
(* syntax (how tokens become text) is: nothing between "!" and what it      *)
(* negates; a bare regex extends to the next blank, so Render puts "sp"     *)
(* after it; blanks are optional everywhere else; bare tags contain no      *)
(* operator character, no quote, no blank and do not start with "/".        *)
(* ReadText is the reference reader of the TEXT itself (characters): it is  *)
(* what trace validation uses, so a regex that swallows operator            *)
(* characters and ill-formed expressions are judged on what was really      *)
(* given to the parser; Write / WriteSpaced tie it to the token level.      *)
(***************************************************************************)
EXTENDS Integers, Sequences

Node(k, a, q, ts) == [k |-> k, a |-> a, q |-> q, ts |-> ts]
Tag(a, q)   == Node("tag", a, q, <<>>)
Re(a, q)    == Node("re", a, q, <<>>)
Not(x)      == Node("not", "", 0, <<x>>)
And(x, y)   == Node("and", "", 0, <<x, y>>)
Or(s, x, y) == Node("or", s, 0, <<x, y>>)
Par(x)      == Node("par", "", 0, <<x>>)

Tok(t, a, q) == [t |-> t, a |-> a, q |-> q]
Sym(t)       == Tok(t, "", 0)

(* Which tags of the universe a regex body matches (re.search).  The        *)
(* universe is fixed here; the driver reports what re.search really says    *)
(* and the trace module compares (R4).                                      *)
Universe == {"a", "b", "ab"}
Bodies   == {"a", "b", "^a", "b$", "b|a$", "a,b", "a&b", "^(a|b)$", "b.a"}
Matches(body, tag) ==
    CASE body = "a"  -> tag \in {"a", "ab"}
      [] body = "b"  -> tag \in {"b", "ab"}
      [] body = "^a" -> tag \in {"a", "ab"}
      [] body = "b$" -> tag \in {"b", "ab"}
      \* bodies with operator characters: a bare regex runs to the next blank, so these are ONE regex
      [] body = "b|a$"    -> tag \in {"a", "b", "ab"}
      [] body = "a,b"     -> FALSE
      [] body = "a&b"     -> FALSE
      [] body = "^(a|b)$" -> tag \in {"a", "b"}
      \* matches no single tag (but would match "b" and "a" written one after the other): a regex is
      \* searched in every tag separately, like the anchored ones above
      [] body = "b.a"     -> FALSE
      [] OTHER -> FALSE
(* the characters of the names above (TLC cannot take a string apart) *)
CharsOf(s) ==
    CASE s = "a" -> <<"a">> [] s = "b" -> <<"b">> [] s = "ab" -> <<"a", "b">>
      [] s = "^a" -> <<"^", "a">> [] s = "b$" -> <<"b", "$">>
      [] s = "b|a$" -> <<"b", "|", "a", "$">> [] s = "a,b" -> <<"a", ",", "b">>
      [] s = "a&b" -> <<"a", "&", "b">> [] s = "^(a|b)$" -> <<"^", "(", "a", "|", "b", ")", "$">>
      [] s = "b.a" -> <<"b", ".", "a">>

RECURSIVE Eval(_, _)
Eval(x, S) ==
    CASE x.k = "tag" -> x.a \in S
      [] x.k = "re"  -> \E s \in S : Matches(x.a, s)
      [] x.k = "not" -> ~Eval(x.ts[1], S)
      [] x.k = "and" -> Eval(x.ts[1], S) /\ Eval(x.ts[2], S)
      [] x.k = "or"  -> Eval(x.ts[1], S) \/ Eval(x.ts[2], S)
      [] x.k = "par" -> Eval(x.ts[1], S)

RECURSIVE WFX(_)
WFX(x) ==
    /\ x.k \in {"tag", "re", "not", "and", "or", "par"}
    /\ x.k = "tag" => x.a \in Universe /\ x.q \in 0..2
    /\ x.k = "re"  => x.a \in Bodies /\ x.q \in 0..2
    /\ x.k = "or"  => x.a \in {"|", ","}
    /\ Len(x.ts) = (CASE x.k \in {"tag", "re"} -> 0 [] x.k \in {"not", "par"} -> 1 [] OTHER -> 2)
    /\ \A i \in DOMAIN x.ts : WFX(x.ts[i])

(* ---- the renderer contract: minimal parentheses ---- *)
(* binding strength of the top operator of x *)
Prec(x) == CASE x.k = "or" -> 1 [] x.k = "and" -> 2 [] x.k = "not" -> 3 [] OTHER -> 4

RECURSIVE Render(_)
Wrap(x, need) == IF need THEN <<Sym("(")>> \o Render(x) \o <<Sym(")")>> ELSE Render(x)
Render(x) ==
    CASE x.k = "tag" -> <<Tok("tag", x.a, x.q)>>
      [] x.k = "re"  -> IF x.q = 0 THEN <<Tok("re", x.a, 0), Sym("sp")>> ELSE <<Tok("re", x.a, x.q)>>
      [] x.k = "par" -> Wrap(x.ts[1], TRUE)
      \* "!" binds to an atom or a parenthesised group only: a directly nested "!" is parenthesised too
      [] x.k = "not" -> <<Sym("!")>> \o Wrap(x.ts[1], Prec(x.ts[1]) <= 3)
      [] x.k = "and" -> Wrap(x.ts[1], Prec(x.ts[1]) < 2) \o <<Sym("&")>> \o Wrap(x.ts[2], Prec(x.ts[2]) < 2)
      [] x.k = "or"  -> Render(x.ts[1]) \o <<Sym(x.a)>> \o Render(x.ts[2])

(* ---- the reference reader: recursive descent under the stated precedence *)
(* Results: [ok, pos, x]; pos = index of the first unread token.            *)
NoX    == Tag("", 0)
RFail  == [ok |-> FALSE, pos |-> 0, x |-> NoX]
ROk(p, x) == [ok |-> TRUE, pos |-> p, x |-> x]

RECURSIVE Skip(_, _)
Skip(ts, i) == IF i <= Len(ts) /\ ts[i].t = "sp" THEN Skip(ts, i + 1) ELSE i
At(ts, i, t) == LET j == Skip(ts, i) IN j <= Len(ts) /\ ts[j].t = t

RECURSIVE RExpr(_, _), RTerm(_, _), RFactor(_, _), RExprMore(_, _, _), RTermMore(_, _, _)

RFactor(ts, i0) ==
    LET i   == Skip(ts, i0)
        neg == i <= Len(ts) /\ ts[i].t = "!"
        j   == IF neg THEN i + 1 ELSE i                  \* nothing may stand between "!" and its operand
        r   == IF j > Len(ts) THEN RFail
               ELSE IF ts[j].t = "(" THEN
                    LET e == RExpr(ts, j + 1) IN
                    IF e.ok /\ At(ts, e.pos, ")") THEN ROk(Skip(ts, e.pos) + 1, e.x) ELSE RFail
               ELSE IF ts[j].t = "tag" THEN ROk(j + 1, Tag(ts[j].a, 0))
               ELSE IF ts[j].t = "re" THEN
                    \* a bare regex must be followed by a blank or the end
                    IF ts[j].q = 0 /\ j < Len(ts) /\ ts[j + 1].t # "sp" THEN RFail ELSE ROk(j + 1, Re(ts[j].a, 0))
               ELSE RFail
    IN IF r.ok /\ neg THEN ROk(r.pos, Not(r.x)) ELSE r

RTermMore(ts, i, left) ==
    IF At(ts, i, "&") THEN
        LET f == RFactor(ts, Skip(ts, i) + 1) IN
        IF f.ok THEN RTermMore(ts, f.pos, And(left, f.x)) ELSE ROk(i, left)
    ELSE ROk(i, left)
RTerm(ts, i) == LET f == RFactor(ts, i) IN IF f.ok THEN RTermMore(ts, f.pos, f.x) ELSE RFail

RExprMore(ts, i, left) ==
    IF At(ts, i, "|") \/ At(ts, i, ",") THEN
        LET f == RTerm(ts, Skip(ts, i) + 1) IN
        IF f.ok THEN RExprMore(ts, f.pos, Or("|", left, f.x)) ELSE ROk(i, left)
    ELSE ROk(i, left)
RExpr(ts, i) == LET f == RTerm(ts, i) IN IF f.ok THEN RExprMore(ts, f.pos, f.x) ELSE RFail

(* a whole expression: everything read *)
Read(ts) == LET r == RExpr(ts, 1) IN IF r.ok /\ Skip(ts, r.pos) = Len(ts) + 1 THEN r ELSE RFail

(* ---- the concrete syntax: tokens as text, and the reference reader of TEXT *)
(* Write: tokens as characters, no optional white space ("sp" is a blank).  *)
QuoteOf(q) == IF q = 1 THEN <<"'">> ELSE IF q = 2 THEN <<"\"">> ELSE <<>>
WriteTok(tk) ==
    CASE tk.t = "sp"  -> <<" ">>
      [] tk.t = "tag" -> QuoteOf(tk.q) \o CharsOf(tk.a) \o QuoteOf(tk.q)
      [] tk.t = "re"  -> <<"/">> \o QuoteOf(tk.q) \o CharsOf(tk.a) \o QuoteOf(tk.q)
      [] OTHER -> <<tk.t>>
RECURSIVE WriteFrom(_, _, _)
(* spaced: a blank after every token except "!" (nothing may follow "!") *)
WriteFrom(ts, i, spaced) ==
    IF i > Len(ts) THEN <<>>
    ELSE WriteTok(ts[i]) \o (IF spaced /\ ts[i].t # "!" THEN <<" ">> ELSE <<>>) \o WriteFrom(ts, i + 1, spaced)
Write(ts)       == WriteFrom(ts, 1, FALSE)
WriteSpaced(ts) == WriteFrom(ts, 1, TRUE)

(* ReadText: the documented grammar read from characters.  A bare word runs *)
(* to the next blank or one of ) & , | ; a regex body runs to the next      *)
(* BLANK (it swallows operator characters and parentheses, as the module    *)
(* documentation says); quoted words end at the closing quote.  Results     *)
(* [ok, pos, x, why]; why names the reason of a parse error:                *)
(*   operand-expected, operator-expected, unbalanced-close,                 *)
(*   unspecified (a word starting with "!" or "(" that is no group, or an   *)
(*   empty regex: the reading of DESIGN C19 leaves these open; nothing is   *)
(*   demanded).                                                             *)
TFail(why)  == [ok |-> FALSE, pos |-> 0, x |-> NoX, why |-> why]
TOk(p, x)   == [ok |-> TRUE, pos |-> p, x |-> x, why |-> ""]
ChAt(cs, i) == IF i >= 1 /\ i <= Len(cs) THEN cs[i] ELSE ""                 \* "" = end of text
Blank(c)    == c \in {" ", "\t", "\n", "\r"}
OpChar(c)   == c \in {")", "&", ",", "|"}
RECURSIVE SkipB(_, _)
SkipB(cs, i) == IF Blank(ChAt(cs, i)) THEN SkipB(cs, i + 1) ELSE i
(* end of a run from i and its text; bare: stops at operator characters too *)
RECURSIVE RunFrom(_, _, _, _)
RunFrom(cs, i, bare, acc) ==
    LET c == ChAt(cs, i) IN
    IF c = "" \/ Blank(c) \/ (bare /\ OpChar(c)) THEN [pos |-> i, s |-> acc] ELSE RunFrom(cs, i + 1, bare, acc \o c)
(* a quoted word starting at the quote cs[i]: at least one character, \q is q; pos 0 = no quoted word here *)
RECURSIVE QuotedFrom(_, _, _, _, _)
QuotedFrom(cs, j, q, acc, n) ==
    LET c == ChAt(cs, j) IN
    IF c = "" THEN [pos |-> 0, s |-> ""]
    ELSE IF c = "\\" /\ ChAt(cs, j + 1) = q THEN QuotedFrom(cs, j + 2, q, acc \o q, n + 1)
    ELSE IF c = q THEN (IF n >= 1 THEN [pos |-> j + 1, s |-> acc] ELSE [pos |-> 0, s |-> ""])
    ELSE QuotedFrom(cs, j + 1, q, acc \o c, n + 1)
QuoteKind(c) == IF c = "'" THEN 1 ELSE IF c = "\"" THEN 2 ELSE 0
WordAt(cs, i, bare) ==            \* quoted word, else a run; [pos, s, q], pos = i when empty
    LET k == QuoteKind(ChAt(cs, i))
        w == IF k > 0 THEN QuotedFrom(cs, i + 1, ChAt(cs, i), "", 0) ELSE [pos |-> 0, s |-> ""]
    IN IF w.pos > 0 THEN [pos |-> w.pos, s |-> w.s, q |-> k]
       ELSE LET r == RunFrom(cs, i, bare, "") IN [pos |-> r.pos, s |-> r.s, q |-> 0]

RECURSIVE TExpr(_, _), TTerm(_, _), TFactor(_, _), TExprMore(_, _, _), TTermMore(_, _, _)
TFactor(cs, i0) ==
    LET i   == SkipB(cs, i0)
        neg == ChAt(cs, i) = "!"
        j   == IF neg THEN i + 1 ELSE i                   \* nothing may stand between "!" and its operand
        c   == ChAt(cs, j)
        r   == IF c = "" \/ Blank(c) \/ OpChar(c) THEN TFail("operand-expected")
               ELSE IF c = "!" THEN TFail("unspecified")
               ELSE IF c = "(" THEN
                    LET e == TExpr(cs, j + 1) IN
                    \* a bare tag may itself start with "(" (bare = printable minus blanks minus ")&,|"), so a
                    \* group that cannot be read as one is, in the shipped grammar, a word "(..." : the
                    \* documentation does not say which reading is meant -> unspecified, nothing demanded
                    IF ~e.ok THEN TFail("unspecified")
                    ELSE IF ChAt(cs, e.pos) = ")" THEN TOk(e.pos + 1, e.x)
                    ELSE TFail("unspecified")
               ELSE IF c = "/" THEN
                    LET w == WordAt(cs, j + 1, FALSE) IN
                    IF w.pos = j + 1 THEN TFail("unspecified") ELSE TOk(w.pos, Re(w.s, w.q))
               ELSE LET w == WordAt(cs, j, TRUE) IN TOk(w.pos, Tag(w.s, w.q))
    IN IF r.ok THEN TOk(SkipB(cs, r.pos), IF neg THEN Not(r.x) ELSE r.x) ELSE r
(* an operator must be followed by an operand: nothing else could consume it *)
TTermMore(cs, i, left) ==
    IF ChAt(cs, i) = "&" THEN
        LET f == TFactor(cs, i + 1) IN IF f.ok THEN TTermMore(cs, f.pos, And(left, f.x)) ELSE f
    ELSE TOk(i, left)
TTerm(cs, i) == LET f == TFactor(cs, i) IN IF f.ok THEN TTermMore(cs, f.pos, f.x) ELSE f
TExprMore(cs, i, left) ==
    IF ChAt(cs, i) \in {"|", ","} THEN
        LET f == TTerm(cs, i + 1) IN IF f.ok THEN TExprMore(cs, f.pos, Or("|", left, f.x)) ELSE f
    ELSE TOk(i, left)
TExpr(cs, i) == LET f == TTerm(cs, i) IN IF f.ok THEN TExprMore(cs, f.pos, f.x) ELSE f

ReadText(cs) ==
    LET r == TExpr(cs, 1) IN
    IF ~r.ok \/ r.pos = Len(cs) + 1 THEN r
    ELSE TFail(IF ChAt(cs, r.pos) = ")" THEN "unbalanced-close" ELSE "operator-expected")

(* every regex of x is one whose matches the model knows *)
RECURSIVE KnownRegexes(_)
KnownRegexes(x) == (x.k = "re" => x.a \in Bodies) /\ \A i \in DOMAIN x.ts : KnownRegexes(x.ts[i])
RECURSIVE UsesKind(_, _)
UsesKind(x, k) == x.k = k \/ \E i \in DOMAIN x.ts : UsesKind(x.ts[i], k)
RECURSIVE UsesOpRegex(_)
UsesOpRegex(x) == (x.k = "re" /\ x.a \in {"b|a$", "a,b", "a&b", "^(a|b)$"}) \/ \E i \in DOMAIN x.ts : UsesOpRegex(x.ts[i])
RECURSIVE UsesQuote(_)
UsesQuote(x) == (x.k \in {"tag", "re"} /\ x.q > 0) \/ \E i \in DOMAIN x.ts : UsesQuote(x.ts[i])

TokOK(tk) == /\ tk.t \in {"(", ")", "!", "&", "|", ",", "tag", "re", "sp"}
             /\ tk.t = "tag" => tk.a \in Universe /\ tk.q \in 0..2
             /\ tk.t = "re"  => tk.a \in Bodies /\ tk.q \in 0..2

(* ---- laws ---- *)
(* the renderer contract is right for the stated precedence: reading what   *)
(* Render wrote gives an expression with the same truth value everywhere    *)
RenderReadable(x) == Read(Render(x)).ok
RenderFaithful(x) == \A S \in SUBSET Universe : Eval(Read(Render(x)).x, S) = Eval(x, S)
(* the text reader agrees with the token reader on everything Render writes, with and without blanks *)
TextFaithful(x) ==
    LET a == ReadText(Write(Render(x)))
        b == ReadText(WriteSpaced(Render(x)))
    IN a.ok /\ b.ok /\ \A S \in SUBSET Universe : Eval(a.x, S) = Eval(x, S) /\ Eval(b.x, S) = Eval(x, S)
BooleanAlgebra(x) == \A S \in SUBSET Universe :
    /\ x.k = "not" => Eval(x, S) = ~Eval(x.ts[1], S)
    /\ x.k = "and" => Eval(x, S) = (Eval(x.ts[1], S) /\ Eval(x.ts[2], S))
    /\ x.k = "or"  => Eval(x, S) = (Eval(x.ts[1], S) \/ Eval(x.ts[2], S))
(* "a | b & !c" means a or (b and (not c)) *)
DocExample ==
    LET ts == <<Tok("tag", "a", 0), Sym("|"), Tok("tag", "b", 0), Sym("&"), Sym("!"), Tok("tag", "ab", 0)>>
        r  == Read(ts)
    IN r.ok /\ r.x = Or("|", Tag("a", 0), And(Tag("b", 0), Not(Tag("ab", 0))))

=============================================================================
