\* demonstration: EXPECTED to violate Deterministic (a free application order is observable)
SPECIFICATION Spec
CONSTANTS
  Kinds = {"fqdn", "pw"}
  NIp = 1
  NDom = 1
  NMac = 1
  NKw = 1
  NPat = 1
  NIp6 = 1
  NAk = 1
  V6Set = {FALSE}
  NoFqdnSet = {FALSE}
  DnameSet = {FALSE}
  DelSet = {"space"}
  MaxTok = 1
  MaxLines = 1
  MaxSpecs = 1
  TotLines = 1
  ObfSet = {TRUE}
  HostSet = {TRUE}
  MacSet = {TRUE}
  KwSets = {{1}}
  PatSets = {{}}
  RegexSet = {FALSE}
  SysDomSet = {TRUE}
  NoRedSet = {FALSE}
  NoObfSets = {{}}
  WidthSet = {FALSE}
  AllowSet = {0}
  FamSet = {"kwdom", "pwip"}
  AllowBlank = FALSE
  Runs = 2
  AllOrders = TRUE
  FreeOrder = TRUE
INVARIANT Deterministic
CHECK_DEADLOCK FALSE
