\* the transcription of the code: TLC is EXPECTED to refute I_ReportTotal
SPECIFICATION MCSpec
CONSTANTS
  MECH = "code"
  YV = {"none"}
  PV = {"none"}
  LV = {"none"}
  Fam = "con"
INVARIANT I_ReportTotal
CHECK_DEADLOCK FALSE
