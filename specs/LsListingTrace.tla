--------------------------- MODULE LsListingTrace ---------------------------
(***************************************************************************)
(* Trace validation for LsListing (X04).  One trace = one rendered listing  *)
(* read by the REAL FileListing / LsBoot / LsDev / LsSysFirmware /          *)
(* ls_parser.parse (harness/drive_lslisting.py), or one output of the real  *)
(* `ls` on a scratch directory whose abstract listing was taken from lstat. *)
(* Events (all judged against the document of the first one):               *)
(*   parse - the abstract listing, the exception if any, the keys, and the  *)
(*           accessors asked about a directory that is not listed           *)
(*   dir   - `in`, listing_of keys, files_of, dirs_of, specials_of of one   *)
(*           directory and the probes with a name that is not listed        *)
(*   total - total_of of one directory                                      *)
(*   ent   - dir_entry, listing_of()[name], path_entry, dir_contains,       *)
(*           raw_entry_of, permissions_of for one entry                     *)
(* An event is accepted iff the listing is admitted and the observed result *)
(* is the reference's (RoundTrip per accessor) and the accessors agree with *)
(* each other (the Law clauses).  Verdicts are total, per event: a rejected  *)
(* event is recorded with the failing clause and the abstract features of  *)
(* the failing input; the remaining events of the trace are still judged.  *)
(***************************************************************************)
EXTENDS LsListing, Json, IOUtils, TLCExt

Batch == JsonDeserialize(IOEnv.TRACE_FILE)

VARIABLES tid, l
tvars == <<vars, tid, l>>

TR    == Batch[tid]
Ev    == TR.events[l + 1]
MoreE == l < Len(TR.events)
D     == TR.events[1].doc                    \* the abstract listing of this trace
P     == TR.events[1]                        \* its parse event
Evs   == {"parse", "dir", "total", "ent"}

KeyD(i)    == Key(D, i)
DirOf(ev)  == D.dirs[ev.d]
EntOf(ev)  == D.dirs[ev.d].ents[ev.e]
NormD(i)   == NormalDir(D, i)
ExpKeys    == {KeyD(i) : i \in DOMAIN D.dirs}
Found(i)   == KeyD(i) \in Rng(P.keys)        \* a directory that was not found is reported once, by the parse event

-----------------------------------------------------------------------------
(* one observed entry record against the reference                          *)
Fields == <<"some", "type", "perms", "links", "owner", "group", "size", "major", "minor", "date", "name", "link", "se",
            "dir", "raw_entry">>
FieldOK(f, r, x, line) ==
    CASE f = "some"  -> r.some
      [] f = "type"  -> r.type = x.type
      [] f = "perms" -> r.perms = x.perms
      [] f = "links" -> r.links = x.links
      [] f = "owner" -> r.owner = x.owner
      [] f = "group" -> r.group = x.group
      [] f = "size"  -> r.size = x.size
      [] f = "major" -> r.major = x.major
      [] f = "minor" -> r.minor = x.minor
      [] f = "date"  -> r.date = x.date
      [] f = "name"  -> r.name = x.name
      [] f = "link"  -> r.haslink = x.haslink /\ r.link = x.link
      [] f = "se"    -> IF x.se = <<>> THEN TRUE                             \* plain listing: nothing demanded
                        ELSE Len(r.se) = 4 /\ (IF Len(x.se) = 4 THEN r.se = x.se ELSE r.se[1] = x.se[1])
      [] f = "dir"   -> r.dir = x.dir
      [] OTHER       -> r.hasraw => r.raw = line                             \* "the raw line is always stored" (while it is)
BadFields(r, x, line) == SelectSeq(Fields, LAMBDA f : ~FieldOK(f, r, x, line))
EntryOK(r, x, line)   == BadFields(r, x, line) = <<>>

ExpEnt(ev) == Exp(EntOf(ev), D.fmt, KeyD(ev.d))

-----------------------------------------------------------------------------
(* RoundTrip and cross-accessor laws, per event                             *)
ParseOK ==
    /\ Ev.exc = ""
    /\ Rng(Ev.keys) = ExpKeys /\ Len(Ev.keys) = Cardinality(ExpKeys)                \* Keys
    /\ (Ev.adir \notin ExpKeys) =>                                                  \* AbsentDir
         (~Ev.ain /\ Ev.alens = <<0, 0, 0, 0>> /\ ~Ev.acontains)

DirOK ==
    ~Found(Ev.d) \/
    LET nd == NormD(Ev.d)  names == {nd.ents[j].name : j \in DOMAIN nd.ents} IN
    /\ Ev.exc = ""
    /\ Ev.isin                                                                      \* Contains
    /\ Rng(Ev.lkeys) = names /\ Len(Ev.lkeys) = Cardinality(names)                  \* ListingOf
    /\ Ev.files = nd.files /\ Ev.dirs = nd.dirs /\ Ev.specials = nd.specials        \* FilesOf DirsOf SpecialsOf
    /\ Rng(Ev.files) \cup Rng(Ev.dirs) \cup Rng(Ev.specials) = Rng(Ev.lkeys)        \* Law:lists-cover-listing
    /\ Len(Ev.files) + Len(Ev.dirs) + Len(Ev.specials) = Len(Ev.lkeys)              \* Law:one-class-per-name
    /\ (Ev.aname \notin names) => (~Ev.acontains /\ Ev.ape = "none" /\ Ev.araw = "none")   \* AbsentName

NotProbed == 0 - 3
TotalOK ==
    ~Found(Ev.d) \/
    /\ Ev.exc = ""
    /\ Ev.total >= 0                                                                \* an integer at all
    /\ DirOf(Ev).total >= 0 => Ev.total = DirOf(Ev).total
    /\ Ev.solo # NotProbed => Ev.total = Ev.solo        \* Law:concatenation - without total line the docstrings demand no
                                                       \* value, but it is the directory's own: the same when listed alone

EntOK ==
    ~Found(Ev.d) \/
    IF ~Ev.inlist THEN ~Ev.contains                  \* the missing name is reported by the dir event; Law:dir_contains
    ELSE
    /\ Ev.exc = ""
    /\ EntryOK(Ev.de, ExpEnt(Ev), Ev.line)                                          \* DirEntry
    /\ Ev.le = Ev.de                                                                \* Law:listing_of=dir_entry
    /\ Ev.contains                                                                  \* Law:dir_contains<=>listing_of
    /\ Ev.pep => Ev.pe = Ev.de                                                      \* Law:path_entry=dir_entry
    /\ Ev.rawkind = "str" /\ Ev.raw = RoughTokens(EntOf(Ev), D.fmt)                 \* RawEntryOf
    /\ (Ev.permkind # "skip" /\ PermsApplies(EntOf(Ev), D.fmt)) =>                  \* PermissionsOf
            (Ev.permkind = "obj" /\ Ev.perm = ExpPerm(EntOf(Ev)))

WellFormed ==
    /\ Ev.ev \in Evs
    /\ (l = 0) = (Ev.ev = "parse")
    /\ Ev.ev \in {"dir", "total", "ent"} => Ev.d \in DOMAIN D.dirs
    /\ Ev.ev = "ent" => Ev.e \in DOMAIN D.dirs[Ev.d].ents

Accepts ==
    /\ WellFormed /\ (l = 0 => Admits(D))            \* a listing outside the quantifier is left at its parse event
    /\ CASE Ev.ev = "parse" -> ParseOK
         [] Ev.ev = "dir"   -> DirOK
         [] Ev.ev = "total" -> TotalOK
         [] OTHER           -> EntOK

-----------------------------------------------------------------------------
(* failing clause + the abstract features of the failing input              *)
B(b, yes) == IF b THEN yes ELSE ""
NameFeat(nm) ==
    B(\E i \in DOMAIN nm : Blank(nm[i]), ":blank") \o B(nm[1] = "-", ":leading-dash") \o B(Contains(nm, <<",">>), ":comma")
    \o B(Contains(nm, <<":">>), ":colon") \o B(nm[1] = "t" /\ Contains(nm, <<"t", "o", "t", "a", "l">>), ":total-like")
    \o B(nm[1] = ".", ":dot")
LinkFeat(e) == B(e.t = "l", ":link") \o B(e.t = "l" /\ Contains(e.target, Arrow), ":arrow-in-target")
               \o B(e.t = "l" /\ \E i \in DOMAIN e.target : Blank(e.target[i]), ":blank-in-target")
(* a known-defect class of the entry that bears on the clause is the whole feature *)
NamesTag(e) == ":" \o D.fmt \o (IF ArrowEnt(e) THEN ":non-link-with-arrow" ELSE ":type=" \o e.t \o NameFeat(e.name))
SeTag(e)    == IF MlsCatEnt(e, D.fmt) THEN ":mls-with-categories"
               ELSE IF ShortCtxEnt(e, D.fmt) THEN ":context-with-fewer-than-four-parts" ELSE ""
FieldFeat(f, e) ==
    CASE f \in {"size", "major", "minor"} -> B(IsDev(e), ":device")
      [] f = "date" -> IF e.date[8] = " " THEN ":year-form" ELSE ":time-form"
      [] f \in {"name", "link"} -> IF ArrowEnt(e) THEN ":non-link-with-arrow" ELSE NameFeat(e.name) \o LinkFeat(e)
      [] f = "perms" -> B(e.mark # <<>>, ":marked")
      [] f \in {"owner", "group", "links"} -> B(IsDigit(e.owner[1]), ":numeric-owner")
      [] f = "se" -> SeTag(e)
      [] f = "type" -> ":type=" \o e.t
      [] OTHER -> ""
DirFeat(i) ==
    LET nm == D.dirs[i].name IN
    B(D.hl, ":head-less") \o B(nm = Slash, ":root-directory")
    \o B(\E j \in DOMAIN D.dirs : j # i /\ OccursAt(nm, D.dirs[j].name, 1), ":prefix-of-another")
    \o B(\E k \in DOMAIN nm : Blank(nm[k]), ":blank-in-name") \o B(nm # <<>> /\ nm[Len(nm)] = ":", ":colon-at-end")
ReaderFeat == IF D.cls \in Wrappers THEN ":wrapper-root-path" ELSE IF D.root = <<>> THEN ":no-root-path" ELSE ":given-root-path"
Struct == B(Len(D.dirs) > 1, ":several-directories") \o B(D.noise, ":noise-line")

DiagParse ==
    IF Ev.exc # "" THEN
        "Parse:exception:" \o Ev.exc \o ":" \o D.fmt
        \o (IF \E e \in AllEnts(D) : CommaEnt(e, D.fmt) THEN ":comma-after-context"
            ELSE B(D.hl, ":head-less") \o Struct)
    ELSE IF ~(Rng(Ev.keys) = ExpKeys /\ Len(Ev.keys) = Cardinality(ExpKeys)) THEN
        "Keys:" \o (IF D.hl THEN "head-less" \o ReaderFeat
                    ELSE LET miss == {i \in DOMAIN D.dirs : KeyD(i) \notin Rng(Ev.keys)} IN
                         IF miss = {} THEN "extra-key" \o Struct
                         ELSE "missing-directory" \o DirFeat(CHOOSE i \in miss : \A j \in miss : i <= j) \o Struct)
    ELSE "AbsentDir:" \o (IF Ev.ain THEN "reported-as-listed" ELSE IF Ev.acontains THEN "dir_contains" ELSE "lists-not-empty")

DiagDir ==
    LET nd == NormD(Ev.d)  names == {nd.ents[j].name : j \in DOMAIN nd.ents}
        ents == D.dirs[Ev.d].ents
        \* the first expected entry that a list lacks / misplaces
        lack(obs, TS) == LET c == {j \in DOMAIN ents : ents[j].t \in TS /\ ents[j].name \notin Rng(obs)} IN
                        IF c = {} THEN "order-or-extra" ELSE LET j == CHOOSE j \in c : \A k \in c : j <= k IN
                            "missing" \o NamesTag(ents[j]) IN
    IF Ev.exc # "" THEN "DirAccessors:exception:" \o Ev.exc \o DirFeat(Ev.d)
    ELSE IF ~Ev.isin THEN "Contains:listed-directory-not-in" \o DirFeat(Ev.d)
    ELSE IF ~(Rng(Ev.lkeys) = names /\ Len(Ev.lkeys) = Cardinality(names)) THEN
        "ListingOf:keys:" \o lack(Ev.lkeys, Types)
    ELSE IF Ev.files # nd.files THEN "FilesOf:" \o lack(Ev.files, Types \ {"b", "c", "d"})
    ELSE IF Ev.dirs # nd.dirs THEN "DirsOf:" \o lack(Ev.dirs, {"d"})
    ELSE IF Ev.specials # nd.specials THEN "SpecialsOf:" \o lack(Ev.specials, {"b", "c"})
    ELSE IF Rng(Ev.files) \cup Rng(Ev.dirs) \cup Rng(Ev.specials) # Rng(Ev.lkeys) THEN "Law:lists-cover-listing"
    ELSE IF Len(Ev.files) + Len(Ev.dirs) + Len(Ev.specials) # Len(Ev.lkeys) THEN "Law:one-class-per-name"
    ELSE "AbsentName:" \o (IF Ev.acontains THEN "dir_contains" ELSE IF Ev.ape # "none" THEN "path_entry:" \o Ev.ape
                           ELSE "raw_entry_of:" \o Ev.araw)

DiagTotal ==
    LET d == DirOf(Ev) IN
    IF Ev.exc # "" THEN "TotalOf:exception:" \o Ev.exc
    ELSE IF Ev.total >= 0 /\ d.total < 0 /\ Ev.solo # NotProbed THEN
        "Law:total_of:differs-when-listed-alone:no-total-line" \o (IF Ev.d = Len(D.dirs) THEN ":last" ELSE ":non-last")
    ELSE "TotalOf:" \o (IF d.total < 0 THEN "no-total-line" ELSE IF d.total = 0 THEN "zero" ELSE "positive")
         \o (IF Ev.d = Len(D.dirs) THEN ":last" ELSE ":non-last") \o (IF d.ents = <<>> THEN ":empty" ELSE ":has-entries")
         \o B(D.hl, ":head-less")

(* another entry of the directory is a non-link whose name up to its arrow is this entry's name *)
Shadowed(e) == \E e2 \in Rng(D.dirs[Ev.d].ents) : ArrowEnt(e2) /\ BeforeFirst(e2.name, Arrow) = e.name
DiagEnt ==
    LET e == EntOf(Ev)  x == ExpEnt(Ev)  fm == ":" \o D.fmt IN
    IF ~Ev.inlist THEN "Law:dir_contains<=>listing_of:not-listed-but-contained"
    ELSE IF Shadowed(e) THEN "DirEntry:shadowed-by-non-link-with-arrow" \o fm
    ELSE IF Ev.exc # "" THEN "DirEntry:exception:" \o Ev.exc \o fm \o LinkFeat(e) \o B(IsDev(e), ":device")
    ELSE IF ~EntryOK(Ev.de, x, Ev.line) THEN
        LET f == BadFields(Ev.de, x, Ev.line)[1] IN "DirEntry:" \o f \o fm \o FieldFeat(f, e)
    ELSE IF Ev.le # Ev.de THEN "Law:listing_of=dir_entry" \o fm
    ELSE IF ~Ev.contains THEN "Law:dir_contains<=>listing_of:listed-but-not-contained"
    ELSE IF Ev.pep /\ Ev.pe # Ev.de THEN
        "Law:path_entry=dir_entry:" \o (IF Ev.pe.some THEN "other-entry" ELSE "none")
        \o (IF KeyD(Ev.d) = Slash THEN ":directory-is-root" ELSE DirFeat(Ev.d) \o NameFeat(e.name))
    ELSE IF ~(Ev.rawkind = "str" /\ Ev.raw = RoughTokens(e, D.fmt)) THEN
        "RawEntryOf:" \o (IF Ev.rawkind = "str" THEN "fields-differ" ELSE Ev.rawkind) \o fm
        \o (IF SeTag(e) # "" THEN SeTag(e)
            ELSE B(e.t = "l", ":link") \o B(IsDev(e), ":device") \o B(\E i \in DOMAIN e.name : Blank(e.name[i]), ":blank"))
    ELSE "PermissionsOf:" \o (IF Ev.permkind = "obj" THEN "attributes-differ" ELSE Ev.permkind)
         \o B(e.t = "l", ":link") \o B(IsDev(e), ":device")

Diagnose ==
    IF ~WellFormed THEN "malformed-event"
    ELSE IF l = 0 /\ ~Admits(D) THEN "not-admitted"
    ELSE CASE Ev.ev = "parse" -> DiagParse
           [] Ev.ev = "dir"   -> DiagDir
           [] Ev.ev = "total" -> DiagTotal
           [] OTHER           -> DiagEnt

-----------------------------------------------------------------------------
Advance == tid' = tid + 1 /\ l' = 0 /\ UNCHANGED vars

TraceInit == /\ tid = 1 /\ l = 0
             /\ inp = 0 /\ pos = 0 /\ cur = 0 /\ acc = 0 /\ out = 0 /\ done = FALSE

(* a rejected event is recorded and the next event is judged; only a trace  *)
(* whose listing is outside the quantifier, or whose events are malformed,  *)
(* is left at once                                                          *)
TraceNext ==
    /\ tid <= Len(Batch)
    /\ IF ~MoreE
         THEN TLCSet(2, TLCGet(2) + l) /\ Advance
         ELSE IF Accepts
           THEN l' = l + 1 /\ tid' = tid /\ UNCHANGED vars
           ELSE /\ TLCSet(1, TLCGet(1) \cup {[id |-> TR.id, line |-> l + 1, clause |-> Diagnose]})
                /\ IF WellFormed /\ (l > 0 \/ Admits(D)) /\ ~(Ev.ev = "parse" /\ Ev.exc # "")
                     THEN l' = l + 1 /\ tid' = tid /\ UNCHANGED vars
                     ELSE TLCSet(2, TLCGet(2) + l) /\ Advance
TraceSpec == TraceInit /\ [][TraceNext]_tvars

ASSUME TLCSet(1, {}) /\ TLCSet(2, 0)

Post ==
    /\ \A r \in TLCGet(1) : PrintT(<<"REJ", ToJson(r)>>)
    /\ PrintT(<<"STAT", ToJson([traces |-> Len(Batch), events |-> TLCGet(2)])>>)

=============================================================================
