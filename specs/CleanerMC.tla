----------------------------- MODULE CleanerMC -----------------------------
(* Model-checking wrapper of Cleaner: emits one CASE record per explored     *)
(* complete history (configuration, order, content) for the replay driver.  *)
EXTENDS Cleaner, Json

SetToSeq(S) == LET RECURSIVE F(_) F(T) == IF T = {} THEN <<>> ELSE LET x == CHOOSE y \in T : TRUE IN <<x>> \o F(T \ {x})
               IN F(S)
CfOut(c) == [obf |-> c.obf, host |-> c.host, mac |-> c.mac, v6 |-> c.v6, kws |-> SetToSeq(c.kws), pats |-> SetToSeq(c.pats),
             regex |-> c.regex, sysdom |-> c.sysdom, fam |-> c.fam, nofqdn |-> c.nofqdn, dname |-> c.dname]
SpOut(sp) == [nored |-> sp.nored, noobf |-> SetToSeq(sp.noobf), width |-> sp.width, allow |-> sp.allow, nak |-> NAk]
Emit ==
    Terminal =>
        PrintT(<<"CASE", ToJson([cf |-> CfOut(cf), ord |-> ord,
                                 content |-> [s \in DOMAIN content |->
                                     [sp |-> SpOut(content[s].sp), lines |-> content[s].lines]]])>>)

=============================================================================
