---------------------------- MODULE FiltersTrace ----------------------------
(***************************************************************************)
(* Trace validation for Filters (C07).                                      *)
(*                                                                         *)
(* kind "hist": a registration / look-up history replayed with real         *)
(*   SpecSet / RegistryPoint / parser / combiner objects through            *)
(*   insights.core.filters.add_filter and get_filters.  Only the            *)
(*   REQUIREMENT part of Filters (eff, Legal, Reaches) is used: the table   *)
(*   and the cache are the implementation's business.                       *)
(*     add: the call is refused exactly when the specification says the     *)
(*          registration is not applicable;                                 *)
(*     get: the returned filter strings are exactly eff[c]; returned        *)
(*          budgets are budgets that were registered for that string.       *)
(* kind "content": one content pushed through one of the code paths that    *)
(*   apply filters; lines are abstracted to the set of registered filter    *)
(*   strings they contain, the output to the indices of the lines it        *)
(*   consists of (0: a line that is not in the input).  Paths include the   *)
(*   files of a multi-output spec (each file one event) and specs loaded    *)
(*   back from a serialized archive (ModelPath).  Judged by the             *)
(*   content operators of Filters.                                          *)
(***************************************************************************)
EXTENDS Filters, Json, IOUtils, TLCExt

Batch == JsonDeserialize(IOEnv.TRACE_FILE)

VARIABLES tid, l, regs, lastEff
tvars == <<vars, tid, l, regs, lastEff>>

T    == Batch[tid]
Ev   == T.events[l + 1]
More == l < Len(T.events)

GraphOf(t) == [p2f |-> t.g.p2f, q2 |-> RngS(t.g.q2), k |-> RngS(t.g.k)]
NoLast == [set |-> FALSE, v |-> {}]

(* ---- histories ---- *)
AllComps == DS \cup Parsers \cup Combs
PatsOf(e) == RngS(e.pats)
AddShapeOK == Ev.k \in AllComps /\ \A p \in PatsOf(Ev) : p \in 0..NP
AddOK == AddShapeOK /\ (Ev.raised <=> ~Legal(Ev.k, PatsOf(Ev), Ev.mx, g))

Got == {Ev.ret[i][1] : i \in DOMAIN Ev.ret}
GetShapeOK == Ev.c \in DS
(* Budgets: FILTERS is kept here as the REQUIRED table - per storing datasource the maximum budget   *)
(* registered so far for a string (add_filter documents the maximum).  A look-up with budgets must  *)
(* return, for every string, the current maximum of the implementation's own table or of its spec's *)
(* table (the statement does not say which of the two wins) - never a budget that a later           *)
(* registration has already raised.                                                                 *)
BudgetNow(c, p) == {FILTERS[Owner(c)][p], FILTERS[PointOf(c)][p]} \ {0}
BudgetsOK == Ev.wm => \A i \in DOMAIN Ev.ret : Ev.ret[i][2] \in BudgetNow(Ev.c, Ev.ret[i][1])
(* skip: a look-up already reported in an earlier validation round (the harness re-validates the  *)
(* rest of a history after a rejection, so that one finding does not hide what follows it)        *)
GetOK == /\ GetShapeOK
         /\ Ev.skip \/ (Judged(Ev.c, g) => (Got = eff[Ev.c] /\ BudgetsOK))

(* ---- contents ---- *)
LinesOf(e) == [i \in DOMAIN e.lines |-> [blank |-> e.lines[i].blank, has |-> RngS(e.lines[i].has)]]
AllowOf(e) == [p \in Pat |-> IF p \in DOMAIN e.allow THEN e.allow[p] ELSE 0]
OutOf(e)   == IF e.collected THEN e.out ELSE <<>>
(* code path of the event -> path of the model.  "-glob": one FILE of a multi-output spec (glob_file), judged as a *)
(* content of its own (MultiOf); "serialized-*": stored with Hydration.dehydrate, loaded back with hydrate.       *)
ModelPath(e) == CASE e.path \in {"host-file", "host-cmd", "host-write", "host-cmd-write"} -> "host"
                  [] e.path = "host-glob" -> "host-multi"
                  [] e.path = "archive-glob" -> "archive-multi"
                  [] e.path = "serialized-file" -> "serialized"
                  [] e.path = "serialized-glob" -> "serialized-multi"
                  [] OTHER -> e.path
IsHost(e)  == MultiOf(ModelPath(e)) = "host"
ContentShapeOK == Len(Ev.allow) <= NP /\ \A i \in DOMAIN Ev.lines : RngS(Ev.lines[i].has) \subseteq Pat
ContentOK ==
    LET L == LinesOf(Ev)  A == AllowOf(Ev)  O == OutOf(Ev) IN
    /\ ContentShapeOK
    /\ IF Dom(A) = {}
         THEN IsHost(Ev) => ~Ev.collected                       \* NoFilterNoHostCollection
         ELSE /\ SubsequenceOf(L, O)
              /\ KeptLinesMatchOf(L, A, O)
              /\ LastMatchKeptOf(L, A, O)
              /\ DroppedOnlyWhenBudgetSpentOf(L, A, O)

Accepts ==
    CASE Ev.ev = "add"     -> AddOK
      [] Ev.ev = "get"     -> GetOK
      [] Ev.ev = "content" -> ContentOK
      [] OTHER -> FALSE

Apply ==
    CASE Ev.ev = "add" ->
           /\ IF Ev.raised THEN UNCHANGED <<eff, regs, FILTERS>>
              ELSE /\ eff' = [c \in DS |-> IF Reaches(Ev.k, c, g) /\ Judged(c, g) THEN eff[c] \cup PatsOf(Ev) ELSE eff[c]]
                   /\ regs' = regs \cup {[k |-> Ev.k, p |-> p, mx |-> Ev.mx] : p \in PatsOf(Ev)}
                   /\ FILTERS' = [d \in DS |-> IF d \in Targets(Ev.k, g)
                                                 THEN [p \in Pat |-> IF p \in PatsOf(Ev) THEN MaxOf(FILTERS[d][p], Ev.mx)
                                                                     ELSE FILTERS[d][p]]
                                                 ELSE FILTERS[d]]
           /\ UNCHANGED <<g, cache, ret, nops, cvars, lastEff>>
      [] Ev.ev = "get" ->
           /\ lastEff' = [lastEff EXCEPT ![Ev.c] = [set |-> TRUE, v |-> Got]]      \* what the previous look-up returned
           /\ UNCHANGED <<vars, regs>>
      [] OTHER -> UNCHANGED <<vars, regs, lastEff>>

(* ---- diagnosis: failing clause + abstract features of the failing case ---- *)
KindOf(c) == CASE c \in {"I1", "I2", "I3"} -> "impl"
               [] c \in Inner -> "inner"
               [] c \in Points -> "point"
               [] c \in Parsers -> "parser"
               [] c \in Combs -> "combiner"
               [] OTHER -> "unknown"
OnSelf(p, c)  == \E r \in regs : r.p = p /\ r.k = c
OnOther(p, c) == \E r \in regs : r.p = p /\ r.k # c /\ Reaches(r.k, c, g)
DiagGet ==
    IF ~GetShapeOK THEN "get.shape"
    ELSE LET c == Ev.c
             missing == eff[c] \ Got
             extra   == Got \ eff[c]
         IN IF missing # {} THEN
                 "LookupIsUnion:" \o
                 (IF lastEff[c].set /\ Got = lastEff[c].v THEN "stale-result-of-earlier-lookup" ELSE "missing") \o
                 ":lookup-" \o KindOf(c) \o ":registered-on-" \o
                 (IF \A p \in missing : ~OnSelf(p, c) THEN "other-component"
                  ELSE IF \A p \in missing : ~OnOther(p, c) THEN "itself" ELSE "itself+other-component") \o
                 \* a missing string registered through a combiner that consumes a spec directly and another
                 \* one through a parser (mixed dependency levels)
                 (IF \E p \in missing : \E r \in regs : r.p = p /\ r.k \in Combs /\ g.k \cap Points # {}
                                                         /\ Reaches(r.k, c, g)
                  THEN ":through-mixed-level-combiner" ELSE "")
            ELSE IF extra # {} THEN
                 "LookupIsUnion:extra:lookup-" \o KindOf(c) \o
                 (IF \E p \in extra : \E r \in regs : r.p = p THEN ":registered-elsewhere" ELSE ":never-registered")
            ELSE "LookupBudget:" \o
                 (IF \E i \in DOMAIN Ev.ret : \E r \in regs : r.p = Ev.ret[i][1] /\ r.mx = Ev.ret[i][2]
                                                               /\ Reaches(r.k, c, g)
                                                               /\ Ev.ret[i][2] \notin BudgetNow(c, Ev.ret[i][1])
                  THEN "stale-budget-raised-by-a-later-registration"
                  ELSE "budget-not-registered-for-this-datasource") \o
                 ":lookup-" \o KindOf(c)

DiagAdd ==
    IF ~AddShapeOK THEN "add.shape"
    ELSE IF Ev.raised THEN "RegistrationAccepted:refused-applicable-registration:on-" \o KindOf(Ev.k) \o
                           (IF Ev.k \in Combs /\ g.k \cap Points # {} THEN ":mixed-level-combiner" ELSE "")
    ELSE "RegistrationRefused:accepted-" \o
         (IF Ev.mx <= 0 THEN "bad-budget" ELSE IF 0 \in PatsOf(Ev) THEN "empty-pattern" ELSE "not-filterable") \o
         ":on-" \o KindOf(Ev.k)

PathClass(e) == ModelPath(e)
DiagContent ==
    LET L == LinesOf(Ev)  A == AllowOf(Ev)  O == OutOf(Ev) IN
    IF ~ContentShapeOK THEN "content.shape"
    ELSE (IF Dom(A) = {} THEN "NoFilterNoHostCollection"
          ELSE IF ~SubsequenceOf(L, O) THEN
                  (IF \E i \in DOMAIN O : O[i] \notin DOMAIN L THEN "Subsequence.foreign-line" ELSE "Subsequence.order")
          ELSE IF ~KeptLinesMatchOf(L, A, O) THEN "KeptLinesMatch"
          ELSE IF ~LastMatchKeptOf(L, A, O) THEN
                  (IF O = <<>> THEN "LastMatchKept.nothing-kept" ELSE "LastMatchKept")
          ELSE "DroppedOnlyWhenBudgetSpent")
         \o ":" \o PathClass(Ev) \o ":" \o Ev.feat

Diagnose ==
    CASE Ev.ev = "add"     -> DiagAdd
      [] Ev.ev = "get"     -> DiagGet
      [] Ev.ev = "content" -> DiagContent
      [] OTHER -> "unknown-event"

Fixed ==
    /\ FILTERS = [d \in DS |-> NoFilters] /\ cache = [d \in DS |-> NoCache]
    /\ ret = [op |-> "none", c |-> "P", v |-> NoFilters, raised |-> FALSE] /\ nops = 0
    /\ CIdle

StartOf(t) ==
    /\ g' = (IF t.kind = "hist" THEN GraphOf(t) ELSE [p2f |-> FALSE, q2 |-> {"P"}, k |-> {"Q1"}])
    /\ eff' = [c \in DS |-> {}]
    /\ regs' = {}
    /\ lastEff' = [c \in DS |-> NoLast]
    /\ FILTERS' = [d \in DS |-> NoFilters]
    /\ UNCHANGED <<cache, ret, nops, cvars>>

Advance ==
    IF tid < Len(Batch)
      THEN tid' = tid + 1 /\ l' = 0 /\ StartOf(Batch[tid + 1])
      ELSE tid' = Len(Batch) + 1 /\ l' = 0 /\ UNCHANGED <<vars, regs, lastEff>>

TraceInit ==
    /\ tid = 1 /\ l = 0 /\ Fixed
    /\ g = (IF Batch[1].kind = "hist" THEN GraphOf(Batch[1]) ELSE [p2f |-> FALSE, q2 |-> {"P"}, k |-> {"Q1"}])
    /\ eff = [c \in DS |-> {}] /\ regs = {} /\ lastEff = [c \in DS |-> NoLast]

TraceNext ==
    /\ tid <= Len(Batch)
    /\ IF ~More
         THEN TLCSet(2, TLCGet(2) + l) /\ Advance
         ELSE IF Accepts
           THEN Apply /\ l' = l + 1 /\ tid' = tid
           ELSE /\ TLCSet(1, TLCGet(1) \cup {[id |-> T.id, line |-> l + 1, clause |-> Diagnose]})
                /\ TLCSet(2, TLCGet(2) + l)
                /\ Advance
TraceSpec == TraceInit /\ [][TraceNext]_tvars

ASSUME TLCSet(1, {}) /\ TLCSet(2, 0)

Post ==
    /\ \A r \in TLCGet(1) : PrintT(<<"REJ", ToJson(r)>>)
    /\ PrintT(<<"STAT", ToJson([traces |-> Len(Batch), events |-> TLCGet(2)])>>)

=============================================================================
