---------------------------- MODULE SpecRegistry ----------------------------
(***************************************************************************)
(* Spec sets of insights-core (insights/core/spec_factory.py:526-685,       *)
(* insights/core/dr.py:134-135, 789-798).                                   *)
(*                                                                         *)
(* A registry point (a spec name) is declared in a base SpecSet class.      *)
(* Every direct subclass that defines a datasource of the same name         *)
(* registers an IMPLEMENTATION.  A subclass may RE-DECLARE the point (same   *)
(* name again): the refined point is wired onto its parent's point as one   *)
(* more datasource and direct subclasses of the refining class attach their *)
(* implementations to it - "levels" 0 (the class declaring the name first)  *)
(* .. levels.  The context handler lists live on the HIGHEST class of the   *)
(* MRO declaring the name, i.e. they are shared by all levels.  A behaviour *)
(* is                                                                       *)
(*   reg  : a history of RegisterImpl steps (one per subclass definition),  *)
(*          modelled the way the metaclass does it: the point's dependency  *)
(*          list grows by append, every context found in the dependency     *)
(*          tree of the new implementation gets it appended to that         *)
(*          context's handler list, after every earlier handler of that     *)
(*          context was told to ignore the context (dr.add_ignore);         *)
(*   eval : one evaluation (dr.run) with one active context and a           *)
(*          success / failure outcome for every implementation and helper   *)
(*          datasource, or (archive hydration) with the values of some      *)
(*          implementations already in the broker;                          *)
(*   done.                                                                  *)
(*                                                                         *)
(* Property C05 is stated INDEPENDENTLY of the mechanism (operators         *)
(* DeclFor, Latest, Yields: they look only at the declarations, never at    *)
(* handlers / ignore / pointDeps) and TLC checks mechanism => statement for *)
(* every history, active context and outcome vector of the bounded size.    *)
(***************************************************************************)
EXTENDS Naturals, Sequences, FiniteSets, TLC

CONSTANTS
    NCtx,        \* execution contexts 1..NCtx
    MaxImpl,     \* implementations per history
    MaxAny,      \* longest at-least-one list of contexts
    KindSet,     \* declaration kinds explored: "req", "any", "via", "viaimpl"
    AllowSeed,   \* BOOLEAN: also explore evaluations over a pre-seeded broker
    MaxLvl,      \* how often the registry point may be re-declared down the class hierarchy
    MidEval      \* BOOLEAN: also explore evaluations between registrations

VARIABLES
    phase,       \* "reg" | "eval" | "done"
    impls,       \* Seq of declarations, in registration order
    handlers,    \* [Ctx -> Seq(impl)]   SpecSet.context_handlers[name][ctx]
    ignore,      \* [1..MaxImpl -> SUBSET Ctx]   dr.IGNORE projected on contexts
    levels,      \* 0..MaxLvl: number of re-declarations of the point (chosen with the history)
    pointDeps,   \* [0..MaxLvl -> Seq(impl, or 0 for the point of the next level)]   dr.get_delegate(point_l).deps
    ev           \* the evaluation: [active, outc, houtc, seeded, has, called, pval]

vars == <<phase, impls, handlers, ignore, levels, pointDeps, ev>>

Ctx      == 1..NCtx
Rng(s)   == {s[i] : i \in DOMAIN s}
Max(S)   == CHOOSE x \in S : \A y \in S : y <= x
InjSeqs(S, lo, hi) == {s \in UNION {[1..n -> S] : n \in lo..hi} : \A i, j \in DOMAIN s : s[i] = s[j] => i = j}

-----------------------------------------------------------------------------
(* Declarations.  One record shape [k, cs, j, lvl] (lvl: the level whose     *)
(* point the implementation is attached to):                                *)
(*   "req"     @datasource(C)               cs = <<C>>                       *)
(*   "any"     @datasource([C1, .., Cn])    cs = <<C1, .., Cn>>              *)
(*   "via"     @datasource(h) with a helper datasource h declared           *)
(*             @datasource(C) (Len(cs) = 1) or @datasource([C1, ..])         *)
(*   "viaimpl" @datasource(<earlier implementation j of the same spec>)     *)
Decls(n) ==
    (IF "req" \in KindSet THEN [k : {"req"}, cs : {<<c>> : c \in Ctx}, j : {0}, lvl : 0..levels] ELSE {})
    \cup (IF "any" \in KindSet THEN [k : {"any"}, cs : InjSeqs(Ctx, 1, MaxAny), j : {0}, lvl : 0..levels] ELSE {})
    \cup (IF "via" \in KindSet THEN [k : {"via"}, cs : InjSeqs(Ctx, 1, MaxAny), j : {0}, lvl : 0..levels] ELSE {})
    \cup (IF "viaimpl" \in KindSet THEN [k : {"viaimpl"}, cs : {<<>>}, j : 1..n, lvl : 0..levels] ELSE {})

(* _get_ctx_dependencies: every context in the dependency tree (dr.walk_tree) *)
RECURSIVE TreeCtx(_, _)
TreeCtx(d, I) == IF d.k = "viaimpl" THEN TreeCtx(I[d.j], I) ELSE Rng(d.cs)

NoEval == [active |-> 0, outc |-> <<>>, houtc |-> <<>>, seeded |-> {}, arch |-> FALSE, has |-> {}, called |-> {},
           pval |-> 0]

(* The re-declaring classes exist before the first implementation: the     *)
(* point of level l+1 is the first dependency of the point of level l.      *)
FreshDeps(L) == [l \in 0..MaxLvl |-> IF l < L THEN <<0>> ELSE <<>>]

Init ==
    /\ phase = "reg" /\ impls = <<>>
    /\ handlers = [c \in Ctx |-> <<>>]
    /\ ignore = [i \in 1..MaxImpl |-> {}]
    /\ levels \in 0..MaxLvl
    /\ pointDeps = FreshDeps(levels)
    /\ ev = NoEval

(* spec_factory.py:634-657 + 597-616 *)
RegState(d, I, H, G, P) ==
    LET i  == Len(I) + 1
        cs == TreeCtx(d, I)
    IN [impls     |-> Append(I, d),
        pointDeps |-> [P EXCEPT ![d.lvl] = Append(@, i)],                 \* dr.add_dependency(point_lvl, v)
        ignore    |-> [x \in DOMAIN G |-> G[x] \cup {c \in cs : x \in Rng(H[c])}],   \* add_ignore(old, c)
        handlers  |-> [c \in DOMAIN H |-> IF c \in cs THEN Append(H[c], i) ELSE H[c]]]

RegisterImpl(d) ==
    /\ phase = "reg" /\ Len(impls) < MaxImpl
    /\ LET s == RegState(d, impls, handlers, ignore, pointDeps) IN
         /\ impls' = s.impls /\ pointDeps' = s.pointDeps /\ ignore' = s.ignore /\ handlers' = s.handlers
    /\ ev' = NoEval                    \* an earlier evaluation says nothing about the new history
    /\ UNCHANGED <<phase, levels>>

-----------------------------------------------------------------------------
(* Evaluation, the way the engine does it (DrEngine: Ignored branch,        *)
(* MissingReq branch, registry point = at-least-one group read in reverse). *)
(* a = active context (0: none), S = implementations whose value is         *)
(* already in the broker (never re-run: dr.py:1067), P = implementations    *)
(* removed from the graph before the run (Pruned).                          *)
RECURSIVE Run(_, _, _, _, _, _, _)
Run(i, a, S, P, oc, hoc, st) ==
    IF i > Len(impls) THEN st
    ELSE LET d     == impls[i]
             ign   == a \in ignore[i]                                  \* dr.py:793
             ready == CASE d.k \in {"req", "any"} -> a \in Rng(d.cs)
                        [] d.k = "via"            -> a \in Rng(d.cs) /\ hoc[i] = "val"
                        [] OTHER                  -> d.j \in st.has
             fire  == i \notin S /\ i \notin P /\ ~ign /\ ready
         IN Run(i + 1, a, S, P, oc, hoc,
                [has    |-> st.has \cup (IF i \in S \/ (fire /\ oc[i] = "val") THEN {i} ELSE {}),
                 called |-> st.called \cup (IF fire THEN {i} ELSE {})])

(* RegistryPoint.__call__ (spec_factory.py:561-565): the last dependency    *)
(* that has a value; a dependency may be the point of the next level.       *)
RECURSIVE PickAt(_, _)
PickAt(l, has) ==
    LET ds    == pointDeps[l]
        sub   == IF l < MaxLvl THEN PickAt(l + 1, has) ELSE 0
        holds(x) == IF ds[x] = 0 THEN sub # 0 ELSE ds[x] \in has
        idx   == {x \in DOMAIN ds : holds(x)}
    IN IF idx = {} THEN 0 ELSE IF ds[Max(idx)] = 0 THEN sub ELSE ds[Max(idx)]
PointPick(has) == PickAt(0, has)        \* observed at the class that declares the name first

(* dr.run with a SerializedArchiveContext in the broker (arch): the DIRECT   *)
(* dependencies of every component whose value is already loaded are taken  *)
(* out of the graph ("no need to collect them again", dr.py:1121-1128), so  *)
(* an implementation a seeded one is bound to does not run, and neither     *)
(* does anything else bound to it.                                          *)
PrunedIn(I, S, arch) == IF arch THEN {I[s].j : s \in {x \in S : I[x].k = "viaimpl"}} ELSE {}

EvalWith(a, oc, hoc, S, arch) ==
    LET r == Run(1, a, S, PrunedIn(impls, S, arch) \ S, oc, hoc, [has |-> {}, called |-> {}])
    IN [active |-> a, outc |-> oc, houtc |-> hoc, seeded |-> S, arch |-> arch, has |-> r.has, called |-> r.called,
        pval |-> PointPick(r.has)]

Outs  == {"val", "fail"}
HOuts(n) == {h \in [1..n -> Outs] : \A i \in 1..n : impls[i].k # "via" => h[i] = "val"}

(* without a context only an implementation bound to another one can still fire *)
SeedOuts(n) == {o \in [1..n -> Outs] : \A i \in 1..n : impls[i].k # "viaimpl" => o[i] = "val"}

StartEval ==
    /\ phase = "reg" /\ impls # <<>> /\ ev = NoEval
    /\ phase' = "eval"
    /\ UNCHANGED <<impls, handlers, ignore, levels, pointDeps, ev>>

Evaluate ==
    /\ phase = "eval"
    /\ phase' = "done"
    /\ LET n == Len(impls) IN
       \/ \E a \in Ctx, oc \in [1..n -> Outs], hoc \in HOuts(n) : ev' = EvalWith(a, oc, hoc, {}, FALSE)
       \/ /\ AllowSeed /\ levels = 0          \* (seeded brokers: single-level histories only, see notes/C05.md)
          /\ \E S \in SUBSET (1..n) \ {{}}, oc \in SeedOuts(n), arch \in BOOLEAN :
                ev' = EvalWith(0, oc, [i \in 1..n |-> "val"], S, arch)
    /\ UNCHANGED <<impls, handlers, ignore, levels, pointDeps>>

(* An evaluation BETWEEN registrations (same process: "register A; evaluate; register B; evaluate    *)
(* again"): registration goes on afterwards, and every evaluation is judged against the history so    *)
(* far.  The mechanism keeps no state between evaluations; an implementation that does (e.g. a        *)
(* delegate remembering its ignore set) is caught by trace validation.                                *)
MidEvaluate ==
    /\ MidEval /\ phase = "reg" /\ impls # <<>> /\ ev = NoEval
    /\ LET n == Len(impls) IN
       \E a \in Ctx, oc \in [1..n -> Outs], hoc \in HOuts(n) : ev' = EvalWith(a, oc, hoc, {}, FALSE)
    /\ UNCHANGED <<phase, impls, handlers, ignore, levels, pointDeps>>

Register == \E d \in Decls(Len(impls)) : RegisterImpl(d)
Next == Register \/ MidEvaluate \/ StartEval \/ Evaluate
Spec == Init /\ [][Next]_vars

-----------------------------------------------------------------------------
(* The statement of C05, from the declarations alone.                       *)
(* "declared for context a": a occurs in what the implementation declares,  *)
(* directly or through the datasource it is bound to.                       *)
RECURSIVE DeclForIn(_, _)
DeclForIn(i, I) == IF I[i].k = "viaimpl" THEN DeclForIn(I[i].j, I) ELSE Rng(I[i].cs)
DeclFor(i)  == DeclForIn(i, impls)
LatestIn(a, I) == LET s == {i \in DOMAIN I : a \in DeclForIn(i, I)} IN IF s = {} THEN 0 ELSE Max(s)
Latest(a)   == LatestIn(a, impls)

(* Does implementation i produce a value when it is THE implementation for  *)
(* the active context?  An implementation bound to an earlier               *)
(* implementation of the same spec gets no input: that one is overridden    *)
(* ("not executed at all").                                                 *)
YieldsIn(i, I, oc, hoc) ==
    CASE I[i].k \in {"req", "any"} -> oc[i] = "val"
      [] I[i].k = "via"            -> hoc[i] = "val" /\ oc[i] = "val"
      [] OTHER                     -> FALSE
ExpectedIn(a, I, oc, hoc) ==
    LET L == LatestIn(a, I) IN IF L # 0 /\ YieldsIn(L, I, oc, hoc) THEN L ELSE 0

(* Archive hydration: values of S are in the broker, no execution context   *)
(* of the history is.  Which further implementations obtain a value is the  *)
(* engine's business (only one bound to an implementation that has a value  *)
(* can fire, and not when the archive pruning removed it: P); the statement *)
(* of C05 for this situation is about the registry point: it hands on the   *)
(* value of the most recently registered implementation THAT HOLDS ONE.     *)
RECURSIVE AvailIn(_, _, _, _, _)
AvailIn(n, I, S, P, oc) ==
    IF n = 0 THEN {}
    ELSE LET A == AvailIn(n - 1, I, S, P, oc)
         IN IF n \in S \/ (n \notin P /\ I[n].k = "viaimpl" /\ I[n].j \in A /\ oc[n] = "val") THEN A \cup {n} ELSE A
LatestHolding(H) == IF H = {} THEN 0 ELSE Max(H)

Done    == ev.outc # <<>>              \* an evaluation of the current history (final or between registrations)
Ctxd    == Done /\ ev.active # 0

ResolvesToLatest ==
    Ctxd => ev.pval = ExpectedIn(ev.active, impls, ev.outc, ev.houtc)
EarlierNotExecuted ==
    Ctxd => \A j \in DOMAIN impls : (ev.active \in DeclFor(j) /\ j < Latest(ev.active)) => j \notin ev.called
OtherContextsSilent ==
    Ctxd => \A j \in DOMAIN impls : ev.active \notin DeclFor(j) => (j \notin ev.called /\ ev.pval # j)
AbsentNotBackfilled ==
    Ctxd => LET L == Latest(ev.active) IN
            (L # 0 /\ ~YieldsIn(L, impls, ev.outc, ev.houtc)) => ev.pval = 0
SeededResolvesToLatest ==
    (Done /\ ev.active = 0) => /\ ev.pval = LatestHolding(ev.has)
                               /\ ev.called \cap ev.seeded = {}
(* denotation of what holds a value after a seeded run (engine side, with the archive pruning) *)
SeededAvail ==
    (Done /\ ev.active = 0) =>
        ev.has = AvailIn(Len(impls), impls, ev.seeded, PrunedIn(impls, ev.seeded, ev.arch) \ ev.seeded, ev.outc)

(* Mechanism invariants (every state): exactly the latest handler of a      *)
(* context does not ignore it; handler lists are the declared ones.         *)
IgnoreExact ==
    \A a \in Ctx : {i \in DOMAIN impls : a \in DeclFor(i) /\ a \notin ignore[i]}
                     = (IF Latest(a) = 0 THEN {} ELSE {Latest(a)})
HandlersDeclared ==
    \A a \in Ctx : /\ Rng(handlers[a]) = {i \in DOMAIN impls : a \in DeclFor(i)}
                   /\ \A x, y \in DOMAIN handlers[a] : x < y => handlers[a][x] < handlers[a][y]
(* every point lists the point of the next level first, then exactly the implementations attached to it, in order *)
PointDepsInOrder ==
    \A l \in 0..MaxLvl :
        LET ds == pointDeps[l] IN
        /\ {ds[x] : x \in DOMAIN ds} = {i \in DOMAIN impls : impls[i].lvl = l} \cup (IF l < levels THEN {0} ELSE {})
        /\ \A x, y \in DOMAIN ds : x < y => ds[x] < ds[y]

-----------------------------------------------------------------------------
(* Static resolution over a dependency DAG recovered from the registries    *)
(* (used for the shipped spec sets, which cannot be executed).  nodes is a  *)
(* sequence in dependency order of                                          *)
(*   [t |-> "ctx", c |-> context id, ..] or                                 *)
(*   [t |-> "comp", req |-> Seq(node), grp |-> Seq(Seq(node)), ign |-> Seq(context id)].  *)
(* "declared for a" = can fire when a is the only context in the broker and *)
(* every body succeeds; "executable under a" additionally honours IGNORE.   *)
NodeOK(nd, S, a, useIgn) ==
    IF nd.t = "ctx" THEN nd.c = a
    ELSE /\ ~(useIgn /\ a \in Rng(nd.ign))
         /\ \A r \in Rng(nd.req) : r \in S
         /\ \A gi \in DOMAIN nd.grp : \E x \in Rng(nd.grp[gi]) : x \in S
RECURSIVE SatUpTo(_, _, _, _)
SatUpTo(nodes, n, a, useIgn) ==
    IF n = 0 THEN {}
    ELSE LET S == SatUpTo(nodes, n - 1, a, useIgn)
         IN IF NodeOK(nodes[n], S, a, useIgn) THEN S \cup {n} ELSE S
StaticDecl(nodes, pimpls, a) == {x \in DOMAIN pimpls : pimpls[x] \in SatUpTo(nodes, Len(nodes), a, FALSE)}
StaticExec(nodes, pimpls, a) == {x \in DOMAIN pimpls : pimpls[x] \in SatUpTo(nodes, Len(nodes), a, TRUE)}
StaticEarlierNotExecuted(nodes, pimpls, a) ==
    LET D == StaticDecl(nodes, pimpls, a) IN
    \A x \in D : x # Max(D) => x \notin StaticExec(nodes, pimpls, a)
StaticLatestRuns(nodes, pimpls, a) ==
    LET D == StaticDecl(nodes, pimpls, a) IN
    D # {} => Max(D) \in StaticExec(nodes, pimpls, a)
StaticOthersSilent(nodes, pimpls, a) ==
    StaticExec(nodes, pimpls, a) \subseteq StaticDecl(nodes, pimpls, a)

=============================================================================
