SPECIFICATION Spec
CONSTANTS
  N = 2
  Kinds = {"command"}
  Atoms = {"p"}
  MinLines = 1
  MaxLines = 1
  MaxElems = 0
  SaveAsSet = {"none"}
  Modes = {"deleted", "unknown"}
  MayFail = FALSE
  OutcomeSet = {}
  BackedSet = {FALSE, TRUE}
  FilterSet = {FALSE}
  Budget = 2
  BudgetMode = "per-load"
  RecordMode = "component"
  PoolSet = {FALSE}
  AssembleMode = "index"
  LateSet = {FALSE, TRUE}
  LookupMode = "live"
  MaxFaults = 1
INVARIANT RoundTrip
INVARIANT ErrorsPersisted
INVARIANT FaultIsolation
CONSTRAINT Emit
CHECK_DEADLOCK FALSE
