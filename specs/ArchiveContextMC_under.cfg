SPECIFICATION Spec
CONSTANTS
  Dirs = {"a", "insights_commands", "JBOSS_HOME"}
  Leaves = {"f", "insights_archive.txt"}
  MaxFiles = 2
  MaxDepth = 2
  Packs = {"dir", "tar"}
  Wraps = {FALSE}
  Evils = {"none"}
  Overrides = {"none"}
  Wheres = {"under"}
  Injects = {"none"}
  Plugs = {"none"}
  Modes = {"api"}
  Spaces = {"none"}
  Mech = "intended"
  Admit = {}
INVARIANT TypeOK
INVARIANT MarkerPriority
INVARIANT TriedInOrder
INVARIANT DefaultWhenNoMarker
INVARIANT RootInsideInput
INVARIANT OverrideWins
INVARIANT CreateAllowed
INVARIANT ListedExactly
INVARIANT BrokerSeededExactly
INVARIANT ExtractionStaysInTempDir
INVARIANT TempDirRemoved
INVARIANT ContextDeterministic
INVARIANT Ends
CONSTRAINT Emit
CHECK_DEADLOCK FALSE
