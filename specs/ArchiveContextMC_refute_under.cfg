\* the transcription of the code on the 'under' inputs: TLC is EXPECTED to refute F_RootInside
SPECIFICATION Spec
CONSTANTS
  Dirs = {"a"}
  Leaves = {"f"}
  MaxFiles = 1
  MaxDepth = 2
  Packs = {"dir"}
  Wraps = {FALSE}
  Evils = {"none"}
  Overrides = {"none"}
  Wheres = {"under"}
  Injects = {"none"}
  Plugs = {"none"}
  Modes = {"api"}
  Spaces = {"none"}
  Mech = "code"
  Admit = {"under"}
INVARIANT F_RootInside
CHECK_DEADLOCK FALSE
