------------------------------ MODULE CollectRun ------------------------------
(***************************************************************************)
(* The host COLLECTION RUN as a whole: insights.collect.collect(manifest,   *)
(* tmp_path, archive_name, rm_conf, compress) together with                 *)
(* insights.apply_default_enabled / apply_configs, collect.apply_blacklist, *)
(* collect.get_to_persist, serde.Hydration.make_persister, dr.run_all with  *)
(* and without a pool, and loading the produced archive back                *)
(* (hydration.initialize_broker / Hydration.hydrate).                       *)
(*                                                                         *)
(* One behaviour = one call of collect() followed by a load of what it      *)
(* produced; one action per phase of collect():                             *)
(*                                                                         *)
(*   load -> default -> configs -> blacklist -> context -> topersist ->     *)
(*   run (Attempt(c) / Persist(c) per component, any schedule the run       *)
(*   strategy allows) -> finish -> loadback -> done                         *)
(*                                                                         *)
(* The manifest, the environment (is the collected file there, what does    *)
(* the custom datasource do) and the state dr.ENABLED had BEFORE the call   *)
(* are chosen in Init, so one TLC run covers every manifest of the bound.   *)
(*                                                                         *)
(* The component universe is fixed (a generated package x01 + one real      *)
(* spec of insights.specs.default, needed for symbolic deny entries):       *)
(*                                                                         *)
(*   PA  x01.specs.Specs.alpha      registry point                          *)
(*   PAX x01.specs.Specs.alpha_x    registry point (its name EXTENDS PA's)  *)
(*   PB  x01.specs.Specs.beta       registry point, multi_output            *)
(*   PG  x01.specs.Specs.gamma      registry point                          *)
(*   PO  insights.specs.Specs.os_release                                    *)
(*   IA  x01.specs.Impl.alpha       simple_file("/etc/x01/alpha")           *)
(*   IAX x01.specs.Impl.alpha_x     simple_command("/bin/echo alpha x")     *)
(*   IB  x01.specs.Impl.beta        glob_file("/etc/x01/b/*")  (b1, b2)     *)
(*   IG  x01.specs.Impl.gamma       @datasource(HostContext), outcome = env *)
(*   IO  insights.specs.default.DefaultSpecs.os_release  simple_file        *)
(*   PR  x01.plugins.AlphaParser    parser(Specs.alpha), has a serializer   *)
(*   CB  x01.plugins.comb           combiner(AlphaParser, optional gamma),  *)
(*                                  value has NO serializer                 *)
(*                                                                         *)
(* Names are sequences of tokens whose concatenation is the real name; a    *)
(* manifest prefix is a token sequence too, "starts with" is IsPrefix on    *)
(* tokens (the driver checks that this agrees with str.startswith on the    *)
(* concatenations for every prefix and every loaded component: R4).         *)
(*                                                                         *)
(* The state is ONE record-valued variable s; every action is a function    *)
(* from records to records, so that CollectRunTrace can evaluate exactly    *)
(* the same operators on recorded executions.                               *)
(***************************************************************************)
EXTENDS Naturals, Sequences, FiniteSets, TLC

CONSTANTS
    MaxCfg,        \* at most this many (free) entries in plugins.configs
    CfgNames,      \* prefix ids a config entry may use
    CfgFlags,      \* subset of {"on", "off", "omit"}   (omit: the entry has no "enabled" key)
    CfgPreset,     \* "free" | "allon" : the configs are enumerated / fixed to "everything enabled"
    MaxPersist,    \* at most this many entries in client.persist
    PersistNames,  \* prefix ids a persist entry may use
    PersistFlags,  \* subset of {"on", "off", "omit", "str"}  (str: the entry is a bare string)
    PersistPreset, \* "free" | "all" | "wide" : enumerated / one fixed list / one of two fixed wide lists
    DefaultSet,    \* subset of BOOLEAN: plugins.default_component_enabled
    PreSet,        \* subset of PreAll: what dr.ENABLED said before the call
    FileDeny,      \* deny entry ids usable in blacklist.files
    CmdDeny,       \* ... in blacklist.commands
    CompDeny,      \* ... in blacklist.components
    MaxDeny,       \* at most this many deny entries in total (at most one per kind)
    ViaSet,        \* subset of {"manifest", "rmconf", "split"}: where the deny lists are written
    StrategySet,   \* subset of {"serial", "parallel"}
    WorkerSet,     \* subset of {"default", "one"}: run_strategy.args.max_workers
    CompressSet,   \* subset of BOOLEAN
    AlphaSet,      \* subset of {"present", "absent"}: the file of IA
    GammaSet,      \* subset of {"val", "oserr", "crash", "content"}: what IG's body does
    Interleave,    \* TRUE: every schedule the strategy allows, one Attempt / Persist step per component;
                   \* FALSE: the canonical schedule as ONE step (ARunCanon)
    CfgMode,       \* "documented" | "break" | "omitdefault" | "code"   (the last three exist so that TLC can
                   \* show that EnabledIsLastMatch is able to fail; "code" transcribes apply_configs as it is)
    PersistMode,   \* "documented" | "ignoreoff"
    PersisterMode  \* "documented" | "everything"

VARIABLE s

---------------------------------------------------------------------------
(* generic helpers *)
Rng(q)         == {q[i] : i \in DOMAIN q}
IsPrefix(p, n) == Len(p) <= Len(n) /\ SubSeq(n, 1, Len(p)) = p
MaxOf(S)       == CHOOSE x \in S : \A y \in S : y <= x
SeqsUpTo(S, n) == UNION {[1..k -> S] : k \in 0..n}

---------------------------------------------------------------------------
(* the universe *)
Points == {"PA", "PAX", "PB", "PG", "PO"}
Impls  == {"IA", "IAX", "IB", "IG", "IO"}
Comp   == Points \cup Impls \cup {"PR", "CB"}

NameOf(c) ==
    CASE c = "PA"  -> <<"x01", ".specs", ".Specs", ".alpha">>
      [] c = "PAX" -> <<"x01", ".specs", ".Specs", ".alpha", "_x">>
      [] c = "PB"  -> <<"x01", ".specs", ".Specs", ".beta">>
      [] c = "PG"  -> <<"x01", ".specs", ".Specs", ".gamma">>
      [] c = "PO"  -> <<"insights", ".specs", ".Specs", ".os_release">>
      [] c = "IA"  -> <<"x01", ".specs", ".Impl", ".alpha">>
      [] c = "IAX" -> <<"x01", ".specs", ".Impl", ".alpha", "_x">>
      [] c = "IB"  -> <<"x01", ".specs", ".Impl", ".beta">>
      [] c = "IG"  -> <<"x01", ".specs", ".Impl", ".gamma">>
      [] c = "IO"  -> <<"insights", ".specs", ".default.DefaultSpecs", ".os_release">>
      [] c = "PR"  -> <<"x01", ".plugins", ".AlphaParser">>
      [] c = "CB"  -> <<"x01", ".plugins", ".comb">>
      [] OTHER     -> <<"?">>

SimpleName(c) ==      \* the last dotted segment: what apply_blacklist and the engine put into BLACKLISTED_SPECS
    CASE c \in {"PA", "IA"}   -> "alpha"
      [] c \in {"PAX", "IAX"} -> "alpha_x"
      [] c \in {"PB", "IB"}   -> "beta"
      [] c \in {"PG", "IG"}   -> "gamma"
      [] c \in {"PO", "IO"}   -> "os_release"
      [] c = "PR"             -> "AlphaParser"
      [] OTHER                -> "comb"

AllPrefixIds == {"x01", "specs", "impl", "alpha", "ibeta", "plugins", "po", "io", "nomatch", "insights"}
PrefixOf(p) ==
    CASE p = "x01"      -> <<"x01">>
      [] p = "specs"    -> <<"x01", ".specs", ".Specs">>
      [] p = "impl"     -> <<"x01", ".specs", ".Impl">>
      [] p = "alpha"    -> <<"x01", ".specs", ".Specs", ".alpha">>          \* exactly PA's name, a prefix of PAX's
      [] p = "ibeta"    -> <<"x01", ".specs", ".Impl", ".beta">>           \* exactly IB's name
      [] p = "plugins"  -> <<"x01", ".plugins">>
      [] p = "po"       -> NameOf("PO")
      [] p = "io"       -> NameOf("IO")
      [] p = "nomatch"  -> <<"x01", ".nomatch">>
      [] p = "insights" -> <<"insights">>                                   \* only ever switched OFF (see ForcedCfg)
      [] OTHER          -> <<"?none">>

Matches(p, c) == IsPrefix(PrefixOf(p), NameOf(c))
ExactOf(p)    == {c \in Comp : NameOf(c) = PrefixOf(p)}

ImplOf(p) == CASE p = "PA" -> "IA" [] p = "PAX" -> "IAX" [] p = "PB" -> "IB" [] p = "PG" -> "IG" [] OTHER -> "IO"
PointsOf(i) == {p \in Points : ImplOf(p) = i}          \* dr.get_registry_points(i)
Deps(c) == IF c \in Points THEN {ImplOf(c)} ELSE IF c = "PR" THEN {"PA"} ELSE IF c = "CB" THEN {"PR", "PG"} ELSE {}
Required(c) == IF c = "CB" THEN {"PR"} ELSE Deps(c)    \* gamma is optional for the combiner

(* connected components of the dependency graph = the sub-graphs run_all dispatches *)
Adj(c) == Deps(c) \cup {d \in Comp : c \in Deps(d)}
RECURSIVE Reach(_, _)
Reach(S, n) == IF n = 0 THEN S ELSE Reach(S \cup UNION {Adj(x) : x \in S}, n - 1)
SubOf == [c \in Comp |-> Reach({c}, 6)]
SubGraphs == {SubOf[c] : c \in Comp}
Canon == <<"IA", "PA", "PR", "IG", "PG", "CB", "IAX", "PAX", "IB", "PB", "IO", "PO">>   \* one topological order
CanonIdx(c) == CHOOSE i \in DOMAIN Canon : Canon[i] = c

(* what can be collected: item -> where it comes from, where it is stored, its lines *)
Items == {"alpha", "b1", "b2", "echo", "gamma", "osrel"}
ItemFile(i) == CASE i = "alpha" -> "/etc/x01/alpha" [] i = "b1" -> "/etc/x01/b/b1" [] i = "b2" -> "/etc/x01/b/b2"
                 [] i = "osrel" -> "/etc/os-release" [] OTHER -> "-"
ItemCmd(i)  == IF i = "echo" THEN <<"/bin/echo", "alpha", "x">> ELSE <<>>
ItemPath(i) == CASE i = "alpha" -> "etc/x01/alpha" [] i = "b1" -> "etc/x01/b/b1" [] i = "b2" -> "etc/x01/b/b2"
                 [] i = "osrel" -> "etc/os-release" [] i = "echo" -> "insights_commands/echo_alpha_x"
                 [] OTHER -> "x01/gamma"
ItemLines(i) == CASE i = "alpha" -> <<"a1", "a2 two">> [] i = "b1" -> <<"b1">> [] i = "b2" -> <<"b2", "", "b2c">>
                  [] i = "osrel" -> <<"NAME=x01">> [] i = "echo" -> <<"alpha x">> [] OTHER -> <<"g1", "g2">>
ItemsOfImpl(i) == CASE i = "IA" -> <<"alpha">> [] i = "IAX" -> <<"echo">> [] i = "IB" -> <<"b1", "b2">>
                    [] i = "IG" -> <<"gamma">> [] OTHER -> <<"osrel">>

(* deny entries *)
AllFileDeny == {"f_alpha", "f_b1", "f_osrel", "f_sym", "f_ident"}
AllCmdDeny  == {"c_exact", "c_pre", "c_mid", "c_nopre", "c_sym"}
AllCompDeny == {"k_ig", "k_pa", "k_io", "k_unknown"}
(* a symbolic name: an identifier for which insights.specs.default.DefaultSpecs.<name> is a loaded component *)
SymComp(e)    == IF e \in {"f_sym", "c_sym"} THEN "IO" ELSE "none"
FileTextOf(e) == CASE e = "f_alpha" -> "/etc/x01/alpha" [] e = "f_b1" -> "/etc/x01/b/b1" [] e = "f_osrel" -> "/etc/os-release"
                   [] e = "f_sym" -> "os_release" [] e = "f_ident" -> "alpha" [] OTHER -> "?"
CmdWordsOf(e) == CASE e = "c_exact" -> <<"/bin/echo", "alpha", "x">> [] e = "c_pre" -> <<"/bin/echo">>
                   [] e = "c_mid" -> <<"/bin/echo", "alpha">> [] e = "c_nopre" -> <<"/bin/ech">>
                   [] e = "c_sym" -> <<"os_release">> [] OTHER -> <<"?">>
CompOfDeny(k) == CASE k = "k_ig" -> "IG" [] k = "k_pa" -> "PA" [] k = "k_io" -> "IO" [] OTHER -> "none"
CompTextOf(k) == IF CompOfDeny(k) # "none" THEN NameOf(CompOfDeny(k)) ELSE <<"x01", ".nomatch", ".z">>
(* Reading (DESIGN C06): a file entry denies the path equal to it; a command entry denies the command line    *)
(* equal to it or continuing with a blank, i.e. whose words start with the entry's words                      *)
DeniesFile(e, path) == FileTextOf(e) = path
DeniesCmd(e, words) == words # <<>> /\ IsPrefix(CmdWordsOf(e), words)
ItemDenied(F, C, i) == (\E e \in F : DeniesFile(e, ItemFile(i))) \/ (\E e \in C : DeniesCmd(e, ItemCmd(i)))

---------------------------------------------------------------------------
(* manifests *)
Entry(n, f)  == [name |-> n, en |-> f]
CfgEntries   == {Entry(n, f) : n \in CfgNames, f \in CfgFlags}
PersEntries  == {Entry(n, f) : n \in PersistNames, f \in PersistFlags}
AllOn        == <<Entry("x01", "on"), Entry("po", "on"), Entry("io", "on")>>
(* plugins.default_component_enabled = true would enable every loaded component of insights itself; the      *)
(* manifests of this model then always start by switching "insights" off (nothing outside the universe runs)  *)
ForcedCfg(d) == IF d THEN <<Entry("insights", "off")>> ELSE <<>>
CfgChoices   == IF CfgPreset = "free" THEN SeqsUpTo(CfgEntries, MaxCfg) ELSE {AllOn}
PersChoices  == IF PersistPreset = "free" THEN SeqsUpTo(PersEntries, MaxPersist)
                ELSE IF PersistPreset = "all" THEN {<<Entry("x01", "on"), Entry("po", "str")>>}
                ELSE {<<Entry("x01", "on"), Entry("po", "str")>>, <<Entry("specs", "omit"), Entry("po", "on")>>}
OptSeq(S)    == {<<>>} \cup {<<e>> : e \in S}
DenyChoices  == {d \in [files : OptSeq(FileDeny), commands : OptSeq(CmdDeny), components : OptSeq(CompDeny)] :
                     Len(d.files) + Len(d.commands) + Len(d.components) <= MaxDeny}
NoDeny(d)    == d.files = <<>> /\ d.commands = <<>> /\ d.components = <<>>

Manifests ==
    {[default |-> d, configs |-> ForcedCfg(d) \o cf, persist |-> pe, deny |-> dn, via |-> v,
      strategy |-> st, workers |-> w, compress |-> z] :
        d \in DefaultSet, cf \in CfgChoices, pe \in PersChoices, dn \in DenyChoices, v \in ViaSet,
        st \in StrategySet, w \in WorkerSet, z \in CompressSet}
Envs   == [alpha : AlphaSet, gamma : GammaSet]
(* what dr.ENABLED said about one component before the call (ids: "none", "ig_on", "ig_off", "pr_on", ...) *)
PreAll == {"none", "ig_on", "ig_off", "pr_on", "pr_off", "pa_on", "pa_off"}
PreOf(id) == CASE id = "ig_on" -> [c |-> "IG", v |-> TRUE] [] id = "ig_off" -> [c |-> "IG", v |-> FALSE]
               [] id = "pr_on" -> [c |-> "PR", v |-> TRUE] [] id = "pr_off" -> [c |-> "PR", v |-> FALSE]
               [] id = "pa_on" -> [c |-> "PA", v |-> TRUE] [] id = "pa_off" -> [c |-> "PA", v |-> FALSE]
               [] OTHER -> [c |-> "none", v |-> TRUE]

Absent == [k |-> "absent", items |-> <<>>]

S0(m, e, p) ==
    [pc |-> "load", mf |-> m, env |-> e, pre |-> p,
     enabled |-> [c \in Comp |-> IF PreOf(p).c = c THEN PreOf(p).v ELSE TRUE],     \* dr.ENABLED defaults to True
     denyF |-> {}, denyC |-> {}, bl |-> {}, bl0 |-> {},
     ctx |-> "none", toPersist |-> {},
     att |-> {}, obs |-> {}, val |-> [c \in Comp |-> Absent], errs |-> {}, ran |-> {},
     docs |-> {}, data |-> {}, dehy |-> {},
     result |-> [form |-> "none", errors |-> {}], loaded |-> {}]

---------------------------------------------------------------------------
(* phase: load *)
LoadManifest(t) == [t EXCEPT !.pc = "default"]     \* a dict, a YAML text and a YAML file denote the same document

(* phase: apply_default_enabled - "Configures dr and already loaded components with a default enabled value" *)
ApplyDefaultEnabled(t) == [t EXCEPT !.pc = "configs", !.enabled = [c \in Comp |-> t.mf.default]]

(* phase: apply_configs - "name is the prefix or exact name of any loaded component.  Any component starting   *)
(* with name will have the associated configuration applied"; "enabled ... Defaults to True"; the manifest:   *)
(* "names are prefixes, so any component with a fully qualified name that starts with a key will get the      *)
(* associated configuration applied" - entries are applied in order, so later entries override earlier ones   *)
Brk(mode)     == mode \in {"break", "code"}
OmitDef(mode) == mode \in {"omitdefault", "code"}
FlagVal(f, d, mode) == IF f = "on" THEN TRUE ELSE IF f = "off" THEN FALSE ELSE (IF OmitDef(mode) THEN d ELSE TRUE)
(* "break": the scan over the sorted component names stops after a component whose name EQUALS the entry's     *)
(* name, so a component whose name merely starts with it is not reached (what apply_configs does today)       *)
Configured(ent, c, mode) ==
    Matches(ent.name, c) /\ (Brk(mode) => \A d \in ExactOf(ent.name) : d = c)
CfgStep(E, ent, d, mode) == [c \in Comp |-> IF Configured(ent, c, mode) THEN FlagVal(ent.en, d, mode) ELSE E[c]]
RECURSIVE CfgFold(_, _, _, _, _)
CfgFold(E, cfgs, i, d, mode) == IF i > Len(cfgs) THEN E ELSE CfgFold(CfgStep(E, cfgs[i], d, mode), cfgs, i + 1, d, mode)
ApplyConfigsMode(t, mode) == [t EXCEPT !.pc = "blacklist", !.enabled = CfgFold(t.enabled, t.mf.configs, 1, t.mf.default, mode)]
ApplyConfigs(t) == ApplyConfigsMode(t, CfgMode)

MatchIdx(entries, c) == {i \in DOMAIN entries : Matches(entries[i].name, c)}
LastMatchEnabled(cfgs, c, d) ==
    IF MatchIdx(cfgs, c) = {} THEN d ELSE FlagVal(cfgs[MaxOf(MatchIdx(cfgs, c))].en, d, "documented")

(* phase: apply_blacklist (manifest blacklist with rm_conf injected into it) *)
SkipSet(m) == ({SymComp(e) : e \in Rng(m.deny.files) \cup Rng(m.deny.commands)}
               \cup {CompOfDeny(k) : k \in Rng(m.deny.components)}) \ {"none"}
ApplyBlacklist(t) ==
    LET sk == SkipSet(t.mf)
        b  == {SimpleName(c) : c \in sk}
    IN [t EXCEPT !.pc = "context",
                 !.enabled = [c \in Comp |-> IF c \in sk THEN FALSE ELSE t.enabled[c]],
                 !.denyF = {e \in Rng(t.mf.deny.files) : SymComp(e) = "none"},
                 !.denyC = {e \in Rng(t.mf.deny.commands) : SymComp(e) = "none"},
                 !.bl = b, !.bl0 = b]

(* phase: create_context (HostContext rooted in the manifest's client.context.args.root) *)
CreateContext(t) == [t EXCEPT !.pc = "topersist", !.ctx = "host"]

(* phase: get_to_persist - "Matching is by prefix, and later entries override previous ones.  Persistence for  *)
(* a component is disabled by default"; a bare string or a missing "enabled" means enabled                    *)
PersStep(S, ent, mode) ==
    LET M == {c \in Comp : Matches(ent.name, c)} IN
    IF ent.en # "off" THEN S \cup M ELSE IF mode = "ignoreoff" THEN S ELSE S \ M
RECURSIVE PersFold(_, _, _, _)
PersFold(S, pes, i, mode) == IF i > Len(pes) THEN S ELSE PersFold(PersStep(S, pes[i], mode), pes, i + 1, mode)
GetToPersist(t) == [t EXCEPT !.pc = "run", !.toPersist = PersFold({}, t.mf.persist, 1, PersistMode)]
LastMatchPersisted(pes, c) == MatchIdx(pes, c) # {} /\ pes[MaxOf(MatchIdx(pes, c))].en # "off"

---------------------------------------------------------------------------
(* phase: run - dr.run_all: the sub-graphs one after the other (serial) or concurrently (pool); in a          *)
(* sub-graph the components in an order that respects the dependencies; after each component the observer     *)
(* made by Hydration.make_persister fires (for EVERY component of the graph, run or not)                      *)
HasV(t, c) == t.val[c].k # "absent"
Err(u, k)  == [under |-> u, kind |-> k]
ErrKinds(t, c) == {e.kind : e \in {x \in t.errs : x.under = c}}

(* the effect of attempting c: [v, e (failures filed), ran (generated bodies called), bl] *)
NoEff == [v |-> Absent, e |-> {}, ran |-> {}, bl |-> {}]
Eff(t, c) ==
    IF ~t.enabled[c] THEN NoEff
    ELSE IF c \in Impls THEN
        LET its  == ItemsOfImpl(c)
            keep == SelectSeq(its, LAMBDA i : ~ItemDenied(t.denyF, t.denyC, i))
            pts  == PointsOf(c)
        IN CASE c = "IA" ->
                  IF t.env.alpha = "absent" THEN [NoEff EXCEPT !.e = {Err(p, "content") : p \in pts}]
                  ELSE IF keep = <<>> THEN [NoEff EXCEPT !.e = {Err(c, "blacklisted")}, !.bl = {SimpleName(p) : p \in pts}]
                  ELSE [NoEff EXCEPT !.v = [k |-> "single", items |-> keep]]
             [] c \in {"IAX", "IO"} ->
                  IF keep = <<>> THEN [NoEff EXCEPT !.e = {Err(c, "blacklisted")}, !.bl = {SimpleName(p) : p \in pts}]
                  ELSE [NoEff EXCEPT !.v = [k |-> "single", items |-> keep]]
             [] c = "IB" ->          \* a denied match is left out silently; nothing left = content error
                  IF keep = <<>> THEN [NoEff EXCEPT !.e = {Err(p, "content") : p \in pts}]
                  ELSE [NoEff EXCEPT !.v = [k |-> "multi", items |-> keep]]
             [] OTHER ->             \* IG: the generated body runs
                  CASE t.env.gamma = "val"     -> [NoEff EXCEPT !.v = [k |-> "single", items |-> its], !.ran = {c}]
                    [] t.env.gamma = "content" -> [NoEff EXCEPT !.e = {Err(p, "content") : p \in pts}, !.ran = {c}]
                    [] OTHER                   -> [NoEff EXCEPT !.e = {Err(u, t.env.gamma) : u \in {c} \cup pts}, !.ran = {c}]
    ELSE IF c \in Points THEN
        (IF HasV(t, ImplOf(c)) THEN [NoEff EXCEPT !.v = t.val[ImplOf(c)]] ELSE NoEff)
    ELSE IF \A d \in Required(c) : HasV(t, d) THEN
        [NoEff EXCEPT !.v = IF c = "PR" THEN [k |-> "parsed", items |-> t.val["PA"].items] ELSE [k |-> "plain", items |-> <<>>],
                      !.ran = {c}]
    ELSE NoEff

Attempt(t, c) ==
    LET e == Eff(t, c) IN
    [t EXCEPT !.att = @ \cup {c}, !.val = [@ EXCEPT ![c] = e.v], !.errs = @ \cup e.e, !.ran = @ \cup e.ran,
              !.bl = @ \cup e.bl]

(* the observer: "Set of components to persist.  Skip everything else."  dehydrate writes one metadata        *)
(* document when there are results or recorded errors, and the data of every provider                         *)
Serializable(v) == v.k \in {"single", "multi", "parsed"}
Persist(t, c) ==
    IF ~(c \in t.toPersist \/ PersisterMode = "everything") THEN [t EXCEPT !.obs = @ \cup {c}]
    ELSE LET v    == t.val[c]
             es   == t.errs \cup (IF v.k = "plain" THEN {Err(c, "serialize")} ELSE {})
             res  == Serializable(v)
             herr == \E x \in es : x.under = c
         IN [t EXCEPT !.obs = @ \cup {c}, !.dehy = @ \cup {c}, !.errs = es,
                      !.docs = IF res \/ herr THEN @ \cup {[c |-> c, n |-> IF res THEN Len(v.items) ELSE 0, err |-> herr]} ELSE @,
                      !.data = IF v.k \in {"single", "multi"}
                                 THEN @ \cup {[path |-> ItemPath(i), lines |-> ItemLines(i)] : i \in Rng(v.items)} ELSE @]

(* scheduling: dependencies first; a thread fires the observer of a component before it attempts the next    *)
(* one; serial = one sub-graph at a time                                                                      *)
CanAttemptAny(t, c) ==
    /\ c \notin t.att
    /\ Deps(c) \subseteq t.obs
    /\ \A d \in SubOf[c] : d \in t.att => d \in t.obs
    /\ t.mf.strategy = "serial" => \A d \in t.att \ SubOf[c] : SubOf[d] \subseteq t.obs
CanAttempt(t, c) == CanAttemptAny(t, c)
CanPersist(t, c) == c \in t.att \ t.obs
EndRun(t) == [t EXCEPT !.pc = "finish"]

(* the schedule-free denotation: the canonical schedule from the state the run started in *)
RunStart(t) == [t EXCEPT !.att = {}, !.obs = {}, !.val = [c \in Comp |-> Absent], !.errs = {}, !.ran = {},
                         !.docs = {}, !.data = {}, !.dehy = {}, !.bl = t.bl0]
RECURSIVE CanonRun(_, _)
CanonRun(t, i) == IF i > Len(Canon) THEN t ELSE CanonRun(Persist(Attempt(t, Canon[i]), Canon[i]), i + 1)
Den(t) == CanonRun(RunStart(t), 1)
(* the components not attempted yet, in canonical order (used by the trace module: an execution that leaves a  *)
(* component out is judged by what the complete run would have produced)                                      *)
RECURSIVE Complete(_, _)
Complete(t, i) == IF i > Len(Canon) THEN t
                  ELSE Complete(IF Canon[i] \in t.att THEN t ELSE Persist(Attempt(t, Canon[i]), Canon[i]), i + 1)

(* phase: finish - the working directory or its tar.gz, and the exceptions to report (OSError) *)
RaisedOS(t) == {c \in Comp : "oserr" \in ErrKinds(t, c)}
Finish(t) == [t EXCEPT !.pc = "loadback",
                       !.result = [form |-> IF t.mf.compress THEN "tar" ELSE "dir", errors |-> RaisedOS(t)]]

(* phase: loadback - initialize_broker / Hydration.hydrate on what was written *)
ElemsOf(v) == [j \in DOMAIN v.items |-> ItemLines(v.items[j])]
LoadBack(t) == [t EXCEPT !.pc = "done",
                         !.loaded = {[c |-> d.c, elems |-> ElemsOf(t.val[d.c])] : d \in {x \in t.docs : x.n > 0}}]

---------------------------------------------------------------------------
Init == \E m \in Manifests, e \in Envs, p \in PreSet : s = S0(m, e, p)

ALoad      == s.pc = "load"      /\ s' = LoadManifest(s)
ADefault   == s.pc = "default"   /\ s' = ApplyDefaultEnabled(s)
AConfigs   == s.pc = "configs"   /\ s' = ApplyConfigs(s)
ABlacklist == s.pc = "blacklist" /\ s' = ApplyBlacklist(s)
AContext   == s.pc = "context"   /\ s' = CreateContext(s)
AToPersist == s.pc = "topersist" /\ s' = GetToPersist(s)
AAttempt   == s.pc = "run" /\ Interleave /\ \E c \in Comp : CanAttempt(s, c) /\ s' = Attempt(s, c)
APersist   == s.pc = "run" /\ Interleave /\ \E c \in Comp : CanPersist(s, c) /\ s' = Persist(s, c)
ARunCanon  == s.pc = "run" /\ ~Interleave /\ s.att = {} /\ s' = CanonRun(s, 1)
AEndRun    == s.pc = "run" /\ s.obs = Comp /\ s' = EndRun(s)
AFinish    == s.pc = "finish"    /\ s' = Finish(s)
ALoadBack  == s.pc = "loadback"  /\ s' = LoadBack(s)

Next == ALoad \/ ADefault \/ AConfigs \/ ABlacklist \/ AContext \/ AToPersist \/ AAttempt \/ APersist
        \/ ARunCanon \/ AEndRun \/ AFinish \/ ALoadBack
Spec == Init /\ [][Next]_s

---------------------------------------------------------------------------
(* properties *)
After(pcs) == s.pc \in pcs
RunPhases   == {"run", "finish", "loadback", "done"}
EndPhases   == {"finish", "loadback", "done"}

(* ENABLED[c] = the flag of the LAST config entry whose name is a prefix of c's name, else the default -      *)
(* whatever dr.ENABLED said before the call                                                                   *)
EnabledIsLastMatch ==
    s.pc = "blacklist" => \A c \in Comp : s.enabled[c] = LastMatchEnabled(s.mf.configs, c, s.mf.default)
DefaultApplied ==
    s.pc = "configs" => \A c \in Comp : s.enabled[c] = s.mf.default

PersistSetIsLastMatch ==
    After(RunPhases) => \A c \in Comp : (c \in s.toPersist) = LastMatchPersisted(s.mf.persist, c)

(* the deny configuration AS WRITTEN *)
WrittenFiles(m) == {e \in Rng(m.deny.files) : SymComp(e) = "none"}
WrittenCmds(m)  == {e \in Rng(m.deny.commands) : SymComp(e) = "none"}
BlacklistExact ==
    After({"context", "topersist"} \cup RunPhases) =>
        /\ s.denyF = WrittenFiles(s.mf) /\ s.denyC = WrittenCmds(s.mf)
        /\ \A c \in SkipSet(s.mf) : ~s.enabled[c] /\ SimpleName(c) \in s.bl
        /\ \A c \in Comp \ SkipSet(s.mf) : s.enabled[c] = LastMatchEnabled(s.mf.configs, c, s.mf.default)

DisabledNeverRuns ==
    After(RunPhases) => \A c \in Comp : ~s.enabled[c] => (~HasV(s, c) /\ c \notin s.ran)

ItemDeniedByUser(m, i) == ItemDenied(WrittenFiles(m), WrittenCmds(m), i)
DeniedNeverCollected ==
    After(RunPhases) =>
        /\ \A c \in Comp : \A j \in DOMAIN s.val[c].items : ~ItemDeniedByUser(s.mf, s.val[c].items[j])
        /\ \A d \in s.data : \A i \in Items : ItemDeniedByUser(s.mf, i) => d.path # ItemPath(i)
        /\ \A c \in SkipSet(s.mf) : ~HasV(s, c) /\ c \notin s.ran /\ ~\E d \in s.docs : d.c = c /\ d.n > 0

(* the archive holds data for exactly the components of the persist set that produced a value (and an errors-  *)
(* only document for those that recorded errors); nothing else                                                *)
PersistExact ==
    After(EndPhases) =>
        /\ s.dehy = s.toPersist
        /\ \A c \in Comp :
             LET want == c \in s.toPersist /\ (Serializable(s.val[c]) \/ ErrKinds(s, c) # {}) IN
             /\ want <=> \E d \in s.docs : d.c = c
             /\ \A d \in s.docs : d.c = c => /\ d.n = (IF Serializable(s.val[c]) THEN Len(s.val[c].items) ELSE 0)
                                             /\ d.err = (ErrKinds(s, c) # {})
        /\ s.data = UNION {{[path |-> ItemPath(i), lines |-> ItemLines(i)] : i \in Rng(s.val[c].items)} :
                              c \in {x \in s.toPersist : s.val[x].k \in {"single", "multi"}}}

(* same archive whatever the run strategy and the schedule: the schedule-free denotation *)
ParallelEqualsSerial ==
    After(EndPhases) => LET d == Den(s) IN
        s.docs = d.docs /\ s.data = d.data /\ s.val = d.val /\ s.errs = d.errs /\ s.ran = d.ran /\ s.bl = d.bl

LoadBackExact ==
    s.pc = "done" =>
        /\ {x.c : x \in s.loaded} = {d.c : d \in {x \in s.docs : x.n > 0}}
        /\ \A x \in s.loaded : x.elems = ElemsOf(s.val[x.c]) /\ Len(x.elems) > 0

ErrorsReported ==
    After({"loadback", "done"}) =>
        /\ (s.env.gamma = "oserr" /\ s.enabled["IG"]) => "IG" \in s.result.errors
        /\ \A c \in s.result.errors : "oserr" \in ErrKinds(s, c)
        /\ \A c \in s.toPersist : ErrKinds(s, c) # {} => \E d \in s.docs : d.c = c /\ d.err

(* collect() returns and the archive loads: no reachable state short of "done" is stuck *)
Terminates == s.pc # "done" => ENABLED Next
=============================================================================
