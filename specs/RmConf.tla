------------------------------- MODULE RmConf -------------------------------
(***************************************************************************)
(* X07 - how the client's redaction configuration becomes deny lists and   *)
(* cleaning switches.                                                      *)
(*   insights/client/collection_rules.py  InsightsUploadConf.get_rm_conf,  *)
(*       get_rm_conf_old (remove.conf, INI), load_redaction_file           *)
(*       (file-redaction.yaml, file-content-redaction.yaml), load_yaml,    *)
(*       correct_format, verify_permissions, validate, create_report       *)
(*   insights/client/core_collector.py    run_collection (rm_conf or {})   *)
(*   insights/collect.py                  collect, apply_blacklist         *)
(*   insights/core/blacklist.py           allow_file / allow_command       *)
(*   insights/cleaner/__init__.py         Cleaner.__init__ (Pattern,       *)
(*       Keyword, obfuscation switches), clean_content                     *)
(*   insights/specs/datasources/client_metadata.py  blacklist_report       *)
(*                                                                         *)
(* State: a WORLD = the three configuration files as abstract documents    *)
(* (is the option set, does the file exist, its permission class, the form *)
(* of the document, per section / key the class of its value), the         *)
(* --validate flag and the obfuscation switches of the client              *)
(* configuration; then what the loading pipeline has made of them so far.  *)
(*                                                                         *)
(* Two layers:                                                             *)
(*  - the REFERENCE is denotational: RefSet(w) is the set of results a     *)
(*    world may have, a function of the files alone; EffOf(conf, obf) is   *)
(*    what a result means for the deny lists and the cleaner, observed on  *)
(*    probe paths / commands / components / lines.                         *)
(*  - the MECHANISM is the pipeline, one action per step (Locate,          *)
(*    CheckPerm, Parse, Validate per file; Decide; Merge; ApplyBlacklist;  *)
(*    BuildCleaner; Report).  MECH = "intent" extracts the items the       *)
(*    documents LIST; MECH = "code" transcribes what the code extracts     *)
(*    where that differs (TLC refutes the invariants for it).              *)
(* RmConfTrace.tla judges recorded runs of the REAL code with the          *)
(* reference.                                                              *)
(***************************************************************************)
EXTENDS Naturals, Sequences, FiniteSets, TLC

CONSTANTS MECH,       \* "intent" | "code"
          YV,         \* value classes of list sections explored by Init
          PV,         \* value classes of the patterns section explored by Init
          LV          \* value classes of remove.conf keys explored by Init

FileIds == {"red", "con", "leg"}          \* file-redaction.yaml, file-content-redaction.yaml, remove.conf
Order   == <<"red", "con", "leg">>
Secs    == {"commands", "files", "components", "patterns", "keywords", "bogus"}
ItemSecs == Secs \ {"bogus"}
AllowedIn(f) == CASE f = "red" -> {"commands", "files", "components"}
                  [] f = "con" -> {"patterns", "keywords"}
                  [] f = "leg" -> {"commands", "files", "patterns", "keywords"}

(* value classes.  YAML list sections: key absent / null / [] / one item /  *)
(* two items / one item and an empty string / a scalar string / a list     *)
(* holding an integer.  patterns additionally: an object {regex: ...}.      *)
ListVals == {"none", "null", "elist", "one", "two", "oneblank", "str", "lint"}
RxOk     == {"rx1", "rx2", "rxnull", "rxempty", "rxbad", "rxposix"}
RxErr    == {"rxstr", "rxlint", "rxextra", "rxmissing"}
PatVals  == ListVals \cup RxOk \cup RxErr
(* remove.conf keys: absent / "key=" / one / two / "a," / a non-ASCII item  *)
LegVals  == {"none", "empty", "one", "two", "trail", "nonascii"}
YForms   == {"empty", "comment", "garbage", "scalar", "list", "map"}
LForms   == {"empty", "comment", "nosection", "wrongsec", "twosec", "remove"}
Obfs     == {"off", "ip", "host", "all"}

NoSecs == [k \in Secs |-> "none"]
FileRec(path, kind, perm, form, s) == [path |-> path, kind |-> kind, perm |-> perm, form |-> form, s |-> s]
Absent == FileRec("set", "absent", "600", "empty", NoSecs)

(***************************************************************************)
(* What a value LISTS (item ids; "1" is a literal path / command / known    *)
(* component / pattern / keyword, "2" a symbolic spec name (files,          *)
(* commands), an unknown component, a second pattern / keyword, "3" a       *)
(* non-ASCII pattern / keyword, "bad" a regular expression that does not    *)
(* compile, "posix" one with a POSIX bracket class).  "Remove Nones, empty  *)
(* strings, and empty lists": blanks list nothing.                          *)
(***************************************************************************)
ItemsOf(v) == CASE v \in {"one", "oneblank", "trail", "rx1"} -> {"1"}
                [] v \in {"two", "rx2"}                       -> {"1", "2"}
                [] v = "nonascii"                             -> {"3"}
                [] v = "rxbad"                                -> {"1", "bad"}
                [] v = "rxposix"                              -> {"posix"}
                [] OTHER                                      -> {}
HasBlank(v) == v \in {"oneblank", "trail", "empty"}
ModeOf(v)   == IF ItemsOf(v) = {} THEN "-" ELSE IF v \in RxOk THEN "regex" ELSE "plain"

(* what the CODE extracts: remove.conf values are split at "," (an empty    *)
(* value is the list ['']), decoded with unicode-escape from UTF-8 bytes;   *)
(* YAML lists are taken as they are; a patterns object whose regex list is  *)
(* empty / null reaches the cleaner as the dict itself                      *)
CodeItemsOf(v) == CASE v \in {"oneblank", "trail"}  -> {"1", "empty"}
                    [] v = "empty"                   -> {"empty"}
                    [] v = "nonascii"                -> {"alien"}
                    [] v \in {"rxnull", "rxempty"}   -> {"dictkey"}
                    [] OTHER                         -> ItemsOf(v)
CodeModeOf(v)  == IF v \in {"rxnull", "rxempty"} THEN "plain"
                  ELSE IF CodeItemsOf(v) = {} THEN "-" ELSE IF v \in RxOk THEN "regex" ELSE "plain"
IM(m, v) == IF m = "code" THEN CodeItemsOf(v) ELSE ItemsOf(v)
MM(m, v) == IF m = "code" THEN CodeModeOf(v) ELSE ModeOf(v)

(***************************************************************************)
(* Loading one file (reference).  Why a present file must be rejected       *)
(* ("-" = it need not).  A file whose permissions are not 0600 is rejected  *)
(* under --validate and (documented fallback) used with a warning otherwise.*)
(***************************************************************************)
Pres(x) == x.path = "set" /\ x.kind = "file"
BadVals == {"str", "lint"} \cup RxErr
Why(val, f, x) ==
    IF ~Pres(x) THEN "-"
    ELSE IF x.perm # "600" /\ val THEN "permissions"
    ELSE IF f = "leg" THEN
        (IF x.form \in {"empty", "comment"} THEN "-"
         ELSE IF x.form = "nosection" THEN "unparsable"
         ELSE IF x.form \in {"wrongsec", "twosec"} THEN "invalid-section"
         ELSE IF \E k \in Secs \ AllowedIn(f) : x.s[k] # "none" THEN "unknown-key"
         ELSE "-")
    ELSE
        (IF x.form \in {"empty", "comment"} THEN "-"
         ELSE IF x.form = "garbage" THEN "unparsable"
         ELSE IF x.form \in {"scalar", "list"} THEN "not-a-mapping"
         ELSE IF \E k \in Secs \ AllowedIn(f) : x.s[k] # "none" THEN "unknown-section"
         ELSE IF \E k \in AllowedIn(f) : x.s[k] \in BadVals
              THEN "value:" \o x.s[CHOOSE k \in AllowedIn(f) : x.s[k] \in BadVals]
         ELSE "-")
(* the sections a present, accepted file contributes                        *)
Body(x) == IF Pres(x) /\ x.form \in {"map", "remove"} THEN x.s ELSE NoSecs
PermWarn(val, x) == Pres(x) /\ x.perm # "600" /\ ~val

(***************************************************************************)
(* Results.                                                                 *)
(***************************************************************************)
Ids == {"1", "2", "3", "bad", "posix", "empty", "alien", "dictkey"}
ConfOf(m, fmt, sr, sc) ==      \* sr: sections of the file naming commands/files/components, sc: patterns/keywords
    [commands   |-> IM(m, sr["commands"]),
     files      |-> IM(m, sr["files"]),
     components |-> IM(m, sr["components"]),
     patterns   |-> IM(m, sc["patterns"]),
     keywords   |-> IM(m, sc["keywords"]),
     pmode      |-> MM(m, sc["patterns"]),
     fmt        |-> fmt]
(* sections whose value holds an empty element (the reports may or may not count it) *)
BlankSecs(sr, sc) == {k \in {"commands", "files", "components"} : HasBlank(sr[k])} \cup
                     {k \in {"patterns", "keywords"} : HasBlank(sc[k])}
Lists(c)  == \E k \in ItemSecs : c[k] # {}
(* which source a result came from matters only if it lists something        *)
Norm(c)   == IF Lists(c) THEN c ELSE [c EXCEPT !.fmt = "none", !.pmode = "-"]
NoConf    == Norm(ConfOf("intent", "none", NoSecs, NoSecs))
Ok(c)     == [k |-> "ok", why |-> "-", conf |-> Norm(c)]
Err(f, y) == [k |-> "error", why |-> f \o ":" \o y, conf |-> NoConf]

(* the two YAML files together *)
YamlErr(w)  == IF Why(w.validate, "red", w.red) # "-" THEN Err("red", Why(w.validate, "red", w.red))
               ELSE IF Why(w.validate, "con", w.con) # "-" THEN Err("con", Why(w.validate, "con", w.con))
               ELSE Ok(NoConf)
YamlConf(m, w) == ConfOf(m, "new", Body(w.red), Body(w.con))
YamlPresent(w) == Pres(w.red) \/ Pres(w.con)
(* remove.conf alone *)
LegOut(m, w) == IF Why(w.validate, "leg", w.leg) # "-" THEN Err("leg", Why(w.validate, "leg", w.leg))
                ELSE Ok(ConfOf(m, "old", Body(w.leg), Body(w.leg)))

(* REFERENCE.  "Try to load the new version of remove.conf; no             *)
(* file-redaction.yaml or file-content-redaction.yaml defined: try to use   *)
(* remove.conf".  Reading (R2): YAML files that list something win and      *)
(* remove.conf is not consulted; no YAML file present: exactly remove.conf;  *)
(* YAML present but listing nothing: either.                                 *)
RefSet(w) ==
    IF YamlErr(w).k = "error" THEN {YamlErr(w)}
    ELSE IF Lists(YamlConf("intent", w)) THEN {Ok(YamlConf("intent", w))}
    ELSE IF ~YamlPresent(w) THEN {LegOut("intent", w)}
    ELSE {Ok(NoConf), LegOut("intent", w)}

(***************************************************************************)
(* What a result means downstream, on probes.                               *)
(***************************************************************************)
Probes == {"neutral", "p1", "p1rx", "p2lit", "p2rx", "p3", "posix", "rxword", "k1", "k2", "k3"}
HitsOf(i, m) ==        \* probe lines a pattern item removes
    CASE i = "1" /\ m = "plain"     -> {"p1"}
      [] i = "1" /\ m = "regex"     -> {"p1", "p1rx"}
      [] i = "2" /\ m = "plain"     -> {"p2lit"}
      [] i = "2" /\ m = "regex"     -> {"p2rx"}
      [] i = "3"                    -> {"p3"}
      [] i = "posix" /\ m = "regex" -> {"posix"}
      [] i = "empty"                -> Probes           \* '' is in every line
      [] i = "dictkey"              -> {"rxword"}       \* the literal word "regex"
      [] OTHER                      -> {}
KwOf(i) == CASE i = "1" -> {"k1"} [] i = "2" -> {"k2"} [] i = "3" -> {"k3"}
             [] i = "empty" -> Probes [] OTHER -> {}
Removed(c) == UNION {HitsOf(i, c.pmode) : i \in c.patterns}
Changed(c) == UNION {KwOf(i) : i \in c.keywords}
LineOut(c, p) ==
    IF p \in Removed(c) THEN "removed"
    ELSE IF "bad" \in c.patterns THEN "error"
    ELSE IF p \in Changed(c) THEN "changed"
    ELSE "kept"
ObfSet(o) == CASE o = "off" -> {} [] o = "ip" -> {"ip"} [] o = "host" -> {"ip", "hostname"}
               [] o = "all" -> {"ip", "hostname", "ipv6", "mac"}
SwOf(c, o) == {"password"} \cup (IF c.keywords # {} THEN {"keyword"} ELSE {}) \cup ObfSet(o)
DisabledOf(c) == (IF "1" \in c.components THEN {"comp1"} ELSE {}) \cup
                 (IF "2" \in c.files THEN {"symf"} ELSE {}) \cup
                 (IF "2" \in c.commands THEN {"symc"} ELSE {})
CountOf(c, k) == Cardinality(c[k] \ {"empty"})
ReportOf(m, c, sc) ==
    [k |-> IF m = "code" /\ sc["patterns"] = "rxnull" THEN "raise" ELSE "ok",
     n |-> [k \in ItemSecs |-> CountOf(c, k)],
     fmt |-> c.fmt, rx |-> c.pmode = "regex"]
EffOf(c, o) ==
    [denyF |-> c.files \cap {"1"}, denyC |-> c.commands \cap {"1"},
     disabled |-> DisabledOf(c), listed |-> DisabledOf(c),
     lines |-> [p \in Probes |-> LineOut(c, p)],
     sw |-> SwOf(c, o)]
NoEff(o) == EffOf(NoConf, o)

(***************************************************************************)
(* The pipeline (mechanism).                                                *)
(***************************************************************************)
VARIABLES w,        \* the world (constant along a behaviour)
          ph,       \* "file" (working on cur), "merge", "blacklist", "cleaner", "report", "done"
          cur,      \* index into Order
          step,     \* "locate", "perm", "parse", "validate"
          ld,       \* per file: [st, s]  st: "pending" | "none" | "doc"
          res,      \* the result: [k, why, conf]  (k = "-" while undecided)
          eff,      \* effects handed over so far
          rep       \* the report
vars == <<w, ph, cur, step, ld, res, eff, rep>>

Undecided == [k |-> "-", why |-> "-", conf |-> NoConf]
NoRep     == [k |-> "-", n |-> [k \in ItemSecs |-> 0], fmt |-> "none", rx |-> FALSE]
Worlds0 ==
    LET vals     == YV \cup PV \cup LV \cup {"none", "one"}
        yfile(f) == {FileRec(p, kd, pm, fo, s) :
                       p \in {"set"}, kd \in {"absent", "file"}, pm \in {"600", "644"}, fo \in {"empty", "garbage", "map"},
                       s \in {t \in [Secs -> vals] : (\A a \in AllowedIn(f) \ {"patterns"} : t[a] \in YV) /\
                                                    (\A b \in Secs \ (AllowedIn(f) \cup {"bogus"}) : t[b] = "none") /\
                                                    ("patterns" \in AllowedIn(f) => t["patterns"] \in PV) /\
                                                    t["bogus"] \in {"none", "one"}}}
        lfile    == {FileRec(p, kd, pm, fo, s) :
                       p \in {"set"}, kd \in {"absent", "file"}, pm \in {"600", "644"}, fo \in {"empty", "wrongsec", "remove"},
                       s \in {t \in [Secs -> vals] : (\A a \in AllowedIn("leg") : t[a] \in LV) /\
                                                    t["components"] = "none" /\ t["bogus"] = "none"}}
        (* other permissions only for the documents without sections and for one simple document *)
        canon(f, x) == IF x.kind = "absent" THEN x = Absent
                       ELSE /\ (x.form \in {"map", "remove"} \/ x.s = NoSecs)
                            /\ x.perm # "600" => \A k \in Secs : x.s[k] = (IF x.form \in {"map", "remove"} /\ k \in AllowedIn(f)
                                                                           THEN "one" ELSE "none")
    IN {[validate |-> v, obf |-> o, red |-> r, con |-> c, leg |-> l] :
          v \in BOOLEAN, o \in {"all"},
          r \in {x \in yfile("red") : canon("red", x)}, c \in {x \in yfile("con") : canon("con", x)},
          l \in {x \in lfile : canon("leg", x)}}

InitRest ==
    /\ ph = "file" /\ cur = 1 /\ step = "locate"
    /\ ld = [f \in FileIds |-> [st |-> "pending", s |-> NoSecs]]
    /\ res = Undecided /\ eff = NoEff(w.obf) /\ rep = NoRep
Init == w \in Worlds0 /\ InitRest

F == Order[cur]
X == w[F]
Fail(y) == /\ res' = Err(F, y) /\ ph' = "done"
           /\ UNCHANGED <<w, cur, step, ld, eff, rep>>
(* the file after cur: after the two YAML files comes the decision           *)
NextFile == IF cur = 2 THEN ph' = "decide" /\ UNCHANGED <<cur>> /\ step' = "locate"
            ELSE IF cur = 3 THEN ph' = "merge" /\ UNCHANGED <<cur>> /\ step' = "locate"
            ELSE ph' = "file" /\ cur' = cur + 1 /\ step' = "locate"
Skip == /\ ld' = [ld EXCEPT ![F] = [st |-> "none", s |-> NoSecs]]
        /\ NextFile /\ UNCHANGED <<w, res, eff, rep>>

Locate ==          \* is the option set, is there a regular file
    /\ ph = "file" /\ step = "locate"
    /\ IF Pres(X) THEN step' = "perm" /\ UNCHANGED <<w, ph, cur, ld, res, eff, rep>>
       ELSE Skip
CheckPerm ==       \* 0600, else: error under --validate, warning otherwise
    /\ ph = "file" /\ step = "perm"
    /\ IF X.perm # "600" /\ w.validate THEN Fail("permissions")
       ELSE step' = "parse" /\ UNCHANGED <<w, ph, cur, ld, res, eff, rep>>
Parse ==           \* YAML / INI syntax; an empty document contributes nothing
    /\ ph = "file" /\ step = "parse"
    /\ IF X.form \in {"garbage", "nosection"} THEN Fail("unparsable")
       ELSE IF X.form \in {"scalar", "list"} THEN Fail("not-a-mapping")
       ELSE IF X.form \in {"empty", "comment"} THEN Skip
       ELSE step' = "validate" /\ UNCHANGED <<w, ph, cur, ld, res, eff, rep>>
Validate ==        \* sections / keys and the types of their values
    /\ ph = "file" /\ step = "validate"
    /\ LET y == Why(w.validate, F, X) IN
       IF y # "-" THEN Fail(y)
       ELSE IF \A k \in Secs : X.s[k] = "none" THEN Skip       \* "{}" / a bare [remove]: nothing
       ELSE /\ ld' = [ld EXCEPT ![F] = [st |-> "doc", s |-> X.s]]
            /\ NextFile /\ UNCHANGED <<w, res, eff, rep>>
(* precedence: remove.conf is consulted only if neither YAML file gave a     *)
(* non-empty document                                                        *)
Decide ==
    /\ ph = "decide"
    /\ IF ld["red"].st = "doc" \/ ld["con"].st = "doc"
       THEN ph' = "merge" /\ UNCHANGED <<cur, step>>
       ELSE ph' = "file" /\ cur' = 3 /\ step' = "locate"
    /\ UNCHANGED <<w, ld, res, eff, rep>>
Merge ==
    /\ ph = "merge"
    /\ res' = IF ld["leg"].st = "doc" THEN Ok(ConfOf(MECH, "old", ld["leg"].s, ld["leg"].s))
              ELSE IF ld["red"].st = "doc" \/ ld["con"].st = "doc"
                   THEN Ok(ConfOf(MECH, "new", ld["red"].s, ld["con"].s))
              ELSE Ok(NoConf)
    /\ ph' = IF w.validate THEN "done" ELSE "blacklist"      \* --validate only shows the result
    /\ UNCHANGED <<w, cur, step, ld, eff, rep>>
ApplyBlacklist ==  \* collect.apply_blacklist: deny lists, disabled components
    /\ ph = "blacklist"
    /\ eff' = [eff EXCEPT !.denyF = EffOf(res.conf, w.obf).denyF, !.denyC = EffOf(res.conf, w.obf).denyC,
                          !.disabled = DisabledOf(res.conf), !.listed = DisabledOf(res.conf)]
    /\ ph' = "cleaner" /\ UNCHANGED <<w, cur, step, ld, res, rep>>
BuildCleaner ==    \* Cleaner(config, rm_conf): pattern / keyword processors, obfuscation switches
    /\ ph = "cleaner"
    /\ eff' = [eff EXCEPT !.lines = EffOf(res.conf, w.obf).lines, !.sw = SwOf(res.conf, w.obf)]
    /\ ph' = "report" /\ UNCHANGED <<w, cur, step, ld, res, rep>>
SrcPat == IF ld["leg"].st = "doc" THEN ld["leg"].s ELSE ld["con"].s
Report ==
    /\ ph = "report"
    /\ rep' = ReportOf(MECH, res.conf, SrcPat)
    /\ ph' = "done" /\ UNCHANGED <<w, cur, step, ld, res, eff>>

Next == Locate \/ CheckPerm \/ Parse \/ Validate \/ Decide \/ Merge \/ ApplyBlacklist \/ BuildCleaner \/ Report
Spec == Init /\ [][Next]_vars

(***************************************************************************)
(* Properties of the pipeline, against the reference.                       *)
(***************************************************************************)
Done == ph = "done"
Ran  == Done /\ res.k = "ok" /\ ~w.validate
Ref  == CHOOSE r \in RefSet(w) : (res \in RefSet(w) => r = res)

(* the result is one the files determine (no other input)                    *)
I_Function == Done => res \in RefSet(w)
(* an invalid document on the consulted path is rejected                     *)
I_Loud == Done =>
    /\ YamlErr(w).k = "error" => res.k = "error"
    /\ (~YamlPresent(w) /\ LegOut("intent", w).k = "error") => res.k = "error"
    /\ res.k = "error" => \E f \in FileIds : Why(w.validate, f, w[f]) # "-"
(* YAML wins exactly as documented                                           *)
I_Precedence == Done =>
    /\ (YamlErr(w).k = "ok" /\ Lists(YamlConf("intent", w))) => (ld["leg"].st = "pending" /\ res = Ok(YamlConf("intent", w)))
    /\ ~YamlPresent(w) => res = LegOut("intent", w)
(* nothing configured: no redaction                                          *)
I_EmptyIsNone == (Ran /\ ~Lists(Ref.conf)) => (eff = NoEff(w.obf) /\ res.conf = NoConf)
(* what is listed reaches the deny lists, and nothing else does              *)
I_DenyExact == Ran =>
    /\ eff.denyF = Ref.conf.files \cap {"1"} /\ eff.denyC = Ref.conf.commands \cap {"1"}
    /\ eff.disabled = DisabledOf(Ref.conf) /\ eff.listed = eff.disabled
(* what is listed reaches the cleaner tables, and nothing else does          *)
I_CleanExact == Ran => \A p \in Probes :
    IF "bad" \in Ref.conf.patterns
    THEN (p \in Removed(Ref.conf) => eff.lines[p] \in {"removed", "error"})
    ELSE eff.lines[p] = LineOut(Ref.conf, p)
I_Switches == Ran => eff.sw = SwOf(Ref.conf, w.obf)
I_ReportTotal == Ran => (rep.k = "ok" /\ \A k \in ItemSecs : rep.n[k] = Cardinality(Ref.conf[k]))

TypeOK ==
    /\ ph \in {"pick", "file", "decide", "merge", "blacklist", "cleaner", "report", "done"}
    /\ cur \in 1..3 /\ step \in {"locate", "perm", "parse", "validate"}
    /\ res.k \in {"-", "ok", "error"}
    /\ \A k \in ItemSecs : res.conf[k] \subseteq Ids
=============================================================================
