------------------------------ MODULE Playbook ------------------------------
(***************************************************************************)
(* C18 - a playbook's signed digest covers everything but the declared     *)
(* dynamic parts.                                                          *)
(*                                                                         *)
(* A play is an ORDERED TREE: mappings with ordered, typed keys, sequences *)
(* and scalars (strings, integers, booleans, null).  It is represented as  *)
(* the flat pre-order sequence of its nodes; every node is a record of one *)
(* uniform shape, so that TLC never compares values of different types:    *)
(*                                                                         *)
(*   d  depth (the play mapping itself is node 1, depth 0)                 *)
(*   t  "map" | "seq" | "str" | "int" | "bool" | "null"                    *)
(*   kt "none" (root, sequence item) | "str" | "int"    type of the key    *)
(*   k  key text (character codes) when kt = "str", else <<>>              *)
(*   kn key number when kt = "int", else 0                                 *)
(*   v  text (character codes) when t = "str", else <<>>                   *)
(*   n  number when t = "int", 0/1 when t = "bool", else 0                 *)
(*                                                                         *)
(* Two plays are equal (same values, keys, order, nesting and types) iff   *)
(* their node sequences are equal.  Text is a sequence of character codes. *)
(*                                                                         *)
(* Reference operators:                                                    *)
(*   Pre(p, via)   outcome table of the verification ("ok" | "err" | "any")*)
(*   Excl(p)       the play without its declared dynamic elements          *)
(*   Ser(p)        a canonical serialisation (typed, escaped keys): the    *)
(*                 design-level witness that a digest with the property    *)
(*                 exists (law Injective)                                  *)
(***************************************************************************)
EXTENDS Naturals, Sequences, FiniteSets, TLC

HOSTS   == <<104, 111, 115, 116, 115>>                                          \* "hosts"
VARS    == <<118, 97, 114, 115>>                                                \* "vars"
SIG     == <<105, 110, 115, 105, 103, 104, 116, 115, 95, 115, 105, 103, 110, 97, 116, 117, 114, 101>>
                                                                                \* "insights_signature"
SIGEXCL == SIG \o <<95, 101, 120, 99, 108, 117, 100, 101>>                      \* "insights_signature_exclude"
TASKS   == <<116, 97, 115, 107, 115>>                                           \* "tasks"
NAME    == <<110, 97, 109, 101>>                                                \* "name"
SLASH == 47   COMMA == 44   QUOTE == 39   DQUOTE == 34   BSLASH == 92   NEWLINE == 10

Dynamic == {HOSTS, VARS}          \* the only labels that may be excluded

Node(d, t, kt, k, kn, v, n) == [d |-> d, t |-> t, kt |-> kt, k |-> k, kn |-> kn, v |-> v, n |-> n]

Rng(s) == {s[i] : i \in DOMAIN s}
Min(S) == CHOOSE x \in S : \A y \in S : x <= y

(* ---- navigation in the flat representation ---- *)
Span(p, i) ==                     \* index of the last node of the subtree rooted at i
    LET later == {m \in (i + 1)..Len(p) : p[m].d <= p[i].d}
    IN IF later = {} THEN Len(p) ELSE Min(later) - 1

Kids(p, i) ==                     \* indices of the direct children of i, in order
    SelectSeq([m \in 1..(Span(p, i) - i) |-> i + m], LAMBDA m : p[m].d = p[i].d + 1)

Sub(p, i) == SubSeq(p, i, Span(p, i))

Remove(p, i) == SubSeq(p, 1, i - 1) \o SubSeq(p, Span(p, i) + 1, Len(p))

FindKey(p, i, key) ==             \* the child of mapping i stored under the STRING key `key`, or 0
    LET hit == SelectSeq(Kids(p, i), LAMBDA m : p[m].kt = "str" /\ p[m].k = key)
    IN IF p[i].t # "map" \/ hit = <<>> THEN 0 ELSE hit[1]

(* ---- the exclusion list ---- *)
RECURSIVE SplitR(_, _, _, _)
SplitR(s, c, i, acc) ==
    IF i > Len(s) THEN acc
    ELSE IF s[i] = c THEN SplitR(s, c, i + 1, Append(acc, <<>>))
    ELSE SplitR(s, c, i + 1, [acc EXCEPT ![Len(acc)] = Append(@, s[i])])
Split(s, c) == SplitR(s, c, 1, << <<>> >>)

Segs(e) == SelectSeq(Split(e, SLASH), LAMBDA x : x # <<>>)

Legal(e) == LET sg == Segs(e) IN Len(sg) \in {1, 2} /\ sg[1] \in Dynamic

Fail(p, why) == [ok |-> FALSE, why |-> why, p |-> p]
Done(p)      == [ok |-> TRUE, why |-> "", p |-> p]

ExclStep(p, e) ==                 \* one exclusion request applied to play p
    LET sg == Segs(e) IN
    IF ~Legal(e) THEN Fail(p, "illegal-exclusion")
    ELSE LET m == FindKey(p, 1, sg[1]) IN
         IF m = 0 THEN Fail(p, "nonexistent-key")
         ELSE IF Len(sg) = 1 THEN Done(Remove(p, m))
         ELSE LET c == FindKey(p, m, sg[2]) IN
              IF c = 0 THEN Fail(p, "nonexistent-key") ELSE Done(Remove(p, c))

RECURSIVE ExclAll(_, _, _)
ExclAll(p, es, i) ==
    IF i > Len(es) THEN Done(p)
    ELSE LET r == ExclStep(p, es[i]) IN IF r.ok THEN ExclAll(r.p, es, i + 1) ELSE r

VarsIdx(p) == FindKey(p, 1, VARS)
ListIdx(p) == IF VarsIdx(p) = 0 THEN 0 ELSE FindKey(p, VarsIdx(p), SIGEXCL)
SigIdx(p)  == IF VarsIdx(p) = 0 THEN 0 ELSE FindKey(p, VarsIdx(p), SIG)

Requests(p) == Split(p[ListIdx(p)].v, COMMA)

(* ---- outcome table.  via = "exclude": exclude_dynamic_elements called    *)
(* directly (no signature needed); "verify_play" / "verify": the public     *)
(* path.  "any" = the property is silent (see notes/C18.md): the exclusion  *)
(* list is present but not a string, or the direct call is made on a play   *)
(* whose 'vars' is not a mapping (guarded by verify_play on the public path)*)
Why(p, via) ==
    LET v == VarsIdx(p)
        s == IF v = 0 THEN 0 ELSE FindKey(p, v, SIG)
        x == IF v = 0 THEN 0 ELSE FindKey(p, v, SIGEXCL)
    IN
    IF via = "exclude" /\ v # 0 /\ p[v].t # "map" THEN "unspecified"
    ELSE IF v = 0 \/ p[v].t # "map" THEN "no-vars"
    ELSE IF via # "exclude" /\ (s = 0 \/ p[s].t = "null") THEN "no-signature"
    ELSE IF x = 0 THEN "no-exclusion-list"
    ELSE IF p[x].t # "str" THEN "unspecified"
    ELSE ExclAll(p, Split(p[x].v, COMMA), 1).why

Pre(p, via) == LET w == Why(p, via) IN IF w = "" THEN "ok" ELSE IF w = "unspecified" THEN "any" ELSE "err"

Excl(p) == ExclAll(p, Requests(p), 1).p         \* meaningful when Pre(p, _) = "ok"

(* ---- canonical serialisation (reference): Python-repr like, keys go      *)
(* through the same typed and escaped path as values ---- *)
Digit(n) == <<48 + n>>
Digits(n) == IF n < 10 THEN Digit(n) ELSE IF n < 100 THEN Digit(n \div 10) \o Digit(n % 10)
             ELSE Digit(n \div 100) \o Digit((n \div 10) % 10) \o Digit(n % 10)

RECURSIVE Esc(_, _, _)
Esc(s, i, q) ==                   \* escape backslash, newline and the chosen quote q
    IF i > Len(s) THEN <<>>
    ELSE (IF s[i] = BSLASH THEN <<BSLASH, BSLASH>>
          ELSE IF s[i] = NEWLINE THEN <<BSLASH, 110>>
          ELSE IF s[i] = q THEN <<BSLASH, q>>
          ELSE <<s[i]>>) \o Esc(s, i + 1, q)

SerStr(s) ==
    LET q == IF QUOTE \in Rng(s) /\ DQUOTE \notin Rng(s) THEN DQUOTE ELSE QUOTE
    IN <<q>> \o Esc(s, 1, q) \o <<q>>

TxTrue    == <<84, 114, 117, 101>>
TxFalse   == <<70, 97, 108, 115, 101>>
TxNone    == <<78, 111, 110, 101>>
TxOdEmpty == <<111, 114, 100, 101, 114, 101, 100, 100, 105, 99, 116, 40, 41>>     \* ordereddict()
TxOdOpen  == <<111, 114, 100, 101, 114, 101, 100, 100, 105, 99, 116, 40, 91>>     \* ordereddict([
TxOdClose == <<93, 41>>                                                           \* ])
TxSep     == <<44, 32>>

SerKey(nd) == IF nd.kt = "int" THEN Digits(nd.kn) ELSE SerStr(nd.k)

RECURSIVE SerAt(_, _), SerKids(_, _, _, _)
SerAt(p, i) ==
    LET nd == p[i] IN
    CASE nd.t = "str"  -> SerStr(nd.v)
      [] nd.t = "int"  -> Digits(nd.n)
      [] nd.t = "bool" -> IF nd.n = 1 THEN TxTrue ELSE TxFalse
      [] nd.t = "null" -> TxNone
      [] nd.t = "seq"  -> <<91>> \o SerKids(p, Kids(p, i), 1, FALSE) \o <<93>>
      [] OTHER         -> IF Kids(p, i) = <<>> THEN TxOdEmpty
                          ELSE TxOdOpen \o SerKids(p, Kids(p, i), 1, TRUE) \o TxOdClose
SerKids(p, ks, j, keyed) ==
    IF j > Len(ks) THEN <<>>
    ELSE (IF j > 1 THEN TxSep ELSE <<>>)
         \o (IF keyed THEN <<40>> \o SerKey(p[ks[j]]) \o TxSep \o SerAt(p, ks[j]) \o <<41>>
             ELSE SerAt(p, ks[j]))
         \o SerKids(p, ks, j + 1, keyed)

Ser(p) == SerAt(p, 1)

(* ---- laws on the reference (checked by TLC over the bounded play sets of *)
(* PlaybookMC) ---- *)

\* the digest input is a function of Excl(p) only, and an injective one
Injective(Plays) ==
    LET ok == {p \in Plays : Pre(p, "verify_play") = "ok"}
    IN Cardinality({Ser(Excl(p)) : p \in ok}) = Cardinality({Excl(p) : p \in ok})

\* which nodes of p survive: run the exclusion on a copy whose keys are untouched
\* but whose every node remembers its original index
Annot(p) == [i \in DOMAIN p |-> [d |-> p[i].d, t |-> p[i].t, kt |-> p[i].kt, k |-> p[i].k, kn |-> p[i].kn,
                                 v |-> p[i].v, n |-> p[i].n, o |-> i]]
KeptIdx(p) == {nd.o : nd \in Rng(ExclAll(Annot(p), Requests(p), 1).p)}

\* a single edit of scalar node i (value changed, type kept)
Touch(p, i) ==
    [p EXCEPT ![i] = CASE @.t = "str"  -> [@ EXCEPT !.v = Append(@, 97)]
                       [] @.t = "int"  -> [@ EXCEPT !.n = @ + 1]
                       [] @.t = "bool" -> [@ EXCEPT !.n = 1 - @]
                       [] OTHER        -> [@ EXCEPT !.t = "int", !.n = 7]]
Scalars(p) == {i \in DOMAIN p : p[i].t \notin {"map", "seq"}}

\* an edit is visible in Excl (hence in the digest) iff it is outside the excluded elements
EditVisibleIffKept(p) ==
    Pre(p, "verify_play") = "ok" =>
        \A i \in Scalars(p) \ {ListIdx(p)} :
            LET q == Touch(p, i) IN
            Pre(q, "verify_play") = "ok" => ((Excl(q) # Excl(p)) <=> (i \in KeptIdx(p)))

\* only 'hosts' / 'vars' or one of their direct children can be removed, and whole
RemovableRoots(p) ==
    LET tops == {m \in Rng(Kids(p, 1)) : p[m].kt = "str" /\ p[m].k \in Dynamic}
    IN tops \cup UNION {Rng(Kids(p, m)) : m \in {x \in tops : p[x].t = "map"}}
OnlyHostsVars(p) ==
    /\ Pre(p, "verify_play") = "ok" =>
         \E R \in SUBSET RemovableRoots(p) :
            DOMAIN p \ KeptIdx(p) = UNION {i..Span(p, i) : i \in R}
    /\ (ListIdx(p) # 0 /\ p[ListIdx(p)].t = "str" /\ \E j \in DOMAIN Requests(p) : ~Legal(Requests(p)[j]))
         => Pre(p, "exclude") \in {"err", "any"}

OutcomeTotal(p) == \A via \in {"exclude", "verify_play", "verify"} : Pre(p, via) \in {"ok", "err", "any"}

(* ---- classification of the difference between two different plays that  *)
(* were given the same digest (used in rejection signatures) ---- *)
KeyText(nd) == IF nd.kt = "int" THEN Digits(nd.kn) ELSE nd.k
Untyped(p) == [i \in DOMAIN p |-> [p[i] EXCEPT !.kt = IF @ = "none" THEN "none" ELSE "x", !.k = KeyText(p[i]), !.kn = 0]]
KeysWith(p, c) == {p[i].k : i \in {j \in DOMAIN p : p[j].kt = "str" /\ c \in Rng(p[j].k)}}
Flat(p) == [i \in DOMAIN p |-> [p[i] EXCEPT !.d = 0]]
ScalarText(nd) == CASE nd.t = "str" -> nd.v [] nd.t = "int" -> Digits(nd.n)
                    [] nd.t = "bool" -> (IF nd.n = 1 THEN TxTrue ELSE TxFalse) [] nd.t = "null" -> TxNone [] OTHER -> <<>>
Retyped(p) == [i \in DOMAIN p |-> [p[i] EXCEPT !.t = IF @ \in {"map", "seq"} THEN @ ELSE "x", !.v = ScalarText(p[i]), !.n = 0]]
SameBag(p, q) == Len(p) = Len(q) /\ \A x \in Rng(p) \cup Rng(q) :
                    Cardinality({i \in DOMAIN p : p[i] = x}) = Cardinality({i \in DOMAIN q : q[i] = x})
DiffKind(p, q) ==
    IF Untyped(p) = Untyped(q) THEN "key-type"
    ELSE IF KeysWith(p, QUOTE) # KeysWith(q, QUOTE) THEN "key-with-quote"      \* a key holding the key delimiter, on one side only
    ELSE IF Retyped(p) = Retyped(q) THEN "value-type"
    ELSE IF SameBag(p, q) THEN "order"
    ELSE IF Flat(p) = Flat(q) THEN "nesting"
    ELSE IF Len(p) = Len(q) /\ \A i \in DOMAIN p : p[i].d = q[i].d /\ p[i].t = q[i].t THEN
            (IF \A i \in DOMAIN p : p[i].v = q[i].v /\ p[i].n = q[i].n THEN "key" ELSE "value")
    ELSE "structure"
=============================================================================
