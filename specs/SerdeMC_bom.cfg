SPECIFICATION Spec
CONSTANTS
  N = 1
  Kinds = {"text", "raw", "command", "cfile", "ccmd", "datasource"}
  Atoms = {"f", "g", "p"}
  MinLines = 0
  MaxLines = 2
  MaxElems = 0
  SaveAsSet = {"none"}
  Modes = {}
  MayFail = FALSE
  OutcomeSet = {}
  BackedSet = {FALSE}
  FilterSet = {FALSE}
  Budget = 2
  BudgetMode = "per-load"
  RecordMode = "component"
  PoolSet = {FALSE}
  AssembleMode = "index"
  LateSet = {FALSE}
  LookupMode = "live"
  MaxFaults = 0
INVARIANT RoundTrip
INVARIANT ErrorsPersisted
INVARIANT FaultIsolation
INVARIANT JoinSplitLaw
CONSTRAINT Emit
CHECK_DEADLOCK FALSE
